// Demonstration of finding F5 (properties C02 / C16). Copy into x/restake/keeper as zz_f5_test.go and run
//   go test -count=1 ./x/restake/keeper/ -run TestF5
// On the unchanged tree FinalizeBlock returns "unable to undelegate": every node fails the same block - the chain halts.
package keeper_test

import (
	"testing"
	"time"

	"github.com/stretchr/testify/require"

	abci "github.com/cometbft/cometbft/abci/types"
	cmtproto "github.com/cometbft/cometbft/proto/tendermint/types"

	sdkmath "cosmossdk.io/math"

	sdktestutil "github.com/cosmos/cosmos-sdk/testutil"
	stakingtypes "github.com/cosmos/cosmos-sdk/x/staking/types"

	bandtesting "github.com/bandprotocol/chain/v3/testing"
)

// F5: the restake staking hooks veto ANY reduction of a delegator's bonded tokens below its locked power by returning
// an error. The staking module also goes through these hooks when it slashes a redelegation (Slash -> SlashRedelegation
// -> Unbond -> AfterDelegationModified) inside begin-block (x/evidence, x/slashing), where the error is returned up to
// FinalizeBlock. History: delegate, redelegate a part, lock the whole power (e.g. vote with it in x/feeds), then the
// source validator is slashed for an infraction committed before the redelegation.
func TestF5SlashOfLockedRedelegationHaltsTheChain(t *testing.T) {
	dir := sdktestutil.GetTempDir(t)
	app := bandtesting.SetupWithCustomHome(false, dir)
	h := app.LastBlockHeight() + 1
	now := time.Now().UTC()
	_, err := app.FinalizeBlock(&abci.RequestFinalizeBlock{Height: h, Time: now})
	require.NoError(t, err)
	_, err = app.Commit()
	require.NoError(t, err)

	ctx := app.BaseApp.NewUncachedContext(false, cmtproto.Header{ChainID: bandtesting.ChainID, Height: h, Time: now})
	sk := app.StakingKeeper
	alice := bandtesting.Alice.Address
	v1, v2 := bandtesting.Validators[0].ValAddress, bandtesting.Validators[1].ValAddress
	val1, err := sk.GetValidator(ctx, v1)
	require.NoError(t, err)

	// 1. Alice delegates 1,000,000 uband to validator 1 and redelegates half of it to validator 2
	_, err = sk.Delegate(ctx, alice, sdkmath.NewInt(1_000_000), stakingtypes.Unbonded, val1, true)
	require.NoError(t, err)
	shares, err := sk.ValidateUnbondAmount(ctx, alice, v1, sdkmath.NewInt(500_000))
	require.NoError(t, err)
	_, err = sk.BeginRedelegation(ctx, alice, v1, v2, shares)
	require.NoError(t, err)

	// 2. she locks her whole power (what a feeds vote with all her power does)
	total, err := app.RestakeKeeper.GetTotalPower(ctx, alice)
	require.NoError(t, err)
	require.NoError(t, app.RestakeKeeper.SetLockedPower(ctx, alice, "feeds", total))

	// 3. the next block carries evidence that validator 1 double-signed at height h (before the redelegation matured)
	consAddr, err := val1.GetConsAddr()
	require.NoError(t, err)
	_, err = app.FinalizeBlock(&abci.RequestFinalizeBlock{
		Height: h + 1,
		Time:   now.Add(5 * time.Second),
		Misbehavior: []abci.Misbehavior{{
			Type:             abci.MisbehaviorType_DUPLICATE_VOTE,
			Validator:        abci.Validator{Address: consAddr, Power: val1.ConsensusPower(sk.PowerReduction(ctx))},
			Height:           h,
			Time:             now,
			TotalVotingPower: 100,
		}},
	})
	require.NoError(t, err, "FinalizeBlock fails on every node: slashing a redelegation of a delegator whose power is locked halts the chain")
}
