package yoda

import (
	"context"
	"testing"

	abci "github.com/cometbft/cometbft/abci/types"
	"github.com/cometbft/cometbft/libs/bytes"
	rpcclient "github.com/cometbft/cometbft/rpc/client"
	ctypes "github.com/cometbft/cometbft/rpc/core/types"


	bandtesting "github.com/bandprotocol/chain/v3/testing"
	"github.com/bandprotocol/chain/v3/pkg/filecache"
	"github.com/bandprotocol/chain/v3/x/oracle/types"
)

type fakeRPC struct {
	rpcclient.Client
	resp []byte
}

func (f fakeRPC) ABCIQuery(_ context.Context, _ string, _ bytes.HexBytes) (*ctypes.ResultABCIQuery, error) {
	return &ctypes.ResultABCIQuery{Response: abci.ResponseQuery{Value: f.resp}}, nil
}

// F2: a data source whose executable is shorter than 32 bytes must not crash the daemon.
func TestF2ShortExecutable(t *testing.T) {
	dir := t.TempDir()
	app := bandtesting.SetupWithCustomHome(false, dir)
	exec := []byte("#!/bin/sh\n") // 10 bytes: a perfectly valid MsgCreateDataSource executable
	resp := app.AppCodec().MustMarshal(&types.QueryDataResponse{Data: exec})
	c := &Context{bandApp: app, client: fakeRPC{resp: resp}, fileCache: filecache.New(t.TempDir()), maxTry: 1}
	l := NewLogger(func(key, level string) bool { return false })
	_ = l
	defer func() {
		if r := recover(); r != nil {
			t.Fatalf("GetExecutable panicked on a %d-byte executable: %v", len(exec), r)
		}
	}()
	got, err := GetExecutable(c, l, filecache.GetFilename(exec))
	if err != nil || string(got) != string(exec) {
		t.Fatalf("unexpected result %q %v", got, err)
	}
}
