// Demonstration of finding F3 (property C02). Copy into x/oracle as zz_f3_test.go and run
//   go test -count=1 ./x/oracle/ -run TestABCITestSuite -testify.m "^TestF3"
// Fails before the fix commit (begin-block returns "insufficient funds"), passes after it.
package oracle_test

import (
	abci "github.com/cometbft/cometbft/abci/types"
	tmproto "github.com/cometbft/cometbft/proto/tendermint/types"

	"cosmossdk.io/core/header"

	sdk "github.com/cosmos/cosmos-sdk/types"
	authtypes "github.com/cosmos/cosmos-sdk/x/auth/types"
	minttypes "github.com/cosmos/cosmos-sdk/x/mint/types"

	bandtesting "github.com/bandprotocol/chain/v3/testing"
)

// F3: a reward percentage above 100 passes parameter validation and then makes every begin-block fail.
func (s *ABCITestSuite) TestF3RewardPercentageAbove100HaltsBeginBlock() {
	k := s.app.OracleKeeper
	ctx := s.app.BaseApp.NewUncachedContext(false, tmproto.Header{})
	require := s.Require()

	votes := []abci.VoteInfo{{
		Validator:   abci.Validator{Address: bandtesting.Validators[0].PubKey.Address(), Power: 70},
		BlockIdFlag: tmproto.BlockIDFlagCommit,
	}}
	require.NoError(s.app.BankKeeper.MintCoins(ctx, minttypes.ModuleName, sdk.NewCoins(sdk.NewInt64Coin("uband", 10000))))
	require.NoError(s.app.BankKeeper.SendCoinsFromModuleToModule(ctx, minttypes.ModuleName, authtypes.FeeCollectorName, sdk.NewCoins(sdk.NewInt64Coin("uband", 10000))))
	require.NoError(k.Activate(ctx, bandtesting.Validators[0].ValAddress))

	params := k.GetParams(ctx)
	params.OracleRewardPercentage = 150
	// the property quantifies over "module parameter values accepted by parameter validation":
	// either the value is refused here ...
	if err := k.SetParams(ctx, params); err != nil {
		return
	}
	// ... or block execution must stay total with it.
	_, err := s.app.BeginBlocker(
		ctx.WithHeaderInfo(header.Info{Hash: fromHex("ffffffffffffffffffffffffffffffffffffffffffffffffffffffffffffffff")}).
			WithVoteInfos(votes).
			WithProposer(bandtesting.Validators[0].ValAddress.Bytes()),
	)
	require.NoError(err, "begin-block fails for an accepted parameter value: the chain halts")
}
