// Demonstration of finding F6 (property C04). Copy into x/tss/keeper as zz_f6_test.go and run
//   go test -count=1 ./x/tss/keeper/ -run TestKeeperTestSuite -testify.m "^TestF6"
// Fails before the fix commit (the honest dealer is marked malicious and the group falls), passes after it.
// The defect was spotted by a seed-writing sub-agent while reading pkg/tss; reproduced and repaired here.
package keeper_test

import (
	"github.com/decred/dcrd/dcrec/secp256k1/v4"

	"github.com/bandprotocol/chain/v3/pkg/tss"
	tsstestutil "github.com/bandprotocol/chain/v3/x/tss/testutil"
	"github.com/bandprotocol/chain/v3/x/tss/types"
)

// F6: tss.Point accepted every secp256k1 public-key encoding (33-byte compressed, 65-byte uncompressed, hybrid). The
// raw bytes of the key-sym are hashed into the DLEQ challenge AND into the AES key that decrypts the share. A
// complainant that sends the TRUE key-sym in uncompressed form, with a proof computed over those bytes, passes every
// check, the chain decrypts the (correct) share with a different AES key, the garbage fails the commitment check and
// the complaint "succeeds": an honest dealer is marked malicious.
func (s *KeeperTestSuite) TestF6UncompressedKeySymBlamesHonestDealer() {
	ctx, k := s.ctx, s.keeper
	g, err := tsstestutil.NewGroupContext(ctx, k, 3, 2)
	s.Require().NoError(err)
	s.Require().NoError(g.SubmitRound1(ctx, k))
	s.Require().NoError(g.SubmitRound2(ctx, k))

	// member 1 complains against honest member 2 with uncompressed keySym
	i, j := 0, 1
	pubI := g.Round1Infos[i].OneTimePubKey
	pubJ := g.Round1Infos[j].OneTimePubKey
	privI := g.Round1Infos[i].OneTimePrivKey
	keySym, err := tss.ComputeSecretSym(privI, pubJ)
	s.Require().NoError(err)
	pk, err := secp256k1.ParsePubKey(keySym)
	s.Require().NoError(err)
	keySymU := tss.Point(pk.SerializeUncompressed())

	var sig tss.ComplaintSignature
	for {
		nonce, pubNonce, err := tss.GenerateDKGNonce()
		s.Require().NoError(err)
		nonceSym, err := tss.ComputeSecretSym(nonce, pubJ)
		s.Require().NoError(err)
		ch, err := tss.HashRound3Complain(pubNonce, nonceSym, pubI, pubJ, keySymU)
		if err != nil {
			continue
		}
		sg, err := tss.Sign(privI, ch, nonce, nil)
		s.Require().NoError(err)
		sig, err = tss.NewComplaintSignatureFromComponents(sg.R(), nonceSym, sg.S())
		s.Require().NoError(err)
		break
	}

	msg := types.NewMsgComplain(g.GroupID, []types.Complaint{{
		Complainant: 1, Respondent: 2, KeySym: keySymU, Signature: sig,
	}}, g.Accounts[0].Address.String())
	// either the second encoding is refused (stateless or by the handler) ...
	if err := msg.ValidateBasic(); err != nil {
		return
	}
	if _, err = s.msgServer.Complain(ctx, msg); err != nil {
		return
	}
	// ... or the complaint about a correct share must blame the complainant, never the honest dealer
	m1 := k.MustGetMember(ctx, g.GroupID, 1)
	m2 := k.MustGetMember(ctx, g.GroupID, 2)
	s.T().Logf("complainant malicious=%v respondent(honest) malicious=%v", m1.IsMalicious, m2.IsMalicious)
	s.Require().False(m2.IsMalicious, "honest dealer blamed")
}
