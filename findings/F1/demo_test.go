package keeper_test

// Demonstration of finding F1 (property C07). Copy into x/feeds/keeper and run
//   go test -count=1 ./x/feeds/keeper/ -run TestKeeperTestSuite -testify.m '^TestF1VoteSumWraps$'
// Fails before the fix commit (vote accepted), passes after it.

import (
	"math"

	"github.com/bandprotocol/chain/v3/x/feeds/types"
)

func (suite *KeeperTestSuite) TestF1VoteSumWraps() {
	// ValidVoter's total power in this suite is 1e10 (the restake mock rejects locks above it).
	msg := &types.MsgVote{
		Voter: ValidVoter.String(),
		Signals: []types.Signal{
			{ID: "CS:AAA-USD", Power: math.MaxInt64},
			{ID: "CS:BBB-USD", Power: math.MaxInt64},
			{ID: "CS:CCC-USD", Power: 3},
		},
	}
	suite.Require().NoError(msg.ValidateBasic())
	_, err := suite.msgServer.Vote(suite.ctx, msg)
	suite.Require().Error(err, "vote with powers summing to 2^64+1 was accepted for a voter with power 1e10")
}
