// Demonstration of finding F4 (property C02). Copy into x/feeds/keeper as zz_f4_test.go and run
//   go test -count=1 ./x/feeds/keeper/ -run TestKeeperTestSuite -testify.m "^TestF4"
// Fails before the fix commit (the feeds end-blocker returns "invalid weighted prices": every node halts), passes after it.
package keeper_test

import (
	sdkmath "cosmossdk.io/math"
	"go.uber.org/mock/gomock"

	sdk "github.com/cosmos/cosmos-sdk/types"
	stakingtypes "github.com/cosmos/cosmos-sdk/x/staking/types"

	"github.com/bandprotocol/chain/v3/x/feeds"
	"github.com/bandprotocol/chain/v3/x/feeds/types"
)

// F4: price_quorum = "0" passes parameter validation (it only has to lie in [0, 1]); with it a current feed for which
// no active validator holds a fresh price (every feed right after it enters the current feeds) reaches the median with an
// empty list, the "should not happen" error comes back and the feeds end-blocker returns it.
func (suite *KeeperTestSuite) TestF4ZeroPriceQuorumHaltsEndBlock() {
	ctx := suite.ctx.WithBlockHeight(7) // not a current-feeds update block
	require := suite.Require()

	params := suite.feedsKeeper.GetParams(ctx)
	params.PriceQuorum = "0"
	// the property quantifies over parameter values accepted by parameter validation: either this value is refused ...
	if err := suite.feedsKeeper.SetParams(ctx, params); err != nil {
		return
	}
	// ... or block execution stays total with it.
	suite.feedsKeeper.SetCurrentFeeds(ctx, []types.Feed{{SignalID: "CS:NEW-USD", Interval: 60}})
	suite.stakingKeeper.EXPECT().
		IterateBondedValidatorsByPower(gomock.Any(), gomock.Any()).
		DoAndReturn(func(_ sdk.Context, fn func(index int64, validator stakingtypes.ValidatorI) bool) error {
			fn(0, stakingtypes.Validator{OperatorAddress: ValidValidator.String(), Tokens: sdkmath.NewInt(5000)})
			return nil
		})
	suite.stakingKeeper.EXPECT().TotalBondedTokens(gomock.Any()).Return(sdkmath.NewInt(5000), nil)

	err := feeds.EndBlocker(ctx, suite.feedsKeeper)
	require.NoError(err, "the feeds end-blocker fails for an accepted parameter value: the chain halts")
	price := suite.feedsKeeper.GetPrice(ctx, "CS:NEW-USD")
	require.Equal(types.PRICE_STATUS_NOT_READY, price.Status)
}
