#!/bin/bash
# confirm_seed.sh <property> <n> : confirm seeded change /tmp/seed/<property>-out/change<n>.diff in a scratch worktree
#   (1) patch applies, go build ./... ok   (2) full existing test suite passes with the change
#   (3) demo FAILS with the change         (4) demo PASSES without it
# On success copies patch.diff, the demo and meta.json to /verif/seeded/<property>-<n>/ .
set -u
P=$1; N=$2; ROOT=${3:-/tmp/seed}; ID=${4:-$N}   # optional: output root of the agents, id number to keep it under
OUT=$ROOT/$P-out
export GOFLAGS=-mod=mod GOPROXY=off GOSUMDB=off GOTOOLCHAIN=local; unset GOWORK
WT=/tmp/confirm/$P-$ID
rm -rf $WT; mkdir -p /tmp/confirm
git -C /repo worktree add --detach $WT HEAD -q || exit 2
cleanup() { git -C /repo worktree remove --force $WT 2>/dev/null; }
trap cleanup EXIT
cd $WT
LOG=/tmp/confirm/$P-$ID.log; : > $LOG
git apply $OUT/change$N.diff >>$LOG 2>&1 || { echo "$P-$N: PATCH-DOES-NOT-APPLY"; exit 1; }
if git diff --name-only | grep -E '_test\.go$|testutil|\.pb\.go$' >/dev/null; then echo "$P-$N: PATCH-TOUCHES-TESTS"; exit 1; fi
go build -trimpath ./... >>$LOG 2>&1 || { echo "$P-$N: BUILD-FAILS"; exit 1; }
go test -trimpath -vet=off -count=1 -timeout 25m ./... >$LOG.suite 2>&1
if grep -E '^(FAIL|---\s*FAIL|panic:)' $LOG.suite >/dev/null; then echo "$P-$N: EXISTING-TESTS-FAIL"; grep -E '^(FAIL|--- FAIL)' $LOG.suite | head -5; exit 1; fi
DIR=$(sed -n 1p $OUT/demo$N.where | tr -d '\r'); CMD=$(sed -n 2p $OUT/demo$N.where | tr -d '\r')
cp $OUT/demo${N}_test.go $DIR/zz_seed_demo${N}_test.go
( eval "$CMD" ) >$LOG.demo_change 2>&1; RC1=$?
git apply -R $OUT/change$N.diff >>$LOG 2>&1 || git checkout -- . ; # revert the source change (also files the patch added), keep the (untracked) demo
( eval "$CMD" ) >$LOG.demo_pristine 2>&1; RC2=$?
if [ $RC1 -eq 0 ]; then echo "$P-$N: DEMO-PASSES-WITH-CHANGE (not a demonstration)"; exit 1; fi
if [ $RC2 -ne 0 ]; then echo "$P-$N: DEMO-FAILS-ON-PRISTINE"; tail -5 $LOG.demo_pristine; exit 1; fi
if ! grep -q -- '--- FAIL\|FAIL' $LOG.demo_change; then echo "$P-$N: DEMO-NONZERO-BUT-NO-FAIL-LINE"; tail -5 $LOG.demo_change; exit 1; fi
D=/verif/seeded/$P-$ID; mkdir -p $D
cp $OUT/change$N.diff $D/patch.diff; cp $OUT/demo${N}_test.go $D/demo_test.go; cp $OUT/demo$N.where $D/demo.where
python3 - "$P" "$N" "$OUT" "$D" "$ID" <<'PY'
import json,sys
P,N,OUT,D,ID=sys.argv[1:]
try: m=json.load(open(f"{OUT}/meta{N}.json"))
except Exception as e: m={"note":"agent meta unreadable: %s"%e}
meta={"property":P,"id":f"{P}-{ID}","breaks":m.get("summary"),"mechanism_broken":m.get("mechanism_broken"),
 "needs_to_manifest":m.get("needs_to_manifest"),"files_touched":m.get("files_touched"),
 "author":"independent sub-agent given only the property text and a scratch worktree",
 "confirmed_by_me":{"scratch_worktree":"/tmp/confirm/%s-%s (removed)"%(P,ID),
   "ran":["git apply patch.diff","go build ./...","go test -vet=off -count=1 -timeout 25m ./...  (all packages ok with the change)",
          "demo with change: FAILS","demo on pristine source: PASSES"]},
 "detected_by":None}
json.dump(meta,open(f"{D}/meta.json","w"),indent=1)
PY
echo "$P-$ID: CONFIRMED"
