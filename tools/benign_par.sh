#!/bin/bash
# Parallel evaluation of behaviour-preserving refactors (must all be quiet).
# usage: benign_par.sh <bandcheck binary> <tag> <patch root> ; patches are <root>/<P>-out/change<n>.diff ;
# ten scratch worktrees <root>/C11 .. <root>/C20 of /repo must exist (git -C /repo worktree add --detach <root>/C1x HEAD).
export GOFLAGS=-mod=mod GOPROXY=off GOSUMDB=off GOTOOLCHAIN=local BANDCHECK_LOADALL=1; unset GOWORK   # LOADALL: type-check from source, nothing enters the go build cache
cd /verif   # bandcheck resolves known-findings.txt and its test data relative to the working directory
BIN=$1; TAG=$2; ROOT=${3:-/tmp/ben1}
WTS=(C11 C12 C13 C14 C15 C16 C17 C18 C19 C20)
ALL=(C01 C02 C03 C04 C05 C06 C07 C08 C09 C10 C11 C12 C13 C14 C15 C16 C17 C18 C19 C20)
worker() {
  i=$1; wt=$ROOT/${WTS[$i]}
  for ((j=i; j<20; j+=NW)); do P=${ALL[$j]}
    for n in 1 2 3 4; do
      d=$ROOT/$P-out/change$n.diff; [ -f $d ] || continue
      git -C $wt checkout -q -- . ; git -C $wt clean -fdq
      git -C $wt apply $d || { echo "$P/$n APPLY-FAIL"; continue; }
      $BIN -dir $wt -property all > $ROOT/eval$TAG.$P.$n.out 2>&1
      git -C $wt checkout -q -- . ; git -C $wt clean -fdq
      grep -q "^MUTANT-DONE" $ROOT/eval$TAG.$P.$n.out || { echo "$P/$n ERROR (analysis did not complete: $(tail -n 1 $ROOT/eval$TAG.$P.$n.out | cut -c1-120))"; continue; }
      v=$(grep -c "^MUTANT-HIT" $ROOT/eval$TAG.$P.$n.out)
      echo "$P/$n hits=$v $(grep "^MUTANT-HIT" $ROOT/eval$TAG.$P.$n.out | awk '{print $3}' | cut -d: -f1 | sort | uniq -c | tr '\n' ' ')"
    done
  done
}
NW=${WORKERS:-7}   # each analysis needs 3-6 GB
for ((i=0; i<NW; i++)); do worker $i & done
wait
echo ALL-DONE
