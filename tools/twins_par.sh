#!/bin/bash
# Evaluate the "twins" of the wave-5 seeds (the same refactor with the slip repaired): must all be quiet.
# usage: twins_par.sh <bandcheck binary> <tag> [root=/tmp/seed5] ; patches <root>/<P>-out/twin{1,2}.diff, worktrees <root>/<P>
export GOFLAGS=-mod=mod GOPROXY=off GOSUMDB=off GOTOOLCHAIN=local BANDCHECK_LOADALL=1; unset GOWORK
cd /verif
BIN=$1; TAG=$2; ROOT=${3:-/tmp/seed5}
NW=${WORKERS:-5}
ALL=(C01 C02 C03 C04 C05 C06 C07 C08 C09 C10 C11 C12 C13 C14 C15 C16 C17 C18 C19 C20)
worker() {
  i=$1
  for ((j=i; j<20; j+=NW)); do P=${ALL[$j]}; wt=$ROOT/$P
    for n in 1 2; do
      d=$ROOT/$P-out/twin$n.diff; [ -f $d ] || { echo "$P/$n NO-TWIN"; continue; }
      git -C $wt checkout -q -- . ; git -C $wt clean -fdq
      git -C $wt apply $d || { echo "$P/$n APPLY-FAIL"; continue; }
      $BIN -dir $wt -property all > $ROOT/twin$TAG.$P.$n.out 2>&1
      git -C $wt checkout -q -- . ; git -C $wt clean -fdq
      grep -q "^MUTANT-DONE" $ROOT/twin$TAG.$P.$n.out || { echo "$P/$n ERROR (analysis did not complete)"; continue; }
      v=$(grep -c "^MUTANT-HIT" $ROOT/twin$TAG.$P.$n.out)
      echo "$P/$n hits=$v $(grep "^MUTANT-HIT" $ROOT/twin$TAG.$P.$n.out | awk '{print $3}' | cut -d: -f1 | sort | uniq -c | tr '\n' ' ')"
    done
  done
}
for ((i=0; i<NW; i++)); do worker $i & done
wait
echo ALL-DONE
