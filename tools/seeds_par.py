#!/usr/bin/env python3
"""Parallel version of run_all_seeds.py: every kept seeded change is applied in one of N scratch worktrees of /repo
(created under /tmp/seedwt and removed at the end), the quick check of its property is run against that worktree
(-dir), and the rule instances that fired are recorded in seeded/<id>/meta.json and seeded/RESULTS.md.
usage: seeds_par.py [bandcheck binary] [N]"""
import json, os, subprocess, sys, glob, tempfile, shutil, threading, queue
os.chdir('/verif')
BIN = sys.argv[1] if len(sys.argv) > 1 else 'bin/bandcheck'
N = int(sys.argv[2]) if len(sys.argv) > 2 else 4
env0 = dict(os.environ, BANDCHECK_LOADALL='1', GOFLAGS='-mod=mod', GOPROXY='off', GOSUMDB='off', GOTOOLCHAIN='local')
env0.pop('GOWORK', None)
root = '/tmp/seedwt'
shutil.rmtree(root, ignore_errors=True)
os.makedirs(root)
wts = []
for i in range(N):
    wt = f'{root}/w{i}'
    subprocess.run(['git', '-C', '/repo', 'worktree', 'add', '--detach', wt, 'HEAD', '-q'], check=True)
    wts.append(wt)
seeds = sorted(glob.glob('seeded/C*-*'))
q = queue.Queue()
for d in seeds:
    q.put(d)
rows = {}
lock = threading.Lock()

def work(wt):
    while True:
        try:
            d = q.get_nowait()
        except queue.Empty:
            return
        sid = os.path.basename(d)
        meta = json.load(open(f'{d}/meta.json'))
        prop = meta['property']
        subprocess.run(['git', '-C', wt, 'checkout', '-q', '--', '.'])
        subprocess.run(['git', '-C', wt, 'clean', '-fdq'])
        r = subprocess.run(['git', '-C', wt, 'apply', f'/verif/{d}/patch.diff'], capture_output=True, text=True)
        if r.returncode != 0:
            with lock:
                rows[sid] = (sid, prop, 'PATCH-DOES-NOT-APPLY', [])
            continue
        ev = tempfile.mkdtemp()
        env = dict(env0, BANDCHECK_EVIDENCE_DIR=ev)
        out = subprocess.run([BIN, '-dir', wt, '-property', prop, '-tier', 'quick'], capture_output=True, text=True, errors='replace', env=env).stdout
        shutil.rmtree(ev, ignore_errors=True)
        subprocess.run(['git', '-C', wt, 'checkout', '-q', '--', '.'])
        subprocess.run(['git', '-C', wt, 'clean', '-fdq'])
        keys = [l.split('key=', 1)[1].strip() for l in out.splitlines() if l.strip().startswith('rule=') and 'key=' in l]
        if f'{prop} tier=quick' not in out:  # the analysis process did not finish (killed?): not a verdict
            with lock:
                rows[sid] = (sid, prop, 'ERROR (analysis did not complete)', [])
                print(sid, 'ERROR', flush=True)
            continue
        meta['detected_by'] = {'own_property_check': bool(keys), 'rule_instances': {prop: keys} if keys else {}}
        json.dump(meta, open(f'{d}/meta.json', 'w'), indent=1)
        with lock:
            rows[sid] = (sid, prop, 'DETECTED' if keys else 'MISSED', keys[:3])
            print(sid, 'DETECTED' if keys else 'MISSED', keys[:2], flush=True)

ths = [threading.Thread(target=work, args=(wt,)) for wt in wts]
for t in ths:
    t.start()
for t in ths:
    t.join()
for wt in wts:
    subprocess.run(['git', '-C', '/repo', 'worktree', 'remove', '--force', wt])
shutil.rmtree(root, ignore_errors=True)
with open('seeded/RESULTS.md', 'w') as f:
    f.write('# Seeded changes vs. checks\n\nEach change was written by an independent sub-agent that saw only the property text, confirmed by me in a scratch worktree (build, full suite passes with the change, demo fails with / passes without), then applied to a scratch worktree of /repo and checked with the quick check of its property (`bandcheck -dir <worktree>`).\n\n| seed | property | verdict of the property\'s quick check | first rule instances that fired |\n|---|---|---|---|\n')
    for sid in sorted(rows):
        _, prop, verdict, keys = rows[sid]
        f.write(f'| {sid} | {prop} | {verdict} | {"<br>".join(k[:150] for k in keys)} |\n')
print(sum(1 for r in rows.values() if r[2] == 'DETECTED'), 'of', len(rows), 'detected')
