#!/usr/bin/env python3
"""Regenerates seeded/RESULTS.md (and detected_by in each seeded/<id>/meta.json) from the self-test section of the
thorough-tier evidence files (evidence/Cnn.json: coverage.selftest.seeded_results), and prints the totals of the
thorough run: mutants, behaviour-preserving edits, seeded changes, normal-form self-consistency."""
import json, glob, os
os.chdir('/verif')
rows = []
tot = {'mutants': {}, 'benign': {}, 'seeds': {}, 'nf': {}}
for f in sorted(glob.glob('evidence/C??.json')):
    e = json.load(open(f))
    st = (e.get('coverage') or {}).get('selftest')
    pid = e['property_id']
    if not st:
        print(pid, 'has no thorough self-test section (evidence is from a quick run)')
        continue
    for k, v in (st.get('outcomes') or {}).items():
        tot['mutants'][k] = tot['mutants'].get(k, 0) + v
    for k, v in (st.get('behaviour_preserving_outcomes') or {}).items():
        tot['benign'][k] = tot['benign'].get(k, 0) + v
    for k, v in (st.get('seeded_outcomes') or {}).items():
        tot['seeds'][k] = tot['seeds'].get(k, 0) + v
    nf = (st.get('normal_form_self_consistency') or {}).get('outcome', '?')
    tot['nf'][nf] = tot['nf'].get(nf, 0) + 1
    for r in st.get('seeded_results') or []:
        rows.append((r['id'], pid, r['outcome'], r.get('fired') or []))
        mp = f"seeded/{r['id']}/meta.json"
        if os.path.exists(mp):
            m = json.load(open(mp))
            m['detected_by'] = {'own_property_check': r['outcome'] == 'detected', 'rule_instances': {pid: r.get('fired') or []}}
            json.dump(m, open(mp, 'w'), indent=1)

def key(r):
    p, n = r[0].split('-')
    return (p, int(n))

rows.sort(key=key)
with open('seeded/RESULTS.md', 'w') as f:
    f.write('# Seeded changes vs. checks\n\nEach change was written by an independent sub-agent that saw only the property text, and confirmed by me in a scratch worktree (build, full suite passes with the change, demo fails with / passes without). The verdicts below are those of the last thorough-tier run: each patch is applied to the current /repo tree as an overlay (`bandcheck -property <P> -mutant-patch seeded/<id>/patch.diff`) and analysed by the same pipeline as a quick check.\n\n| seed | property | verdict | first rule instances that fired |\n|---|---|---|---|\n')
    for sid, pid, outcome, fired in rows:
        f.write(f"| {sid} | {pid} | {outcome.upper() if outcome == 'detected' else outcome} | {'<br>'.join(k[:150].replace('|', '/') for k in fired[:3])} |\n")
print(len(rows), 'seeds;', json.dumps(tot))
