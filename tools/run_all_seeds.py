#!/usr/bin/env python3
"""Apply every kept seeded change to /repo in turn, run the quick check of its property (and optionally all
properties), undo it, and record which rule instances fired in seeded/<id>/meta.json and seeded/RESULTS.md."""
import json, os, subprocess, sys, glob, tempfile, shutil
os.chdir('/verif')
allprops = '--all' in sys.argv
rows = []
for d in sorted(glob.glob('seeded/C*-*')):
    sid = os.path.basename(d)
    meta = json.load(open(f'{d}/meta.json'))
    prop = meta['property']
    props = [prop]
    if allprops:
        props = [f'C{i:02d}' for i in range(1, 21)]
    r = subprocess.run(['git', '-C', '/repo', 'apply', f'/verif/{d}/patch.diff'], capture_output=True, text=True)
    if r.returncode != 0:
        rows.append((sid, prop, 'PATCH-DOES-NOT-APPLY', []))
        continue
    fired = {}
    try:
        for p in props:
            ev = tempfile.mkdtemp()
            env = dict(os.environ, BANDCHECK_EVIDENCE_DIR=ev)
            out = subprocess.run(['bin/bandcheck', '-property', p, '-tier', 'quick'], capture_output=True, text=True, errors='replace', env=env).stdout
            keys = [l.split('key=', 1)[1].strip() for l in out.splitlines() if l.strip().startswith('rule=') and 'key=' in l]
            if keys:
                fired[p] = keys
            shutil.rmtree(ev, ignore_errors=True)
    finally:
        subprocess.run(['git', '-C', '/repo', 'checkout', '--', '.'])
    own = fired.get(prop, [])
    meta['detected_by'] = {'own_property_check': bool(own), 'rule_instances': fired}
    json.dump(meta, open(f'{d}/meta.json', 'w'), indent=1)
    rows.append((sid, prop, 'DETECTED' if own else 'MISSED', own[:3]))
    print(sid, 'DETECTED' if own else 'MISSED', own[:2], flush=True)
with open('seeded/RESULTS.md', 'w') as f:
    f.write('# Seeded changes vs. checks\n\nEach change was written by an independent sub-agent that saw only the property text, confirmed by me in a scratch worktree (build, full suite passes with the change, demo fails with / passes without), then applied to /repo, checked, and reverted.\n\n| seed | property | verdict of the property\'s quick check | first rule instances that fired |\n|---|---|---|---|\n')
    for sid, prop, verdict, keys in rows:
        f.write(f'| {sid} | {prop} | {verdict} | {"<br>".join(k[:150] for k in keys)} |\n')
print(sum(1 for r in rows if r[2] == 'DETECTED'), 'of', len(rows), 'detected')
