#!/usr/bin/env python3
"""Rewrites the per-property table of DESIGN.md §8.1 (obligations / functions analysed) from evidence/*.json."""
import json, re
d = open('/verif/DESIGN.md').read()
start = d.index('| id | obligations on today')
end = d.index('\n\n', start)
rows = d[start:end].split('\n')
out = rows[:2]
for row in rows[2:]:
    cells = [c.strip() for c in row.strip('|').split('|')]
    pid = cells[0]
    try:
        cov = json.load(open(f'/verif/evidence/{pid}.json'))['coverage']
        cells[1] = str(cov['obligations'])
        cells[2] = str(cov['functions_analysed'])
    except Exception as e:
        pass
    out.append('| ' + ' | '.join(cells) + ' |')
d = d[:start] + '\n'.join(out) + d[end:]
open('/verif/DESIGN.md', 'w').write(d)
print('\n'.join(out[:6]))
