#!/bin/bash
# run_seed.sh <seed-id> [properties...] : apply a kept seeded change to /repo, run the quick checks, undo it.
set -u
S=$1; shift
D=/verif/seeded/$S
PROPS="$@"; [ -z "$PROPS" ] && PROPS=$(python3 -c "import json;print(json.load(open('$D/meta.json'))['property'])")
cd /verif
git -C /repo apply $D/patch.diff || { echo "cannot apply"; exit 2; }
trap 'git -C /repo checkout -- .' EXIT
for p in $PROPS; do
  mkdir -p /tmp/seedrun.$$
  BANDCHECK_EVIDENCE_DIR=/tmp/seedrun.$$/ev bin/bandcheck -property $p -tier quick > /tmp/seedrun.$$/out.$p 2>&1; rc=$?
  nv=$(grep -c '^VIOLATION' /tmp/seedrun.$$/out.$p)
  echo "SEED $S property=$p exit=$rc violations=$nv"
  grep -A1 '^VIOLATION' /tmp/seedrun.$$/out.$p | grep 'rule=' | cut -c1-220
done
rm -rf /tmp/seedrun.$$
