package main

import (
	"encoding/hex"
	"testing"
)

func TestKeccak(t *testing.T) {
	for in, want := range map[string]string{
		"":    "c5d2460186f7233c927e7db2dcc703c0e500b653ca82273b7bfad8045d85a470",
		"abc": "4e03657aea45a94fc7d47ba826c8d667c0d1e6e33a64a036ec44f58fa12d6c45",
	} {
		h := keccak256([]byte(in))
		if hex.EncodeToString(h[:]) != want {
			t.Fatalf("keccak(%q) = %x", in, h)
		}
	}
}
