package main

import (
	"fmt"
	"os"
	"path/filepath"
	"regexp"
	"strconv"
	"strings"
)

// overlayFromPatch turns a unified diff (git diff output) into an overlay over dir: file -> patched content.
// Hunks are applied at their recorded position when the context matches there, otherwise at the nearest position
// where it does; a hunk whose context is found nowhere makes the patch stale. Test files are skipped (not loaded).
func overlayFromPatch(dir, patchFile string) (map[string][]byte, error) {
	b, err := os.ReadFile(patchFile)
	if err != nil {
		return nil, err
	}
	lines := strings.Split(strings.ReplaceAll(string(b), "\r\n", "\n"), "\n")
	out := map[string][]byte{}
	hunkRe := regexp.MustCompile(`^@@ -(\d+)(?:,(\d+))? \+(\d+)(?:,(\d+))? @@`)
	i := 0
	for i < len(lines) {
		if !strings.HasPrefix(lines[i], "--- ") || i+1 >= len(lines) || !strings.HasPrefix(lines[i+1], "+++ ") {
			i++
			continue
		}
		oldName := strings.TrimSpace(strings.TrimPrefix(lines[i], "--- "))
		newName := strings.TrimSpace(strings.TrimPrefix(lines[i+1], "+++ "))
		i += 2
		strip := func(s string) string {
			if s == "/dev/null" {
				return ""
			}
			if j := strings.IndexByte(s, '\t'); j >= 0 {
				s = s[:j]
			}
			if strings.HasPrefix(s, "a/") || strings.HasPrefix(s, "b/") {
				return s[2:]
			}
			return s
		}
		rel := strip(newName)
		if rel == "" {
			rel = strip(oldName)
		}
		abs := filepath.Join(dir, rel)
		var src []string
		if strip(oldName) != "" {
			cur, ok := out[abs]
			if !ok {
				cur, err = os.ReadFile(abs)
				if err != nil {
					return nil, fmt.Errorf("stale: %s: %v", rel, err)
				}
			}
			src = strings.Split(string(cur), "\n")
		}
		offset := 0
		for i < len(lines) && strings.HasPrefix(lines[i], "@@") {
			m := hunkRe.FindStringSubmatch(lines[i])
			if m == nil {
				return nil, fmt.Errorf("bad hunk header %q", lines[i])
			}
			start, _ := strconv.Atoi(m[1])
			i++
			var oldL, newL []string
			for i < len(lines) {
				l := lines[i]
				if strings.HasPrefix(l, "@@") || strings.HasPrefix(l, "diff ") || strings.HasPrefix(l, "--- ") {
					break
				}
				switch {
				case strings.HasPrefix(l, " "):
					oldL = append(oldL, l[1:])
					newL = append(newL, l[1:])
				case strings.HasPrefix(l, "-"):
					oldL = append(oldL, l[1:])
				case strings.HasPrefix(l, "+"):
					newL = append(newL, l[1:])
				case strings.HasPrefix(l, "\\"):
				case l == "":
					// a blank context line whose leading space was trimmed, or the end of the patch
					if i == len(lines)-1 {
						i++
						continue
					}
					oldL = append(oldL, "")
					newL = append(newL, "")
				default:
					goto done
				}
				i++
			}
		done:
			if strip(oldName) == "" { // new file
				src = newL
				continue
			}
			at := start - 1 + offset
			if len(oldL) == 0 {
				at = start + offset
			}
			match := func(p int) bool {
				if p < 0 || p+len(oldL) > len(src) {
					return false
				}
				for k := range oldL {
					if src[p+k] != oldL[k] {
						return false
					}
				}
				return true
			}
			pos := -1
			for d := 0; d <= len(src); d++ {
				if match(at + d) {
					pos = at + d
					break
				}
				if match(at - d) {
					pos = at - d
					break
				}
			}
			if pos < 0 {
				// trailing blank context lines may have been eaten by the split: retry without them
				for len(oldL) > 0 && oldL[len(oldL)-1] == "" && len(newL) > 0 && newL[len(newL)-1] == "" {
					oldL, newL = oldL[:len(oldL)-1], newL[:len(newL)-1]
					for d := 0; d <= len(src) && pos < 0; d++ {
						if match(at + d) {
							pos = at + d
						} else if match(at - d) {
							pos = at - d
						}
					}
					if pos >= 0 {
						break
					}
				}
			}
			if pos < 0 {
				return nil, fmt.Errorf("stale: a hunk of %s no longer matches the file", rel)
			}
			ns := append([]string{}, src[:pos]...)
			ns = append(ns, newL...)
			ns = append(ns, src[pos+len(oldL):]...)
			offset += len(newL) - len(oldL) + (pos - at)
			src = ns
		}
		if strings.HasSuffix(rel, "_test.go") {
			continue
		}
		if strip(newName) == "" {
			return nil, fmt.Errorf("unsupported: the patch deletes %s", rel)
		}
		out[abs] = []byte(strings.Join(src, "\n"))
	}
	if len(out) == 0 {
		return nil, fmt.Errorf("stale: the patch changes no loaded source file")
	}
	return out, nil
}
