package main

const (
	bK  = "x/bandtss/keeper.Keeper."
	bCB = "x/bandtss/keeper.TSSCallback."
	bMS = "x/bandtss/keeper.msgServer."
)

func init() { props["C13"] = c13 }

func c13(r *Report) propMeta {
	roots := r.W.ComputeRoots()

	r.Rule("C13.R1", "E3 limit before transfer (oracle fee collector)")
	coll := "x/oracle/keeper.feeCollector.Collect"
	over := Cond{Op: "LSS", A: []string{"call:Coins.AmountOf", "field:feeCollector.limit"}, B: []string{"field:Coin.Amount", "field:feeCollector.collected"}, Want: false, Desc: "not (collected[d] > limit.AmountOf(d)) for every denom of the running total"}
	r.Gate("limit-before-send", coll, CallEff("BankKeeper.SendCoins"), []Cond{over}, GateOpts{LoopAll: true, FailIsError: true})
	r.Count("one-send", coll, []Effect{CallEff("BankKeeper.SendCoins")}, "ok", 1, 1)
	r.Count("no-send-on-failure", coll, []Effect{CallEff("BankKeeper.SendCoins")}, "fail", 0, 0)
	r.ArgHas("send-from-payer", coll, "BankKeeper.SendCoins", 1, 1, "field:feeCollector.payer")
	r.ArgHas("send-to-treasury", coll, "BankKeeper.SendCoins", 2, 1, "param:treasury")
	r.ArgHas("send-this-fee", coll, "BankKeeper.SendCoins", 3, 1, "^param:coins")
	r.Exists("running-total", coll, StoreEff("feeCollector.collected", "call:Coins.Add", "field:feeCollector.collected", "param:coins"), 1)
	r.Dominated("total-before-check", coll, StoreEff("feeCollector.collected", "call:Coins.Add"), CallEff("Coins.AmountOf"))
	r.RetHas("collected-is-total", "x/oracle/keeper.feeCollector.Collected", 0, "field:feeCollector.collected")
	r.FieldWriters("collected-writers", "feeCollector.collected", nil, []string{coll, "x/oracle/keeper.newFeeCollector"}, []string{"x/oracle/keeper"})
	r.FieldWriters("limit-writers", "feeCollector.limit", nil, []string{"x/oracle/keeper.newFeeCollector"}, []string{"x/oracle/keeper"})
	r.ctorField("collector-ctor", "x/oracle/keeper.newFeeCollector", "feeCollector.limit", 1)
	r.ctorField("collector-ctor", "x/oracle/keeper.newFeeCollector", "feeCollector.payer", 2)

	r.Rule("C13.R2", "E12 data-request cost provenance")
	cf := oK + "CollectFee"
	r.ArgHas("collector-limit", cf, "keeper.newFeeCollector", 1, 1, "^param:feeLimit")
	r.ArgHas("collector-payer", cf, "keeper.newFeeCollector", 2, 1, "^param:payer")
	r.ArgHas("multiplier-is-askcount", cf, "Int.Mul", 0, 1, "call:math.NewInt", "param:askCount")
	r.ArgHas("multiplied-is-source-fee", cf, "Int.Mul", -1, 1, "field:Coin.Amount", "field:DataSource.Fee", "call:Keeper.GetDataSource")
	r.ArgHas("source-of-raw-request", cf, "Keeper.GetDataSource", 1, 1, "field:RawRequest.DataSourceID", "param:rawRequests")
	r.ArgHas("collect-scaled-fee", cf, "FeeCollector.Collect", 1, 1, "call:Coins.Add", "call:Int.Mul")
	r.ArgHas("collect-to-treasury", cf, "FeeCollector.Collect", 2, 1, "field:DataSource.Treasury")
	r.Gate("all-or-error", cf, RetOK(), []Cond{nilErrOf("FeeCollector.Collect"), nilErrOf("Keeper.GetDataSource")}, GateOpts{LoopAll: true, LoopMaySkip: true, FailIsError: true}) // data sources with an empty fee are skipped (reviewed `continue`)
	r.Exists("returns-collected", cf, RetValEff(0, "call:FeeCollector.Collected"), 1)
	r.NoWriteThrough("source-fee-not-mutated", cf, "field:DataSource.Fee")
	r.Count("collect-once-per-source", cf, []Effect{CallEff("FeeCollector.Collect")}, "ok", 0, -1)
	pr := oK + "PrepareRequest"
	r.SameValue("askcount-sizes-committee-and-fee", pr, ArgRef{"Keeper.CollectFee", 3}, ArgRef{"Keeper.GetRandomValidators", 1})
	r.ArgHas("committee-size", pr, "Keeper.GetRandomValidators", 1, 1, "call:RequestSpec.GetAskCount")
	r.ArgHas("fee-askcount", pr, "Keeper.CollectFee", 3, 1, "call:RequestSpec.GetAskCount")
	r.ArgHas("fee-payer", pr, "Keeper.CollectFee", 1, 1, "^param:feePayer")
	r.ArgHas("fee-limit", pr, "Keeper.CollectFee", 2, 1, "call:RequestSpec.GetFeeLimit")
	r.ArgHas("fee-raw-requests", pr, "Keeper.CollectFee", 4, 1, "call:PrepareEnv.GetRawRequests")
	r.Gate("request-after-fee", pr, CallEff("Keeper.AddRequest"), []Cond{nilErrOf("Keeper.CollectFee")}, GateOpts{FailIsError: true})
	r.Exists("remaining-limit", pr, StoreEff("Request.FeeLimit", "call:Coins.Sub", "call:Keeper.CollectFee"), 1)
	r.Dominated("remaining-limit-before-store", pr, StoreEff("Request.FeeLimit", "call:Coins.Sub"), CallEff("Keeper.AddRequest"))

	r.Rule("C13.R3", "E3 signing fee: limit, escrow, exemptions")
	cs := bK + "createSigningRequest"
	feeOver := Cond{Op: "LSS", A: []string{"call:Coins.AmountOf", "param:feeLimit"}, B: []string{"field:Coin.Amount", "call:Coins.MulInt"}, Want: false, Desc: "not (totalFee[d] > feeLimit.AmountOf(d)) for every denom of totalFee"}
	r.Gate("limit-before-escrow", cs, CallEff("BankKeeper.SendCoinsFromAccountToModule"), []Cond{feeOver}, GateOpts{LoopAll: true, FailIsError: true})
	r.Exists("limit-loop-over-total-fee", cs, CallEff("Coins.AmountOf", "param:feeLimit", "field:Coin.Denom", "call:Coins.MulInt"), 1)
	r.ArgHas("escrow-amount", cs, "BankKeeper.SendCoinsFromAccountToModule", 3, 1, "field:Params.FeePerSigner", "call:Coins.MulInt", "field:Group.Threshold", "call:TSSKeeper.GetGroup")
	r.ArgHas("escrow-from-sender", cs, "BankKeeper.SendCoinsFromAccountToModule", 1, 1, "^param:sender")
	r.ArgHas("escrow-to-bandtss", cs, "BankKeeper.SendCoinsFromAccountToModule", 2, 1, "const:bandtss")
	r.ArgHas("threshold-of-current-group", cs, "TSSKeeper.GetGroup", 1, 1, "field:CurrentGroup.GroupID", "call:Keeper.GetCurrentGroup")
	r.Gate("fee-exemptions", cs, CallEff("BankKeeper.SendCoinsFromAccountToModule"), []Cond{
		{Op: "EQL", A: []string{"call:AccAddress.String", "param:sender"}, B: []string{"field:Keeper.authority"}, Want: false, Desc: "sender != authority"},
		{Op: "EQL", A: []string{"field:CurrentGroup.GroupID"}, B: []string{"const:0"}, Want: false, Desc: "currentGroupID != 0"},
	}, GateOpts{})
	r.Gate("signing-after-escrow", cs, CallEff("TSSKeeper.RequestSigning"), []Cond{nilErrOf("BankKeeper.SendCoinsFromAccountToModule")}, GateOpts{Conditional: true, MinSites: 2}) // the escrow happens only when a fee is due
	r.Count("one-escrow", cs, []Effect{CallEff("BankKeeper.SendCoinsFromAccountToModule")}, "ok", 0, 1)
	r.ArgHas("recorded-fee-per-signer", cs, "Keeper.AddSigning", 1, 1, "field:Params.FeePerSigner")
	r.ArgHas("recorded-requester", cs, "Keeper.AddSigning", 2, 1, "^param:sender")
	r.Gate("record-only-if-current-signing-ok", cs, CallEff("Keeper.AddSigning"), []Cond{{Op: "EQL", A: []string{"call:TSSKeeper.RequestSigning", "field:CurrentGroup.GroupID"}, B: []string{"const:nil"}, Want: true, Desc: "RequestSigning(current group) == nil"}}, GateOpts{Conditional: true, FailIsError: true})

	r.Rule("C13.R4", "E3+E12 payout")
	oc := bCB + "OnSigningCompleted"
	pay := CallEff("BankKeeper.SendCoinsFromModuleToAccount")
	r.Gate("payout-guards", oc, pay, []Cond{
		{Op: "EQL", A: []string{"call:Keeper.GetSigningIDMapping"}, B: []string{"const:0"}, Want: false, Desc: "signing-id mapping exists"},
		{Op: "EQL", A: []string{"param:signingID"}, B: []string{"field:Signing.CurrentGroupSigningID"}, Want: true, Desc: "signingID == CurrentGroupSigningID (never the incoming-group id)"},
		{Op: "BOOL", A: []string{"call:Coins.IsZero", "field:Signing.FeePerSigner"}, Want: false, Desc: "FeePerSigner not zero"},
	}, GateOpts{})
	r.ArgHas("pay-from-escrow", oc, "BankKeeper.SendCoinsFromModuleToAccount", 1, 1, "const:bandtss")
	r.ArgHas("pay-assigned-member", oc, "BankKeeper.SendCoinsFromModuleToAccount", 2, 1, "param:assignedMembers")
	r.ArgHas("pay-fee-per-signer", oc, "BankKeeper.SendCoinsFromModuleToAccount", 3, 1, "field:Signing.FeePerSigner", "call:Keeper.MustGetSigning")
	r.ArgLacks("pay-not-multiplied", oc, "BankKeeper.SendCoinsFromModuleToAccount", 3, "call:Coins.MulInt", "binop:*")
	r.Dominated("mapping-deleted-before-payout", oc, CallEff("Keeper.DeleteSigningIDMapping"), pay)
	r.SameValue("mapping-key", oc, ArgRef{"Keeper.GetSigningIDMapping", 1}, ArgRef{"Keeper.DeleteSigningIDMapping", 1})
	r.ArgHas("signing-from-mapping", oc, "Keeper.MustGetSigning", 1, 1, "call:Keeper.GetSigningIDMapping")
	r.EffectSet("failed-pays-nobody", bCB+"OnSigningFailed", []string{"BankKeeper."}, nil)
	r.EffectSet("timeout-pays-nobody", bCB+"OnSigningTimeout", []string{"BankKeeper."}, nil)
	r.Gate("failed-deletes-mapping", bCB+"OnSigningFailed", CallEff("Keeper.DeleteSigningIDMapping"), []Cond{{Op: "EQL", A: []string{"call:Keeper.GetSigningIDMapping"}, B: []string{"const:0"}, Want: false, Desc: "mapping exists"}}, GateOpts{})
	r.Callers("payout-callers", bCB+"OnSigningCompleted", []string{"x/tss/keeper.Keeper.AggregatePartialSignatures"}, []string{"x/tss/keeper.Keeper.AggregatePartialSignatures"})

	r.Rule("C13.R5", "E6 escrow under conditional commit")
	r.Commit("escrow-commit", cs, "cache", roots, []string{"x/oracle/keeper.Keeper.safeCreateSigning", "x/tunnel/keeper.Keeper.ProduceActiveTunnelPacket"})
	r.GateAny("record-needs-one-signing", cs, CallEff("Keeper.AddSigning"), []Cond{
		{Op: "EQL", A: []string{"^phi", "call:TSSKeeper.RequestSigning", "field:CurrentGroup.GroupID"}, B: []string{"const:0"}, Want: false, Desc: "currentGroupSigningID != 0"},
		{Op: "EQL", A: []string{"^phi", "call:TSSKeeper.RequestSigning", "call:Keeper.GetIncomingGroupID"}, B: []string{"const:0"}, Want: false, Desc: "incomingGroupSigningID != 0"}}, 1)

	r.TrustedBase("atomic-roots")
	// the IBC request path charges fees inside PrepareRequest and relies on ibc-go's cache context for atomicity
	r.Callers("prepare-request-roots", oK+"PrepareRequest", []string{oMS + "RequestData", oK + "OnRecvPacket"}, []string{oMS + "RequestData", oK + "OnRecvPacket"})

	r.Rule("C13.R6", "error discipline on bank/distribution keepers")
	r.ErrorsNotDropped("bank-errors", []string{"x/oracle", "x/bandtss", "x/tunnel", "x/restake", "x/feeds", "x/tss", "x/globalfee", "x/bank"}, []string{"BankKeeper.", "DistrKeeper.", "bankkeeper.", "StakingKeeper.Delegate"}, 15)

	r.Rule("C13.R7", "store-key agreement: every point read/delete addresses a written key family")
	r.StoreKeyAgreement("store-keys", "oracle", 14, nil)

	r.Rule("C13.R8", "E7 swallowed-error census of message and IBC handlers")
	{
		roots := r.W.ComputeRoots()
		r.Swallowed("msg-swallowed", fnSet(roots.Msg, roots.IBC), c13SwallowAllow, 8)
	}

	// quoted route fee = charged fee (C08)
	r.Include("C08", "C08.R5")

	r.Rule("C13.lint", "E8 module lint: no nondeterminism / process-local state in x/oracle")
	r.ModuleLint("module-lint", "oracle", 20)

	return propMeta{
		Decided: []string{
			"R1 feeCollector.Collect: every denom of the running total is compared with the limit before the single SendCoins(payer -> treasury, this fee); failing edge returns an error and reaches no transfer",
			"R2 CollectFee multiplies each data-source fee coin by the askCount parameter (the same GetAskCount value that sizes the committee), never mutates the stored fee slice in place, returns Collected(); the stored request keeps FeeLimit - totalFees",
			"R3 createSigningRequest: escrow = FeePerSigner.MulInt(current group Threshold), gated by the per-denom limit loop and skipped exactly for authority / no current group; the signing is requested only after the escrow succeeded; AddSigning records FeePerSigner and sender",
			"R4 OnSigningCompleted pays stored FeePerSigner from the bandtss module to each assigned member only under mapping!=0, signingID==CurrentGroupSigningID, fee non-zero, after deleting the mapping; OnSigningFailed/Timeout reach no bank call",
			"R5 escrow + signing creation reachable from end-block are under a conditional-commit boundary",
			"R6 no bank/distribution keeper error is discarded in the x/ modules",
			"R7 every KV-store Get/Has/Delete of x/oracle uses a key builder of x/oracle/types that some Set of the module also uses (a probe of an iteration prefix or of a sibling family is always-empty state)",
			"lint: the determinism lint (incl. writes to memory held by long-lived objects) over everything reachable from the handlers and blockers of x/oracle",
			"R8 a message or IBC handler that tests an error and then carries on returns success, so baseapp COMMITS whatever the failed callee had already written (an escrowed fee for a signing that was never created: seed C13-8); every such site reachable from a handler is in a reviewed table of 11 (lookups whose miss is a default, the complaint polarity, the optional incoming-group signing on a cache context, the IBC error acknowledgement)",
		},
		Undecided: []string{"exactness at limit-1/limit/limit+1 per denom (Coins arithmetic)", "escrow conservation across retries and transitions (history)", "that Threshold at completion equals Threshold at request (store invariant)"},
		Assume:    []string{"bank Send* conserve supply and are all-or-nothing per call", "msg handlers atomic; CacheContext isolation"},
	}
}

// c13SwallowAllow: error tests in message / IBC handler code after which execution carries on.
var c13SwallowAllow = []swallowAllow{
	{"pkg/tickmath.PriceToTick", "tickmath.tickToPriceX96", "pure function; an out-of-range candidate tick is skipped and the next candidate tried"},
	{"pkg/tss.VerifyComplaint", "tss.VerifySecretShare", "polarity by design: the share FAILING verification is what makes the complaint succeed (C04.R3)"},
	{"x/bandtss/keeper.Keeper.createSigningRequest", "TSSKeeper.RequestSigning", "the optional signing by the INCOMING group runs on its own cache context that is written only on success; its failure is reported by an event (C18)"},
	{"x/feeds/keeper.Keeper.IsBondedValidator", "StakingKeeper.GetValidator", "read-only lookup; an unknown validator is not bonded"},
	{"x/feeds/keeper.Keeper.SetSignalTotalPower", "Keeper.GetSignalTotalPower", "read-only lookup; no previous total means no previous index entry to delete"},
	{"x/feeds/keeper.msgServer.SubmitSignalPrices", "Keeper.GetValidatorPriceList", "read-only lookup; no stored list means an empty list"},
	{"x/feeds/keeper.msgServer.Vote", "Keeper.GetSignalTotalPower", "read-only lookup; no stored total means zero"},
	{"x/oracle.IBCModule.OnRecvPacket", "ProtoCodec.UnmarshalJSON", "answered with an error acknowledgement; ibc-go discards the cache context for it (C02.R8)"},
	{"x/oracle.IBCModule.OnRecvPacket", "Keeper.OnRecvPacket", "answered with an error acknowledgement; ibc-go discards the cache context for it (C02.R8)"},
	{"x/oracle/keeper.Keeper.GetRandomValidators$1", "types.ValAddressFromBech32", "iterator callback over bonded validators; an undecodable operator address is skipped (read-only)"},
	{"x/tss/keeper.Keeper.ProcessComplaint", "Keeper.VerifyComplaint", "by design: a failing complaint marks the complainant, a verifying one the respondent (C04.R3); both outcomes are recorded"},
}
