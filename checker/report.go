package main

import (
	"bufio"
	"crypto/sha256"
	"encoding/hex"
	"encoding/json"
	"fmt"
	"os"
	"path/filepath"
	"sort"
	"strings"
	"time"
)

type Status int

const (
	Discharged Status = iota
	Violated
	Unresolved
)

func (s Status) String() string { return [...]string{"discharged", "violated", "unresolved"}[s] }

// Obligation is one rule instance (or one site of a rule instance) with its verdict.
type Obligation struct {
	Rule   string   `json:"rule"`   // e.g. "C01.R3"
	Engine string   `json:"engine"` // e.g. "E3 check-gates-effect"
	Key    string   `json:"key"`    // rule + construct, never a line
	Desc   string   `json:"desc"`   // human description of what is demanded
	Status string   `json:"status"` // discharged / violated / unresolved
	Where  string   `json:"where"`  // file:line of the construct
	Detail string   `json:"detail"` // what was found
	Path   []string `json:"path,omitempty"`
	status Status
}

type Report struct {
	Property string
	Tier     string
	W        *World
	Obls     []*Obligation
	Notes    []string
	start    time.Time
	curRule  string
	curEng   string
	included bool // this report is being built for Include
}

func NewReport(prop, tier string, w *World) *Report {
	return &Report{Property: prop, Tier: tier, W: w, start: procStart}
}

// Rule sets the current rule id / engine label for subsequent obligations.
func (r *Report) Rule(id, engine string) { r.curRule, r.curEng = id, engine }

func (r *Report) add(st Status, key, desc, where, detail string, path ...string) *Obligation {
	o := &Obligation{Rule: r.curRule, Engine: r.curEng, Key: r.curRule + ":" + key, Desc: desc, Status: st.String(), Where: where, Detail: detail, Path: path, status: st}
	r.Obls = append(r.Obls, o)
	return o
}
func (r *Report) OK(key, desc, where, detail string) { r.add(Discharged, key, desc, where, detail) }
func (r *Report) Bad(key, desc, where, detail string, path ...string) {
	r.add(Violated, key, desc, where, detail, path...)
}
func (r *Report) Unres(key, desc, detail string) { r.add(Unresolved, key, desc, "-", detail) }
func (r *Report) Note(f string, a ...any)        { r.Notes = append(r.Notes, fmt.Sprintf(f, a...)) }

// MinSites fails when a rule matched fewer constructs than were confirmed by hand.
func (r *Report) MinSites(key string, got, want int, what string) {
	if got < want {
		r.add(Unresolved, key+"#min", fmt.Sprintf("at least %d %s", want, what), "-", fmt.Sprintf("only %d found: the rule would pass vacuously", got))
	}
}

// ------------------------------------------------------------------------------------------

type knownFinding struct {
	Property, Key, Text string
}

func loadKnownFindings(verifDir string) ([]knownFinding, error) {
	f, err := os.Open(filepath.Join(verifDir, "known-findings.txt"))
	if err != nil {
		if os.IsNotExist(err) {
			return nil, nil
		}
		return nil, err
	}
	defer f.Close()
	var out []knownFinding
	sc := bufio.NewScanner(f)
	for sc.Scan() {
		line := strings.TrimSpace(sc.Text())
		if !strings.HasPrefix(line, "finding:") {
			continue // "fixed:" lines and comments suppress nothing
		}
		rest := strings.TrimSpace(strings.TrimPrefix(line, "finding:"))
		kf := knownFinding{}
		fs := strings.Fields(rest)
		var text []string
		for _, x := range fs {
			switch {
			case strings.HasPrefix(x, "property=") && kf.Property == "":
				kf.Property = strings.TrimPrefix(x, "property=")
			case strings.HasPrefix(x, "key=") && kf.Key == "":
				kf.Key = strings.TrimPrefix(x, "key=")
			default:
				text = append(text, x)
			}
		}
		kf.Text = strings.Join(text, " ")
		if kf.Property != "" && kf.Key != "" {
			out = append(out, kf)
		}
	}
	return out, sc.Err()
}

type propMeta struct {
	Decided   []string
	Undecided []string
	Assume    []string
}

// Finish writes evidence + violation files, prints the protocol lines and returns the exit code.
func (r *Report) Finish(verifDir string, meta propMeta, seed int, selftest any) int {
	known, err := loadKnownFindings(verifDir)
	if err != nil {
		fmt.Printf("internal: cannot read known-findings.txt: %v\n", err)
	}
	isKnown := func(o *Obligation) *knownFinding {
		for i := range known {
			if known[i].Property == r.Property && known[i].Key == o.Key {
				return &known[i]
			}
		}
		return nil
	}
	evdir := filepath.Join(verifDir, "evidence")
	if d := os.Getenv("BANDCHECK_EVIDENCE_DIR"); d != "" {
		evdir = d
	}
	vdir := filepath.Join(evdir, "violations")
	os.MkdirAll(vdir, 0o755)
	// remove stale violation files of this property
	if ents, err := os.ReadDir(vdir); err == nil {
		for _, e := range ents {
			if strings.HasPrefix(e.Name(), r.Property+"-") {
				os.Remove(filepath.Join(vdir, e.Name()))
			}
		}
	}
	nviol, nknown, ndis := 0, 0, 0
	perRule := map[string][3]int{}
	samples := []any{}
	for _, o := range r.Obls {
		pr := perRule[o.Rule]
		pr[o.status]++
		perRule[o.Rule] = pr
		if o.status == Discharged {
			ndis++
			continue
		}
		if kf := isKnown(o); kf != nil && o.status == Violated {
			nknown++
			fmt.Printf("KNOWN-FINDING: property=%s key=%s %s\n", r.Property, o.Key, kf.Text)
			continue
		}
		nviol++
		h := sha256.Sum256([]byte(o.Key))
		path := filepath.Join(vdir, fmt.Sprintf("%s-%s.json", r.Property, hex.EncodeToString(h[:6])))
		b, _ := json.MarshalIndent(map[string]any{"property": r.Property, "rule": o.Rule, "engine": o.Engine, "key": o.Key,
			"status": o.Status, "construct": o.Where, "expected": o.Desc, "found": o.Detail, "path": o.Path}, "", " ")
		os.WriteFile(path, b, 0o644)
		fmt.Printf("VIOLATION property=%s replay=%s\n", r.Property, path)
		fmt.Printf("  rule=%s status=%s key=%s\n  at %s\n  expected: %s\n  found: %s\n", o.Rule, o.Status, o.Key, o.Where, o.Desc, o.Detail)
		for _, p := range o.Path {
			fmt.Printf("    | %s\n", p)
		}
	}
	// samples: first two obligations of every rule
	cnt := map[string]int{}
	for _, o := range r.Obls {
		if cnt[o.Rule] < 2 {
			cnt[o.Rule]++
			samples = append(samples, map[string]string{"rule": o.Rule, "engine": o.Engine, "key": o.Key, "demanded": o.Desc, "construct": o.Where, "found": o.Detail, "status": o.Status})
		}
	}
	rules := []string{}
	for k := range perRule {
		rules = append(rules, k)
	}
	sort.Strings(rules)
	ruleSummary := []map[string]any{}
	for _, k := range rules {
		ruleSummary = append(ruleSummary, map[string]any{"rule": k, "discharged": perRule[k][0], "violated": perRule[k][1], "unresolved": perRule[k][2]})
	}
	w := r.W
	cov := map[string]any{
		"explanation": "Static analysis of /repo's current source (go/packages + go/ssa + VTA call graph; nothing is executed). " +
			"DECIDED structural necessary conditions: " + strings.Join(meta.Decided, " | ") +
			" NOT DECIDED (runtime-value clauses, see DESIGN.md): " + strings.Join(meta.Undecided, " | "),
		"obligations":    len(r.Obls),
		"discharged":     ndis,
		"known_findings": nknown,
		"rule_instances": ruleSummary,
		"samples":        samples,
		"checker_cmd":    fmt.Sprintf("bin/bandcheck -property %s -tier %s", r.Property, r.Tier),
		"trusted_base":   meta.Assume,
		"notes":          r.Notes,
		"scope_excluded": []string{"*_test.go", "testutil", "testing", "simulation", "client/cli", "benchmark", "mocks"},
	}
	if w != nil {
		cov["packages_loaded"] = len(w.Pkgs)
		cov["ssa_functions"] = len(w.AllFuncs)
		cov["functions_analysed"] = len(w.FuncsAnalysed)
		cov["call_sites_examined"] = w.SitesExamined
		cov["load_s"] = w.LoadS
		cov["ssa_s"] = w.SSAS
		cov["callgraph_s"] = w.CGS
		if w.cg != nil {
			ne := 0
			for _, n := range w.cg.Nodes {
				ne += len(n.Out)
			}
			cov["callgraph_nodes"] = len(w.cg.Nodes)
			cov["callgraph_edges"] = ne
		}
	}
	if selftest != nil {
		cov["selftest"] = selftest
	}
	ev := map[string]any{
		"property_id": r.Property, "tier": r.Tier, "seed": seed, "level": "other",
		"coverage": cov, "assumptions": meta.Assume,
		"wall_s": time.Since(r.start).Seconds(), "violations": nviol,
	}
	b, _ := json.MarshalIndent(ev, "", " ")
	os.MkdirAll(evdir, 0o755)
	if err := os.WriteFile(filepath.Join(evdir, r.Property+".json"), b, 0o644); err != nil {
		fmt.Printf("internal: cannot write evidence: %v\n", err)
		return 1
	}
	fmt.Printf("%s tier=%s obligations=%d discharged=%d known=%d violations=%d wall=%.1fs\n", r.Property, r.Tier, len(r.Obls), ndis, nknown, nviol, time.Since(r.start).Seconds())
	if nviol > 0 {
		return 1
	}
	return 0
}

// Include runs another property's rule function on the same world and adopts the obligations of the listed rule ids
// (all of them if none is listed) under this property: mechanisms shared by several properties (the signer shuffle, the DE
// queue arithmetic, the active-tunnel flag/index pair …) are decided by one set of rules, evaluated wherever they matter.
func (r *Report) Include(other string, ruleIDs ...string) {
	pf, ok := props[other]
	if !ok {
		r.Rule(r.Property+".include", "include")
		r.Unres("include|"+other, "included rules of "+other+" exist", "unknown property")
		return
	}
	if r.included {
		return // no transitive includes
	}
	sub := NewReport(other, r.Tier, r.W)
	sub.included = true
	func() {
		defer func() {
			if e := recover(); e != nil {
				sub.Rule(other+".internal", "engine")
				sub.Unres("panic", "the engines run to completion", fmt.Sprintf("engine panic in included %s: %v", other, e))
			}
		}()
		pf(sub)
	}()
	want := map[string]bool{}
	for _, id := range ruleIDs {
		want[id] = true
	}
	n := 0
	for _, o := range sub.Obls {
		if len(want) > 0 && !want[o.Rule] && !strings.HasSuffix(o.Rule, ".internal") {
			continue
		}
		c := *o
		c.Rule = r.Property + ".via." + o.Rule
		c.Key = r.Property + ".via." + o.Key
		r.Obls = append(r.Obls, &c)
		n++
	}
	if n == 0 {
		r.Rule(r.Property+".include", "include")
		r.Unres("include|"+other+"|"+strings.Join(ruleIDs, ","), "included rules of "+other+" produce obligations", "no obligation adopted (rule ids changed?)")
	}
}

// AnyOf: a disjunction of rule groups. Each alternative is evaluated on a scratch report; the obligation is discharged
// if at least one alternative discharges all of its obligations. Used where the property rests on "A or B" and each of A,
// B may legitimately be given up as long as the other holds (two cooperating edits, each harmless alone).
func (r *Report) AnyOf(key, desc string, alts map[string]func(sub *Report)) {
	var failed []string
	for _, name := range sortedKeys(alts) {
		sub := NewReport(r.Property, r.Tier, r.W)
		sub.included = true
		sub.Rule(r.curRule, r.curEng)
		func() {
			defer func() {
				if e := recover(); e != nil {
					sub.Unres("panic", desc, fmt.Sprintf("engine panic: %v", e))
				}
			}()
			alts[name](sub)
		}()
		ok := len(sub.Obls) > 0
		why := ""
		for _, o := range sub.Obls {
			if o.status != Discharged {
				ok = false
				if why == "" {
					why = o.Key + ": " + clip(o.Detail, 140)
				}
			}
		}
		if ok {
			r.OK(key, desc, "-", "holds through alternative ["+name+"]")
			return
		}
		failed = append(failed, "["+name+"] fails: "+why)
	}
	r.Bad(key, desc, "-", "every alternative fails: "+strings.Join(failed, "; "))
}
