package main

import (
	"go/token"
	"go/types"
	"strings"

	"golang.org/x/tools/go/ssa"
)

// reachFrom: blocks reachable from start (inclusive) without entering any block in `without`.
func reachFrom(start *ssa.BasicBlock, without map[*ssa.BasicBlock]bool) map[*ssa.BasicBlock]bool {
	seen := map[*ssa.BasicBlock]bool{}
	if start == nil || without[start] {
		return seen
	}
	stack := []*ssa.BasicBlock{start}
	seen[start] = true
	for len(stack) > 0 {
		b := stack[len(stack)-1]
		stack = stack[:len(stack)-1]
		for _, s := range b.Succs {
			if !seen[s] && !without[s] {
				seen[s] = true
				stack = append(stack, s)
			}
		}
	}
	return seen
}

func ifOf(b *ssa.BasicBlock) *ssa.If {
	if len(b.Instrs) == 0 {
		return nil
	}
	i, _ := b.Instrs[len(b.Instrs)-1].(*ssa.If)
	return i
}

func returnOf(b *ssa.BasicBlock) *ssa.Return {
	if len(b.Instrs) == 0 {
		return nil
	}
	i, _ := b.Instrs[len(b.Instrs)-1].(*ssa.Return)
	return i
}

func isErrorType(t types.Type) bool {
	n, ok := t.(*types.Named)
	return ok && n.Obj().Pkg() == nil && n.Obj().Name() == "error"
}

// errResultIndex: index of the (last) result of type error, or -1.
func errResultIndex(fn *ssa.Function) int {
	res := fn.Signature.Results()
	for i := res.Len() - 1; i >= 0; i-- {
		if isErrorType(res.At(i).Type()) {
			return i
		}
	}
	return -1
}

// seeThrough strips conversions/loads of single-store locals to reach the defining value.
func seeThrough(v ssa.Value) ssa.Value {
	for i := 0; i < 20; i++ {
		switch x := v.(type) {
		case *ssa.ChangeType:
			v = x.X
		case *ssa.ChangeInterface:
			v = x.X
		case *ssa.MakeInterface:
			v = x.X
		case *ssa.Convert:
			v = x.X
		case *ssa.UnOp:
			if x.Op == token.MUL {
				if a, ok := x.X.(*ssa.Alloc); ok {
					vals, esc := storesTo(a)
					if !esc && len(vals) == 1 {
						v = vals[0]
						continue
					}
				}
			}
			return v
		default:
			return v
		}
	}
	return v
}

func isNilConst(v ssa.Value) bool {
	c, ok := seeThrough(v).(*ssa.Const)
	return ok && c.Value == nil
}

// retValue resolves result #idx of a return: with named results (spilled because a deferred closure captures
// them) go/ssa emits `*res = v; rundefers; return *res`; the value stored last in the return's own block is the
// returned one (a deferred recover may still overwrite it on the panic path, which is a different path).
func retValue(rt *ssa.Return, idx int) ssa.Value {
	if idx < 0 || idx >= len(rt.Results) {
		return nil
	}
	v := rt.Results[idx]
	u, ok := v.(*ssa.UnOp)
	if !ok || u.Op != token.MUL {
		return v
	}
	a, ok := u.X.(*ssa.Alloc)
	if !ok {
		return v
	}
	b := rt.Block()
	var last ssa.Value
	for _, in := range b.Instrs {
		if st, ok := in.(*ssa.Store); ok && st.Addr == a {
			last = st.Val
		}
	}
	if last != nil {
		return last
	}
	// single predecessor chain without stores in between
	for p := b; len(p.Preds) == 1; {
		p = p.Preds[0]
		for i := len(p.Instrs) - 1; i >= 0; i-- {
			if st, ok := p.Instrs[i].(*ssa.Store); ok && st.Addr == a {
				return st.Val
			}
		}
	}
	return v
}

// returnIsFailure: the return's error operand is provably non-nil on this path: a non-nil constant/constructor
// call, or a value e for which the return block is dominated by the true edge of `e != nil`.
func returnIsFailure(fn *ssa.Function, ret *ssa.Return) bool {
	idx := errResultIndex(fn)
	if idx < 0 || idx >= len(ret.Results) {
		return false
	}
	ev := retValue(ret, idx)
	if isNilConst(ev) {
		return false
	}
	sv := seeThrough(ev)
	// error constructors
	if c, ok := sv.(*ssa.Call); ok {
		n := CalleeName(&c.Call)
		last := n[strings.LastIndexAny(n, "./")+1:]
		if strings.HasPrefix(last, "Wrap") || strings.HasPrefix(last, "New") || strings.HasPrefix(last, "Err") || last == "Errorf" {
			return true
		}
	}
	if _, ok := sv.(*ssa.Global); ok {
		return true
	}
	if u, ok := sv.(*ssa.UnOp); ok && u.Op == token.MUL {
		if _, ok := u.X.(*ssa.Global); ok {
			return true // sentinel error variable, e.g. types.ErrX
		}
	}
	// dominated by a `sv != nil` true edge
	for _, b := range fn.Blocks {
		ifi := ifOf(b)
		if ifi == nil {
			continue
		}
		bo, ok := ifi.Cond.(*ssa.BinOp)
		if !ok || (bo.Op != token.NEQ && bo.Op != token.EQL) {
			continue
		}
		var other ssa.Value
		if seeThrough(bo.X) == sv {
			other = bo.Y
		} else if seeThrough(bo.Y) == sv {
			other = bo.X
		} else {
			continue
		}
		if !isNilConst(other) {
			continue
		}
		nonNilSucc := b.Succs[0]
		nilSucc := b.Succs[1]
		if bo.Op == token.EQL {
			nonNilSucc, nilSucc = nilSucc, nonNilSucc
		}
		if nonNilSucc != nilSucc && edgeDominates(b, nonNilSucc, ret.Block()) {
			return true
		}
	}
	return false
}

// edgeDominates: every path from entry to target passes through edge (from -> to).
func edgeDominates(from, to, target *ssa.BasicBlock) bool {
	if !from.Dominates(target) {
		return false
	}
	// target unreachable from the other successors of `from` without re-entering `from`
	for _, s := range from.Succs {
		if s == to {
			continue
		}
		if reachFrom(s, map[*ssa.BasicBlock]bool{from: true})[target] {
			return false
		}
	}
	// and `to` must reach target (or be it)
	return reachFrom(to, map[*ssa.BasicBlock]bool{from: true})[target]
}

// Site is an effect site within a function.
type Site struct {
	Instr ssa.Instruction
	Block *ssa.BasicBlock
	Label string
}

func instrIndex(in ssa.Instruction) int {
	for i, x := range in.Block().Instrs {
		if x == in {
			return i
		}
	}
	return -1
}

// pathCount: min and max number of executions of instructions in `effects` along paths from entry to blocks in
// `exits`; max = -1 means unbounded (effect inside a cycle on such a path). ok=false when no exit is reachable.
func pathCount(fn *ssa.Function, effects map[ssa.Instruction]bool, exits map[*ssa.BasicBlock]bool) (min, max int, ok bool) {
	n := len(fn.Blocks)
	if n == 0 {
		return 0, 0, false
	}
	w := make([]int, n)
	for _, b := range fn.Blocks {
		for _, in := range b.Instrs {
			if effects[in] {
				w[b.Index]++
			}
		}
	}
	// SCCs (Tarjan)
	index := 0
	idx := make([]int, n)
	low := make([]int, n)
	on := make([]bool, n)
	comp := make([]int, n)
	for i := range idx {
		idx[i] = -1
	}
	var stack []int
	ncomp := 0
	var strong func(v int)
	strong = func(v int) {
		idx[v], low[v] = index, index
		index++
		stack = append(stack, v)
		on[v] = true
		for _, s := range fn.Blocks[v].Succs {
			if idx[s.Index] < 0 {
				strong(s.Index)
				if low[s.Index] < low[v] {
					low[v] = low[s.Index]
				}
			} else if on[s.Index] && idx[s.Index] < low[v] {
				low[v] = idx[s.Index]
			}
		}
		if low[v] == idx[v] {
			for {
				x := stack[len(stack)-1]
				stack = stack[:len(stack)-1]
				on[x] = false
				comp[x] = ncomp
				if x == v {
					break
				}
			}
			ncomp++
		}
	}
	for i := 0; i < n; i++ {
		if idx[i] < 0 {
			strong(i)
		}
	}
	cyclic := make([]bool, ncomp)
	size := make([]int, ncomp)
	for i := 0; i < n; i++ {
		size[comp[i]]++
		for _, s := range fn.Blocks[i].Succs {
			if s.Index == i {
				cyclic[comp[i]] = true
			}
		}
	}
	for c := range size {
		if size[c] > 1 {
			cyclic[c] = true
		}
	}
	// component weights
	cmin := make([]int, ncomp)
	cmaxInf := make([]bool, ncomp)
	cmax := make([]int, ncomp)
	for i := 0; i < n; i++ {
		c := comp[i]
		if cyclic[c] {
			if w[i] > 0 {
				cmaxInf[c] = true
			}
			// min through a cycle: could skip most blocks; conservatively 0 unless it is the single-entry
			// header weight; we use 0 (sound lower bound).
		} else {
			cmin[c] += w[i]
			cmax[c] += w[i]
		}
	}
	// DP over condensation DAG, memoised from each component to exits.
	type res struct {
		min, max int
		inf, ok  bool
		done     bool
	}
	memo := make([]res, ncomp)
	blocksOf := make([][]int, ncomp)
	for i := 0; i < n; i++ {
		blocksOf[comp[i]] = append(blocksOf[comp[i]], i)
	}
	var solve func(c int) res
	solve = func(c int) res {
		if memo[c].done {
			return memo[c]
		}
		memo[c].done = true // DAG: no cycles among components
		r := res{}
		first := true
		take := func(mn, mx int, inf bool) {
			if first {
				r.min, r.max, r.inf, r.ok = mn, mx, inf, true
				first = false
				return
			}
			if mn < r.min {
				r.min = mn
			}
			if mx > r.max {
				r.max = mx
			}
			r.inf = r.inf || inf
		}
		for _, bi := range blocksOf[c] {
			if exits[fn.Blocks[bi]] {
				take(0, 0, false)
			}
			for _, s := range fn.Blocks[bi].Succs {
				if comp[s.Index] == c {
					continue
				}
				sr := solve(comp[s.Index])
				if sr.ok {
					take(sr.min, sr.max, sr.inf)
				}
			}
		}
		if r.ok {
			r.min += cmin[c]
			r.max += cmax[c]
			r.inf = r.inf || cmaxInf[c]
		}
		r.done = true
		memo[c] = r
		return r
	}
	r := solve(comp[0])
	if !r.ok {
		return 0, 0, false
	}
	if r.inf {
		return r.min, -1, true
	}
	return r.min, r.max, true
}
