package main

// runSelfTest is filled in by selftest_run.go; placeholder until mutants exist.
func runSelfTest(prop, dir string) any { return selfTestImpl(prop, dir) }
