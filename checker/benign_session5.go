package main

// Session 5: tables and module-order lists returned through a once-defined temporary (singleReturnExpr, order.go).
// The old readers accepted only a body that is literally `return <literal>`; a `t := <literal>; return t` body gave
// 7 false violations of C02 (order|*|shape) and unresolved C06 order rules.

const orderEndOpen = "func orderEndBlockers() []string {\n\treturn []string{\n\t\tcrisistypes.ModuleName,"
const orderEndOpenTmp = "func orderEndBlockers() []string {\n\torder := []string{\n\t\tcrisistypes.ModuleName,"
const orderEndClose = "\t\tconsensusparamtypes.ModuleName,\n\t\tglobalfeetypes.ModuleName,\n\t}\n}\n\n/*\nNOTE: The genutils module must occur after staking"
const orderEndCloseTmp = "\t\tconsensusparamtypes.ModuleName,\n\t\tglobalfeetypes.ModuleName,\n\t}\n\treturn order\n}\n\n/*\nNOTE: The genutils module must occur after staking"

func init() {
	edits := [][2]string{{orderEndOpen, orderEndOpenTmp}, {orderEndClose, orderEndCloseTmp}}
	benigns = append(benigns,
		benign{ID: "C02-b5", Prop: "C02", File: "app/modules.go", What: "end-blocker order list returned through a once-defined temporary", Edits: edits},
		benign{ID: "C06-b6", Prop: "C06", File: "app/modules.go", What: "end-blocker order list returned through a once-defined temporary", Edits: edits},
	)
}
