package main

import (
	"fmt"
	"go/ast"
	"go/token"
	"strings"

	"golang.org/x/tools/go/packages"
	"golang.org/x/tools/go/ssa"
)

// Delegation hooks run inside begin-block. The staking module calls the delegation hooks not only from the three user
// messages but also from Slash -> SlashRedelegation -> Unbond, which x/slashing and x/evidence run in BeginBlock, and
// every link returns the hook's error to its caller. The chain of facts is read off the dependency SOURCE at the go.mod
// version (syntax only); with it established, an error returned by one of these hooks is a chain halt, and the E17
// census is run with the hooks as roots.

// errFlowsOut: fd contains a call whose function prints as calleeText, the call's error is bound to an identifier, and
// some return statement of fd mentions that identifier (or the call itself is returned).
func errFlowsOut(fset *token.FileSet, fd *ast.FuncDecl, calleeText string) bool {
	var errNames []string
	returnedDirectly := false
	isCallee := func(e ast.Expr) bool {
		ce, ok := e.(*ast.CallExpr)
		return ok && exprStringF(fset, ce.Fun) == calleeText
	}
	ast.Inspect(fd.Body, func(n ast.Node) bool {
		switch x := n.(type) {
		case *ast.AssignStmt:
			if len(x.Rhs) == 1 && isCallee(x.Rhs[0]) && len(x.Lhs) > 0 {
				if id, ok := x.Lhs[len(x.Lhs)-1].(*ast.Ident); ok && id.Name != "_" {
					errNames = append(errNames, id.Name)
				}
			}
		case *ast.ReturnStmt:
			for _, r := range x.Results {
				if isCallee(r) {
					returnedDirectly = true
				}
			}
		}
		return true
	})
	if returnedDirectly {
		return true
	}
	found := false
	ast.Inspect(fd.Body, func(n ast.Node) bool {
		rs, ok := n.(*ast.ReturnStmt)
		if !ok {
			return true
		}
		for _, r := range rs.Results {
			ast.Inspect(r, func(m ast.Node) bool {
				if id, ok := m.(*ast.Ident); ok {
					for _, e := range errNames {
						if id.Name == e {
							found = true
						}
					}
				}
				return true
			})
		}
		return true
	})
	return found
}

func findFuncOrMethod(p *packages.Package, recv, name string) *ast.FuncDecl {
	if recv != "" {
		return findMethod(p, recv, name)
	}
	for _, f := range p.Syntax {
		for _, d := range f.Decls {
			if fd, ok := d.(*ast.FuncDecl); ok && fd.Recv == nil && fd.Name.Name == name {
				return fd
			}
		}
	}
	return nil
}

// HookChain asserts the dependency facts and returns true if all hold.
func (r *Report) HookChain(key string) bool {
	sk, sl, sa := "github.com/cosmos/cosmos-sdk/x/staking/keeper", "github.com/cosmos/cosmos-sdk/x/slashing/keeper", "github.com/cosmos/cosmos-sdk/x/slashing"
	deps, err := loadDepSyntax(r.W.RepoDir, sk, sl, sa)
	d := "staking delegation hooks are invoked from begin-block slashing and their error is returned up to BeginBlocker (dependency source)"
	if err != nil {
		r.Unres(key+"|load", d, err.Error())
		return false
	}
	facts := []struct{ pkg, recv, fn, callee string }{
		{sk, "Keeper", "Unbond", "k.Hooks().BeforeDelegationSharesModified"},
		{sk, "Keeper", "Unbond", "k.Hooks().AfterDelegationModified"},
		{sk, "Keeper", "Unbond", "k.RemoveDelegation"},
		{sk, "Keeper", "RemoveDelegation", "k.Hooks().BeforeDelegationRemoved"},
		{sk, "Keeper", "SlashRedelegation", "k.Unbond"},
		{sk, "Keeper", "Slash", "k.SlashRedelegation"},
		{sk, "Keeper", "SlashWithInfractionReason", "k.Slash"},
		{sl, "Keeper", "HandleValidatorSignature", "k.sk.SlashWithInfractionReason"},
		{sa, "", "BeginBlocker", "k.HandleValidatorSignature"},
	}
	all := true
	for _, f := range facts {
		k := fmt.Sprintf("%s|%s.%s<-%s", key, f.recv, f.fn, f.callee)
		p := deps[f.pkg]
		if p == nil {
			r.Unres(k, d, "package "+f.pkg+" not available")
			all = false
			continue
		}
		fd := findFuncOrMethod(p, f.recv, f.fn)
		if fd == nil || fd.Body == nil {
			r.Unres(k, d, f.fn+" not found in "+f.pkg)
			all = false
			continue
		}
		r.W.SitesExamined++
		if errFlowsOut(p.Fset, fd, f.callee) {
			r.OK(k, d, strings.TrimPrefix(f.pkg, "github.com/cosmos/")+"."+f.fn, "the error of "+f.callee+" is returned")
		} else {
			// the chain is broken in this SDK version: hook errors no longer reach begin-block; not a violation of the
			// repo, but the finding keyed on this chain must be re-examined
			r.Unres(k, d, "the error of "+f.callee+" is not returned by "+f.fn+" in this dependency version: re-examine the hook census")
			all = false
		}
	}
	return all
}

// hookRoots: the delegation hook methods of the repo's StakingHooks implementations.
func (w *World) delegationHookRoots() []*ssa.Function {
	var out []*ssa.Function
	for _, k := range sortedKeys(w.Funcs) {
		// every StakingHooks method: the delegation hooks run inside begin-block slashing, the validator hooks inside the
		// staking end-blocker (bonding / unbonding / removal) and the slashing begin-blocker; an error from any of them
		// fails the block
		for _, m := range []string{".BeforeDelegationSharesModified", ".BeforeDelegationRemoved", ".AfterDelegationModified",
			".BeforeDelegationCreated", ".AfterValidatorCreated", ".BeforeValidatorModified", ".AfterValidatorRemoved",
			".AfterValidatorBonded", ".AfterValidatorBeginUnbonding", ".BeforeValidatorSlashed", ".AfterUnbondingInitiated"} {
			if strings.HasSuffix(k, "Hooks"+m) && inRepoScope(w.Funcs[k]) {
				out = append(out, w.Funcs[k])
			}
		}
	}
	return out
}
