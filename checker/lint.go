package main

import (
	"fmt"
	"go/token"
	"go/types"
	"sort"
	"strings"

	"golang.org/x/tools/go/ssa"
)

// =====================================================================================
// E7 unrecovered-panic census

type panicSite struct {
	Fn   string // function containing the site
	Kind string // "panic" or "call:<Must callee>"
	N    int
	Pos  string
	Path []string
}

func lastName(n string) string { return n[strings.LastIndexAny(n, "./")+1:] }

// PanicCensus: explicit panics and Must* calls in functions reachable from roots, not descending below recover
// barriers.
func (w *World) PanicCensus(roots []*ssa.Function) map[string]*panicSite {
	reach := w.ReachableFrom(roots, func(f *ssa.Function) bool { return HasRecoverBarrier(f) })
	out := map[string]*panicSite{}
	for fn, path := range reach {
		if len(fn.Blocks) == 0 || HasRecoverBarrier(fn) || !inRepoScope(fn) {
			continue
		}
		if fn.Synthetic != "" && fn.Parent() == nil {
			continue
		}
		w.FuncsAnalysed[fn] = true
		fk := FuncKey(fn)
		add := func(kind string, pos string) {
			k := fk + "|" + kind
			if s, ok := out[k]; ok {
				s.N++
				return
			}
			out[k] = &panicSite{Fn: fk, Kind: kind, N: 1, Pos: pos, Path: path}
		}
		for _, b := range fn.Blocks {
			for _, in := range b.Instrs {
				switch x := in.(type) {
				case *ssa.Panic:
					add("panic", w.posOr(x.Pos(), fn))
				case ssa.CallInstruction:
					n := CalleeName(x.Common())
					ln := lastName(n)
					if why, ok := panickyDep(n); ok {
						add("may-panic:"+n+" ("+why+")", w.posOr(x.Pos(), fn))
					}
					if strings.HasPrefix(ln, "Must") && ln != "Must" {
						// a Must* function of the repo itself is scanned as a function (its own panic is the site);
						// calls to it need no second entry. Dependency Must* calls are sites.
						if callee, ok := w.Funcs[n]; ok && len(callee.Blocks) > 0 {
							continue
						}
						add("call:"+n, w.posOr(x.Pos(), fn))
					}
				}
			}
		}
	}
	return out
}

type panicAllow struct {
	Fn, Kind string
	Max      int
	Why      string
}

// Census: the census from roots must be a subset of the frozen table.
func (r *Report) Census(key string, roots []*ssa.Function, table []panicAllow, rootDesc string) {
	w := r.W
	cen := w.PanicCensus(roots)
	d := "every explicit panic / Must* call reachable (unrecovered) from " + rootDesc + " is in the frozen accepted table"
	allow := map[string]panicAllow{}
	for _, a := range table {
		allow[a.Fn+"|"+a.Kind] = a
	}
	used := map[string]bool{}
	for _, k := range sortedKeys(cen) {
		s := cen[k]
		a, ok := allow[k]
		if !ok {
			// class entries: "*|call:<callee>"
			a, ok = allow["*|"+s.Kind]
			if ok {
				used["*|"+s.Kind] = true
			}
		} else {
			used[k] = true
		}
		kk := key + "|" + k
		switch {
		case !ok:
			r.Bad(kk, d, s.Pos, fmt.Sprintf("new unrecovered %s in %s (%d site(s)); not in the accepted table", s.Kind, s.Fn, s.N), s.Path...)
		case a.Max > 0 && s.N > a.Max:
			r.Bad(kk, d, s.Pos, fmt.Sprintf("%s in %s now has %d sites, accepted %d", s.Kind, s.Fn, s.N, a.Max), s.Path...)
		default:
			r.OK(kk, d, s.Pos, fmt.Sprintf("accepted (%d site(s)): %s", s.N, a.Why))
		}
	}
	stale := 0
	for k := range allow {
		if !used[k] {
			stale++
		}
	}
	if stale > 0 {
		r.Note("%s: %d accepted panic-table entries no longer reachable (stale, harmless)", key, stale)
	}
	if len(cen) == 0 {
		r.Unres(key+"|empty", d, "census found no site at all: roots not resolved")
	}
}

// =====================================================================================
// E8 determinism lint

type lintHit struct {
	Fn, What, Pos string
	Path          []string
}

var forbiddenCalls = []string{"time.Now", "time.Since", "time.Until", "time.After", "time.Sleep", "time.Tick", "time.NewTimer", "time.NewTicker",
	"os.Getenv", "os.Environ", "os.Hostname", "os.Getpid", "os.LookupEnv", "runtime.NumCPU", "runtime.NumGoroutine",
	"reflect.Value.MapRange", "reflect.Value.MapKeys", "maps.Keys", "maps.Values", "golang.org/x/exp/maps.Keys", "golang.org/x/exp/maps.Values"}

func isFloat(t types.Type) bool {
	b, ok := t.Underlying().(*types.Basic)
	return ok && (b.Info()&types.IsFloat != 0 || b.Info()&types.IsComplex != 0)
}

// mapRangeIsCollectSort: the loop over the map only appends keys/values to local slices (or counts) and the
// function sorts afterwards. Conservative structural test: within the blocks dominated by the range's loop body no
// call other than append / len / pure conversions occurs, no store to non-local memory, no map update, no send; and
// the function calls a sort routine that the range dominates.
func mapRangeIsCollectSort(fn *ssa.Function, rg *ssa.Range) bool {
	// find the Next instruction and its loop blocks
	var next *ssa.Next
	if rg.Referrers() == nil {
		return false
	}
	for _, ref := range *rg.Referrers() {
		if n, ok := ref.(*ssa.Next); ok {
			next = n
		}
	}
	if next == nil {
		return false
	}
	header := next.Block()
	// loop body = blocks that can reach header and are reachable from header's body successor
	body := map[*ssa.BasicBlock]bool{}
	for _, s := range header.Succs {
		for b := range reachFrom(s, map[*ssa.BasicBlock]bool{header: true}) {
			if reachFrom(b, nil)[header] {
				body[b] = true
			}
		}
	}
	for b := range body {
		for _, in := range b.Instrs {
			switch x := in.(type) {
			case *ssa.Call:
				n := CalleeName(&x.Call)
				if n == "builtin.append" || n == "builtin.len" || n == "builtin.cap" {
					continue
				}
				return false
			case *ssa.Store:
				if _, ok := x.Addr.(*ssa.Alloc); ok {
					continue
				}
				// IndexAddr of a local array used for variadic append is fine
				if ia, ok := x.Addr.(*ssa.IndexAddr); ok {
					if _, ok := ia.X.(*ssa.Alloc); ok {
						continue
					}
				}
				return false
			case *ssa.MapUpdate, *ssa.Send, *ssa.Go, *ssa.Defer, *ssa.Panic, *ssa.Return:
				return false
			}
		}
	}
	// a sort call after the loop
	for _, b := range fn.Blocks {
		if body[b] || !header.Dominates(b) {
			continue
		}
		for _, in := range b.Instrs {
			if c, ok := in.(*ssa.Call); ok {
				n := CalleeName(&c.Call)
				// only natural total orders: a custom comparator (sort.Slice, slices.SortFunc) may tie on distinct keys
				// and then leaves them in map order
				switch n {
				case "sort.Strings", "sort.Ints", "sort.Float64s", "slices.Sort":
					return true
				}
			}
		}
	}
	return false
}

func (w *World) lintOne(fn *ssa.Function) (hits []lintHit, mapRanges []lintHit, ok bool) {
	return w.lintFn(fn, nil)
}

func (w *World) lintFn(fn *ssa.Function, path []string) (hits []lintHit, mapRanges []lintHit, ok bool) {
	if len(fn.Blocks) == 0 {
		return nil, nil, false
	}
	w.FuncsAnalysed[fn] = true
	fk := FuncKey(fn)
	hit := func(what string, in ssa.Instruction) {
		hits = append(hits, lintHit{fk, what, w.posOr(in.Pos(), fn), path})
	}
	for _, b := range fn.Blocks {
		for _, in := range b.Instrs {
			switch x := in.(type) {
			case *ssa.Go:
				hit("go statement", in)
			case *ssa.Select:
				if len(x.States) > 1 || !x.Blocking {
					hit("select statement", in)
				}
			case *ssa.BinOp:
				switch x.Op {
				case token.EQL, token.NEQ, token.LSS, token.LEQ, token.GTR, token.GEQ:
					// a value compared with itself decides nothing (x != x on floats is the NaN test and is reported as float use)
					if !isFloat(x.X.Type()) && sameOperand(x.X, x.Y) {
						hit("comparison of a value with itself", in)
					}
				}
				if isFloat(x.X.Type()) || isFloat(x.Y.Type()) {
					switch x.Op {
					case token.EQL, token.NEQ, token.LSS, token.LEQ, token.GTR, token.GEQ:
						hit("floating-point comparison", in)
					default:
						hit("floating-point arithmetic", in)
					}
				}
			case *ssa.Convert:
				if isFloat(x.Type()) && !isFloat(x.X.Type()) {
					hit("conversion to floating point", in)
				}
			case *ssa.Store:
				if what := w.processLocalWrite(x.Addr); what != "" {
					hit(what, in)
				}
			case *ssa.MapUpdate:
				if what := w.processLocalWrite(x.Map); what != "" {
					hit(what, in)
				}
			case *ssa.Range:
				if _, ok := x.X.Type().Underlying().(*types.Map); ok {
					what := "range over map " + types.TypeString(x.X.Type(), func(p *types.Package) string { return p.Name() })
					if mapRangeIsCollectSort(fn, x) {
						mapRanges = append(mapRanges, lintHit{fk, what + " [collect-and-sort]", w.posOr(x.Pos(), fn), path})
					} else {
						mapRanges = append(mapRanges, lintHit{fk, what, w.posOr(x.Pos(), fn), path})
					}
				}
			case ssa.CallInstruction:
				n := CalleeName(x.Common())
				for _, f := range forbiddenCalls {
					if n == f {
						hit("call "+n, in)
					}
				}
				if strings.HasPrefix(n, "math/rand.") || strings.HasPrefix(n, "math/rand/v2.") || strings.HasPrefix(n, "crypto/rand.") {
					hit("call "+n, in)
				}
				// equality helpers applied to one and the same operand: a.Y.Equals(&a.Y), bytes.Equal(x, x)
				if c := x.Common(); !c.IsInvoke() && len(c.Args) == 2 && c.Signature().Results().Len() == 1 {
					switch lastName(n) {
					case "Equal", "Equals", "IsEqual", "Compare", "Cmp", "EqualFold":
						if sameOperand(c.Args[0], c.Args[1]) {
							hit("comparison of a value with itself", in)
						}
					}
				}
				// a cache context created outside a loop whose write function is called inside it is shared by the
				// iterations: what a failed iteration wrote is committed by the next successful one
				if lastName(n) == "CacheContext" && x.Common().Signature().Results().Len() == 2 {
					if v, ok := in.(*ssa.Call); ok && cacheSharedByLoop(fn, v) {
						hit("cache context shared by the iterations of a loop", in)
					}
				}
				switch n { // unstable sorts: the relative order of equal elements is unspecified - a census site
				case "sort.Slice", "sort.Sort", "slices.SortFunc", "golang.org/x/exp/slices.SortFunc":
					hit("unstable sort "+n, in)
				}
			}
		}
	}
	return hits, mapRanges, true
}

func (w *World) DeterminismLint(roots []*ssa.Function) (hits []lintHit, mapRanges []lintHit, nFuncs int) {
	reach := w.ReachableFrom(roots, nil)
	for fn, path := range reach {
		if len(fn.Blocks) == 0 || !inRepoScope(fn) {
			continue
		}
		if fn.Synthetic != "" && fn.Parent() == nil {
			continue
		}
		if strings.HasSuffix(w.Fset.Position(fn.Pos()).Filename, ".pb.go") || strings.HasSuffix(w.Fset.Position(fn.Pos()).Filename, ".pb.gw.go") {
			continue
		}
		nFuncs++
		h, m, _ := w.lintFn(fn, path)
		hits = append(hits, h...)
		mapRanges = append(mapRanges, m...)
	}
	sort.Slice(hits, func(i, j int) bool { return hits[i].Fn+hits[i].What < hits[j].Fn+hits[j].What })
	sort.Slice(mapRanges, func(i, j int) bool { return mapRanges[i].Fn+mapRanges[i].What < mapRanges[j].Fn+mapRanges[j].What })
	return
}

type lintAllow struct {
	Fn, What, Why string
}

func (r *Report) Lint(key string, roots []*ssa.Function, allow []lintAllow, minFuncs int) {
	w := r.W
	hits, ranges, n := w.DeterminismLint(roots)
	d := "no nondeterministic construct (wall clock, randomness, goroutine, select, env, float, unsorted map iteration) in consensus-reachable code"
	if n < minFuncs {
		r.Unres(key+"|scope", d, fmt.Sprintf("only %d functions reachable from the consensus roots (expected >= %d)", n, minFuncs))
	}
	r.Note("%s: linted %d consensus-reachable functions; %d map ranges", key, n, len(ranges))
	isAllowed := func(h lintHit) (string, bool) {
		for _, a := range allow {
			if nameMatch(h.Fn, a.Fn) && strings.HasPrefix(h.What, a.What) {
				return a.Why, true
			}
		}
		return "", false
	}
	seen := map[string]int{}
	for _, h := range hits {
		k := key + "|" + h.Fn + "|" + h.What
		seen[k]++
		if seen[k] > 1 {
			continue
		}
		if why, ok := isAllowed(h); ok {
			r.OK(k, d, h.Pos, "accepted exception: "+why)
		} else {
			r.Bad(k, d, h.Pos, h.What+" in "+h.Fn, h.Path...)
		}
	}
	for _, h := range ranges {
		k := key + "|" + h.Fn + "|" + h.What
		seen[k]++
		if seen[k] > 1 {
			k = fmt.Sprintf("%s#%d", k, seen[k])
		}
		if strings.HasSuffix(h.What, "[collect-and-sort]") {
			r.OK(k, d, h.Pos, "keys are only collected and then sorted")
		} else if why, ok := isAllowed(h); ok {
			r.OK(k, d, h.Pos, "accepted exception: "+why)
		} else {
			r.Bad(k, d, h.Pos, h.What+" in "+h.Fn+" is neither collect-and-sort nor an accepted order-insensitive exception", h.Path...)
		}
	}
	r.OK(key+"|clean", d, "-", fmt.Sprintf("%d functions linted, %d forbidden-construct hits, %d map ranges", n, len(hits), len(ranges)))
}

// =====================================================================================
// Swallowed-error census (C02.R7): in functions reachable from begin/end-block roots, a call whose error result is
// tested and whose error edge does NOT lead to a failure return (the function carries on) is a deliberate decision
// that must be in the frozen table: the callee has to be read-only up to its failure points or run on a cache context.

type swallow struct {
	Fn, Callee, Pos string
	Path            []string
}

func (w *World) SwallowedErrors(roots []*ssa.Function) map[string]*swallow {
	reach := w.ReachableFrom(roots, nil)
	out := map[string]*swallow{}
	for fn, path := range reach {
		if len(fn.Blocks) == 0 || !inRepoScope(fn) || (fn.Synthetic != "" && fn.Parent() == nil) {
			continue
		}
		if strings.HasSuffix(w.Fset.Position(fn.Pos()).Filename, ".pb.go") {
			continue
		}
		fk := FuncKey(fn)
		for _, b := range fn.Blocks {
			ifi := ifOf(b)
			if ifi == nil {
				continue
			}
			bo, ok := ifi.Cond.(*ssa.BinOp)
			if !ok || (bo.Op != token.NEQ && bo.Op != token.EQL) {
				continue
			}
			var ev ssa.Value
			if isNilConst(bo.Y) && isErrorType(bo.X.Type()) {
				ev = bo.X
			} else if isNilConst(bo.X) && isErrorType(bo.Y.Type()) {
				ev = bo.Y
			} else {
				continue
			}
			// the error comes from a call
			var call *ssa.Call
			switch x := seeThrough(ev).(type) {
			case *ssa.Call:
				call = x
			case *ssa.Extract:
				call, _ = x.Tuple.(*ssa.Call)
			}
			if call == nil {
				continue
			}
			errSucc := b.Succs[0]
			if bo.Op == token.EQL {
				errSucc = b.Succs[1]
			}
			// does every path from the error edge end in a failure return or a panic?
			swallowed := false
			for rb := range reachFrom(errSucc, map[*ssa.BasicBlock]bool{b: true}) {
				if rt := returnOf(rb); rt != nil {
					idx := errResultIndex(fn)
					if idx < 0 {
						swallowed = true // function has no error result: the error cannot be propagated
					} else if idx < len(rt.Results) && isNilConst(retValue(rt, idx)) {
						swallowed = true
					}
				}
			}
			// error edge loops back (continue) without returning
			if !swallowed {
				for rb := range reachFrom(errSucc, map[*ssa.BasicBlock]bool{b: true}) {
					for _, s := range rb.Succs {
						if s == b {
							swallowed = true
						}
					}
				}
			}
			if !swallowed {
				continue
			}
			name := CalleeName(&call.Call)
			if name == "" {
				name = "<dynamic>"
			}
			k := fk + "|" + name
			if _, ok := out[k]; !ok {
				out[k] = &swallow{fk, name, w.posOr(ifi.Cond.Pos(), fn), path}
			}
		}
	}
	return out
}

type swallowAllow struct{ Fn, Callee, Why string }

func (r *Report) Swallowed(key string, roots []*ssa.Function, table []swallowAllow, min int) {
	w := r.W
	d := "every error that begin/end-block code tests and then does not propagate is a recorded, justified decision (callee read-only before failing, or run on a cache context)"
	got := w.SwallowedErrors(roots)
	if len(got) < min {
		r.Unres(key+"|min", d, fmt.Sprintf("%d swallow sites found, expected >= %d", len(got), min))
	}
	for _, k := range sortedKeys(got) {
		s := got[k]
		why := ""
		for _, a := range table {
			if a.Fn == s.Fn && nameMatch(s.Callee, a.Callee) {
				why = a.Why
			}
		}
		if why != "" {
			r.OK(key+"|"+k, d, s.Pos, "accepted: "+why)
		} else {
			r.Bad(key+"|"+k, d, s.Pos, fmt.Sprintf("%s tests the error of %s and carries on: not in the accepted table", s.Fn, s.Callee), s.Path...)
		}
	}
}

// panickyDep: dependency functions documented to panic on a value-dependent condition (not on programmer error
// only). A call of one in begin/end-block code is a census site like an explicit panic.
func panickyDep(name string) (string, bool) {
	const m, t = "cosmossdk.io/math.", "github.com/cosmos/cosmos-sdk/types."
	table := map[string]string{
		m + "Int.Int64": "panics if the value does not fit int64", m + "Int.Uint64": "panics if the value does not fit uint64",
		m + "Int.Quo": "panics on division by zero", m + "Int.QuoRaw": "panics on division by zero", m + "Int.Mod": "panics on division by zero", m + "Int.ModRaw": "panics on division by zero",
		m + "Uint.Sub": "panics on underflow", m + "Uint.Quo": "panics on division by zero", m + "Uint.Uint64": "panics if the value does not fit uint64",
		m + "LegacyDec.Quo": "panics on division by zero", m + "LegacyDec.QuoTruncate": "panics on division by zero", m + "LegacyDec.QuoRoundUp": "panics on division by zero",
		m + "LegacyDec.QuoInt": "panics on division by zero", m + "LegacyDec.QuoInt64": "panics on division by zero",
		m + "LegacyDec.RoundInt64": "panics if the value does not fit int64", m + "LegacyDec.TruncateInt64": "panics if the value does not fit int64",
		m + "LegacyNewDecWithPrec": "panics if prec > 18", m + "LegacyNewDecFromIntWithPrec": "panics if prec > 18",
		t + "Coins.Sub": "panics if any amount would go negative", t + "Coins.MulInt": "panics if the multiplier is zero", t + "Coins.QuoInt": "panics on division by zero",
		t + "DecCoins.Sub": "panics if any amount would go negative", t + "DecCoins.QuoDec": "panics on division by zero", t + "DecCoins.QuoDecTruncate": "panics on division by zero",
		t + "Coin.Sub": "panics if the amount would go negative", t + "DecCoin.Sub": "panics if the amount would go negative",
		t + "NewCoin": "panics on a negative amount or invalid denom", t + "NewCoins": "panics on invalid, duplicate or negative coins",
		t + "NewDecCoin": "panics on a negative amount or invalid denom", t + "NewDecCoinFromDec": "panics on a negative amount or invalid denom",
		t + "NewInt64Coin": "panics on a negative amount or invalid denom",
	}
	why, ok := table[name]
	return why, ok
}

// sameOperand: the two operands are the same SSA value, or render to the same call-free, non-constant term
// (e.g. the field address a.Y taken twice).
func sameOperand(a, b ssa.Value) bool {
	if _, isConst := a.(*ssa.Const); isConst {
		return false
	}
	if a == b {
		return true
	}
	ta, tb := Render(a), Render(b)
	if ta.Op == "const" || ta.Op == "opaque" || ta.Has("call") || ta.Has("opaque") || ta.Has("phi") {
		return false
	}
	for at := range ta.Atoms() {
		if strings.HasPrefix(at, "call:") {
			return false
		}
	}
	return ta.String() == tb.String()
}

// cacheSharedByLoop: the write function of this CacheContext() call is invoked inside a natural loop that does not
// contain the CacheContext() call itself.
func cacheSharedByLoop(fn *ssa.Function, cc *ssa.Call) bool {
	if cc.Referrers() == nil {
		return false
	}
	var writeCalls []*ssa.BasicBlock
	for _, r := range *cc.Referrers() {
		ex, ok := r.(*ssa.Extract)
		if !ok || ex.Index != 1 || ex.Referrers() == nil {
			continue
		}
		for _, u := range *ex.Referrers() {
			if ci, ok := u.(ssa.CallInstruction); ok && ci.Common().Value == ex {
				writeCalls = append(writeCalls, ci.Block())
			}
		}
	}
	if len(writeCalls) == 0 {
		return false
	}
	for _, loop := range naturalLoops(fn) {
		if loop[cc.Block()] {
			continue
		}
		for _, b := range writeCalls {
			if loop[b] {
				return true
			}
		}
	}
	return false
}
