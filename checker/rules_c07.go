package main

func init() { props["C07"] = c07 }

func c07(r *Report) propMeta {
	w := r.W
	_ = w
	lv := fK + "LockVoterPower"
	vote := fMS + "Vote"

	r.Rule("C07.R1", "E10 the bound is computed without native-width overflow")
	r.NoNativeArith("vote-sum-not-native-int64", lv, []string{"+", "*"}, "field:Signal.Power")
	r.ArgNoNativeAccumulation("vote-sum-not-via-native-accumulator", lv, "RestakeKeeper.SetLockedPower", 3)
	r.ArgHas("vote-sum-in-big-int", lv, "RestakeKeeper.SetLockedPower", 3, 1, "call:Int.Add", "call:math.NewInt", "field:Signal.Power", "param:signals")
	r.ArgHas("lock-for-the-voter", lv, "RestakeKeeper.SetLockedPower", 1, 1, "^param:voter")
	r.ArgHas("lock-in-feeds-vault", lv, "RestakeKeeper.SetLockedPower", 2, 1, "const:feeds")
	r.Gate("lock-error-propagates", lv, RetOK(), []Cond{nilErrOf("RestakeKeeper.SetLockedPower")}, GateOpts{FailIsError: true})
	r.CondCount("lock-is-unconditional", lv, 2) // the range loop header + the error check; nothing that could skip the lock
	r.Count("lock-always-attempted", lv, []Effect{CallEff("RestakeKeeper.SetLockedPower")}, "all", 1, 1)
	r.Gate("each-power-positive", "x/feeds/types.Signal.Validate", RetOK(), []Cond{{Op: "LSS", A: []string{"const:0"}, B: []string{"field:Signal.Power"}, Want: true, Desc: "signal.Power > 0"}}, GateOpts{FailIsError: true})
	r.Gate("signals-validated", "x/feeds/types.MsgVote.ValidateBasic", RetOK(), []Cond{nilErrOf("Signal.Validate")}, GateOpts{LoopAll: true, FailIsError: true})
	// repeated signal ids in one vote: either they are refused statelessly, or the per-signal power diff ACCUMULATES
	// (+= / -=) so that repeated ids are handled correctly; each alone keeps totals = sum of standing votes (seed C07-8
	// gave up both)
	upd := fK + "UpdateVoteAndReturnPowerDiff"
	r.AnyOf("repeated-signal-ids-harmless", "MsgVote.ValidateBasic refuses a repeated signal id, OR UpdateVoteAndReturnPowerDiff accumulates the diff per id with += and -=", map[string]func(*Report){
		"no-duplicate-ids": func(s *Report) {
			s.Gate("no-duplicate-signal-id", "x/feeds/types.MsgVote.ValidateBasic", RetOK(), []Cond{{Op: "BOOL", A: []string{"lookup", "field:Signal.ID"}, Want: false, Desc: "no duplicate signal id"}}, GateOpts{LoopAll: true, FailIsError: true})
		},
		"diff-accumulates": func(s *Report) {
			s.Exists("diff-subtracts-accumulating", upd, MapUpdEff("^mapupdate", "binop:-", "lookup", "field:Signal.Power", "call:Keeper.GetVote"), 1)
			s.Exists("diff-adds-accumulating", upd, MapUpdEff("^mapupdate", "binop:+", "lookup", "field:Signal.Power", "param:signals"), 1)
		},
	})

	r.Rule("C07.R2", "E3 the vote is written only after the lock succeeded")
	r.Gate("vote-after-lock", vote, CallEff("Keeper.UpdateVoteAndReturnPowerDiff"), []Cond{nilErrOf("Keeper.LockVoterPower"),
		{Op: "LSS", A: []string{"field:Params.MaxCurrentFeeds"}, B: []string{"len", "field:MsgVote.Signals"}, Want: false, Desc: "len(signals) <= MaxCurrentFeeds"}}, GateOpts{FailIsError: true})
	r.SameValue("locked-signals-are-voted-signals", vote, ArgRef{"Keeper.LockVoterPower", 2}, ArgRef{"Keeper.UpdateVoteAndReturnPowerDiff", 2})
	r.SameValue("locked-voter-is-voting-voter", vote, ArgRef{"Keeper.LockVoterPower", 1}, ArgRef{"Keeper.UpdateVoteAndReturnPowerDiff", 1})
	r.ArgHas("voter-from-msg", vote, "Keeper.LockVoterPower", 1, 1, "field:MsgVote.Voter")
	r.Callers("callers", fK+"UpdateVoteAndReturnPowerDiff", []string{vote}, []string{vote})
	r.Callers("callers", fK+"SetVote", []string{fK + "UpdateVoteAndReturnPowerDiff", fK + "SetVotes"}, []string{fK + "UpdateVoteAndReturnPowerDiff"})
	r.Callers("callers", fK+"SetVotes", []string{fK + "InitGenesis", "x/feeds.InitGenesis"}, nil)
	r.StoreWriters("vote-store", []string{"call:types.VoteStoreKey", "global:types.VoteStoreKeyPrefix"}, []string{fK + "SetVote", fK + "DeleteVote"}, "x/feeds")
	// restake side of the bound (shared with C16.R4)
	sl := rK + "SetLockedPower"
	r.Gate("restake-bound", sl, CallEff("Keeper.SetLock"), []Cond{
		{Op: "BOOL", A: []string{"call:Int.IsUint64", "param:power"}, Want: true, Desc: "power.IsUint64()"},
		{Op: "LSS", A: []string{"call:Keeper.GetTotalPower"}, B: []string{"param:power"}, Want: false, Desc: "not (totalPower < power)"},
		{Op: "BOOL", A: []string{"field:Vault.IsActive"}, Want: true, Desc: "vault active"}}, GateOpts{FailIsError: true})

	r.Rule("C07.R3", "E8 diffs applied in sorted key order; negative totals rejected")
	up := fK + "UpdateVoteAndReturnPowerDiff"
	r.FileLint("vote-handler-deterministic", "x/feeds/keeper/msg_server.go")
	r.Exists("sorted-keys", vote, CallEff("sort.Strings"), 1)
	r.ArgHas("totals-updated-over-collected-keys", vote, "Keeper.GetSignalTotalPower", 1, 1, "^index", "call:builtin.append", "next")
	r.Dominated("totals-updated-after-sort", vote, CallEff("sort.Strings"), CallEff("Keeper.GetSignalTotalPower"))
	r.ArgHas("sort-the-collected-keys", vote, "sort.Strings", 0, 1, "call:builtin.append", "next")
	r.Gate("no-negative-total", vote, CallEff("Keeper.SetSignalTotalPower"), []Cond{{Op: "LSS", A: []string{"field:Signal.Power"}, B: []string{"const:0"}, Want: false, Desc: "not (total power < 0)"}}, GateOpts{FailIsError: true})
	r.Exists("total-is-old-plus-diff", vote, StoreEff("Signal.Power", "^binop:+", "lookup", "call:Keeper.UpdateVoteAndReturnPowerDiff", "field:Signal.Power"), 1)
	r.ArgHas("total-of-that-signal", vote, "Keeper.SetSignalTotalPower", 1, 1, "call:Keeper.GetSignalTotalPower")
	r.Exists("diff-subtracts-old-vote", up, MapUpdEff("^mapupdate", "binop:-|binop:neg", "field:Signal.Power", "call:Keeper.GetVote"), 1)
	r.Exists("diff-adds-new-vote", up, MapUpdEff("^mapupdate", "binop:+", "field:Signal.Power", "param:signals"), 1)
	r.Dominated("old-vote-read-before-overwrite", up, CallEff("Keeper.GetVote"), CallEff("Keeper.SetVote"))
	r.ArgHas("stored-vote-is-new-signals", up, "types.NewVote", 1, 1, "^param:signals")
	r.Count("one-vote-write", up, []Effect{CallEff("Keeper.SetVote")}, "all", 1, 1)

	r.Rule("C07.R4", "pairing: total-power record and by-power index in lock-step")
	st := fK + "SetSignalTotalPower"
	r.Gate("old-index-entry-deleted-when-present", st, CallEff("Keeper.deleteSignalTotalPowerByPowerIndex"), []Cond{nilErrOf("Keeper.GetSignalTotalPower")}, GateOpts{})
	r.ArgHas("old-index-entry-from-stored-record", st, "Keeper.deleteSignalTotalPowerByPowerIndex", 1, 1, "^~call:Keeper.GetSignalTotalPower")
	r.ArgHas("stored-record-of-same-signal", st, "Keeper.GetSignalTotalPower", 1, 1, "field:Signal.ID", "param:signal")
	r.NotAfter("delete-old-index-before-new", st, CallEff("Keeper.deleteSignalTotalPowerByPowerIndex"), CallEff("Keeper.setSignalTotalPowerByPowerIndex"))
	r.GateAny("old-index-always-cleared", st, CallEff("Keeper.setSignalTotalPowerByPowerIndex"), []Cond{
		{Op: "EQL", A: []string{"field:Signal.Power"}, B: []string{"const:0"}, Want: false, Desc: "new power != 0"}}, 1)
	r.SameValue("index-and-record-same-signal", st, ArgRef{"Keeper.setSignalTotalPowerByPowerIndex", 1})
	r.ArgHas("index-entry-of-param", st, "Keeper.setSignalTotalPowerByPowerIndex", 1, 1, "^param:signal")
	r.Gate("zero-power-record-removed", st, CallEff("Keeper.deleteSignalTotalPower"), []Cond{{Op: "EQL", A: []string{"field:Signal.Power"}, B: []string{"const:0"}, Want: true, Desc: "new power == 0"}}, GateOpts{})
	r.OldIndexDeletionUnconditional("old-index-deletion-not-under-new-power-branch", st)
	r.ArgHas("index-key-id-power", fK+"setSignalTotalPowerByPowerIndex", "types.SignalTotalPowerByPowerIndexKey", 1, 1, "field:Signal.Power", "param:signalTotalPower")
	r.ArgHas("index-key-id-power", fK+"deleteSignalTotalPowerByPowerIndex", "types.SignalTotalPowerByPowerIndexKey", 1, 1, "field:Signal.Power", "param:signalTotalPower")
	r.ArgHas("index-key-id", fK+"setSignalTotalPowerByPowerIndex", "types.SignalTotalPowerByPowerIndexKey", 0, 1, "field:Signal.ID", "param:signalTotalPower")
	r.ArgHas("index-key-id", fK+"deleteSignalTotalPowerByPowerIndex", "types.SignalTotalPowerByPowerIndexKey", 0, 1, "field:Signal.ID", "param:signalTotalPower")
	r.StoreWriters("total-power-store", []string{"call:types.SignalTotalPowerStoreKey", "global:types.SignalTotalPowerStoreKeyPrefix"}, []string{st, fK + "deleteSignalTotalPower"}, "x/feeds")
	r.StoreWriters("total-power-index", []string{"call:types.SignalTotalPowerByPowerIndexKey", "global:types.SignalTotalPowerByPowerIndexKeyPrefix"}, []string{fK + "setSignalTotalPowerByPowerIndex", fK + "deleteSignalTotalPowerByPowerIndex"}, "x/feeds")
	r.Callers("callers", fK+"setSignalTotalPowerByPowerIndex", []string{st}, []string{st})
	r.Callers("callers", fK+"deleteSignalTotalPowerByPowerIndex", []string{st}, []string{st})
	r.Callers("callers", fK+"deleteSignalTotalPower", []string{st}, []string{st})
	r.Callers("callers", st, []string{vote, fK + "SetSignalTotalPowers"}, []string{vote})

	r.Rule("C07.R5", "E3 current feeds = top signals by power above the threshold")
	cn := fK + "CalculateNewCurrentFeeds"
	r.ArgHas("top-n", cn, "Keeper.GetSignalTotalPowersByPower", 1, 1, "field:Params.MaxCurrentFeeds")
	r.Gate("only-above-threshold", cn, CallEff("types.NewFeed"), []Cond{{Op: "LSS", A: []string{"const:0"}, B: []string{"call:types.CalculateInterval"}, Want: true, Desc: "interval > 0"}}, GateOpts{})
	r.ArgHas("interval-from-power", cn, "types.CalculateInterval", 0, 1, "field:Signal.Power", "call:Keeper.GetSignalTotalPowersByPower")
	r.ArgHas("interval-threshold", cn, "types.CalculateInterval", 1, 1, "field:Params.PowerStepThreshold")
	r.ArgHas("feed-of-signal", cn, "types.NewFeed", 0, 1, "field:Signal.ID", "call:Keeper.GetSignalTotalPowersByPower")
	r.ArgHas("feed-interval", cn, "types.NewFeed", 2, 1, "^call:types.CalculateInterval")
	ci := "x/feeds/types.CalculateInterval"
	r.Gate("zero-below-threshold", ci, RetNotEff(0, "const:0", "!call:builtin.max"), []Cond{{Op: "LSS", A: []string{"^param:power"}, B: []string{"^param:powerStep"}, Want: false, Desc: "not (power < powerStep)"}}, GateOpts{})
	r.Exists("interval-formula", ci, RetValEff(0, "call:builtin.max", "param:maxInterval", "binop:/", "param:minInterval", "param:power", "param:powerStep"), 1)
	gp := fK + "GetSignalTotalPowersByPower"
	r.Exists("reverse-power-order", fK+"SignalTotalPowersByPowerStoreIterator", CallEff("KVStoreReversePrefixIterator", "global:types.SignalTotalPowerByPowerIndexKeyPrefix"), 1)
	r.ArgHas("index-points-to-record", gp, "Keeper.GetSignalTotalPower", 1, 1, "call:Value")
	fe := "x/feeds.EndBlocker"
	r.Gate("recompute-on-interval", fe, CallEff("Keeper.SetCurrentFeeds"), []Cond{{Op: "EQL", A: []string{"binop:%", "call:Context.BlockHeight", "field:Params.CurrentFeedsUpdateInterval"}, B: []string{"const:0"}, Want: true, Desc: "height % CurrentFeedsUpdateInterval == 0"}}, GateOpts{})
	r.ArgHas("stored-feeds-are-recomputed", fe, "Keeper.SetCurrentFeeds", 1, 1, "^call:Keeper.CalculateNewCurrentFeeds")
	r.Callers("callers", fK+"SetCurrentFeeds", []string{fe, fK + "InitGenesis", "x/feeds.InitGenesis"}, []string{fe})

	r.Rule("C07.R6", "store-key agreement: every point read/delete addresses a written key family")
	r.StoreKeyAgreement("store-keys", "feeds", 9, nil)

	// the voter-power bound rests on restake's total-power computation and its unstake / undelegate guards
	r.Include("C16", "C16.R2", "C16.R4", "C16.R8")

	r.Rule("C07.lint", "E8 module lint: no nondeterminism / process-local state in x/feeds")
	r.ModuleLint("module-lint", "feeds", 20)

	r.Rule("C07.iter", "E14 store-iterator loops run to exhaustion")
	r.IteratorLoopCensus("iter", []string{"x/feeds/"}, map[string]string{"x/feeds/keeper.Keeper.GetSignalTotalPowersByPower": "stops after `limit` entries of the descending by-power index: the top-N signals"}, 3)

	return propMeta{
		Decided: []string{
			"R1 the power handed to restake.SetLockedPower is accumulated in sdkmath.Int from each signal's power, with no native-width + or * on message-supplied powers nor through any callee that accumulates in native width (e.g. types.SumPower); the lock is attempted on every path and its error propagates; each power > 0 and signal ids are unique",
			"R2 the vote is replaced only after LockVoterPower succeeded, for the same voter and the same signals; restake.SetLockedPower writes only past IsUint64, !(totalPower < power), vault active",
			"R3 diffs are applied in sorted key order (collect + sort.Strings), new total = stored total + diff, negative totals rejected; the diff map subtracts the old vote and adds the new one",
			"R4 SetSignalTotalPower deletes the index entry built from the STORED record before any new entry is written, writes record and index from one value, removes the record at power 0; total-power store and index have single writers",
			"R5 current feeds: top MaxCurrentFeeds of the reverse by-power index, kept only when CalculateInterval > 0 (power >= threshold), recomputed every CurrentFeedsUpdateInterval blocks",
			"R6 every KV-store Get/Has/Delete of x/feeds uses a key builder of x/feeds/types that some Set of the module also uses (a probe of an iteration prefix or of a sibling family is always-empty state)",
			"lint: the determinism lint (incl. writes to memory held by long-lived objects) over everything reachable from the handlers and blockers of x/feeds",
			"iter: every KV-store iterator loop of the module's keeper runs until the iterator is exhausted (header is the bare Valid() test, no other way out but panic / error return), except reviewed early stops",
		},
		Undecided: []string{"drift of totals over re-vote histories (history arithmetic)", "CalculateInterval numerics", "power lost after voting through paths restake does not guard (slashing)"},
		Assume:    []string{"msg handlers atomic", "sdkmath.Int exact"},
	}
}
