package main

import (
	"fmt"
	"go/token"
	"sort"
	"strings"

	"golang.org/x/tools/go/ssa"
)

// E17 error-return census for begin/end-block roots. An error RETURNED by a module's BeginBlock / EndBlock makes
// FinalizeBlock fail on every node: it halts the chain exactly like a panic. The census follows the error value of each
// root return backwards - through phis, named results, `if err != nil { return err }` propagation and into repo callees -
// to its ORIGINS: a fresh error (errors.New, fmt.Errorf, a registered Err… variable, possibly wrapped) or the error
// result of a call that leaves the repo (bank, staking, distribution, codec …). Every origin must be in the reviewed
// table, one line of reason each; a new way for block execution to fail is reported with its call path.

type errOrigin struct {
	Fn   string // function containing the origin
	What string // "fresh:<ctor or global>" | "external:<callee>"
	Pos  string
	Path []string
}

type errAllow struct {
	Fn, What, Why string
}

type errTracer struct {
	w      *World
	memo   map[*ssa.Function][]errOrigin
	active map[*ssa.Function]bool
}

func isFreshErrCtor(name string) bool {
	switch name {
	case "errors.New", "fmt.Errorf", "cosmossdk.io/errors.Wrap", "cosmossdk.io/errors.Wrapf", "cosmossdk.io/errors.Register", "cosmossdk.io/errors.New":
		return true
	}
	return strings.HasSuffix(name, "errors.Error.Wrap") || strings.HasSuffix(name, "errors.Error.Wrapf")
}

func (t *errTracer) originsOfFn(fn *ssa.Function, path []string) []errOrigin {
	if o, ok := t.memo[fn]; ok {
		return o
	}
	if t.active[fn] {
		return nil
	}
	t.active[fn] = true
	defer delete(t.active, fn)
	t.w.FuncsAnalysed[fn] = true
	ei := errResultIndex(fn)
	var out []errOrigin
	if ei >= 0 {
		p := append(append([]string{}, path...), FuncKey(fn))
		for _, b := range fn.Blocks {
			if b == fn.Recover {
				continue
			}
			rt := returnOf(b)
			if rt == nil {
				continue
			}
			out = append(out, t.originsOfVal(fn, retValue(rt, ei), p, map[ssa.Value]bool{})...)
		}
	}
	// dedupe
	seen := map[string]bool{}
	var ded []errOrigin
	for _, o := range out {
		k := o.Fn + "|" + o.What
		if !seen[k] {
			seen[k] = true
			ded = append(ded, o)
		}
	}
	t.memo[fn] = ded
	return ded
}

func (t *errTracer) originsOfVal(fn *ssa.Function, v ssa.Value, path []string, seen map[ssa.Value]bool) []errOrigin {
	w := t.w
	if v == nil || seen[v] {
		return nil
	}
	seen[v] = true
	here := func(what string, pos token.Pos) []errOrigin {
		return []errOrigin{{FuncKey(fn), what, w.posOr(pos, fn), path}}
	}
	switch x := v.(type) {
	case *ssa.Const:
		return nil
	case *ssa.Phi:
		var out []errOrigin
		for _, e := range x.Edges {
			out = append(out, t.originsOfVal(fn, e, path, seen)...)
		}
		return out
	case *ssa.Extract:
		return t.originsOfVal(fn, x.Tuple, path, seen)
	case *ssa.MakeInterface:
		return t.originsOfVal(fn, x.X, path, seen)
	case *ssa.ChangeInterface:
		return t.originsOfVal(fn, x.X, path, seen)
	case *ssa.TypeAssert:
		return t.originsOfVal(fn, x.X, path, seen)
	case *ssa.UnOp:
		if x.Op == token.MUL {
			switch a := x.X.(type) {
			case *ssa.Global:
				return here("fresh:"+relPkg(a.Pkg.Pkg.Path())+"."+a.Name(), x.Pos())
			case *ssa.Alloc:
				vals, _ := storesTo(a)
				var out []errOrigin
				for _, sv := range vals {
					out = append(out, t.originsOfVal(fn, sv, path, seen)...)
				}
				return out
			case *ssa.FreeVar:
				return here("captured:"+frozenFreeVarName(a), x.Pos())
			}
		}
		return here("unknown:"+clip(Render(v).String(), 60), x.Pos())
	case *ssa.Call:
		name := CalleeName(&x.Call)
		if isFreshErrCtor(name) {
			// name the wrapped registered error if there is one
			what := "fresh:" + lastName(name)
			if rv := recvValue(&x.Call); rv != nil {
				for a := range Render(rv).Atoms() {
					if strings.HasPrefix(a, "global:") {
						what = "fresh:" + strings.TrimPrefix(a, "global:")
					}
				}
			} else if len(x.Call.Args) > 0 && (strings.HasSuffix(name, ".Wrap") || strings.HasSuffix(name, ".Wrapf")) {
				// errors.Wrap(err, ...) of another error value: follow it
				return t.originsOfVal(fn, x.Call.Args[0], path, seen)
			}
			return here(what, x.Pos())
		}
		if callee := x.Call.StaticCallee(); callee != nil && len(callee.Blocks) > 0 && inRepoScope(callee) && errResultIndex(callee) < 0 {
			// a repo error CONSTRUCTOR (returns a concrete error type, e.g. tss.NewError(err, fmt, ...)): the origin is the
			// error it wraps, or the constructor itself when it wraps none
			var out []errOrigin
			wrapped := false
			for _, a := range x.Call.Args {
				if isErrorType(a.Type()) {
					wrapped = true
					out = append(out, t.originsOfVal(fn, a, path, seen)...)
				}
			}
			if !wrapped {
				return here("fresh:"+name, x.Pos())
			}
			return out
		}
		if callee := x.Call.StaticCallee(); callee != nil && len(callee.Blocks) > 0 && (inRepoScope(callee) || callee.Parent() != nil) {
			var out []errOrigin
			for _, o := range t.originsOfFn(callee, path) {
				// an error that the callee merely passes on (or wraps) from one of its parameters is traced in the caller
				if strings.HasPrefix(o.What, "param#") && o.Fn == FuncKey(callee) {
					var idx int
					fmt.Sscanf(o.What, "param#%d", &idx)
					if idx < len(x.Call.Args) {
						out = append(out, t.originsOfVal(fn, x.Call.Args[idx], path, seen)...)
						continue
					}
				}
				out = append(out, o)
			}
			return out
		}
		if name == "" {
			name = "<dynamic call>"
		}
		return here("external:"+name, x.Pos())
	case *ssa.Parameter:
		for i, p := range fn.Params {
			if p == x {
				return here(fmt.Sprintf("param#%d", i), fn.Pos())
			}
		}
		return here("param:"+frozenParamName(x), fn.Pos())
	}
	return here("unknown:"+clip(Render(v).String(), 60), v.Pos())
}

// ErrorCensus: origins of every error a root can return ⊆ table.
func (r *Report) ErrorCensus(key string, roots []*ssa.Function, table []errAllow, min int) {
	r.ErrorCensusOf(key, roots, table, min, "every origin of an error that a begin/end-block root can return (= chain halt) is a reviewed instance",
		"can reach the return of a begin/end-block root", "FinalizeBlock fails and the chain halts")
}

// ErrorCensusOf: the same census for any set of root functions (e.g. "the only reasons share decryption may fail").
func (r *Report) ErrorCensusOf(key string, roots []*ssa.Function, table []errAllow, min int, d, reach, consequence string) {
	w := r.W
	t := &errTracer{w: w, memo: map[*ssa.Function][]errOrigin{}, active: map[*ssa.Function]bool{}}
	all := map[string]errOrigin{}
	for _, root := range roots {
		for _, o := range t.originsOfFn(root, nil) {
			k := o.Fn + "|" + o.What
			if _, ok := all[k]; !ok {
				all[k] = o
			}
		}
	}
	if len(all) < min {
		r.Unres(key+"|count", d, fmt.Sprintf("%d origins found, expected >= %d", len(all), min))
	}
	allowed := map[string]errAllow{}
	for _, a := range table {
		allowed[a.Fn+"|"+a.What] = a
	}
	keys := make([]string, 0, len(all))
	for k := range all {
		keys = append(keys, k)
	}
	sort.Strings(keys)
	for _, k := range keys {
		o := all[k]
		w.SitesExamined++
		if a, ok := allowed[k]; ok {
			r.OK(key+"|"+k, d, o.Pos, a.Why)
		} else {
			r.Bad(key+"|"+k, d, o.Pos, fmt.Sprintf("%s in %s %s via %s: %s; not in the reviewed table", o.What, o.Fn, reach, strings.Join(o.Path, " -> "), consequence), o.Path...)
		}
	}
	for _, a := range table {
		if _, ok := all[a.Fn+"|"+a.What]; !ok {
			r.Unres(key+"|"+a.Fn+"|"+a.What+"#stale", d, "table entry matches no origin any more (stale table)")
		}
	}
}
