package main

// Behaviour-preserving edits (thorough tier): each is applied through the overlay and must leave the property's check
// SILENT. They are the kinds of edit DESIGN §2.8 promises not to alarm on: renamed locals, added log lines / events,
// flipped but equivalent comparisons (a.GT(b) vs b.LT(a), x == y vs y == x), `if err := f(); err != nil` vs the
// two-statement form, reordered independent statements, an extra unrelated caller of an unrestricted function.

type benign struct {
	ID    string
	Prop  string
	File  string
	Old   string
	New   string
	All   bool // replace every occurrence (renames)
	What  string
	Edits [][2]string // multi-hunk refactor (Old/New unused)
}

var benigns = []benign{
	{"C06-b3", "C06", "x/feeds/keeper/keeper_price.go", "validatorsByPower", "vals", true, "rename a captured local", nil},
	{"C09-b3", "C09", "x/oracle/keeper/owasm.go", "valPowers", "weights", true, "rename a captured local", nil},
	{"C11-b3", "C11", "x/tss/types/content.go", "func wrapHandler(path string, handler Handler) Handler {\n	return func(ctx sdk.Context, req Content) ([]byte, error) {\n		msg, err := handler(ctx, req)", "func wrapHandler(route string, h Handler) Handler {\n	path, handler := route, h\n	return func(ctx sdk.Context, req Content) ([]byte, error) {\n		msg, err := handler(ctx, req)", false, "rename wrapHandler's parameters", nil},
	{"C20-b3", "C20", "grogu/submitter/submitter.go", "signalPrices", "batch", true, "rename a captured local", nil},
	{"C01-b1", "C01", "x/oracle/keeper/msg_server.go", "reportInTime", "inTime", true, "rename a local", nil},
	{"C01-b2", "C01", "x/oracle/keeper/msg_server.go", "if k.GetReportCount(ctx, msg.RequestID) == req.MinCount {", "if req.MinCount == k.GetReportCount(ctx, msg.RequestID) {", false, "swap the operands of ==", nil},
	{"C01-b3", "C01", "x/oracle/keeper/report.go", "	if err := k.CheckValidReport(ctx, rid, val, rawReports); err != nil {\n		return err\n	}", "	err := k.CheckValidReport(ctx, rid, val, rawReports)\n	if err != nil {\n		return err\n	}", false, "two-statement error check", nil},
	{"C01-b4", "C01", "x/oracle/keeper/msg_server.go", "	if msg.RequestID <= k.GetRequestLastExpired(ctx) {", "	if k.GetRequestLastExpired(ctx) >= msg.RequestID {", false, "flip a comparison", nil},
	{"C02-b1", "C02", "x/oracle/abci.go", "	k.ProcessExpiredRequests(ctx)\n", "	k.ProcessExpiredRequests(ctx)\n	ctx.Logger().Debug(\"expired requests processed\")\n", false, "add a log line in end-block", nil},
	{"C02-b2", "C02", "x/feeds/keeper/msg_server.go", "	keys := make([]string, 0, len(signalIDToPowerDiff))\n	for k := range signalIDToPowerDiff {\n		keys = append(keys, k)\n	}", "	ids := make([]string, 0, len(signalIDToPowerDiff))\n	for id := range signalIDToPowerDiff {\n		ids = append(ids, id)\n	}\n	keys := ids", false, "rename the collected-keys slice", nil},
	{"C03-b1", "C03", "x/tss/keeper/msg_server.go", "	if !found || am.Address != req.Signer {", "	if !found || req.Signer != am.Address {", false, "swap the operands of !=", nil},
	{"C03-b2", "C03", "x/tss/keeper/keeper_signing_endblock.go", "	sig, err := tss.CombineSignatures(partialSigs...)", "	sig, err := tss.CombineSignatures(partialSigs...)\n	ctx.Logger().Debug(\"combined\")", false, "add a log line", nil},
	{"C04-b1", "C04", "x/tss/keeper/keeper_group_round1.go", "	if uint64(len(round1Info.CoefficientCommits)) != group.Threshold {", "	if group.Threshold != uint64(len(round1Info.CoefficientCommits)) {", false, "swap the operands of !=", nil},
	{"C04-b2", "C04", "x/tss/keeper/keeper_group_round3.go", "complainantIndex", "slot", true, "rename a local", nil},
	{"C05-b1", "C05", "x/tss/keeper/keeper_de.go", "	if deQueue.Head >= deQueue.Tail {", "	if deQueue.Tail <= deQueue.Head {", false, "flip a comparison", nil},
	{"C05-b2", "C05", "x/tss/keeper/keeper_de.go", "	if total > maxDESize {", "	if maxDESize < total {", false, "flip a comparison", nil},
	{"C06-b1", "C06", "x/feeds/keeper/keeper_price.go", "	if unsupportedPower.MulRaw(2).GT(totalPower) {", "	if totalPower.LT(unsupportedPower.MulRaw(2)) {", false, "a.GT(b) -> b.LT(a)", nil},
	{"C06-b2", "C06", "x/feeds/types/median.go", "cumulativeWeight", "acc", true, "rename a local", nil},
	{"C07-b1", "C07", "x/feeds/keeper/keeper_signal.go", "sumPower", "total", true, "rename a local", nil},
	{"C07-b2", "C07", "x/feeds/keeper/msg_server.go", "		if signalTotalPower.Power < 0 {", "		if 0 > signalTotalPower.Power {", false, "flip a comparison", nil},
	{"C08-b1", "C08", "x/tunnel/keeper/keeper_packet.go", "	k.SetTunnel(ctx, tunnel)\n	k.SetPacket(ctx, packet)", "	k.SetPacket(ctx, packet)\n	k.SetTunnel(ctx, tunnel)", false, "reorder two independent writes", nil},
	{"C08-b2", "C08", "x/tunnel/keeper/keeper_packet.go", "unixNow", "now", true, "rename a local", nil},
	{"C09-b1", "C09", "pkg/bandrng/sampling.go", "luckyNumber", "draw", true, "rename a local", nil},
	{"C09-b2", "C09", "x/oracle/keeper/owasm.go", "	if len(valOperators) < size {", "	if size > len(valOperators) {", false, "flip a comparison", nil},
	{"C10-b1", "C10", "x/tss/keeper/keeper_signing.go", "	if signing.CurrentAttempt > params.MaxSigningAttempt {", "	if params.MaxSigningAttempt < signing.CurrentAttempt {", false, "flip a comparison", nil},
	{"C10-b2", "C10", "x/tss/keeper/msg_server.go", "	if sigCount == uint64(len(assignedMembers)) {", "	if uint64(len(assignedMembers)) == sigCount {", false, "swap the operands of ==", nil},
	{"C11-b1", "C11", "x/bandtss/tss_handler.go", "// tss.Hash([]byte(\"Transition\"))[:4]", "// the transition tag", false, "edit the comment next to a tag constant", nil},
	{"C11-b2", "C11", "x/tss/types/helpers.go", "contentMsg", "content", true, "rename a parameter", nil},
	{"C12-b1", "C12", "client/grpc/oracle/proof/iavl_proof.go", "subtreeVersion", "ver", true, "rename a local", nil},
	{"C12-b2", "C12", "app/keepers/keys.go", "		authtypes.StoreKey,\n		banktypes.StoreKey,", "		banktypes.StoreKey,\n		authtypes.StoreKey,", false, "reorder the store-key arguments (the tree sorts them)", nil},
	{"C13-b1", "C13", "x/oracle/keeper/fee_collector.go", "		if c.Amount.GT(limitAmt) {", "		if limitAmt.LT(c.Amount) {", false, "a.GT(b) -> b.LT(a)", nil},
	{"C13-b2", "C13", "x/bandtss/keeper/keeper_signing.go", "			if fc.Amount.GT(limitAmt) {", "			if limitAmt.LT(fc.Amount) {", false, "a.GT(b) -> b.LT(a)", nil},
	{"C14-b1", "C14", "x/bandtss/keeper/keeper_reward.go", "validMembers", "payees", true, "rename a local", nil},
	{"C14-b2", "C14", "x/oracle/keeper/validator_status.go", "	if totalPower == 0 {", "	if 0 == totalPower {", false, "swap the operands of ==", nil},
	{"C15-b1", "C15", "x/oracle/keeper/validator_status.go", "	if status.IsActive && status.Since.Before(requestTime) {", "	if status.IsActive && requestTime.After(status.Since) {", false, "a.Before(b) -> b.After(a)", nil},
	{"C15-b2", "C15", "x/feeds/keeper/keeper_price.go", "lastBlock", "blockBound", true, "rename a local", nil},
	{"C16-b1", "C16", "x/restake/keeper/keeper_lock.go", "	if totalPower.LT(power) {", "	if power.GT(totalPower) {", false, "a.LT(b) -> b.GT(a)", nil},
	{"C16-b2", "C16", "x/restake/keeper/hooks.go", "removingDelegation", "removed", true, "rename a local", nil},
	{"C17-b1", "C17", "x/tunnel/keeper/msg_server.go", "msg.Creator != tunnel.Creator", "tunnel.Creator != msg.Creator", true, "swap the operands of != in every handler", nil},
	{"C17-b2", "C17", "x/tunnel/keeper/keeper_deposit.go", "	k.SetDeposit(ctx, deposit)\n\n	// update the tunnel's total deposit\n	tunnel.TotalDeposit = tunnel.TotalDeposit.Add(depositAmount...)\n	k.SetTunnel(ctx, tunnel)", "	tunnel.TotalDeposit = tunnel.TotalDeposit.Add(depositAmount...)\n	k.SetTunnel(ctx, tunnel)\n	k.SetDeposit(ctx, deposit)", false, "reorder two independent writes", nil},
	{"C18-b1", "C18", "x/bandtss/keeper/keeper_transition.go", "	if transition.Status != types.TRANSITION_STATUS_WAITING_EXECUTION {", "	if types.TRANSITION_STATUS_WAITING_EXECUTION != transition.Status {", false, "swap the operands of !=", nil},
	{"C18-b2", "C18", "x/bandtss/keeper/keeper_transition.go", "	if !found || transition.ExecTime.After(ctx.BlockTime()) {", "	if !found || ctx.BlockTime().Before(transition.ExecTime) {", false, "a.After(b) -> b.Before(a)", nil},
	{"C19-b1", "C19", "yoda/handler.go", "processingResultCh", "out", true, "rename a parameter", nil},
	{"C19-b2", "C19", "yoda/execute.go", "	if len(preview) > 32 {", "	if 32 < len(preview) {", false, "flip a comparison", nil},
	{"C20-b1", "C20", "grogu/signaller/signaller.go", "thresholdTime", "earliest", true, "rename a local", nil},
	{"C20-b2", "C20", "grogu/signaller/signaller.go", "	if oldPrice.SignalPriceStatus != newPrice.Status {", "	if newPrice.Status != oldPrice.SignalPriceStatus {", false, "swap the operands of !=", nil},
	{"C06-b4", "C06", "x/feeds/keeper/keeper_price.go", "checkHavePrice", "isFreshPrice", true, "rename an anchored private function (recovered by signature)", nil},
	{"C06-b5", "C06", "x/feeds/types/median.go", "\treturn sdkmath.NewInt(32)\n", "\tfactor := sdkmath.NewInt(32)\n\treturn factor\n", false, "constant table returned through a once-defined temporary", nil},
	{"C08-b3", "C08", "x/tunnel/keeper/helper.go", "calculateDeviationBPS", "deviationInBPS", true, "rename an anchored private function (recovered by signature)", nil},
}
