package main

import (
	"fmt"
	"go/constant"
	"go/token"
	"go/types"
	"sort"

	"golang.org/x/tools/go/ssa"
)

// Parameter safety (C02.R6): a governance parameter that consensus code divides by must be validated positive, and one
// that is used as a percentage of a balance must be validated <= 100 — otherwise a value ACCEPTED by parameter
// validation makes begin/end-block panic (division by zero) or fail (transfer larger than the balance).

type paramUse struct {
	Pkg, Field, Kind, Fn, Pos string
}

// paramFieldOf: the `Params.<F>` field a value is loaded from (directly or through conversions), with the package of
// the Params type.
func paramFieldOf(v ssa.Value, depth int) (pkg, field string, ok bool) {
	if v == nil || depth > 8 {
		return
	}
	switch x := v.(type) {
	case *ssa.Convert:
		return paramFieldOf(x.X, depth+1)
	case *ssa.ChangeType:
		return paramFieldOf(x.X, depth+1)
	case *ssa.Field:
		if n := namedOf(x.X.Type()); n != nil && n.Obj().Name() == "Params" && n.Obj().Pkg() != nil {
			st := n.Underlying().(*types.Struct)
			return relPkg(n.Obj().Pkg().Path()), st.Field(x.Field).Name(), true
		}
	case *ssa.UnOp:
		if x.Op == token.MUL {
			if fa, isFA := x.X.(*ssa.FieldAddr); isFA {
				t := fa.X.Type()
				if p, isP := t.Underlying().(*types.Pointer); isP {
					t = p.Elem()
				}
				if n := namedOf(t); n != nil && n.Obj().Name() == "Params" && n.Obj().Pkg() != nil {
					st := n.Underlying().(*types.Struct)
					return relPkg(n.Obj().Pkg().Path()), st.Field(fa.Field).Name(), true
				}
			}
			if a, isA := x.X.(*ssa.Alloc); isA {
				vals, esc := storesTo(a)
				if !esc && len(vals) == 1 {
					return paramFieldOf(vals[0], depth+1)
				}
			}
		}
	}
	return
}

func (w *World) paramUses(roots []*ssa.Function) []paramUse {
	reach := w.ReachableFrom(roots, nil)
	var out []paramUse
	for fn := range reach {
		if len(fn.Blocks) == 0 || !inRepoScope(fn) {
			continue
		}
		fk := FuncKey(fn)
		for _, b := range fn.Blocks {
			for _, in := range b.Instrs {
				switch x := in.(type) {
				case *ssa.BinOp:
					if x.Op != token.QUO && x.Op != token.REM {
						continue
					}
					if bt, ok := x.Type().Underlying().(*types.Basic); !ok || bt.Info()&types.IsInteger == 0 {
						continue
					}
					if p, f, ok := paramFieldOf(x.Y, 0); ok {
						out = append(out, paramUse{p, f, "divisor", fk, w.posOr(x.Pos(), fn)})
					} else if prm, isP := x.Y.(*ssa.Parameter); isP {
						// one level up: the divisor is a function parameter; look at what the callers pass
						idx := -1
						for i, q := range fn.Params {
							if q == prm {
								idx = i
							}
						}
						for _, e := range w.CallersOf(fn) {
							if e.Site == nil || idx < 0 || idx >= len(e.Site.Common().Args) || !inRepoScope(e.Caller) {
								continue
							}
							if p, f, ok := paramFieldOf(e.Site.Common().Args[idx], 0); ok {
								out = append(out, paramUse{p, f, "divisor", fk + " (passed by " + FuncKey(e.Caller) + ")", w.posOr(x.Pos(), fn)})
							}
						}
					}
				case *ssa.Call:
					n := CalleeName(&x.Call)
					if n == "cosmossdk.io/math.LegacyNewDecWithPrec" && len(x.Call.Args) == 2 {
						if c, isC := x.Call.Args[1].(*ssa.Const); isC && constString(c) == "2" {
							if p, f, ok := paramFieldOf(x.Call.Args[0], 0); ok {
								out = append(out, paramUse{p, f, "percentage", fk, w.posOr(x.Pos(), fn)})
							}
						}
					}
				}
			}
		}
	}
	sort.Slice(out, func(i, j int) bool { return out[i].Pkg+out[i].Field+out[i].Fn < out[j].Pkg+out[j].Field+out[j].Fn })
	return out
}

// validatedPositive: Params.Validate of pkg checks field > 0 through the repo's validateXxx(name, true)(p.Field) idiom
// or an explicit comparison.
func (w *World) validatedPositive(pkg, field string) (bool, string) {
	fn := w.Fn(pkg + ".Params.Validate")
	if fn == nil {
		return false, "no Params.Validate in " + pkg
	}
	w.FuncsAnalysed[fn] = true
	if flags, pos, err := w.paramPositivity(pkg); err == nil {
		if b, ok := flags[field]; ok {
			if b {
				return true, pos[field]
			}
			return false, "validated without the positive flag at " + pos[field]
		}
	}
	// explicit comparison: the edge on which p.F <= 0 (or p.F == 0) holds leads only to returns of a non-nil error
	for _, c := range []Cond{
		{Op: "LSS", A: []string{"const:0"}, B: []string{"field:Params." + field}, Want: true},
		{Op: "EQL", A: []string{"field:Params." + field}, B: []string{"const:0"}, Want: false},
	} {
		if ok, where := w.failingEdgeOnlyFails(fn, c); ok {
			return true, where
		}
	}
	return false, "no positivity check of " + field + " in " + pkg + ".Params.Validate"
}

func (w *World) validatedAtMost100(pkg, field string) (bool, string) {
	fn := w.Fn(pkg + ".Params.Validate")
	if fn == nil {
		return false, "no Params.Validate in " + pkg
	}
	c := Cond{Op: "LSS", A: []string{"const:100"}, B: []string{"field:Params." + field}, Want: false}
	// the edge on which field > 100 leads only to returns of a non-nil error
	if ok, where := w.failingEdgeOnlyFails(fn, c); ok {
		return true, where
	}
	return false, "Params.Validate of " + pkg + " accepts " + field + " > 100"
}

// ParamSafety: every parameter used as an integer divisor / percentage in consensus-reachable code is validated.
func (r *Report) ParamSafety(key string, roots []*ssa.Function, minUses int) {
	w := r.W
	uses := w.paramUses(roots)
	d := "a parameter used as an integer divisor in consensus code is validated positive; one used as a percentage of a balance is validated <= 100"
	if len(uses) < minUses {
		r.Unres(key+"|uses", d, fmt.Sprintf("%d parameter uses found, expected >= %d", len(uses), minUses))
	}
	seen := map[string]bool{}
	for _, u := range uses {
		k := fmt.Sprintf("%s|%s|%s.Params.%s", key, u.Kind, u.Pkg, u.Field)
		if seen[k] {
			continue
		}
		seen[k] = true
		var ok bool
		var det string
		if u.Kind == "divisor" {
			ok, det = w.validatedPositive(u.Pkg, u.Field)
		} else {
			ok, det = w.validatedAtMost100(u.Pkg, u.Field)
		}
		what := fmt.Sprintf("%s.Params.%s is used as %s in %s", u.Pkg, u.Field, u.Kind, u.Fn)
		if ok {
			r.OK(k, d, u.Pos, what+"; validated at "+det)
		} else {
			r.Bad(k, d, u.Pos, what+" but "+det+": an accepted parameter value halts block processing")
		}
	}
}

// failingEdgeOnlyFails: some branch of fn is an instance of c, and every path from its failing edge ends in a return
// of a non-nil error or a panic. Branches on a constant condition follow the constant (a helper inlined with a
// literal flag argument).
func (w *World) failingEdgeOnlyFails(fn *ssa.Function, c Cond) (bool, string) {
	for _, ii := range w.ifs(fn) {
		matched, passOnTrue := c.Match(ii.pred)
		if !matched {
			continue
		}
		fail := ii.b.Succs[0]
		if passOnTrue {
			fail = ii.b.Succs[1]
		}
		seen := map[*ssa.BasicBlock]bool{}
		ok := true
		nret := 0
		var walk func(b *ssa.BasicBlock)
		walk = func(b *ssa.BasicBlock) {
			if seen[b] {
				return
			}
			seen[b] = true
			if len(b.Succs) == 0 {
				nret++
				if !returnsNonNilError(b) && !blockPanics(b) {
					ok = false
				}
				return
			}
			if ifi := ifOf(b); ifi != nil && len(b.Succs) == 2 {
				if cv, isConst := ifi.Cond.(*ssa.Const); isConst && cv.Value != nil && cv.Value.Kind() == constant.Bool {
					if constant.BoolVal(cv.Value) {
						walk(b.Succs[0])
					} else {
						walk(b.Succs[1])
					}
					return
				}
			}
			for _, s := range b.Succs {
				walk(s)
			}
		}
		walk(fail)
		if ok && nret > 0 {
			return true, w.Pos(ifOf(ii.b).Cond.Pos())
		}
	}
	return false, ""
}
