package main

import "golang.org/x/tools/go/ssa"

const (
	tK  = "x/tss/keeper.Keeper."
	tMS = "x/tss/keeper.msgServer."
)

func init() { props["C05"] = c05 }

func c05(r *Report) propMeta {
	roots := r.W.ComputeRoots()
	gen := "x/tss/keeper.Keeper.InitGenesis"

	r.Rule("C05.R1", "E2 store ownership + E1 who-may-call")
	r.StoreWriters("de-store", []string{"call:types.DEStoreKey", "global:types.DEStoreKeyPrefix"}, []string{tK + "SetDE", tK + "DeleteDE"}, "x/tss")
	r.StoreWriters("dequeue-store", []string{"call:types.DEQueueStoreKey", "global:types.DEQueueStoreKeyPrefix"}, []string{tK + "SetDEQueue"}, "x/tss")
	r.Callers("callers", tK+"DeleteDE", []string{tK + "DequeueDE", tK + "ResetDE"}, []string{tK + "DequeueDE", tK + "ResetDE"})
	r.Callers("callers", tK+"DequeueDE", []string{tK + "DequeueDEs"}, []string{tK + "DequeueDEs"})
	r.Callers("callers", tK+"DequeueDEs", []string{tK + "AssignMembersForSigning"}, []string{tK + "AssignMembersForSigning"})
	r.Callers("callers", tK+"AssignMembersForSigning", []string{tK + "InitiateNewSigningRound"}, []string{tK + "InitiateNewSigningRound"})
	r.Callers("callers", tK+"SetDE", []string{tK + "EnqueueDEs", gen}, []string{tK + "EnqueueDEs"})
	r.Callers("callers", tK+"SetDEQueue", []string{tK + "EnqueueDEs", tK + "DequeueDE", tK + "ResetDE", gen}, []string{tK + "EnqueueDEs", tK + "DequeueDE", tK + "ResetDE"})
	r.Callers("callers", tK+"EnqueueDEs", []string{tMS + "SubmitDEs"}, []string{tMS + "SubmitDEs"})
	r.Callers("callers", tK+"ResetDE", []string{tMS + "ResetDE"}, []string{tMS + "ResetDE"})

	r.Rule("C05.R2", "E3+E5+E12 head arithmetic")
	dq := tK + "DequeueDE"
	nonEmpty := Cond{Op: "LSS", A: []string{"field:DEQueue.Head"}, B: []string{"field:DEQueue.Tail"}, Want: true, Desc: "Head < Tail (queue not empty)"}
	getOK := Cond{Op: "EQL", A: []string{"call:Keeper.GetDE"}, B: []string{"const:nil"}, Want: true, Desc: "GetDE(head) == nil error"}
	r.Gate("dequeue-guard", dq, CallEff("Keeper.DeleteDE"), []Cond{nonEmpty, getOK}, GateOpts{FailIsError: true})
	r.Gate("dequeue-guard", dq, CallEff("Keeper.SetDEQueue"), []Cond{nonEmpty, getOK}, GateOpts{})
	r.Count("one-delete", dq, []Effect{CallEff("Keeper.DeleteDE")}, "ok", 1, 1)
	r.Count("one-advance", dq, []Effect{CallEff("Keeper.SetDEQueue")}, "ok", 1, 1)
	r.Count("one-head-increment", dq, []Effect{StoreEff("DEQueue.Head", "binop:+", "const:1", "field:DEQueue.Head")}, "ok", 1, 1)
	r.SameValue("head-read-is-head-deleted", dq, ArgRef{"Keeper.GetDE", 2}, ArgRef{"Keeper.DeleteDE", 2})
	r.ArgHas("head-index", dq, "Keeper.GetDE", 2, 1, "field:DEQueue.Head", "call:Keeper.GetDEQueue")
	r.SameValue("same-address", dq, ArgRef{"Keeper.GetDEQueue", 1}, ArgRef{"Keeper.GetDE", 1}, ArgRef{"Keeper.DeleteDE", 1}, ArgRef{"Keeper.SetDEQueue", 1})
	r.Dominated("increment-before-save", dq, StoreEff("DEQueue.Head", "binop:+", "const:1"), CallEff("Keeper.SetDEQueue"))
	r.Dominated("delete-before-increment", dq, CallEff("Keeper.DeleteDE"), StoreEff("DEQueue.Head"))
	r.ArgHas("returns-head-de", dq, "Keeper.SetDEQueue", 2, 1, "call:Keeper.GetDEQueue")
	// DequeueDEs: each selected member dequeued once, error propagates
	r.Gate("dequeues-all-or-error", tK+"DequeueDEs", RetOK(), []Cond{{Op: "EQL", A: []string{"call:Keeper.DequeueDE"}, B: []string{"const:nil"}, Want: true, Desc: "DequeueDE(member) == nil for every member"}}, GateOpts{LoopAll: true, FailIsError: true})
	r.Gate("assign-needs-dequeue", tK+"AssignMembersForSigning", RetOK(), []Cond{{Op: "EQL", A: []string{"call:Keeper.DequeueDEs"}, B: []string{"const:nil"}, Want: true, Desc: "DequeueDEs == nil"}}, GateOpts{FailIsError: true})
	r.SameValue("dequeue-selected", tK+"AssignMembersForSigning", ArgRef{"Keeper.DequeueDEs", 1}, ArgRef{"types.Members.GetIDs", -1})
	r.ArgHas("dequeue-selected", tK+"AssignMembersForSigning", "Keeper.DequeueDEs", 1, 1, "call:Keeper.GetRandomMembers")

	r.Rule("C05.R3", "E6 conditional-commit discipline")
	r.Commit("de-consumption", tK+"DequeueDE", "cache", roots, []string{
		"x/oracle/keeper.Keeper.safeCreateSigning", tK + "HandleSigningEndBlock", "x/bandtss/keeper.TSSCallback.OnGroupCreationCompleted",
		"x/tunnel/keeper.Keeper.ProduceActiveTunnelPacket", "x/bandtss/keeper.Keeper.createSigningRequest"})

	r.Rule("C05.R4", "E3+E4 bound and eligibility")
	r.Gate("max-de-size", tK+"EnqueueDEs", CallEff("Keeper.SetDE"), []Cond{
		{Op: "LSS", A: []string{"field:Params.MaxDESize"}, B: []string{"field:DEQueue.Tail", "field:DEQueue.Head", "binop:-", "binop:+", "binops=+,-", "len", "param:des"}, Want: false, Desc: "not (Tail - Head + len(des) > MaxDESize)"}}, GateOpts{FailIsError: true})
	r.Gate("max-de-size", tK+"EnqueueDEs", CallEff("Keeper.SetDEQueue"), []Cond{
		{Op: "LSS", A: []string{"field:Params.MaxDESize"}, B: []string{"field:DEQueue.Tail", "field:DEQueue.Head", "binop:-", "binop:+", "binops=+,-", "len", "param:des"}, Want: false, Desc: "not (Tail - Head + len(des) > MaxDESize)"}}, GateOpts{})
	r.ArgHas("enqueue-at-tail", tK+"EnqueueDEs", "Keeper.SetDE", 2, 1, "field:DEQueue.Tail", "binop:+")
	r.Exists("tail-advanced", tK+"EnqueueDEs", StoreEff("DEQueue.Tail", "binop:+", "len", "param:des", "field:DEQueue.Tail"), 1)
	r.Dominated("tail-advanced-before-save", tK+"EnqueueDEs", StoreEff("DEQueue.Tail", "binop:+", "len", "param:des"), CallEff("Keeper.SetDEQueue"))
	r.NotAfter("setde-before-tail-advance", tK+"EnqueueDEs", CallEff("Keeper.SetDE"), StoreEff("DEQueue.Tail"))
	r.Gate("eligible-active", tK+"GetAvailableMembers", CallEff("builtin.append"), []Cond{
		{Op: "BOOL", A: []string{"field:Member.IsActive"}, Want: true, Desc: "member.IsActive"},
		{Op: "BOOL", A: []string{"call:Keeper.HasDE", "field:Member.Address"}, Want: true, Desc: "HasDE(member.Address)"}}, GateOpts{})
	r.RetPred("hasde-means-nonempty", tK+"HasDE", 0, Cond{Op: "LSS", A: []string{"^field:DEQueue.Head", "call:Keeper.GetDEQueue", "param:address"}, B: []string{"^field:DEQueue.Tail", "call:Keeper.GetDEQueue", "param:address"}, Want: true, Desc: "Head < Tail"}, 1)
	r.Callers("callers", tK+"GetAvailableMembers", []string{tK + "GetRandomMembers", "x/tss/keeper.queryServer", "x/tss/keeper.Querier"}, []string{tK + "GetRandomMembers"})

	r.Rule("C05.R5", "E3 reset")
	r.Dominated("reset-after-delete-loop", tK+"ResetDE", CallEff("Keeper.GetDEQueue"), CallEff("Keeper.SetDEQueue"))
	r.NotAfter("reset-last", tK+"ResetDE", CallEff("Keeper.DeleteDE"), CallEff("Keeper.SetDEQueue"))
	r.ArgHas("reset-to-zero", tK+"ResetDE", "Keeper.SetDEQueue", 2, 1, "call:types.NewDEQueue", "const:0")
	r.ArgHas("delete-range-from-head", tK+"ResetDE", "Keeper.DeleteDE", 2, 1, "field:DEQueue.Head", "^phi")
	r.Gate("delete-range-to-tail", tK+"ResetDE", CallEff("Keeper.DeleteDE"), []Cond{{Op: "LSS", A: []string{"field:DEQueue.Head"}, B: []string{"field:DEQueue.Tail"}, Want: true, Desc: "i < Tail with i starting at Head"}}, GateOpts{})
	r.Gate("reset-only-after-full-loop", tK+"ResetDE", CallEff("Keeper.SetDEQueue"), []Cond{{Op: "LSS", A: []string{"field:DEQueue.Head"}, B: []string{"field:DEQueue.Tail"}, Want: false, Desc: "loop ran to i >= Tail"}}, GateOpts{})

	r.Rule("C05.R6", "store-key agreement: every point read/delete addresses a written key family")
	r.StoreKeyAgreement("store-keys", "tss", 35, nil)

	r.Rule("C05.R8", "E8 genesis import keeps the registered order of a member's queue")
	r.Lint("genesis-order", []*ssa.Function{r.W.Fn("x/tss/keeper.Keeper.InitGenesis")}, nil, 1)

	r.Rule("C05.R7", "E15 wire fields validated by their own type")
	r.WireFieldsValidated("wire", "x/tss/types", []string{"MsgSubmitDEs"}, 2)

	r.Rule("C05.R10", "genesis export: only queued nonces are exported")
	eg := "x/tss/keeper.Keeper.ExportGenesis"
	r.Exists("exported-des-are-the-queues", eg, StoreEff("GenesisState.DEs", "^call:Keeper.GetDEsGenesis"), 1)
	r.EffectSet("export-reads-no-signing-state", eg, []string{"Keeper.GetSigningAttempt", "Keeper.MustGetSigningAttempt", "Keeper.GetSigning", "Keeper.MustGetSigning", "Keeper.GetSignings", "Keeper.GetPendingProcessSignings", "Keeper.GetSigningExpirations"}, nil)
	r.ArgHas("exported-from-head-to-tail", "x/tss/keeper.Keeper.GetDEsGenesis", "Keeper.GetDE", 2, 1, "field:DEQueue.Head")

	r.Rule("C05.R9", "E20 event agreement: what the cylinder DE / signing workers read is emitted")
	r.EventAgreement("events", 2, "cylinder/workers/de", "cylinder/workers/signing")

	r.Rule("C05.R11", "daemon side: a generated nonce pair is registered exactly once")
	r.NoResliceAfterHandOff("handed-off-batches-not-rewritten", []string{"cylinder/workers/", "cylinder/client."}, 20)

	r.Rule("C05.lint", "E8 module lint: no nondeterminism / process-local state in x/tss")
	r.ModuleLint("module-lint", "tss", 20)

	return propMeta{
		Decided: []string{
			"R1 DE and DEQueue stores written only by SetDE/DeleteDE/SetDEQueue; DeleteDE<-{DequeueDE,ResetDE}; DequeueDE<-DequeueDEs<-AssignMembersForSigning<-InitiateNewSigningRound",
			"R2 DequeueDE: on every success path exactly one DeleteDE(head), one Head+=1 and one SetDEQueue, the deleted index is the index read (no store in between), gated by Head<Tail and GetDE==nil",
			"R3 every call path from a begin/end-block root to DequeueDE crosses a CacheContext whose writeFn is gated by err==nil (5 boundaries); all other paths end at atomic msg roots",
			"R4 EnqueueDEs writes only under not(Tail-Head+len(des) > MaxDESize); members are eligible only if IsActive and HasDE",
			"R5 ResetDE zeroes the queue only after the delete loop over [Head,Tail) completed",
			"R6 every KV-store Get/Has/Delete of x/tss uses a key builder of x/tss/types that some Set of the module also uses (a probe of an iteration prefix or of a sibling family is always-empty state)",
			"R7 both points of every submitted DE reach tss.Point.Validate from MsgSubmitDEs.ValidateBasic",
			"R8 tss InitGenesis rebuilds each member's queue from GenesisState.DEs in list order: no unstable sort (or any other lint hit) in the import path (seed C05-6 sorted the flat list with sort.Slice, which permutes one member's pairs for lists longer than 12)",
			"R11 in the cylinder workers no slice that was handed off (queued on the message channel, passed to a call, stored in a field) is afterwards reset with [:0] over the same array: every queued MsgSubmitDEs keeps the pairs it was built from (seed C05-12: batches of 50 shared one backing array, so some pairs were registered twice and others never)",
			"R9 the (event type, attribute key) pairs the cylinder DE and signing workers read (request_signature.signing_id, pub_d / pub_e of consumed and deleted DEs) are emitted by x/tss: the daemon replaces exactly the nonces the chain consumed",
			"R10 ExportGenesis exports exactly the queued nonces (GetDEsGenesis: Head..Tail of every queue) and reads no signing state: a nonce pair that was already assigned to an attempt is never put back into a queue by export/import (seed C05-7)",
			"lint: the determinism lint (incl. writes to memory held by long-lived objects) over everything reachable from the handlers and blockers of x/tss",
		},
		Undecided: []string{"that the daemon never re-registers the same (D,E) pair (randomness)", "FIFO order as a history property beyond R2's head arithmetic"},
		Assume:    []string{"CacheContext isolates writes until writeFn is called", "msg handlers are atomic (baseapp runTx)", "VTA resolves the bandtss/tss keeper interfaces and callback router"},
	}
}
