package main

import (
	"fmt"
	"go/ast"
	"go/constant"
	"go/token"
	"go/types"
	"golang.org/x/tools/go/ssa"
	"os"
	"reflect"
	"sort"
	"strconv"
	"strings"

	"golang.org/x/tools/go/packages"
)

func init() { props["C12"] = c12 }

// loadDepSyntax parses (without type-checking) dependency packages at the versions /repo's go.mod selects.
func loadDepSyntax(dir string, paths ...string) (map[string]*packages.Package, error) {
	cfg := &packages.Config{Mode: packages.NeedName | packages.NeedFiles | packages.NeedSyntax | packages.NeedCompiledGoFiles, Dir: dir,
		Env: append(os.Environ(), "GOFLAGS=-mod=mod", "GOPROXY=off", "GOSUMDB=off", "GOTOOLCHAIN=local", "GOWORK=off")}
	pkgs, err := packages.Load(cfg, paths...)
	if err != nil {
		return nil, err
	}
	out := map[string]*packages.Package{}
	for _, p := range pkgs {
		if len(p.Errors) > 0 && len(p.Syntax) == 0 {
			return nil, fmt.Errorf("%s: %v", p.PkgPath, p.Errors[0])
		}
		out[p.PkgPath] = p
	}
	return out, nil
}

// merklePath computes, bottom-up, on which side the sibling of leaf `idx` lies at every level of the RFC-6962 tree
// over n leaves ("P" = sibling on the left => it is the Prefix of the ics23 inner op; "S" = on the right => Suffix),
// together with the leaf ranges of the siblings.
func merklePath(n, idx int) (sides []string, ranges [][2]int) {
	var rec func(lo, hi int)
	rec = func(lo, hi int) {
		if hi-lo <= 1 {
			return
		}
		k := 1
		for k*2 < hi-lo {
			k *= 2
		}
		mid := lo + k
		if idx < mid {
			rec(lo, mid)
			sides = append(sides, "S")
			ranges = append(ranges, [2]int{mid, hi})
		} else {
			rec(mid, hi)
			sides = append(sides, "P")
			ranges = append(ranges, [2]int{lo, mid})
		}
	}
	rec(0, n)
	return
}

func c12Multistore(r *Report) {
	w := r.W
	d := "GetMultiStoreProof's positional extraction matches the Merkle path of the oracle store among the KV stores the app mounts"
	p := w.PkgBy["app/keepers"]
	if p == nil {
		r.Unres("multistore", d, "app/keepers not found")
		return
	}
	var names []string
	nonConst := false
	var pos ast.Node
	for _, f := range p.Syntax {
		ast.Inspect(f, func(n ast.Node) bool {
			ce, ok := n.(*ast.CallExpr)
			if !ok {
				return true
			}
			sel, ok := ce.Fun.(*ast.SelectorExpr)
			if !ok || sel.Sel.Name != "NewKVStoreKeys" {
				return true
			}
			pos = ce
			for _, a := range ce.Args {
				tv, ok := p.TypesInfo.Types[a]
				if !ok || tv.Value == nil || tv.Value.Kind() != constant.String {
					nonConst = true
					continue
				}
				names = append(names, constant.StringVal(tv.Value))
			}
			return true
		})
	}
	if pos == nil || nonConst || len(names) < 10 {
		r.Unres("multistore|keys", d, fmt.Sprintf("cannot read the mounted store names as constants (found %d, non-constant=%v)", len(names), nonConst))
		return
	}
	sort.Strings(names)
	for i := 1; i < len(names); i++ {
		if names[i] == names[i-1] {
			r.Bad("multistore|keys", d, w.Pos(pos.Pos()), "store name "+names[i]+" mounted twice")
			return
		}
	}
	idx := sort.SearchStrings(names, "oracle")
	if idx >= len(names) || names[idx] != "oracle" {
		r.Bad("multistore|keys", d, w.Pos(pos.Pos()), "no store named oracle is mounted")
		return
	}
	r.OK("multistore|keys", "the mounted KV store names are compile-time constants", w.Pos(pos.Pos()), fmt.Sprintf("%d stores, oracle at sorted index %d", len(names), idx))
	sides, ranges := merklePath(len(names), idx)

	// what the proof code extracts
	pp := w.PkgBy["client/grpc/oracle/proof"]
	if pp == nil {
		r.Unres("multistore|extract", d, "proof package not found")
		return
	}
	fd := funcDecl(pp, "GetMultiStoreProof")
	if fd == nil {
		r.Unres("multistore|extract", d, "GetMultiStoreProof not found")
		return
	}
	type ext struct {
		field string
		idx   int
		side  string
	}
	var got []ext
	// decided on the resolved values stored into the MultiStoreProof fields (so `p := ep.Path; p[0]…` reads the same)
	if fn := w.Fn("client/grpc/oracle/proof.GetMultiStoreProof"); fn != nil {
		var findIdx func(t *Term) (int, bool)
		findIdx = func(t *Term) (int, bool) {
			if t == nil {
				return 0, false
			}
			if t.Op == "index" && len(t.Args) == 2 && t.Args[0].Has("field:ExistenceProof.Path") && t.Args[1].Op == "const" {
				if n, err := strconv.Atoi(t.Args[1].Name); err == nil {
					return n, true
				}
			}
			for _, a := range t.Args {
				if n, ok := findIdx(a); ok {
					return n, true
				}
			}
			return 0, false
		}
		for _, b := range fn.Blocks {
			for _, in := range b.Instrs {
				st, ok := in.(*ssa.Store)
				if !ok {
					continue
				}
				fa, ok := st.Addr.(*ssa.FieldAddr)
				if !ok || !strings.HasSuffix(fieldName(fa.X.Type(), fa.Field), ".?") && !strings.HasPrefix(fieldName(fa.X.Type(), fa.Field), "MultiStoreProof.") {
					continue
				}
				t := Render(st.Val)
				n, ok := findIdx(t)
				if !ok {
					continue
				}
				side := ""
				switch {
				case t.Has("field:InnerOp.Prefix", "slice:lo"):
					side = "P"
				case t.Has("field:InnerOp.Suffix"):
					side = "S"
				}
				got = append(got, ext{strings.TrimPrefix(fieldName(fa.X.Type(), fa.Field), "MultiStoreProof."), n, side})
			}
		}
	}
	_ = firstCompositeLit
	sort.Slice(got, func(i, j int) bool { return got[i].idx < got[j].idx })
	if len(got) != len(sides) {
		r.Bad("multistore|depth", d, w.Pos(fd.Pos()), fmt.Sprintf("the proof code reads %d path steps but the oracle leaf sits at depth %d among %d stores", len(got), len(sides), len(names)))
		return
	}
	r.OK("multistore|depth", "path depth read by the proof code equals the depth of the oracle leaf", w.Pos(fd.Pos()), fmt.Sprintf("depth %d", len(sides)))
	for i, g := range got {
		k := fmt.Sprintf("multistore|step|%d", i)
		sib := names[ranges[i][0]:ranges[i][1]]
		desc := fmt.Sprintf("step %d: sibling subtree covers [%s .. %s] (%d stores), on the %s", i, sib[0], sib[len(sib)-1], len(sib), map[string]string{"P": "left (Prefix)", "S": "right (Suffix)"}[sides[i]])
		if g.idx != i || g.side != sides[i] {
			r.Bad(k, d, w.Pos(fd.Pos()), fmt.Sprintf("field %s reads Path[%d].%s but %s", g.field, g.idx, g.side, desc))
		} else {
			r.OK(k, d, w.Pos(fd.Pos()), g.field+": "+desc)
		}
		// informational: does the field name still describe the range?
		lo, hi := strings.ToLower(sib[0]), strings.ToLower(sib[len(sib)-1])
		fl := strings.ToLower(g.field)
		if !(strings.Contains(fl, lo[:min(4, len(lo))]) && (len(sib) == 1 || strings.Contains(fl, hi[:min(4, len(hi))]))) {
			r.Note("multistore: field %s now covers stores %s..%s (name is only documentation)", g.field, sib[0], sib[len(sib)-1])
		}
	}
	// the leaf value is the oracle store root, and the proof is requested for the oracle store key
	r.Exists("multistore|leaf-is-value", "client/grpc/oracle/proof.GetMultiStoreProof", RetValEff(0, "field:ExistenceProof.Value"), 1)
}

func min(a, b int) int {
	if a < b {
		return a
	}
	return b
}

// leafField maps an element expression of a HashFromByteSlices list to the header field it encodes.
func leafField(fset *token.FileSet, fd *ast.FuncDecl, recv string, e ast.Expr) string {
	s := exprStringF(fset, e)
	if i := strings.Index(s, recv+"."); i >= 0 {
		f := s[i+len(recv)+1:]
		end := strings.IndexAny(f, ".()[], ")
		if end > 0 {
			f = f[:end]
		}
		return f
	}
	// a local: find its definition
	id, ok := e.(*ast.Ident)
	if !ok {
		return "?" + s
	}
	out := "?" + s
	seen := map[string]bool{}
	var resolve func(name string, depth int) string
	resolve = func(name string, depth int) string {
		if seen[name] || depth > 4 {
			return ""
		}
		seen[name] = true
		res := ""
		ast.Inspect(fd.Body, func(n ast.Node) bool {
			if res != "" {
				return true
			}
			var lhs []ast.Expr
			var rhss []ast.Expr
			switch x := n.(type) {
			case *ast.AssignStmt:
				lhs, rhss = x.Lhs, x.Rhs
			case *ast.ValueSpec: // var ( a = f(x) ... )
				for _, nm := range x.Names {
					lhs = append(lhs, nm)
				}
				rhss = x.Values
			default:
				return true
			}
			for i, l := range lhs {
				li, ok := l.(*ast.Ident)
				if !ok || li.Name != name {
					continue
				}
				var rhs ast.Expr
				if len(rhss) == len(lhs) {
					rhs = rhss[i]
				} else if len(rhss) == 1 {
					rhs = rhss[0]
				}
				if rhs == nil {
					continue
				}
				rs := exprStringF(fset, rhs)
				if j := strings.Index(rs, recv+"."); j >= 0 {
					f := rs[j+len(recv)+1:]
					end := strings.IndexAny(f, ".()[], ")
					if end > 0 {
						f = f[:end]
					}
					res = f
					return false
				}
				// defined from another local
				ast.Inspect(rhs, func(m ast.Node) bool {
					if x, ok := m.(*ast.Ident); ok && res == "" && x.Name != name {
						if v := resolve(x.Name, depth+1); v != "" {
							res = v
						}
					}
					return true
				})
			}
			return true
		})
		return res
	}
	if v := resolve(id.Name, 0); v != "" {
		out = v
	}
	return out
}

func hashLists(fset *token.FileSet, fd *ast.FuncDecl, recv string) [][]string {
	var out [][]string
	ast.Inspect(fd.Body, func(n ast.Node) bool {
		ce, ok := n.(*ast.CallExpr)
		if !ok || len(ce.Args) != 1 {
			return true
		}
		sel, ok := ce.Fun.(*ast.SelectorExpr)
		if !ok || sel.Sel.Name != "HashFromByteSlices" {
			return true
		}
		cl, ok := ce.Args[0].(*ast.CompositeLit)
		if !ok {
			return true
		}
		var fields []string
		for _, e := range cl.Elts {
			fields = append(fields, leafField(fset, fd, recv, e))
		}
		out = append(out, fields)
		return true
	})
	return out
}

// alignedSubtree: [lo,hi) is exactly one node of the RFC-6962 tree over n leaves.
func alignedSubtree(n, lo, hi int) bool {
	var rec func(a, b int) bool
	rec = func(a, b int) bool {
		if a == lo && b == hi {
			return true
		}
		if b-a <= 1 {
			return false
		}
		k := 1
		for k*2 < b-a {
			k *= 2
		}
		if hi <= a+k {
			return rec(a, a+k)
		}
		if lo >= a+k {
			return rec(a+k, b)
		}
		return false
	}
	return rec(0, n)
}

func c12Header(r *Report, deps map[string]*packages.Package) {
	w := r.W
	d := "the header parts partition cometbft's Header.Hash leaf list into aligned subtrees"
	cp := deps["github.com/cometbft/cometbft/types"]
	if cp == nil {
		r.Unres("header|dep", d, "cometbft/types source not available")
		return
	}
	var hfd *ast.FuncDecl
	for _, f := range cp.Syntax {
		for _, dcl := range f.Decls {
			if fd, ok := dcl.(*ast.FuncDecl); ok && fd.Name.Name == "Hash" && fd.Recv != nil && len(fd.Recv.List) == 1 {
				if st, ok := fd.Recv.List[0].Type.(*ast.StarExpr); ok {
					if id, ok := st.X.(*ast.Ident); ok && id.Name == "Header" {
						hfd = fd
					}
				}
			}
		}
	}
	if hfd == nil {
		r.Unres("header|dep", d, "(*Header).Hash not found in cometbft/types")
		return
	}
	recv := hfd.Recv.List[0].Names[0].Name
	ref := hashLists(cp.Fset, hfd, recv)
	if len(ref) != 1 || len(ref[0]) < 10 {
		r.Unres("header|dep", d, fmt.Sprintf("unexpected shape of Header.Hash: %v", ref))
		return
	}
	leaves := ref[0]
	r.OK("header|dep", "cometbft Header.Hash leaf order read from the dependency source", "cometbft/types/block.go", strings.Join(leaves, ","))
	pp := w.PkgBy["client/grpc/oracle/proof"]
	fd := funcDecl(pp, "GetBlockHeaderMerkleParts")
	if fd == nil {
		r.Unres("header|parts", d, "GetBlockHeaderMerkleParts not found")
		return
	}
	parts := hashLists(w.Fset, fd, fd.Type.Params.List[0].Names[0].Name)
	index := func(f string) int {
		for i, l := range leaves {
			if l == f {
				return i
			}
		}
		return -1
	}
	covered := map[int]bool{}
	for gi, g := range parts {
		k := fmt.Sprintf("header|group|%d", gi)
		lo := index(g[0])
		okG := lo >= 0
		for j, f := range g {
			if index(f) != lo+j {
				okG = false
			}
		}
		if !okG {
			r.Bad(k, d, w.Pos(fd.Pos()), fmt.Sprintf("group %v is not a contiguous run of Header.Hash leaves %v", g, leaves))
			continue
		}
		if !alignedSubtree(len(leaves), lo, lo+len(g)) {
			r.Bad(k, d, w.Pos(fd.Pos()), fmt.Sprintf("group %v = leaves [%d,%d) is not a subtree of the %d-leaf tree", g, lo, lo+len(g), len(leaves)))
			continue
		}
		for j := range g {
			covered[lo+j] = true
		}
		r.OK(k, d, w.Pos(fd.Pos()), fmt.Sprintf("%v = leaves [%d,%d)", g, lo, lo+len(g)))
	}
	// the remaining leaves must be exactly Height, Time (sent raw) and AppHash (comes from the multistore proof)
	var rest []string
	for i, l := range leaves {
		if !covered[i] {
			rest = append(rest, l)
		}
	}
	if strings.Join(rest, ",") == "Height,Time,AppHash" {
		r.OK("header|rest", "leaves not hashed into a part are exactly Height, Time (raw) and AppHash (multistore root)", w.Pos(fd.Pos()), strings.Join(rest, ","))
	} else {
		r.Bad("header|rest", "leaves not hashed into a part are exactly Height, Time (raw) and AppHash (multistore root)", w.Pos(fd.Pos()), "uncovered leaves: "+strings.Join(rest, ","))
	}
	if len(parts) != 5 {
		r.Bad("header|count", "five hashed parts", w.Pos(fd.Pos()), fmt.Sprintf("%d parts", len(parts)))
	}
	// raw fields come from the same header
	fn := "client/grpc/oracle/proof.GetBlockHeaderMerkleParts"
	r.Exists("header|raw-height", fn, StoreEff("BlockHeaderMerkleParts.Height", "field:Header.Height", "param:block"), 1)
	r.Exists("header|raw-seconds", fn, StoreEff("BlockHeaderMerkleParts.TimeSecond", "call:Time.Unix", "field:Header.Time"), 1)
	r.Exists("header|raw-nanos", fn, StoreEff("BlockHeaderMerkleParts.TimeNanoSecond", "call:Time.Nanosecond", "field:Header.Time"), 1)
}

// protoFieldNumbers reads `protobuf:"<wire>,<num>,..."` struct tags of a generated message type.
func protoFieldNumbers(p *packages.Package, typ string) map[string][2]string {
	out := map[string][2]string{}
	for _, f := range p.Syntax {
		for _, d := range f.Decls {
			gd, ok := d.(*ast.GenDecl)
			if !ok {
				continue
			}
			for _, s := range gd.Specs {
				ts, ok := s.(*ast.TypeSpec)
				if !ok || ts.Name.Name != typ {
					continue
				}
				st, ok := ts.Type.(*ast.StructType)
				if !ok {
					continue
				}
				for _, fl := range st.Fields.List {
					if fl.Tag == nil || len(fl.Names) == 0 {
						continue
					}
					tag, _ := strconv.Unquote(fl.Tag.Value)
					pb := reflect.StructTag(tag).Get("protobuf")
					parts := strings.Split(pb, ",")
					if len(parts) >= 2 {
						out[fl.Names[0].Name] = [2]string{parts[0], parts[1]}
					}
				}
			}
		}
	}
	return out
}

func c12Vote(r *Report, deps map[string]*packages.Package) {
	w := r.W
	d := "the literal protobuf tag bytes of the canonical vote equal (field number << 3 | 2) of cometbft's CanonicalVote / CanonicalBlockID"
	cp := deps["github.com/cometbft/cometbft/proto/tendermint/types"]
	if cp == nil {
		r.Unres("vote|dep", d, "cometbft proto types source not available")
		return
	}
	vote := protoFieldNumbers(cp, "CanonicalVote")
	bid := protoFieldNumbers(cp, "CanonicalBlockID")
	if len(vote) < 6 || len(bid) < 2 {
		r.Unres("vote|dep", d, fmt.Sprintf("struct tags not found (vote %d, blockid %d)", len(vote), len(bid)))
		return
	}
	tag := func(m map[string][2]string, f string) int64 {
		n, _ := strconv.Atoi(m[f][1])
		wt := int64(2)
		return int64(n)<<3 | wt
	}
	pp := w.PkgBy["client/grpc/oracle/proof"]
	fd := funcDecl(pp, "GetSignaturesAndPrefix")
	if fd == nil {
		r.Unres("vote|fn", d, "GetSignaturesAndPrefix not found")
		return
	}
	// collect []byte{...} literals: constant leading elements
	var lits [][]int64
	ast.Inspect(fd.Body, func(n ast.Node) bool {
		cl, ok := n.(*ast.CompositeLit)
		if !ok {
			return true
		}
		if at, ok := cl.Type.(*ast.ArrayType); !ok || exprString(w, at.Elt) != "byte" {
			return true
		}
		var vals []int64
		for _, e := range cl.Elts {
			if tv, ok := pp.TypesInfo.Types[e]; ok && tv.Value != nil {
				if b := constBig(tv.Value); b != nil {
					vals = append(vals, b.Int64())
					continue
				}
			}
			vals = append(vals, -1)
		}
		lits = append(lits, vals)
		return true
	})
	has := func(first int64, n int) []int64 {
		for _, l := range lits {
			if len(l) == n && l[0] == first {
				return l
			}
		}
		return nil
	}
	check := func(key string, ok bool, what string) {
		if ok {
			r.OK("vote|"+key, d, w.Pos(fd.Pos()), what)
		} else {
			r.Bad("vote|"+key, d, w.Pos(fd.Pos()), what+" — literal missing or different; literals found: "+fmt.Sprint(lits))
		}
	}
	tb, th, tp, tt, tc := tag(vote, "BlockID"), tag(bid, "Hash"), tag(bid, "PartSetHeader"), tag(vote, "Timestamp"), tag(vote, "ChainID")
	l4 := has(tb, 4)
	check("block-id-tag", l4 != nil && l4[2] == th && l4[3] == 32, fmt.Sprintf("prefix continues with {%d (block_id), len, %d (hash), 32}", tb, th))
	check("block-id-len", l4 != nil && l4[1] == 2+32+2+(2+2+32), "block_id length byte is 2+32 + 2+36 = 72 (holds while part-set total < 128)")
	check("part-set-tag", has(tp, 1) != nil, fmt.Sprintf("suffix starts with %d (part_set_header)", tp))
	check("timestamp-tag", has(tt, 2) != nil, fmt.Sprintf("timestamp introduced by %d", tt))
	check("chain-id-tag", has(tc, 2) != nil, fmt.Sprintf("chain id introduced by %d", tc))
	// ordering of fields in CanonicalVote: type(1) height(2) round(3) block_id(4) timestamp(5) chain_id(6)
	ok := vote["Type"][1] == "1" && vote["Height"][1] == "2" && vote["Round"][1] == "3" && vote["BlockID"][1] == "4" && vote["Timestamp"][1] == "5" && vote["ChainID"][1] == "6"
	check("field-order", ok, "CanonicalVote fields are numbered type=1,height=2,round=3,block_id=4,timestamp=5,chain_id=6 (the order the bytes are concatenated in)")
	fn := "client/grpc/oracle/proof.GetSignaturesAndPrefix"
	r.Gate("only-commit-votes", fn, CallEff("proof.recoverETHAddress"), []Cond{{Op: "EQL", A: []string{"field:CommitSig.BlockIDFlag"}, B: []string{"const:2"}, Want: true, Desc: "vote.BlockIDFlag == BlockIDFlagCommit"}}, GateOpts{})
	r.ArgHas("recover-against-validator", fn, "proof.recoverETHAddress", 2, 1, "field:CommitSig.ValidatorAddress")
	r.ArgHas("recover-signature", fn, "proof.recoverETHAddress", 1, 1, "field:CommitSig.Signature")
	r.Gate("signer-must-match", "client/grpc/oracle/proof.recoverETHAddress", RetOK(), []Cond{{Op: "EQL", A: []string{"param:signer"}, B: []string{"call:PubKey.Address"}, Want: true, Desc: "recovered key's address == vote's validator address"}}, GateOpts{})
	r.Exists("signatures-sorted-by-address", fn, CallEff("sort.Strings"), 1)
}

func c12(r *Report) propMeta {
	r.Rule("C12.R1", "E9 multistore layout recomputed from the mounted store keys")
	c12Multistore(r)
	deps, err := loadDepSyntax(r.W.RepoDir, "github.com/cometbft/cometbft/types", "github.com/cometbft/cometbft/proto/tendermint/types")
	r.Rule("C12.R2", "E9 header partition against cometbft's Header.Hash source")
	if err != nil {
		r.Unres("deps", "dependency sources load", err.Error())
	} else {
		c12Header(r, deps)
		r.Rule("C12.R3", "E9 canonical-vote tag bytes against cometbft's generated struct tags")
		c12Vote(r, deps)
	}
	// proto3 canonical encoding of the vote timestamp: a zero seconds / nanos field is OMITTED (seed C12-14 always wrote
	// both: a precommit stamped on a whole second then rebuilds to other sign-bytes and no signer is recovered)
	et := "client/grpc/oracle/proof.encodeTime"
	r.Gate("seconds-field-omitted-when-zero", et, CallEff("proof.encodeUvarint", "call:Time.Unix"), []Cond{{Op: "EQL", A: []string{"call:Time.Unix"}, B: []string{"const:0"}, Want: false, Desc: "seconds != 0"}}, GateOpts{})
	r.Gate("nanos-field-omitted-when-zero", et, CallEff("proof.encodeUvarint", "call:Time.Nanosecond"), []Cond{{Op: "EQL", A: []string{"call:Time.Nanosecond"}, B: []string{"const:0"}, Want: false, Desc: "nanos != 0"}}, GateOpts{})
	r.Rule("C12.R4", "E12 proof assembly")
	svc := "client/grpc/oracle/proof.proofServer.Proof"
	r.Exists("proof-for-oracle-store", svc, CallEff("proof.GetMultiStoreProof"), 1)
	r.Exists("iavl-path-of-result-key", svc, CallEff("types.ResultStoreKey"), 1)
	// every part of the block proof is computed from the commit fetched by THIS call, never merged with a value from
	// elsewhere (seed C12-12: a cache keyed by the requested height 0 = "latest" served an older block's header parts
	// and signatures next to a fresh store proof)
	for _, h := range []string{"Proof", "MultiProof", "RequestCountProof"} {
		f := "client/grpc/oracle/proof.proofServer." + h
		r.AllStoresHave("header-parts-of-this-commit", f, "BlockRelayProof.BlockHeaderMerkleParts", "^call:proof.GetBlockHeaderMerkleParts", "call:CometRPC.Commit")
		r.AllStoresHave("signatures-of-this-commit", f, "BlockRelayProof.Signatures", "^~call:proof.GetSignaturesAndPrefix", "call:CometRPC.Commit")
		r.AllStoresHave("vote-part-of-this-commit", f, "BlockRelayProof.CommonEncodedVotePart", "^~call:proof.GetSignaturesAndPrefix", "call:CometRPC.Commit")
		r.AllStoresHave("store-proof-of-this-query", f, "BlockRelayProof.MultiStoreProof", "^call:proof.GetMultiStoreProof", "call:proof.getProofsByKey")
	}
	// ... and the service keeps no state between calls: a proof is a function of the node's answers to THIS call's queries
	var svcRoots []*ssa.Function
	for _, h := range []string{"Proof", "MultiProof", "RequestCountProof"} {
		if f := r.W.Fn("client/grpc/oracle/proof.proofServer." + h); f != nil {
			svcRoots = append(svcRoots, f)
		}
	}
	r.Lint("service-keeps-no-state", svcRoots, c02LintAllow, 10)
	// MultiProof proves EVERY requested id or fails: no iteration of its loop gets around the per-id proof (seed C12-11
	// skipped ids without a result - and with them the iteration that installs the multistore proof)
	r.LoopAlwaysCalls("every-requested-id-is-proved", "client/grpc/oracle/proof.proofServer.MultiProof", "proof.GetMerklePaths", Cond{})
	r.Rule("C12.R6", "E19 the ABI mirror of the result copies like to like")
	pp := "client/grpc/oracle/proof."
	r.SameNameFields("header-parts-mirror", pp+"BlockHeaderMerkleParts.encodeToEthFormat", "BlockHeaderMerklePartsEthereum", "client/grpc/oracle/proof.BlockHeaderMerkleParts", nil, 8)
	r.SameNameFields("iavl-path-mirror", pp+"IAVLMerklePath.encodeToEthFormat", "IAVLMerklePathEthereum", "client/grpc/oracle/proof.IAVLMerklePath", nil, 5)
	r.SameNameFields("multistore-mirror", pp+"MultiStoreProof.encodeToEthFormat", "MultiStoreProofEthereum", "client/grpc/oracle/proof.MultiStoreProof", nil, 5)
	r.SameNameFields("vote-part-mirror", pp+"CommonEncodedVotePart.encodeToEthFormat", "CommonEncodedVotePartEthereum", "client/grpc/oracle/proof.CommonEncodedVotePart", nil, 2)
	r.SameNameFields("signature-mirror", pp+"TMSignature.encodeToEthFormat", "TMSignatureEthereum", "client/grpc/oracle/proof.TMSignature", nil, 4)
	r.SameNameFields("result-mirror", "client/grpc/oracle/proof.transformResult", "ResultEthereum", "x/oracle/types.Result", map[string]string{"Params": "Calldata"}, 11)

	r.Rule("C12.R5", "IAVL node header parsing: chained varint offsets")
	r.VarintChainPkg("node-header", "client/grpc/oracle/proof.", 3)
	gm := "client/grpc/oracle/proof.GetMerklePaths"
	r.CondExists("side-by-prefix-length", gm, Cond{Op: "EQL", A: []string{"binop:+", "const:1", "call:binary.Varint"}, B: []string{"len", "field:InnerOp.Prefix"}, Want: false}, 1)
	r.Exists("fields-in-order", gm, StoreEff("IAVLMerklePath.SubtreeHeight", "call:binary.Varint", "!slice"), 1)
	c12Sibling(r, gm)
	r.Rule("C12.R7", "every proven result is decoded into a fresh value")
	r.AnyOf("result-decoded-fresh", "the proof service decodes a stored result with the codec (which resets its target), OR into a variable declared inside the per-request loop", map[string]func(*Report){
		"codec-resets": func(s *Report) {
			s.Exists("decode-with-codec", "client/grpc/oracle/proof.proofServer.MultiProof", CallEff("MustUnmarshal"), 1)
			s.EffectSet("no-raw-unmarshal", "client/grpc/oracle/proof.proofServer.MultiProof", []string{"types.Result.Unmarshal"}, nil)
		},
		"fresh-variable-per-request": func(s *Report) {
			c12FreshPerIteration(s, "client/grpc/oracle/proof.proofServer.MultiProof", "Result")
		},
	})

	return propMeta{
		Decided: []string{
			"R1 the Merkle path of the `oracle` leaf among the constant store names passed to NewKVStoreKeys (sorted, RFC-6962 split) has exactly the depth and left/right pattern GetMultiStoreProof hard-codes (Path[i].Prefix[1:] vs .Suffix), recomputed on every run: adding/removing/renaming a store that moves the leaf fails the check",
			"R2 the five hashed header parts are contiguous, tree-aligned runs of cometbft Header.Hash's leaf list (read from the dependency source) and the uncovered leaves are exactly Height, Time, AppHash",
			"R6 transformResult fills each of the eleven fields of the ABI-encoded result from the field of the same name of the stored oracle result (Params from Calldata) and from no other field: the bridge re-encodes these fields to rebuild the leaf (seed C12-5 took AnsCount from AskCount)", "R5 (sibling bytes) the sibling hash is taken from the Suffix without its LEADING length marker (Suffix[1:]) when the proven node is the left child, and from the Prefix after the node header and child marker without its TRAILING marker (Prefix[n+1:len-1]) when it is the right child - whether written inline or in a private helper (seed C12-3 trimmed the wrong end of the suffix)", "R5 IAVL node headers are parsed as a chain of varints (height, size, version), the k-th starting at the sum of all previous lengths; side decided by comparing the header length + 1 with the prefix length", "R3 the literal bytes 34,10,18,42,50 equal (field<<3|2) for the field numbers in cometbft's CanonicalVote/CanonicalBlockID struct tags; 32 and 72 follow from the fixed sizes; only BlockIDFlagCommit votes are used and the recovered address must equal the vote's validator address",
			"R7 (disjunctive) MultiProof decodes each stored result with the codec's MustUnmarshal (resets the target) or into a variable allocated inside the per-request loop: absent wire fields of one result never inherit the previous request's values (seed C12-8 gave up both)",
		},
		Undecided: []string{"IAVL proof values over all tree shapes beyond the varint-offset chain", "signature recovery itself", "one-byte length prefixes holding for long chain ids / part-set totals >= 128"},
		Assume:    []string{"rootmulti commits exactly the mounted IAVL KV stores (transient and memory stores are excluded)", "cometbft source in the module cache is what the node runs"},
	}
}

// c12Sibling: the two stores to IAVLMerklePath.SiblingHash have the two shapes the IAVL inner-node preimage dictates:
//
//	inner = header || 0x20 || left || 0x20 || right ; proven node left  => Prefix = header||0x20, Suffix = 0x20||right
//	                                                   proven node right => Prefix = header||0x20||left||0x20, Suffix = ""
func c12Sibling(r *Report, gm string) {
	w := r.W
	fn := w.Fn(gm)
	d := "GetMerklePaths takes the sibling hash from Suffix[1:] (left child) or Prefix[header+1 : len-1] (right child)"
	if fn == nil {
		r.Unres("sibling|fn", d, "function not found")
		return
	}
	sites := w.Sites(fn, StoreEff("IAVLMerklePath.SiblingHash"))
	if len(sites) != 2 {
		r.Unres("sibling|count", d, fmt.Sprintf("%d stores to SiblingHash, expected 2", len(sites)))
		return
	}
	var fromSuffix, fromPrefix bool
	for _, s := range sites {
		st := s.Instr.(*ssa.Store)
		t := Render(st.Val)
		w.SitesExamined++
		switch {
		case t.Has("field:InnerOp.Suffix") && !t.Has("field:InnerOp.Prefix"):
			// exactly: drop the first byte, keep the rest
			if t.Has("^slice:lo", "const:1", "!binop:-") {
				fromSuffix = true
				r.OK("sibling|suffix", d, w.Pos(st.Pos()), "Suffix[1:]")
			} else {
				r.Bad("sibling|suffix", d, w.Pos(st.Pos()), "the sibling taken from the Suffix is "+clip(t.String(), 200)+": the 0x20 marker is the FIRST byte of the suffix")
				fromSuffix = true
			}
		case t.Has("field:InnerOp.Prefix") && !t.Has("field:InnerOp.Suffix"):
			// starts after header+marker (a sum of the varint lengths plus one), ends one byte before the end
			okLo := t.Has("call:binary.Varint", "binop:+", "const:1")
			okHi := t.Has("binop:-", "len") && (t.Has("^slice:lohi") || t.Has("^slice:hi"))
			if okLo && okHi {
				fromPrefix = true
				r.OK("sibling|prefix", d, w.Pos(st.Pos()), "Prefix[header+1 : len-1]")
			} else {
				r.Bad("sibling|prefix", d, w.Pos(st.Pos()), "the sibling taken from the Prefix is "+clip(t.String(), 200))
				fromPrefix = true
			}
		default:
			r.Bad("sibling|source", d, w.Pos(st.Pos()), "a sibling hash that comes from neither Prefix nor Suffix alone: "+clip(t.String(), 160))
		}
	}
	if !fromSuffix || !fromPrefix {
		r.Unres("sibling|both", d, "expected one store from the Suffix and one from the Prefix")
	}
}

// c12FreshPerIteration: the local of the given type that fn decodes into is allocated inside a loop (a fresh value per
// iteration), not once before it.
func c12FreshPerIteration(r *Report, fnKey, typeName string) {
	w := r.W
	fn := w.Fn(fnKey)
	d := "the " + typeName + " value " + fnKey + " decodes into is allocated inside the per-request loop"
	if fn == nil {
		r.Unres("fresh|"+fnKey, d, "function not found")
		return
	}
	loops := naturalLoops(fn)
	found := false
	for _, b := range fn.Blocks {
		for _, in := range b.Instrs {
			a, ok := in.(*ssa.Alloc)
			if !ok || typeName != typeNameOf(a.Type()) {
				continue
			}
			found = true
			inLoop := false
			for _, l := range loops {
				if l[b] {
					inLoop = true
				}
			}
			if !inLoop {
				r.Bad("fresh|"+fnKey, d, w.posOr(a.Pos(), fn), "allocated once, outside every loop")
				return
			}
		}
	}
	if !found {
		r.Unres("fresh|"+fnKey, d, "no local of type "+typeName)
		return
	}
	r.OK("fresh|"+fnKey, d, w.FnPos(fn), "allocated per iteration")
}

func typeNameOf(t types.Type) string {
	if p, ok := t.Underlying().(*types.Pointer); ok {
		t = p.Elem()
	}
	return typeName(t)
}
