package main

import (
	"fmt"
	"go/ast"
	"math/big"
)

const (
	fK  = "x/feeds/keeper.Keeper."
	fMS = "x/feeds/keeper.msgServer."
)

func init() { props["C06"] = c06 }

// intListOf: the constants c_i of a function whose body is `return [N]T{sdkmath.NewInt(c_0), ...}`.
func intListOf(r *Report, pkgRel, fn string) ([]*big.Int, ast.Node) {
	p := r.W.PkgBy[pkgRel]
	if p == nil {
		return nil, nil
	}
	fd := funcDecl(p, fn)
	if fd == nil {
		return nil, nil
	}
	ret := singleReturnExpr(p.TypesInfo, fd)
	if ret == nil {
		return nil, nil
	}
	var out []*big.Int
	switch e := ret.(type) {
	case *ast.CompositeLit:
		for _, el := range e.Elts {
			ce, ok := el.(*ast.CallExpr)
			if !ok || len(ce.Args) != 1 {
				return nil, nil
			}
			tv, ok := p.TypesInfo.Types[ce.Args[0]]
			if !ok || tv.Value == nil {
				return nil, nil
			}
			out = append(out, constBig(tv.Value))
		}
	case *ast.CallExpr:
		if len(e.Args) != 1 {
			return nil, nil
		}
		tv, ok := p.TypesInfo.Types[e.Args[0]]
		if !ok || tv.Value == nil {
			return nil, nil
		}
		out = append(out, constBig(tv.Value))
	}
	return out, fd
}

func c06(r *Report) propMeta {
	w := r.W
	ft := "x/feeds/types"
	cp := fK + "CalculatePrice"
	total := []string{"^extract:0", "call:types.CalculatePricesPowers"}
	avail2 := []string{"call:Int.MulRaw", "const:2", "extract:1", "call:types.CalculatePricesPowers"}
	unsup2 := []string{"call:Int.MulRaw", "const:2", "extract:3", "call:types.CalculatePricesPowers"}
	cUnsup := Cond{Op: "LSS", A: total, B: unsup2, Desc: "unsupportedPower*2 > totalPower"}
	cQuorum := Cond{Op: "LSS", A: total, B: []string{"^param:powerQuorum"}, Desc: "totalPower < powerQuorum"}
	cAvail := Cond{Op: "LSS", A: avail2, B: total, Desc: "availablePower*2 < totalPower"}
	cNone := Cond{Op: "BOOL", A: []string{"^call:Int.IsPositive", "extract:1", "call:types.CalculatePricesPowers"}, Desc: "availablePower > 0"}
	want := func(c Cond, v bool) Cond { c.Want = v; return c }
	stUnknown := w.ConstAtom(ft, "PRICE_STATUS_UNKNOWN_SIGNAL_ID")
	stNotReady := w.ConstAtom(ft, "PRICE_STATUS_NOT_READY")
	stAvail := w.ConstAtom(ft, "PRICE_STATUS_AVAILABLE")

	r.Rule("C06.R1", "E4 status decision table")
	r.Gate("unknown-iff-majority-unsupported", cp, RetValEff(0, "call:types.NewPrice", stUnknown), []Cond{want(cUnsup, true)}, GateOpts{})
	r.GateAny("not-ready-iff-below-quorum-or-minority-available", cp, RetValEff(0, "call:types.NewPrice", stNotReady), []Cond{want(cQuorum, true), want(cNone, false), want(cAvail, true)}, 1)
	r.Gate("not-ready-not-unknown", cp, RetValEff(0, "call:types.NewPrice", stNotReady), []Cond{want(cUnsup, false)}, GateOpts{})
	r.Gate("available-iff-quorum-and-half-available", cp, RetValEff(0, "call:types.NewPrice", stAvail), []Cond{want(cUnsup, false), want(cQuorum, false), want(cNone, true), want(cAvail, false), nilErrOf("types.MedianValidatorPriceInfos")}, GateOpts{FailIsError: false})
	r.Count("three-status-exits", cp, []Effect{CallEff("types.NewPrice")}, "ok", 1, 1)
	r.CondCount("exactly-five-branches", cp, 5) // majority-unsupported, below-quorum, no-available-power (F4 fix), minority-available, median error
	r.Exists("available-carries-median", cp, RetValEff(0, "call:types.NewPrice", stAvail, "call:types.MedianValidatorPriceInfos"), 1)
	r.ArgHas("median-of-the-same-infos", cp, "types.MedianValidatorPriceInfos", 0, 1, "^param:validatorPriceInfos")
	r.ArgHas("powers-of-the-same-infos", cp, "types.CalculatePricesPowers", 0, 1, "^param:validatorPriceInfos")
	cps := fK + "CalculatePrices"
	r.ArgHas("quorum-is-bonded-times-param", cps, "Keeper.CalculatePrice", 3, 1, "^call:LegacyDec.TruncateInt", "call:LegacyDec.Mul", "call:StakingKeeper.TotalBondedTokens", "field:Params.PriceQuorum")
	r.ArgHas("price-of-feed", cps, "Keeper.CalculatePrice", 1, 1, "field:CurrentFeeds.Feeds", "call:Keeper.GetCurrentFeeds")
	r.ArgHas("stored-price-is-calculated", cps, "Keeper.SetPrice", 1, 1, "^~call:Keeper.CalculatePrice") // THE result of CalculatePrice, not a merge with a price from elsewhere (seed C06-11: a "reuse the last price" fast path)
	pw := "x/feeds/types.CalculatePricesPowers"
	r.StatusSums("power-sums", pw, ft)

	r.Rule("C06.R2", "E12 the published price is a selection of a fresh AVAILABLE input")
	mw := "x/feeds/types.MedianWeightedPrice"
	r.Gate("median-returns-an-input-price", mw, RetOK(), []Cond{{Op: "LSS", A: []string{"call:Int.MulRaw", "const:2", "field:WeightedPrice.Weight"}, B: []string{"field:WeightedPrice.Weight"}, Want: false, Desc: "cumulativeWeight*2 >= totalWeight"}}, GateOpts{})
	r.RetOKHas("median-returns-an-input-price", mw, 0, "^field:WeightedPrice.Price", "param:weightedPrices")
	r.NoWriteThroughFields("median-does-not-edit-prices", mw, "WeightedPrice.Price", "WeightedPrice.Weight")
	mv := "x/feeds/types.MedianValidatorPriceInfos"
	isAvail := Cond{Op: "EQL", A: []string{"field:ValidatorPriceInfo.SignalPriceStatus"}, B: []string{w.ConstAtom(ft, "SIGNAL_PRICE_STATUS_AVAILABLE")}, Want: true, Desc: "priceInfo.SignalPriceStatus == AVAILABLE"}
	r.Gate("only-available-prices-enter", mv, CallEff("builtin.append", "param:validatorPriceInfos", "!call:types.NewWeightedPrice"), []Cond{isAvail}, GateOpts{})
	r.Gate("section-capacity-from-available-power-only", mv, CallEff("Int.Add", "field:ValidatorPriceInfo.Power", "param:validatorPriceInfos", "!call:Int.Mul", "!call:Int.Sub"), []Cond{isAvail}, GateOpts{})
	r.ArgHas("weighted-price-is-input-price", mv, "types.NewWeightedPrice", 1, 1, "^field:ValidatorPriceInfo.Price")
	// the section arithmetic is exact: powers are scaled UP by the scaling factor (one multiplication per entry) and no
	// truncating division appears in the weighting (seed C06-14 scaled the section limits DOWN with Quo instead, which
	// rounds the 1/32 .. 15/32 boundaries whenever the total power is not a multiple of 32)
	r.Exists("power-scaled-up-by-the-factor", mv, CallEff("Int.Mul", "call:types.getPowerScalingFactor", "field:ValidatorPriceInfo.Power"), 1)
	r.EffectSet("no-truncating-division-in-the-weighting", mv, []string{"Int.Quo", "Int.QuoRaw", "LegacyDec.Quo", "LegacyDec.QuoTruncate", "LegacyDec.TruncateInt", "LegacyDec.RoundInt"}, nil)
	r.ArgHas("median-of-weighted", mv, "types.MedianWeightedPrice", 0, 1, "call:types.NewWeightedPrice")
	r.ctorField("weighted-ctor", "x/feeds/types.NewWeightedPrice", "WeightedPrice.Price", 1)
	r.ctorField("weighted-ctor", "x/feeds/types.NewWeightedPrice", "WeightedPrice.Weight", 0)
	r.ctorField("info-ctor", "x/feeds/types.NewValidatorPriceInfo", "ValidatorPriceInfo.Price", 2)
	r.ctorField("info-ctor", "x/feeds/types.NewValidatorPriceInfo", "ValidatorPriceInfo.SignalPriceStatus", 0)
	r.ctorField("info-ctor", "x/feeds/types.NewValidatorPriceInfo", "ValidatorPriceInfo.Power", 1)
	r.ctorField("info-ctor", "x/feeds/types.NewValidatorPriceInfo", "ValidatorPriceInfo.Timestamp", 3)

	r.Rule("C06.R3", "E3 who is counted: bonded, active, fresh")
	cl := "x/feeds/keeper.Keeper.CalculatePrices$1"
	r.Gate("only-active-validators", cl, CallEff("builtin.append"), []Cond{{Op: "BOOL", A: []string{"field:ValidatorStatus.IsActive", "call:OracleKeeper.GetValidatorStatus"}, Want: true, Desc: "oracle status IsActive"}, nilErrOf("types.ValAddressFromBech32")}, GateOpts{})
	r.ArgHas("only-bonded-validators", cps, "StakingKeeper.IterateBondedValidatorsByPower", 1, 1, "^closure:"+cl)
	r.FreeVarWriters("validator-set-filled-only-by-iterator", cps, "[]github.com/bandprotocol/chain/v3/x/feeds/types.ValidatorInfo", []string{cl})
	r.ArgHas("power-is-tokens", cl, "types.NewValidatorInfo", 1, 1, "call:ValidatorI.GetTokens")
	r.Gate("only-fresh-prices", cps, CallEff("types.NewValidatorPriceInfo"), []Cond{{Op: "BOOL", A: []string{"^call:keeper.checkHavePrice"}, Want: true, Desc: "checkHavePrice"}}, GateOpts{})
	r.ArgHas("freshness-of-this-price", cps, "keeper.checkHavePrice", 1, 1, "lookup", "field:Feed.SignalID")
	r.ArgHas("freshness-at-block-time", cps, "keeper.checkHavePrice", 2, 1, "^call:Context.BlockTime")
	r.ArgHas("info-power-of-validator", cps, "types.NewValidatorPriceInfo", 1, 1, "field:ValidatorInfo.Power")
	r.ArgHas("info-price-of-validator", cps, "types.NewValidatorPriceInfo", 2, 1, "^field:ValidatorPrice.Price")
	r.ArgHas("info-status-of-validator", cps, "types.NewValidatorPriceInfo", 0, 1, "^field:ValidatorPrice.SignalPriceStatus")
	r.ArgHas("info-time-of-validator", cps, "types.NewValidatorPriceInfo", 3, 1, "^field:ValidatorPrice.Timestamp")
	hp := "x/feeds/keeper.checkHavePrice"
	r.Gate("fresh-means", hp, RetConst(0, "true"), []Cond{
		{Op: "EQL", A: []string{"field:ValidatorPrice.SignalPriceStatus"}, B: []string{w.ConstAtom(ft, "SIGNAL_PRICE_STATUS_UNSPECIFIED")}, Want: false, Desc: "status != UNSPECIFIED"},
		{Op: "LSS", A: []string{"^field:ValidatorPrice.Timestamp"}, B: []string{"^binop:-", "binops=-", "call:Time.Unix", "param:blockTime", "field:Feed.Interval"}, Want: false, Desc: "timestamp >= blockTime - interval"}}, GateOpts{})
	r.CondCount("fresh-means-nothing-else", hp, 2)

	r.Rule("C06.R4", "E9 section tables")
	sec, sn := intListOf(r, ft, "getSections")
	mul, _ := intListOf(r, ft, "getMultipliers")
	sf, _ := intListOf(r, ft, "getPowerScalingFactor")
	d := "sections strictly increase and end at the scaling factor; multipliers do not increase; equal lengths"
	if sec == nil || mul == nil || len(sf) != 1 {
		r.Unres("section-tables", d, "getSections/getMultipliers/getPowerScalingFactor are not literals of constants")
	} else {
		ok := len(sec) == len(mul) && len(sec) > 0
		for i := 1; ok && i < len(sec); i++ {
			if sec[i].Cmp(sec[i-1]) <= 0 || mul[i].Cmp(mul[i-1]) > 0 {
				ok = false
			}
		}
		if ok && sec[len(sec)-1].Cmp(sf[0]) != 0 {
			ok = false
		}
		if ok && sec[0].Sign() <= 0 {
			ok = false
		}
		if ok {
			r.OK("section-tables", d, w.Pos(sn.Pos()), fmt.Sprintf("sections %v multipliers %v scaling %v", sec, mul, sf[0]))
		} else {
			r.Bad("section-tables", d, "x/feeds/types/median.go", fmt.Sprintf("sections %v multipliers %v scaling %v: power would be left unplaced or the loop would not terminate", sec, mul, sf))
		}
	}

	r.Rule("C06.R5", "E8 determinism of the median")
	r.FileLint("median-file", "x/feeds/types/median.go")
	r.Exists("stable-sort-by-time-power", mv, CallEff("slices.SortStableFunc"), 1)
	r.Exists("stable-sort-by-price-weight", mw, CallEff("slices.SortStableFunc"), 1)
	r.ArgHas("order-time-desc-then-power-desc", mv+"$1", "cmp.Compare", 0, 1, "field:ValidatorPriceInfo.Timestamp", "param:priceB")
	r.ArgHas("order-price-asc", mw+"$1", "cmp.Compare", 0, 1, "field:WeightedPrice.Price", "param:a")

	r.LoopVisitsAll("every-current-feed-priced", "x/feeds/keeper.Keeper.CalculatePrices", "Keeper.SetPrice", LoopOpts{AllowErrReturn: true})
	ssp := "x/feeds/keeper.msgServer.SubmitSignalPrices"
	r.ArgHas("stored-price-at-block-time", ssp, "types.NewValidatorPrice", 1, 1, "call:Context.BlockTime", "!field:MsgSubmitSignalPrices.Timestamp")

	r.Rule("C06.R6", "store-key agreement: every point read/delete addresses a written key family")
	r.StoreKeyAgreement("store-keys", "feeds", 9, nil)

	r.Rule("C06.R7", "E19 constructors of x/feeds/types store their inputs unchanged")
	r.CtorFaithful("ctor", faithfulCtors["feeds"]...)

	r.Rule("C06.R8", "app wiring: the price calculation sees this block's validator set")
	r.OrderBefore("order", "orderEndBlockers", "staking", "feeds", "feeds.CalculatePrices iterates bonded validators by power and measures quorum against the bonded total, both updated by staking's end-blocker")
	r.OrderBefore("order", "orderEndBlockers", "gov", "feeds", "a parameter change passed in this block applies to this block's prices")

	r.Rule("C06.lint", "E8 module lint: no nondeterminism / process-local state in x/feeds")
	r.ModuleLint("module-lint", "feeds", 20)

	return propMeta{
		Decided: []string{
			"R1 CalculatePrice has exactly the three status exits with guards unsupported*2>total -> UNKNOWN; total<quorum or available==0 or available*2<total -> NOT_READY; else AVAILABLE with the median of the same infos; powerQuorum = trunc(TotalBondedTokens * PriceQuorum); power sums add each info's power to the bucket of its status",
			"R2 MedianWeightedPrice returns the Price field of an element of its input at the first cumulative*2 >= total crossing; MedianValidatorPriceInfos builds weighted prices from priceInfo.Price of entries that passed == AVAILABLE and sizes sections from AVAILABLE power only: the published price IS one of the fresh AVAILABLE inputs (hence within their min/max)",
			"R3 validators enter only inside the IterateBondedValidatorsByPower callback past oracle IsActive; a price enters only past checkHavePrice == (status != UNSPECIFIED && timestamp >= blockTime - interval), nothing else",
			"R4 section table {1,3,7,15,32} strictly increasing ending at the scaling factor 32; multipliers non-increasing; equal lengths",
			"R5 no map range / float / clock in median.go; both sorts are stable with (time desc, power desc) and (price asc, weight asc) comparators",
			"R6 every KV-store Get/Has/Delete of x/feeds uses a key builder of x/feeds/types that some Set of the module also uses (a probe of an iteration prefix or of a sibling family is always-empty state)",
			"R7 the literal constructors of x/feeds/types (frozen list) store each parameter or a constant unchanged in the record they build: what a handler validated is what is stored",
			"R8 in app.orderEndBlockers staking (and gov) come before feeds: the bonded set and bonded total the quorum and the weights are taken from are this block's",
			"lint: the determinism lint (incl. writes to memory held by long-lived objects) over everything reachable from the handlers and blockers of x/feeds",
		},
		Undecided: []string{"that the weights are the intended ones (section arithmetic values)", "tie behaviour and the >= at the half-weight crossing being the intended choice"},
		Assume:    []string{"staking IterateBondedValidatorsByPower yields bonded validators only", "sdkmath.Int arithmetic is exact"},
	}
}
