package main

import (
	"fmt"
	"go/ast"
	"go/token"
	"golang.org/x/tools/go/ssa"
	"strings"
)

// c20Defaults: the CLI defaults of the distribution start / offset percentages keep start + offset <= 100.
func c20Defaults(r *Report) {
	w := r.W
	d := "default distribution start + offset percentage <= 100 (the assigned slot stays inside the interval)"
	p := w.PkgBy["cmd/grogu/cmd"]
	if p == nil {
		r.Unres("cli-defaults", d, "cmd/grogu/cmd not found")
		return
	}
	vals := map[string]int64{}
	for _, f := range p.Syntax {
		ast.Inspect(f, func(n ast.Node) bool {
			ce, ok := n.(*ast.CallExpr)
			if !ok || len(ce.Args) < 3 {
				return true
			}
			sel, ok := ce.Fun.(*ast.SelectorExpr)
			if !ok || !strings.HasPrefix(sel.Sel.Name, "Uint64") {
				return true
			}
			name := ""
			if tv, ok := p.TypesInfo.Types[ce.Args[0]]; ok && tv.Value != nil {
				name = strings.Trim(tv.Value.ExactString(), `"`)
			}
			if !strings.Contains(name, "distribution") {
				return true
			}
			if tv, ok := p.TypesInfo.Types[ce.Args[1]]; ok && tv.Value != nil {
				if b := constBig(tv.Value); b != nil {
					vals[name] = b.Int64()
				}
			}
			return true
		})
	}
	var start, off int64 = -1, -1
	for k, v := range vals {
		if strings.Contains(k, "start") {
			start = v
		}
		if strings.Contains(k, "offset") {
			off = v
		}
	}
	if start < 0 || off <= 0 {
		r.Unres("cli-defaults", d, fmt.Sprintf("flags not found: %v", vals))
		return
	}
	if start+off <= 100 {
		r.OK("cli-defaults", d, "cmd/grogu/cmd/run.go", fmt.Sprintf("start %d + offset %d", start, off))
	} else {
		r.Bad("cli-defaults", d, "cmd/grogu/cmd/run.go", fmt.Sprintf("start %d + offset %d > 100", start, off))
	}
}

// NoTimerInLoop: in the given packages no timer is created inside a loop (time.After / time.NewTimer / time.Tick /
// context.WithTimeout). A timeout armed per iteration never fires while another case of the same select keeps winning:
// the wait it was meant to bound becomes unbounded (seed C20-10: getTxResponse polled forever, so the deferred release
// of the in-flight signals never ran).
func (r *Report) NoTimerInLoop(key string, prefixes []string, minFuncs int) {
	w := r.W
	d := "no timeout is (re-)armed inside a loop in " + strings.Join(prefixes, ", ")
	n := 0
	for _, fk := range sortedKeys(w.Funcs) {
		ok := false
		for _, p := range prefixes {
			if strings.HasPrefix(fk, p) {
				ok = true
			}
		}
		fn := w.Funcs[fk]
		if !ok || len(fn.Blocks) == 0 {
			continue
		}
		n++
		w.FuncsAnalysed[fn] = true
		loops := naturalLoops(fn)
		if len(loops) == 0 {
			continue
		}
		for _, b := range fn.Blocks {
			inLoop := false
			for _, l := range loops {
				if l[b] {
					inLoop = true
				}
			}
			if !inLoop {
				continue
			}
			for _, in := range b.Instrs {
				ci, isCall := in.(ssa.CallInstruction)
				if !isCall {
					continue
				}
				switch CalleeName(ci.Common()) {
				case "time.After", "time.NewTimer", "time.Tick", "time.AfterFunc", "context.WithTimeout", "context.WithDeadline":
					w.SitesExamined++
					r.Bad(key+"|"+fk+"|"+CalleeName(ci.Common()), d, w.posOr(ci.Pos(), fn), CalleeName(ci.Common())+" is called inside a loop of "+fk+": the timeout restarts on every iteration and cannot bound the loop")
				}
			}
		}
	}
	if n < minFuncs {
		r.Unres(key+"|count", d, fmt.Sprintf("%d functions examined, expected >= %d", n, minFuncs))
		return
	}
	r.OK(key, d, "-", fmt.Sprintf("%d functions examined", n))
}

// ReceiveAlwaysHandled: in fn every value received from the channel (atoms) reaches `go <closure calling callee>` (or a
// direct call of callee) before the next receive or a return: nothing that was received is dropped on the floor.
// Seed C20-11: the grogu submitter skipped submissions that had waited too long, before the goroutine whose deferred
// release un-marks the signals - they stayed pending forever.
func (r *Report) ReceiveAlwaysHandled(key, fnKey string, chanAtoms []string, callee string) {
	w := r.W
	fn := w.Fn(fnKey)
	d := fmt.Sprintf("in %s every value received from %v is handed to %s before the next receive or a return", fnKey, chanAtoms, callee)
	k := key + "|" + fnKey
	if fn == nil {
		r.Unres(k, d, "function not found")
		return
	}
	w.FuncsAnalysed[fn] = true
	var recvBlocks []*ssa.BasicBlock
	handled := map[*ssa.BasicBlock]bool{}
	callsCallee := func(f *ssa.Function) bool {
		return f != nil && len(Calls(f, callee)) > 0
	}
	for _, b := range fn.Blocks {
		for _, in := range b.Instrs {
			switch x := in.(type) {
			case *ssa.UnOp:
				if x.Op == token.ARROW && Render(x.X).Has(chanAtoms...) {
					recvBlocks = append(recvBlocks, b)
				}
			case *ssa.Go:
				if mc, ok := x.Call.Value.(*ssa.MakeClosure); ok {
					if cf, _ := mc.Fn.(*ssa.Function); callsCallee(cf) {
						handled[b] = true
					}
				} else if nameMatch(CalleeName(&x.Call), callee) {
					handled[b] = true
				}
			case *ssa.Call:
				if nameMatch(CalleeName(&x.Call), callee) {
					handled[b] = true
				}
			}
		}
	}
	if len(recvBlocks) == 0 {
		r.Unres(k, d, "no receive from that channel found")
		return
	}
	if len(handled) == 0 {
		r.Unres(k, d, "no hand-over to "+callee+" found")
		return
	}
	for _, rb := range recvBlocks {
		w.SitesExamined++
		if handled[rb] {
			continue
		}
		seen := map[*ssa.BasicBlock]bool{}
		dropped := false
		var walk func(b *ssa.BasicBlock)
		walk = func(b *ssa.BasicBlock) {
			if seen[b] || handled[b] || dropped {
				return
			}
			seen[b] = true
			if b == rb || len(b.Succs) == 0 {
				dropped = true
				return
			}
			for _, s := range b.Succs {
				walk(s)
			}
		}
		for _, s := range rb.Succs {
			walk(s)
		}
		if dropped {
			r.Bad(k, d, w.FnPos(fn), "a received value can be dropped: some path from the receive to the next receive (or to a return) does not hand it to "+callee)
			return
		}
	}
	r.OK(k, d, w.FnPos(fn), fmt.Sprintf("%d receive site(s)", len(recvBlocks)))
}
