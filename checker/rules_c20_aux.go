package main

import (
	"fmt"
	"go/ast"
	"strings"
)

// c20Defaults: the CLI defaults of the distribution start / offset percentages keep start + offset <= 100.
func c20Defaults(r *Report) {
	w := r.W
	d := "default distribution start + offset percentage <= 100 (the assigned slot stays inside the interval)"
	p := w.PkgBy["cmd/grogu/cmd"]
	if p == nil {
		r.Unres("cli-defaults", d, "cmd/grogu/cmd not found")
		return
	}
	vals := map[string]int64{}
	for _, f := range p.Syntax {
		ast.Inspect(f, func(n ast.Node) bool {
			ce, ok := n.(*ast.CallExpr)
			if !ok || len(ce.Args) < 3 {
				return true
			}
			sel, ok := ce.Fun.(*ast.SelectorExpr)
			if !ok || !strings.HasPrefix(sel.Sel.Name, "Uint64") {
				return true
			}
			name := ""
			if tv, ok := p.TypesInfo.Types[ce.Args[0]]; ok && tv.Value != nil {
				name = strings.Trim(tv.Value.ExactString(), `"`)
			}
			if !strings.Contains(name, "distribution") {
				return true
			}
			if tv, ok := p.TypesInfo.Types[ce.Args[1]]; ok && tv.Value != nil {
				if b := constBig(tv.Value); b != nil {
					vals[name] = b.Int64()
				}
			}
			return true
		})
	}
	var start, off int64 = -1, -1
	for k, v := range vals {
		if strings.Contains(k, "start") {
			start = v
		}
		if strings.Contains(k, "offset") {
			off = v
		}
	}
	if start < 0 || off <= 0 {
		r.Unres("cli-defaults", d, fmt.Sprintf("flags not found: %v", vals))
		return
	}
	if start+off <= 100 {
		r.OK("cli-defaults", d, "cmd/grogu/cmd/run.go", fmt.Sprintf("start %d + offset %d", start, off))
	} else {
		r.Bad("cli-defaults", d, "cmd/grogu/cmd/run.go", fmt.Sprintf("start %d + offset %d > 100", start, off))
	}
}
