package main

import (
	"fmt"
	"go/types"
	"sort"
	"strings"

	"golang.org/x/tools/go/ssa"
)

// Store-key agreement (E13). Every KV-store access in a module is classified by the key BUILDERS its key derives from
// (functions / package variables of x/<module>/types that produce []byte, found in the rendered term of the key argument
// and of the store receiver, so prefix stores count). Two rules, neither uses identifier spelling of the keeper methods:
//   KA1  a point read (Get/Has) must use a builder set that some write (Set) in the module uses: reading a key family that
//        is never written is always-empty state (seed C04-4: HasConfirm probing the iteration prefix instead of the entry).
//   KA2  a point delete must likewise address a written key family.

type storeSite struct {
	Fn       *ssa.Function
	Op       string // Set Get Has Delete Iter
	Builders []string
	Pos      string
	Opaque   bool
}

func isKVStoreType(t types.Type) bool {
	n := namedOf(t)
	if n == nil || n.Obj().Pkg() == nil {
		return false
	}
	p := n.Obj().Pkg().Path()
	switch p {
	case "cosmossdk.io/store/types", "cosmossdk.io/core/store", "cosmossdk.io/store/prefix", "cosmossdk.io/store/cachekv", "cosmossdk.io/store/gaskv":
		name := n.Obj().Name()
		return strings.Contains(name, "Store")
	}
	return false
}

func (w *World) storeSites(module string) []storeSite {
	typesPkg := "x/" + module + "/types."
	var out []storeSite
	keys := sortedKeys(w.Funcs)
	for _, k := range keys {
		if !strings.HasPrefix(k, "x/"+module+"/") && !strings.HasPrefix(k, "x/"+module+".") {
			continue
		}
		fn := w.Funcs[k]
		if !inRepoScope(fn) {
			continue
		}
		for _, b := range fn.Blocks {
			for _, in := range b.Instrs {
				ci, ok := in.(ssa.CallInstruction)
				if !ok {
					continue
				}
				c := ci.Common()
				var op string
				var recv, key ssa.Value
				if c.IsInvoke() {
					if !isKVStoreType(c.Value.Type()) {
						continue
					}
					switch c.Method.Name() {
					case "Set", "Get", "Has", "Delete":
						op = c.Method.Name()
						recv = c.Value
						if len(c.Args) > 0 {
							key = c.Args[0]
						}
					case "Iterator", "ReverseIterator":
						op = "Iter"
						recv = c.Value
						if len(c.Args) > 0 {
							key = c.Args[0]
						}
					}
				} else if f := c.StaticCallee(); f != nil {
					switch {
					case f.Signature.Recv() != nil && isKVStoreType(f.Signature.Recv().Type()):
						switch f.Name() {
						case "Set", "Get", "Has", "Delete":
							op = f.Name()
						case "Iterator", "ReverseIterator":
							op = "Iter"
						}
						if op != "" && len(c.Args) > 1 {
							recv, key = c.Args[0], c.Args[1]
						}
					case f.Pkg != nil && f.Pkg.Pkg.Path() == "cosmossdk.io/store/types" && (f.Name() == "KVStorePrefixIterator" || f.Name() == "KVStoreReversePrefixIterator"):
						op = "Iter"
						recv, key = c.Args[0], c.Args[1]
					}
				}
				if op == "" || key == nil {
					continue
				}
				atoms := map[string]bool{}
				for a := range Render(key).Atoms() {
					atoms[a] = true
				}
				for a := range Render(recv).Atoms() {
					atoms[a] = true
				}
				bs := []string{}
				for a := range atoms {
					for _, kind := range []string{"call:", "global:"} {
						if strings.HasPrefix(a, kind+typesPkg) {
							bs = append(bs, strings.TrimPrefix(a, kind+typesPkg))
						}
					}
				}
				sort.Strings(bs)
				if op == "Delete" {
					for a := range atoms {
						if strings.HasPrefix(a, "call:github.com/cosmos/cosmos-db.") && strings.HasSuffix(a, ".Key") {
							op = "IterDelete" // deletes the entry an iterator over a prefix currently stands on
						}
					}
				}
				out = append(out, storeSite{Fn: fn, Op: op, Builders: bs, Pos: w.Pos(in.Pos()), Opaque: len(bs) == 0})
			}
		}
	}
	return out
}

func (r *Report) StoreKeyAgreement(key, module string, minReads int, allowOpaque map[string]string) {
	w := r.W
	sites := w.storeSites(module)
	written := map[string][]string{}
	for _, s := range sites {
		if s.Op == "Set" && !s.Opaque {
			b := strings.Join(s.Builders, "+")
			written[b] = append(written[b], FuncKey(s.Fn))
		}
	}
	d := "x/" + module + ": every point read/delete of the KV store addresses a key family (key builder of x/" + module + "/types) that some Set in the module writes"
	reads := 0
	seen := map[string]int{}
	for _, s := range sites {
		if s.Op == "Set" || s.Op == "Iter" || s.Op == "IterDelete" {
			continue
		}
		fk := FuncKey(s.Fn)
		w.FuncsAnalysed[s.Fn] = true
		w.SitesExamined++
		b := strings.Join(s.Builders, "+")
		k := fmt.Sprintf("%s|%s|%s(%s)", key, fk, s.Op, b)
		seen[k]++
		if seen[k] > 1 {
			k = fmt.Sprintf("%s#%d", k, seen[k])
		}
		if s.Opaque {
			if why, ok := allowOpaque[fk]; ok {
				r.OK(k, d, s.Pos, "key is not built by a types key builder here: "+why)
			} else {
				r.Unres(k, d, "key argument at "+s.Pos+" derives from no key builder of x/"+module+"/types and the function is not in the reviewed table")
			}
			continue
		}
		reads++
		if ws, ok := written[b]; ok {
			r.OK(k, d, s.Pos, "written by "+ws[0])
		} else {
			r.Bad(k, d, s.Pos, fmt.Sprintf("%s of key family {%s}, which no Set in x/%s writes: the read can never observe stored state", s.Op, b, module))
		}
	}
	if reads < minReads {
		r.Unres(key+"|count", d, fmt.Sprintf("only %d point reads/deletes classified, expected >= %d", reads, minReads))
	}
	// sibling accessors of one object agree: GetX / HasX / DeleteX / MustGetX address the key family that SetX writes
	// (a read through the builder of ANOTHER stored object is written by somebody, so the rule above accepts it)
	object := func(fk string) (string, string) {
		name := lastName(fk)
		for _, p := range []string{"MustGet", "Set", "Get", "Has", "Delete", "Remove"} {
			if strings.HasPrefix(name, p) && len(name) > len(p) {
				return strings.TrimSuffix(fk, name), name[len(p):]
			}
		}
		return "", ""
	}
	setFam := map[string]string{}
	for _, s := range sites {
		if s.Op != "Set" || s.Opaque {
			continue
		}
		fk := FuncKey(s.Fn)
		if scope, obj := object(fk); obj != "" && strings.HasPrefix(lastName(fk), "Set") {
			b := strings.Join(s.Builders, "+")
			if old, ok := setFam[scope+obj]; ok && old != b {
				setFam[scope+obj] = "*" // a setter writing two families (index + record): no single family to compare with
			} else if !ok {
				setFam[scope+obj] = b
			}
		}
	}
	dd := "x/" + module + ": the accessors GetX/HasX/DeleteX of a stored object address the key family its SetX writes"
	nsib := 0
	for _, s := range sites {
		if s.Op == "Set" || s.Op == "Iter" || s.Op == "IterDelete" || s.Opaque {
			continue
		}
		fk := FuncKey(s.Fn)
		scope, obj := object(fk)
		if obj == "" || strings.HasPrefix(lastName(fk), "Set") {
			continue
		}
		want, ok := setFam[scope+obj]
		if !ok || want == "*" {
			continue
		}
		nsib++
		b := strings.Join(s.Builders, "+")
		k := fmt.Sprintf("%s|sibling|%s|%s", key, fk, s.Op)
		if b == want {
			r.OK(k, dd, s.Pos, "{"+b+"} as written by Set"+obj)
		} else {
			r.Bad(k, dd, s.Pos, fmt.Sprintf("%s addresses {%s} but Set%s writes {%s}: the accessor looks at another object's keys", fk, b, obj, want))
		}
	}
	_ = nsib
}

func dumpStoreSites(w *World, module string) {
	for _, s := range w.storeSites(module) {
		fmt.Printf("%-6s %-60s {%s} %s\n", s.Op, FuncKey(s.Fn), strings.Join(s.Builders, "+"), s.Pos)
	}
}

func dumpKeyTerm(w *World, fk string) {
	fn := w.Fn(fk)
	for _, b := range fn.Blocks {
		for _, in := range b.Instrs {
			if ci, ok := in.(ssa.CallInstruction); ok && ci.Common().IsInvoke() && ci.Common().Method.Name() == "Delete" {
				fmt.Println(Render(ci.Common().Args[0]).String())
			}
		}
	}
}
