package main

func init() { props["C17"] = c17 }

func c17(r *Report) propMeta {
	dep := uK + "DepositToTunnel"
	wd := uK + "WithdrawFromTunnel"
	at := uK + "ActivateTunnel"
	dt := uK + "DeactivateTunnel"

	r.Rule("C17.R1", "sibling rule: creator check on every management handler")
	r.SiblingCreator("creator", 5)

	r.Rule("C17.R2", "pairing: coins moved == records updated")
	r.SameValue("deposit-one-amount", dep, ArgRef{"BankKeeper.SendCoinsFromAccountToModule", 3}, ArgRef{"types.NewDeposit", 2}, ArgRef{"Coins.Add", 0})
	r.ArgHas("deposit-amount-is-param", dep, "BankKeeper.SendCoinsFromAccountToModule", 3, 1, "^param:depositAmount")
	r.ArgHas("deposit-from-depositor", dep, "BankKeeper.SendCoinsFromAccountToModule", 1, 1, "^param:depositor")
	r.ArgHas("deposit-to-module", dep, "BankKeeper.SendCoinsFromAccountToModule", 2, 1, "const:tunnel")
	r.Gate("records-after-transfer", dep, CallEff("Keeper.SetDeposit"), []Cond{nilErrOf("BankKeeper.SendCoinsFromAccountToModule"), nilErrOf("Keeper.GetTunnel"), nilErrOf("Keeper.validateDepositDenom")}, GateOpts{FailIsError: true})
	r.Gate("records-after-transfer", dep, CallEff("Keeper.SetTunnel"), []Cond{nilErrOf("BankKeeper.SendCoinsFromAccountToModule")}, GateOpts{})
	r.Count("deposit-record-once", dep, []Effect{CallEff("Keeper.SetDeposit")}, "ok", 1, 1)
	r.Count("deposit-total-once", dep, []Effect{CallEff("Keeper.SetTunnel")}, "ok", 1, 1)
	r.Count("deposit-transfer-once", dep, []Effect{CallEff("BankKeeper.SendCoinsFromAccountToModule")}, "ok", 1, 1)
	r.Exists("deposit-total-add", dep, StoreEff("Tunnel.TotalDeposit", "^call:Coins.Add", "field:Tunnel.TotalDeposit", "param:depositAmount"), 1)
	r.Exists("deposit-record-add", dep, StoreEff("Deposit.Amount", "^call:Coins.Add", "field:Deposit.Amount", "param:depositAmount"), 1)
	r.ArgHas("deposit-record-keyed-by-depositor", dep, "Keeper.GetDeposit", 2, 1, "^param:depositor")
	r.ArgHas("deposit-record-of-tunnel", dep, "Keeper.GetDeposit", 1, 1, "^param:tunnelID")
	r.ArgHas("new-deposit-owner", dep, "types.NewDeposit", 1, 1, "call:AccAddress.String", "param:depositor")
	r.ArgHas("stored-tunnel-is-loaded-one", dep, "Keeper.SetTunnel", 1, 1, "call:Keeper.GetTunnel", "param:tunnelID")

	r.ArgHas("withdraw-amount-is-param", wd, "BankKeeper.SendCoinsFromModuleToAccount", 3, 1, "^param:amount")
	r.ArgHas("withdraw-to-withdrawer", wd, "BankKeeper.SendCoinsFromModuleToAccount", 2, 1, "^param:withdrawer")
	r.ArgHas("withdraw-from-module", wd, "BankKeeper.SendCoinsFromModuleToAccount", 1, 1, "const:tunnel")
	r.Gate("withdraw-guards", wd, CallEff("BankKeeper.SendCoinsFromModuleToAccount"), []Cond{
		nilErrOf("Keeper.GetTunnel"),
		{Op: "BOOL", A: []string{"^extract", "call:Keeper.GetDeposit"}, Want: true, Desc: "deposit found"},
		{Op: "BOOL", A: []string{"^call:Coins.IsAllGTE", "field:Deposit.Amount", "param:amount"}, Want: true, Desc: "deposit.Amount.IsAllGTE(amount)"}}, GateOpts{FailIsError: true})
	r.ArgHas("own-deposit-only", wd, "Keeper.GetDeposit", 2, 1, "^param:withdrawer")
	r.ArgHas("own-deposit-of-tunnel", wd, "Keeper.GetDeposit", 1, 1, "^param:tunnelID")
	r.ArgHas("sufficiency-against-own-deposit", wd, "Coins.IsAllGTE", -1, 2, "field:Deposit.Amount|field:Tunnel.TotalDeposit")
	r.Exists("withdraw-record-sub", wd, StoreEff("Deposit.Amount", "^call:Coins.Sub", "field:Deposit.Amount", "param:amount"), 1)
	r.Exists("withdraw-total-sub", wd, StoreEff("Tunnel.TotalDeposit", "^call:Coins.Sub", "field:Tunnel.TotalDeposit", "param:amount"), 1)
	r.Gate("records-after-payout", wd, CallEff("Keeper.SetTunnel"), []Cond{nilErrOf("BankKeeper.SendCoinsFromModuleToAccount")}, GateOpts{FailIsError: true})
	r.Count("withdraw-record-once", wd, []Effect{CallEff("Keeper.SetDeposit"), CallEff("Keeper.DeleteDeposit")}, "ok", 1, 1)
	r.Count("withdraw-total-once", wd, []Effect{CallEff("Keeper.SetTunnel")}, "ok", 1, 1)
	r.Count("withdraw-payout-once", wd, []Effect{CallEff("BankKeeper.SendCoinsFromModuleToAccount")}, "ok", 1, 1)
	r.Gate("delete-only-empty-record", wd, CallEff("Keeper.DeleteDeposit"), []Cond{{Op: "BOOL", A: []string{"^call:Coins.IsZero", "field:Deposit.Amount"}, Want: true, Desc: "remaining deposit is zero"}}, GateOpts{})
	r.StoreWriters("deposit-store", []string{"call:types.DepositStoreKey", "global:types.DepositStoreKeyPrefix"}, []string{uK + "SetDeposit", uK + "DeleteDeposit"}, "x/tunnel")
	r.Callers("callers", uK+"SetDeposit", []string{dep, wd, uK + "InitGenesis", "x/tunnel.InitGenesis", "x/tunnel/keeper.InitGenesis"}, []string{dep, wd})
	r.Callers("callers", uK+"DeleteDeposit", []string{wd}, []string{wd})
	r.FieldWriters("total-deposit-writers", "Tunnel.TotalDeposit", nil, []string{dep, wd, "x/tunnel/types.NewTunnel"}, []string{"x/tunnel"})
	r.ArgHas("msg-deposit-from-signer", uMS+"DepositToTunnel", "Keeper.DepositToTunnel", 2, 1, "field:MsgDepositToTunnel.Depositor")
	r.ArgHas("msg-withdraw-to-signer", uMS+"WithdrawFromTunnel", "Keeper.WithdrawFromTunnel", 3, 1, "field:MsgWithdrawFromTunnel.Withdrawer")
	r.ArgHas("msg-withdraw-amount", uMS+"WithdrawFromTunnel", "Keeper.WithdrawFromTunnel", 2, 1, "field:MsgWithdrawFromTunnel.Amount")

	r.Rule("C17.R3", "E3 activation needs the minimum deposit")
	r.Gate("activate-needs-min-deposit", at, CallEff("Keeper.SetActiveTunnelID"), []Cond{nilErrOf("Keeper.GetTunnel"),
		{Op: "BOOL", A: []string{"^call:Coins.IsAllGTE", "field:Tunnel.TotalDeposit", "field:Params.MinDeposit"}, Want: true, Desc: "TotalDeposit.IsAllGTE(MinDeposit)"}}, GateOpts{FailIsError: true})
	r.Gate("activate-needs-min-deposit", at, StoreEff("Tunnel.IsActive", "const:true"), []Cond{
		{Op: "BOOL", A: []string{"^call:Coins.IsAllGTE", "field:Tunnel.TotalDeposit", "field:Params.MinDeposit"}, Want: true, Desc: "TotalDeposit.IsAllGTE(MinDeposit)"}}, GateOpts{})
	r.Gate("activate-only-inactive", uMS+"Activate", CallEff("Keeper.ActivateTunnel"), []Cond{{Op: "BOOL", A: []string{"field:Tunnel.IsActive"}, Want: false, Desc: "not already active"}}, GateOpts{FailIsError: true})
	r.Gate("deactivate-only-active", uMS+"Deactivate", CallEff("Keeper.DeactivateTunnel"), []Cond{{Op: "BOOL", A: []string{"field:Tunnel.IsActive"}, Want: true, Desc: "currently active"}}, GateOpts{FailIsError: true})
	r.Callers("callers", at, []string{uMS + "Activate"}, []string{uMS + "Activate"})

	r.Rule("C17.R4", "pairing: active flag <=> active index")
	r.FieldWriters("flag-true", "Tunnel.IsActive", []string{"const:true"}, []string{at}, []string{"x/tunnel"})
	r.FieldWriters("flag-false", "Tunnel.IsActive", []string{"const:false"}, []string{dt}, []string{"x/tunnel"})
	r.FieldWriters("flag-writers", "Tunnel.IsActive", nil, []string{at, dt, "x/tunnel/types.NewTunnel"}, []string{"x/tunnel"})
	r.Callers("callers", uK+"SetActiveTunnelID", []string{at, "x/tunnel/keeper.InitGenesis", uK + "InitGenesis", "x/tunnel.InitGenesis"}, []string{at})
	r.Callers("callers", uK+"DeleteActiveTunnelID", []string{dt}, []string{dt})
	r.StoreWriters("active-index", []string{"call:types.ActiveTunnelIDStoreKey", "global:types.ActiveTunnelIDStoreKeyPrefix"}, []string{uK + "SetActiveTunnelID", uK + "DeleteActiveTunnelID"}, "x/tunnel")
	r.Count("activate-flag-and-index", at, []Effect{CallEff("Keeper.SetActiveTunnelID")}, "ok", 1, 1)
	r.Count("activate-flag-and-index", at, []Effect{StoreEff("Tunnel.IsActive", "const:true")}, "ok", 1, 1)
	r.Count("activate-flag-saved", at, []Effect{CallEff("Keeper.SetTunnel")}, "ok", 1, 1)
	r.Dominated("flag-set-before-save", at, StoreEff("Tunnel.IsActive", "const:true"), CallEff("Keeper.SetTunnel"))
	r.Count("deactivate-flag-and-index", dt, []Effect{CallEff("Keeper.DeleteActiveTunnelID")}, "ok", 1, 1)
	r.Count("deactivate-flag-and-index", dt, []Effect{StoreEff("Tunnel.IsActive", "const:false")}, "ok", 1, 1)
	r.Count("deactivate-flag-saved", dt, []Effect{CallEff("Keeper.SetTunnel")}, "ok", 1, 1)
	r.Dominated("flag-cleared-before-save", dt, StoreEff("Tunnel.IsActive", "const:false"), CallEff("Keeper.SetTunnel"))
	r.SameValue("index-and-flag-same-tunnel", at, ArgRef{"Keeper.GetTunnel", 1}, ArgRef{"Keeper.SetActiveTunnelID", 1})
	r.SameValue("index-and-flag-same-tunnel", dt, ArgRef{"Keeper.GetTunnel", 1}, ArgRef{"Keeper.DeleteActiveTunnelID", 1})
	r.ArgHas("end-block-iterates-index", uK+"ProduceActiveTunnelPackets", "Keeper.ProduceActiveTunnelPacket", 1, 1, "call:Keeper.GetActiveTunnelIDs")

	r.Rule("C17.R5", "E3 withdrawal below the minimum deactivates")
	r.Gate("deactivate-below-min", wd, CallEff("Keeper.DeactivateTunnel"), []Cond{
		{Op: "BOOL", A: []string{"field:Tunnel.IsActive"}, Want: true, Desc: "tunnel.IsActive"},
		{Op: "BOOL", A: []string{"^call:Coins.IsAllGTE", "call:Coins.Sub", "field:Tunnel.TotalDeposit", "field:Params.MinDeposit"}, Want: false, Desc: "post-withdraw TotalDeposit not >= MinDeposit"}}, GateOpts{})
	r.Dominated("total-saved-before-deactivate", wd, CallEff("Keeper.SetTunnel"), CallEff("Keeper.DeactivateTunnel"))
	r.MustPassWhen("deactivation-not-skippable", wd)

	r.Rule("C17.R6", "store-key agreement: every point read/delete addresses a written key family")
	r.StoreKeyAgreement("store-keys", "tunnel", 7, nil)

	r.Rule("C17.R7", "genesis import keeps ledger and index agreements")
	vg := "x/tunnel/types.ValidateGenesis"
	r.Gate("genesis-total-equals-records-for-every-tunnel", vg, CallEff("TotalFees.Validate"), []Cond{{Op: "BOOL", A: []string{"^call:Coins.Equal", "field:Tunnel.TotalDeposit", "field:GenesisState.Tunnels", "lookup", "field:Tunnel.ID"}, Want: true, Desc: "tunnel.TotalDeposit == sum of its deposit records"}}, GateOpts{LoopAll: true})
	r.LoopVisitsAll("genesis-every-tunnel-compared", vg, "Coins.Equal", LoopOpts{AllowErrReturn: true})
	ig := "x/tunnel/keeper.InitGenesis"
	r.LoopAlwaysCalls("genesis-active-flag-always-indexed", ig, "Keeper.SetActiveTunnelID", Cond{Op: "BOOL", A: []string{"field:Tunnel.IsActive"}, Want: true, Desc: "the tunnel is not flagged active"})

	// genesis import agreements of C08
	r.Include("C08", "C08.R5")

	r.Rule("C17.lint", "E8 module lint: no nondeterminism / process-local state in x/tunnel")
	r.ModuleLint("module-lint", "tunnel", 20)

	// a handler that swallows an error commits partial state (C13.R8)
	r.Include("C13", "C13.R8")

	return propMeta{
		Decided: []string{
			"R1 every tunnel msgServer method whose request carries Creator+TunnelID (5 today, new ones checked automatically) gates every keeper write by msg.Creator == GetTunnel(msg.TunnelID).Creator",
			"R2 DepositToTunnel: one value goes to the bank transfer, the depositor's record and TotalDeposit, records only after the transfer succeeded; WithdrawFromTunnel: same for the payout to the withdrawer, gated by found && own deposit.IsAllGTE(amount); deposit store, TotalDeposit have exactly these writers",
			"R3 ActivateTunnel writes only if TotalDeposit.IsAllGTE(MinDeposit); msg Activate only for inactive tunnels",
			"R4 IsActive=true and SetActiveTunnelID occur once each on every success path of ActivateTunnel and nowhere else; IsActive=false and DeleteActiveTunnelID likewise in DeactivateTunnel; end-block iterates the index",
			"R5 WithdrawFromTunnel deactivates exactly under IsActive && !postWithdrawTotal.IsAllGTE(MinDeposit), after the new total was saved",
			"R6 every KV-store Get/Has/Delete of x/tunnel uses a key builder of x/tunnel/types that some Set of the module also uses (a probe of an iteration prefix or of a sibling family is always-empty state)",
			"R7 genesis: ValidateGenesis compares the total deposit of EVERY tunnel (loop over GenesisState.Tunnels, no early way out) with the sum of its deposit records before it accepts the state; InitGenesis puts every imported tunnel flagged active into the active-id set on every path of the loop body (seeds C17-5, C17-6)",
			"lint: the determinism lint (incl. writes to memory held by long-lived objects) over everything reachable from the handlers and blockers of x/tunnel",
		},
		Undecided: []string{"equality of the three ledgers (records, total, module balance) over histories"},
		Assume:    []string{"msg handlers atomic", "bank Send* all-or-nothing"},
	}
}
