package main

import (
	"go/ast"
	"go/constant"
	"go/printer"
	"go/token"
	"math/big"
	"strings"

	"golang.org/x/tools/go/packages"
)

// litNode is a parsed composite literal of integers: either a leaf value or indexed children.
type litNode struct {
	Leaf  *big.Int
	Str   string
	IsStr bool
	Kids  map[int64]*litNode
	Order []int64
	Pos   ast.Node
}

func constBig(v constant.Value) *big.Int {
	if v == nil {
		return nil
	}
	switch v.Kind() {
	case constant.Int:
		if b, ok := constant.Val(v).(*big.Int); ok {
			return new(big.Int).Set(b)
		}
		if i, ok := constant.Val(v).(int64); ok {
			return big.NewInt(i)
		}
	}
	return nil
}

// parseLit evaluates a (nested) composite literal whose leaves are integer or string constants.
func parseLit(p *packages.Package, e ast.Expr) *litNode {
	if tv, ok := p.TypesInfo.Types[e]; ok && tv.Value != nil {
		if tv.Value.Kind() == constant.String {
			return &litNode{Str: constant.StringVal(tv.Value), IsStr: true, Pos: e}
		}
		if b := constBig(tv.Value); b != nil {
			return &litNode{Leaf: b, Pos: e}
		}
	}
	cl, ok := e.(*ast.CompositeLit)
	if !ok {
		if ue, ok := e.(*ast.UnaryExpr); ok {
			return parseLit(p, ue.X)
		}
		return nil
	}
	n := &litNode{Kids: map[int64]*litNode{}, Pos: e}
	next := int64(0)
	for _, el := range cl.Elts {
		idx := next
		val := el
		if kv, ok := el.(*ast.KeyValueExpr); ok {
			if tv, ok := p.TypesInfo.Types[kv.Key]; ok && tv.Value != nil {
				if b := constBig(tv.Value); b != nil {
					idx = b.Int64()
				}
			}
			val = kv.Value
		}
		k := parseLit(p, val)
		if k == nil {
			return nil
		}
		n.Kids[idx] = k
		n.Order = append(n.Order, idx)
		next = idx + 1
	}
	return n
}

// pkgVarInit returns the initialiser expression of a package-level variable.
func pkgVarInit(p *packages.Package, name string) ast.Expr {
	for _, f := range p.Syntax {
		for _, d := range f.Decls {
			gd, ok := d.(*ast.GenDecl)
			if !ok {
				continue
			}
			for _, s := range gd.Specs {
				vs, ok := s.(*ast.ValueSpec)
				if !ok {
					continue
				}
				for i, n := range vs.Names {
					if n.Name == name && i < len(vs.Values) {
						return vs.Values[i]
					}
					if n.Name == name && len(vs.Values) == 1 {
						return vs.Values[0]
					}
				}
			}
		}
	}
	return nil
}

// pkgConst returns the value of a package-level constant.
func pkgConst(p *packages.Package, name string) constant.Value {
	if c := lookupConst(p, name); c != nil {
		return c.Val()
	}
	return nil
}

func funcDecl(p *packages.Package, name string) *ast.FuncDecl {
	if recordPats != nil {
		recordDecls[relPkg(p.PkgPath)+"."+name] = true
	}
	for _, nm := range []string{name, declAlias[relPkg(p.PkgPath)+"."+name]} {
		if nm == "" {
			continue
		}
		for _, f := range p.Syntax {
			for _, d := range f.Decls {
				if fd, ok := d.(*ast.FuncDecl); ok && fd.Name.Name == nm && fd.Recv == nil {
					return fd
				}
			}
		}
	}
	return nil
}

func methodDecl(p *packages.Package, recv, name string) *ast.FuncDecl {
	if recordPats != nil {
		recordDecls[relPkg(p.PkgPath)+"."+recv+"."+name] = true
	}
	for _, nm := range []string{name, declAlias[relPkg(p.PkgPath)+"."+recv+"."+name]} {
		if nm == "" {
			continue
		}
		for _, f := range p.Syntax {
			for _, d := range f.Decls {
				fd, ok := d.(*ast.FuncDecl)
				if !ok || fd.Name.Name != nm || fd.Recv == nil || len(fd.Recv.List) == 0 {
					continue
				}
				t := fd.Recv.List[0].Type
				if st, ok := t.(*ast.StarExpr); ok {
					t = st.X
				}
				if id, ok := t.(*ast.Ident); ok && id.Name == recv {
					return fd
				}
			}
		}
	}
	return nil
}

func exprString(w *World, e ast.Expr) string { return exprStringF(w.Fset, e) }

// exprStringF prints an expression with the FileSet it was parsed with (a foreign FileSet yields unstable output).
func exprStringF(fset *token.FileSet, e ast.Expr) string {
	var sb strings.Builder
	printer.Fprint(&sb, fset, e)
	return strings.Join(strings.Fields(sb.String()), " ")
}

func firstCompositeLit(n ast.Node) *ast.CompositeLit {
	var out *ast.CompositeLit
	ast.Inspect(n, func(x ast.Node) bool {
		if cl, ok := x.(*ast.CompositeLit); ok && out == nil {
			out = cl
		}
		return out == nil
	})
	return out
}

func trimQ(s string) string { return strings.Trim(s, `"`) }

// recordDecls (freeze mode): declarations looked up by name, frozen as anchors too
var recordDecls = map[string]bool{}
