package main

func init() { props["C10"] = c10 }

func c10(r *Report) propMeta {
	w := r.W
	tt := "x/tss/types"
	sWait := w.ConstAtom(tt, "SIGNING_STATUS_WAITING")
	sSucc := w.ConstAtom(tt, "SIGNING_STATUS_SUCCESS")
	sFall := w.ConstAtom(tt, "SIGNING_STATUS_FALLEN")
	inr := tK + "InitiateNewSigningRound"
	agg := tK + "AggregatePartialSignatures"
	hfs := tK + "HandleFailedSigning"
	heb := tK + "HandleSigningEndBlock"
	hes := tK + "HandleExpiredSignings"

	r.Rule("C10.R1", "census of Signing.Status / CurrentAttempt")
	r.FieldWriters("status-success", "Signing.Status", []string{sSucc}, []string{agg}, []string{"x/tss"})
	r.FieldWriters("status-fallen", "Signing.Status", []string{sFall}, []string{hfs}, []string{"x/tss"})
	r.FieldWriters("status-waiting", "Signing.Status", []string{sWait}, []string{inr}, []string{"x/tss"})
	r.FieldWriters("status-writers", "Signing.Status", nil, []string{agg, hfs, inr, "x/tss/types.NewSigning"}, []string{"x/tss"})
	r.FieldWriters("attempt-writers", "Signing.CurrentAttempt", nil, []string{inr, "x/tss/types.NewSigning"}, []string{"x/tss"})
	r.Exists("attempt-only-grows", inr, StoreEff("Signing.CurrentAttempt", "^binop:+", "field:Signing.CurrentAttempt", "const:1"), 1)
	r.Count("attempt-incremented-once", inr, []Effect{StoreEff("Signing.CurrentAttempt")}, "ok", 1, 1)
	r.ArgHas("created-waiting", tK+"CreateSigning", "types.NewSigning", 7, 1, sWait)
	r.ArgHas("created-attempt-zero", tK+"CreateSigning", "types.NewSigning", 1, 1, "const:0")
	r.Callers("callers", inr, []string{tK + "RequestSigning", heb}, []string{tK + "RequestSigning", heb})
	r.Callers("callers", hfs, []string{heb}, []string{heb})
	r.Callers("callers", agg, []string{heb}, []string{heb})
	r.Callers("callers", hes, []string{heb}, []string{heb})
	r.Callers("callers", heb, []string{"x/tss.EndBlocker", "x/tss.AppModule.EndBlock"}, nil)
	r.StoreWriters("signing-store", []string{"call:types.SigningStoreKey", "global:types.SigningStoreKeyPrefix"}, []string{tK + "SetSigning"}, "x/tss")
	r.Callers("callers", tK+"SetSigning", []string{tK + "CreateSigning", inr, agg, hfs, tK + "InitGenesis", "x/tss.InitGenesis"}, []string{tK + "CreateSigning", inr, agg, hfs})

	r.Rule("C10.R2", "E3+E4 attempt bound and expiry height")
	bound := Cond{Op: "LSS", A: []string{"field:Params.MaxSigningAttempt"}, B: []string{"field:Signing.CurrentAttempt"}, Want: false, Desc: "not (CurrentAttempt+1 > MaxSigningAttempt)"}
	for _, e := range []string{"Keeper.SetSigningAttempt", "Keeper.SetSigning", "Keeper.AddSigningExpiration", "Keeper.AssignMembersForSigning"} {
		r.Gate("attempt-bound", inr, CallEff(e), []Cond{bound}, GateOpts{FailIsError: true})
	}
	r.Dominated("increment-before-bound-check", inr, StoreEff("Signing.CurrentAttempt", "binop:+"), CallEff("Keeper.AssignMembersForSigning"))
	r.ArgHas("expiry-height", inr, "types.NewSigningAttempt", 2, 1, "^binop:+", "binops=+", "call:Context.BlockHeight", "field:Params.SigningPeriod")
	r.ArgHas("attempt-number", inr, "types.NewSigningAttempt", 1, 1, "field:Signing.CurrentAttempt")
	r.ArgHas("attempt-members", inr, "types.NewSigningAttempt", 3, 1, "call:Keeper.AssignMembersForSigning")
	r.ArgHas("expiration-entry", inr, "Keeper.AddSigningExpiration", 2, 1, "field:Signing.CurrentAttempt")
	r.ArgHas("fresh-nonce-per-attempt", inr, "Keeper.AssignMembersForSigning", 3, 1, "param:signingID", "field:Signing.CurrentAttempt", "call:types.Uint64ToBigEndian")
	r.Gate("writes-need-members", inr, CallEff("Keeper.SetSigningAttempt"), []Cond{nilErrOf("Keeper.AssignMembersForSigning"), nilErrOf("tss.ComputeGroupPublicNonce")}, GateOpts{FailIsError: true})
	r.Count("one-expiration", inr, []Effect{CallEff("Keeper.AddSigningExpiration")}, "ok", 1, 1)
	notDue := Cond{Op: "LSS", A: []string{"call:Context.BlockHeight"}, B: []string{"field:SigningAttempt.ExpiredHeight"}, Want: false, Desc: "not (ExpiredHeight > BlockHeight)"}
	r.Gate("never-before-period", hes, CallEff("Keeper.DeleteInterimSigningData"), []Cond{notDue}, GateOpts{})
	r.Gate("never-before-period", hes, CallEff("TSSCallback.OnSigningTimeout"), []Cond{notDue}, GateOpts{})
	r.ArgHas("attempt-of-entry", hes, "Keeper.MustGetSigningAttempt", 2, 1, "field:SigningExpiration.SigningAttempt", "call:Keeper.GetSigningExpirations")
	r.ArgHas("consumed-prefix-removed", hes, "types.NewSigningExpirations", 0, 1, "^slice", "call:Keeper.GetSigningExpirations", "phi")
	r.Count("list-saved-once", hes, []Effect{CallEff("Keeper.SetSigningExpirations")}, "all", 1, 1)

	// an attempt's deadline is fixed when the attempt is created: the attempt record has one writer and the deadline field
	// is set by the constructor only (seed C10-11: deactivating a member "released" its open attempts by moving their
	// deadline to the current block, which timed out - and penalised - members that were still in time)
	r.Callers("attempt-record-writers", tK+"SetSigningAttempt", []string{tK + "InitiateNewSigningRound"}, []string{tK + "InitiateNewSigningRound"})
	r.FieldWriters("attempt-deadline-writers", "SigningAttempt.ExpiredHeight", nil, []string{"x/tss/types.NewSigningAttempt"}, []string{"x/tss"})
	r.Rule("C10.R3", "E3+E5 outcome handling")
	r.Gate("failed-only-if-retry-failed", heb, CallEff("Keeper.HandleFailedSigning"), []Cond{{Op: "EQL", A: []string{"call:Keeper.InitiateNewSigningRound"}, B: []string{"const:nil"}, Want: false, Desc: "InitiateNewSigningRound(cacheCtx) != nil"}}, GateOpts{})
	r.NotAfter("aggregate-before-expiry", heb, CallEff("Keeper.AggregatePartialSignatures"), CallEff("Keeper.HandleExpiredSignings"))
	r.NotAfter("pending-cleared-after-aggregation", heb, CallEff("Keeper.AggregatePartialSignatures"), CallEff("Keeper.SetPendingProcessSignings"))
	r.Count("pending-cleared-once", heb, []Effect{CallEff("Keeper.SetPendingProcessSignings")}, "all", 1, 1)
	r.Count("expiry-once", heb, []Effect{CallEff("Keeper.HandleExpiredSignings")}, "all", 1, 1)
	r.ArgHas("aggregate-pending-ids", heb, "Keeper.AggregatePartialSignatures", 1, 1, "call:Keeper.GetPendingProcessSignings")
	r.ArgHas("retry-failed-and-expired", heb, "Keeper.InitiateNewSigningRound", 1, 1, "call:Keeper.HandleExpiredSignings", "call:Keeper.GetPendingProcessSignings")
	r.SameValue("fail-the-retried-id", heb, ArgRef{"Keeper.InitiateNewSigningRound", 1}, ArgRef{"Keeper.HandleFailedSigning", 1})
	// the retry runs on the cache context (so that a failed one is rolled back), the failure is recorded on the block's
	// own context (seed C10-10 recorded it on the cache context, which is then dropped: the signing stayed WAITING forever)
	r.ArgHas("retry-on-the-cache-context", heb, "Keeper.InitiateNewSigningRound", 0, 1, "^~call:Context.CacheContext")
	r.ArgHas("failure-recorded-on-the-block-context", heb, "Keeper.HandleFailedSigning", 0, 1, "^param:ctx")
	r.Count("failed-callback-once", hfs, []Effect{CallEff("TSSCallback.OnSigningFailed")}, "all", 0, 1)
	r.Count("completed-callback-once", agg, []Effect{CallEff("TSSCallback.OnSigningCompleted")}, "ok", 0, 1)
	r.Count("no-completed-callback-on-failure", agg, []Effect{CallEff("TSSCallback.OnSigningCompleted"), CallEff("Keeper.SetSigning")}, "fail", 0, 0)
	r.Count("timeout-callback-per-entry", hes, []Effect{CallEff("TSSCallback.OnSigningTimeout")}, "all", 0, -1)
	r.ArgHas("timeout-gets-idle-members", hes, "TSSCallback.OnSigningTimeout", 2, 1, "call:Keeper.GetMembersNotSubmitSignature")
	r.ArgHas("idle-of-this-signing", hes, "Keeper.GetMembersNotSubmitSignature", 1, 1, "field:SigningExpiration.SigningID")
	r.Gate("timeout-only-if-incomplete", hes, CallEff("TSSCallback.OnSigningTimeout"), []Cond{{Op: "EQL", A: []string{"call:Keeper.GetPartialSignatureCount"}, B: []string{"len", "field:SigningAttempt.AssignedMembers"}, Want: false, Desc: "partialSigCount != len(assigned)"}}, GateOpts{})
	r.Gate("interim-data-removed-either-way", hes, CallEff("Keeper.DeleteInterimSigningData"), []Cond{
		{Op: "EQL", A: []string{"call:Keeper.GetPartialSignatureCount"}, B: []string{"len", "field:SigningAttempt.AssignedMembers"}, Want: true, Desc: "complete attempt"},
		{Op: "EQL", A: []string{"call:Keeper.GetPartialSignatureCount"}, B: []string{"len", "field:SigningAttempt.AssignedMembers"}, Want: false, Desc: "incomplete attempt"}}, GateOpts{AnySiteReach: true})
	idle := tK + "GetMembersNotSubmitSignature"
	r.Gate("idle-means-no-partial-signature", idle, CallEff("builtin.append"), []Cond{{Op: "BOOL", A: []string{"call:Keeper.HasPartialSignature", "field:AssignedMember.MemberID"}, Want: false, Desc: "not HasPartialSignature(member)"}}, GateOpts{})
	r.ArgHas("idle-from-attempt-members", idle, "Keeper.HasPartialSignature", 3, 1, "field:AssignedMember.MemberID", "field:SigningAttempt.AssignedMembers", "call:Keeper.MustGetSigningAttempt")
	r.Count("interim-delete-all", tK+"DeleteInterimSigningData", []Effect{CallEff("Keeper.DeletePartialSignatures"), CallEff("Keeper.DeletePartialSignatureCount"), CallEff("Keeper.DeleteSigningAttempt")}, "all", 3, 3)

	r.Rule("C10.R4", "E3 aggregation trigger")
	ss := tMS + "SubmitSignature"
	r.Gate("pending-when-all-submitted", ss, CallEff("Keeper.AddPendingProcessSigning"), []Cond{{Op: "EQL", A: []string{"call:Keeper.GetPartialSignatureCount"}, B: []string{"len", "field:SigningAttempt.AssignedMembers"}, Want: true, Desc: "sigCount == len(assignedMembers)"}}, GateOpts{})
	r.Dominated("count-after-add", ss, CallEff("Keeper.AddPartialSignature"), CallEff("Keeper.GetPartialSignatureCount"))
	r.SameValue("count-of-this-attempt", ss, ArgRef{"Keeper.AddPartialSignature", 2}, ArgRef{"Keeper.GetPartialSignatureCount", 2}, ArgRef{"Keeper.HasPartialSignature", 2})
	r.Callers("callers", tK+"AddPendingProcessSigning", []string{ss}, []string{ss})

	r.Rule("C10.R5", "E3 penalty")
	ot := bCB + "OnSigningTimeout"
	// an already inactive member is not penalised again: the callback skips it, OR DeactivateMember itself returns early for
	// an inactive member; each alone suffices (seed C10-8 removed both)
	r.AnyOf("inactive-member-not-penalised-again", "OnSigningTimeout deactivates only existing, active members, OR bandtss DeactivateMember is a no-op for an inactive member", map[string]func(*Report){
		"callback-skips-inactive": func(s *Report) {
			s.Gate("penalise-existing-active-only", ot, CallEff("Keeper.DeactivateMember"), []Cond{nilErrOf("Keeper.GetMember"), {Op: "BOOL", A: []string{"field:Member.IsActive"}, Want: true, Desc: "member.IsActive"}}, GateOpts{})
		},
		"deactivate-idempotent": func(s *Report) {
			s.Gate("deactivate-only-active", bK+"DeactivateMember", CallEff("Keeper.SetMember"), []Cond{{Op: "BOOL", A: []string{"field:Member.IsActive"}, Want: true, Desc: "member.IsActive"}}, GateOpts{})
			s.Gate("deactivate-only-active-tss", bK+"DeactivateMember", CallEff("TSSKeeper.DeactivateMember"), []Cond{{Op: "BOOL", A: []string{"field:Member.IsActive"}, Want: true, Desc: "member.IsActive"}}, GateOpts{})
		},
	})
	r.Gate("penalise-existing-only", ot, CallEff("Keeper.DeactivateMember"), nil, GateOpts{})
	r.ArgHas("penalise-idle-member", ot, "Keeper.DeactivateMember", 1, 1, "param:idleMembers")
	r.ArgHas("penalise-in-signing-group", ot, "Keeper.DeactivateMember", 2, 1, "field:Signing.GroupID", "call:TSSKeeper.MustGetSigning")
	chk := "Keeper.GetMember" // the existence test may be GetMember or HasMember; the member tested is the one deactivated
	if f := w.Fn(ot); f != nil && len(Calls(f, chk)) == 0 && len(Calls(f, "Keeper.HasMember")) > 0 {
		chk = "Keeper.HasMember"
	}
	r.SameValue("penalise-the-checked-member", ot, ArgRef{chk, 1}, ArgRef{"Keeper.DeactivateMember", 1})
	r.EffectSet("timeout-effects", ot, []string{"Keeper.ActivateMember", "Keeper.DeleteMember"}, nil)

	// every idle member / every due signing is handled: the per-element loops have no early way out
	r.LoopVisitsAll("penalise-every-idle-member", ot, "Keeper.DeactivateMember", LoopOpts{})
	r.LoopVisitsAll("expire-every-due-signing", hes, "TSSCallback.OnSigningTimeout", LoopOpts{MaxOtherExits: 1}) // the reviewed `break` at the first entry that is not yet due (gated in R3)
	r.LoopVisitsAll("aggregate-every-pending-signing", heb, "Keeper.AggregatePartialSignatures", LoopOpts{})
	r.LoopVisitsAll("retry-every-failed-signing", heb, "Keeper.InitiateNewSigningRound", LoopOpts{})

	r.Rule("C10.R6", "store-key agreement: every point read/delete addresses a written key family")
	r.StoreKeyAgreement("store-keys", "tss", 35, nil)

	r.Rule("C10.R7", "a committee never contains a member twice (it could not complete)")
	r.ShuffleShape("partial-fisher-yates", tK+"GetRandomMembers")

	r.Rule("C10.R8", "E19 constructors of x/tss/types store their inputs unchanged")
	r.CtorFaithful("ctor", faithfulCtors["tss"]...)

	// shared mechanisms decided by other properties' rules, evaluated here too: Lagrange tables and input routing (a wrong
	// coefficient or a panic in SubmitSignature makes complete attempts fail), partial-signature admission, DE queue arithmetic
	r.Include("C03", "C03.R1", "C03.R3")
	r.Include("C05", "C05.R4")

	r.Rule("C10.lint", "E8 module lint: no nondeterminism / process-local state in x/tss")
	r.ModuleLint("module-lint", "tss", 20)

	r.Rule("C10.iter", "E14 store-iterator loops run to exhaustion")
	r.IteratorLoopCensus("iter", []string{"x/tss/", "x/bandtss/"}, nil, 10)

	return propMeta{
		Decided: []string{
			"R1 Signing.Status: SUCCESS only in AggregatePartialSignatures, FALLEN only in HandleFailedSigning, WAITING only in InitiateNewSigningRound / constructor; CurrentAttempt only ever incremented by one; the lifecycle functions are called only from HandleSigningEndBlock (and RequestSigning for the first round)",
			"R2 InitiateNewSigningRound writes nothing unless not(CurrentAttempt+1 > MaxSigningAttempt) and member assignment succeeded; expiry height is BlockHeight + SigningPeriod; the nonce of a round is id||attempt; expiry consumes entries only while ExpiredHeight <= BlockHeight",
			"R3 end-block aggregates before it expires; HandleFailedSigning only when the retry failed (writeFn on the other edge, see C05.R3); each outcome callback at most once per call; timeout callback gets GetMembersNotSubmitSignature of that signing only when the attempt is incomplete; interim data removed on both edges",
			"R4 SubmitSignature queues aggregation exactly under count == len(assigned) read after its own AddPartialSignature, for the same attempt",
			"R5 OnSigningTimeout deactivates only members that exist and are active, in the signing's group, through DeactivateMember",
			"R6 every KV-store Get/Has/Delete of x/tss uses a key builder of x/tss/types that some Set of the module also uses (a probe of an iteration prefix or of a sibling family is always-empty state)",
			"R7 the signer selection is a partial Fisher-Yates over positions of the eligible list (same rule as C09.R3): a put-back slip yields committees with one member twice, whose attempt can never reach the full partial-signature count (seed C10-5)",
			"R8 the literal constructors of x/tss/types (frozen list) store each parameter or a constant unchanged in the record they build: what a handler validated is what is stored",
			"lint: the determinism lint (incl. writes to memory held by long-lived objects) over everything reachable from the handlers and blockers of x/tss",
			"iter: every KV-store iterator loop of the module's keeper runs until the iterator is exhausted (header is the bare Valid() test, no other way out but panic / error return), except reviewed early stops",
		},
		Undecided: []string{"termination itself and 'timed out exactly then' (liveness over schedules)", "that InitiateNewSigningRound is only ever reached for WAITING signings (history invariant)"},
		Assume:    []string{"VTA resolves the callback router to bandtss TSSCallback", "CacheContext isolation"},
	}
}
