package main

// Mutation self-test table (thorough tier). Each mutant is a source edit applied through packages.Config.Overlay
// (nothing is written to /repo); it must still type-check and must make the named rule report a violation.
// The edits are the realistic breakages the properties themselves name. A mutant whose anchor text no longer
// occurs exactly once is reported "stale" (the table needs maintenance), not failed.

type mutant struct {
	ID     string
	Prop   string
	File   string
	Old    string
	New    string
	Expect string // substring of the key of an obligation that must be violated / unresolved
	Why    string
}

var mutants = []mutant{
	// ---------------- C01
	{"C01-m1", "C01", "x/oracle/keeper/msg_server.go", "if k.GetReportCount(ctx, msg.RequestID) == req.MinCount {", "if k.GetReportCount(ctx, msg.RequestID) >= req.MinCount {", "C01.R3:pending-trigger", "report min+1 in the same block appends the id again: double resolve"},
	{"C01-m2", "C01", "x/oracle/keeper/request.go", "if !k.HasResult(ctx, currentReqID) {", "if true {", "C01.R4:expired-noresult", "expiry overwrites an existing result"},
	{"C01-m3", "C01", "x/oracle/keeper/msg_server.go", "	if reportInTime {\n		req := k.MustGetRequest(ctx, msg.RequestID)", "	if true {\n		req := k.MustGetRequest(ctx, msg.RequestID)", "C01.R3:pending-trigger", "a late report re-queues a resolved request"},
	{"C01-m4", "C01", "x/oracle/keeper/report.go", "	if k.HasReport(ctx, rid, val) {", "	if false {", "C01.R5:valid-report", "a validator reports twice"},
	{"C01-m5", "C01", "x/oracle/keeper/result.go", "		reportCount,                        // AnsCount", "		r.MinCount,                         // AnsCount", "C01.R8:ans-count", "answer count no longer mirrors the reports present"},
	{"C01-m6", "C01", "x/oracle/keeper/result.go", "func (k Keeper) ResolveExpired(ctx sdk.Context, id types.RequestID) {\n	k.SaveResult(ctx, id, types.RESOLVE_STATUS_EXPIRED, []byte{})", "func (k Keeper) ResolveExpired(ctx sdk.Context, id types.RequestID) {\n	k.SaveResult(ctx, id, types.RESOLVE_STATUS_EXPIRED, []byte{})\n	k.SetResult(ctx, id, k.MustGetResult(ctx, id))", "C01.R2:callers", "a second writer of the result store"},
	{"C01-m7", "C01", "x/oracle/keeper/msg_server.go", "	if msg.RequestID <= k.GetRequestLastExpired(ctx) {", "	if msg.RequestID < k.GetRequestLastExpired(ctx) {", "C01.R3:not-expired", "a report for the just-expired request is accepted"},
	{"C01-m8", "C01", "x/oracle/abci.go", "	k.SetPendingResolveList(ctx, []types.RequestID{})\n", "	k.SetPendingResolveList(ctx, append([]types.RequestID{}, k.GetPendingResolveList(ctx)...))\n", "C01.R7:clear-is-empty", "the list is never cleared: every request is resolved again next block"},

	{"C01-m9", "C01", "x/oracle/keeper/msg_server.go", "	reportInTime := !k.HasResult(ctx, msg.RequestID)", "	if req, err := k.GetRequest(ctx, msg.RequestID); err == nil && req.RequestHeight+int64(k.GetParams(ctx).ExpirationBlockCount) <= ctx.BlockHeight() {\n		return nil, types.ErrRequestAlreadyExpired\n	}\n	reportInTime := !k.HasResult(ctx, msg.RequestID)", "C01.R9:report-rejections", "reports in the expiry block are refused although the request has not expired yet"},

	// ---------------- C02
	{"C02-m1", "C02", "x/feeds/keeper/msg_server.go", "	sort.Strings(keys)\n", "	_ = sort.Strings\n", "C02.R1:lint", "state written in map order"},
	{"C02-m2", "C02", "x/oracle/keeper/result.go", "	defer func() {\n		if r := recover(); r != nil {\n			ctx.Logger().Error(fmt.Sprintf(\"Panic recovered: %v\", r))\n			err = types.ErrCreateSigningPanic\n		}\n	}()\n", "", "C02.R3:bandtss-create-signing-recover", "a panic in bandtss halts the chain in oracle end-block"},
	{"C02-m3", "C02", "x/tss/keeper/keeper_signing_endblock.go", "		cacheCtx, writeFn := ctx.CacheContext()\n		if err := k.InitiateNewSigningRound(cacheCtx, sid); err != nil {\n			k.HandleFailedSigning(ctx, sid, err.Error())\n		} else {\n			writeFn()\n		}", "		if err := k.InitiateNewSigningRound(ctx, sid); err != nil {\n			k.HandleFailedSigning(ctx, sid, err.Error())\n		}", "C02.R3:tss-initiate-round", "a half-created attempt persists"},
	{"C02-m4", "C02", "x/oracle/keeper/request.go", "	currentReqID := k.GetRequestLastExpired(ctx) + 1", "	currentReqID := k.GetRequestLastExpired(ctx) + 1\n	_ = k.MustGetResult(ctx, 1)", "C02.R2:abci-panics", "a new Must* reachable from end-block"},
	{"C02-m5", "C02", "x/oracle/keeper/owasm.go", "		sdk.Uint64ToBigEndian(id),\n		[]byte(ctx.ChainID()),", "		sdk.Uint64ToBigEndian(uint64(ctx.BlockTime().UnixNano())),\n		[]byte(ctx.ChainID()),", "C02.R5", "entropy from block time instead of the request id"},
	{"C02-m6", "C02", "x/bandtss/keeper/keeper_reward.go", "	n := math.LegacyNewDec(int64(len(validMembers)))", "	n := math.LegacyNewDec(int64(len(validMembers)))\n	_ = float64(len(validMembers)) * 1.5", "C02.R1:lint", "floating point in begin-block"},

	{"C02-m7", "C02", "x/oracle/types/params.go", "	if p.OracleRewardPercentage > 100 {\n		return fmt.Errorf(\"oracle reward percentage must not exceed 100: %d\", p.OracleRewardPercentage)\n	}\n", "", "C02.R6:param-safety|percentage|x/oracle/types.Params.OracleRewardPercentage", "finding F3 returns: an accepted parameter value halts begin-block"},
	{"C02-m8", "C02", "x/feeds/types/params.go", "	if err := validateInt64(\"current feeds update interval\", true, p.CurrentFeedsUpdateInterval); err != nil {", "	if err := validateInt64(\"current feeds update interval\", false, p.CurrentFeedsUpdateInterval); err != nil {", "C02.R6:param-safety|divisor|x/feeds/types.Params.CurrentFeedsUpdateInterval", "a zero interval is accepted: integer divide by zero in feeds end-block"},

	{"C02-m9", "C02", "x/tss/keeper/keeper_group_endblock.go", "		group.PubKey = k.GetAccumulatedCommit(ctx, groupID, 0)", "		group.PubKey = k.GetAccumulatedCommit(ctx, groupID, 0)\n		if err := k.UpdateMemberPubKey(ctx, groupID, 1); err != nil {\n			ctx.Logger().Error(err.Error())\n		}", "C02.R7:swallowed", "a new swallowed error in end-block (partial state on failure)"},

	// ---------------- C03
	{"C03-m1", "C03", "pkg/tss/internal/lagrange/lagrange.go", "	12: {{2, 2}, {3, 1}},", "	12: {{2, 2}, {3, 2}},", "C03.R1:lagrange|factor|12", "wrong factorisation of 12"},
	{"C03-m2", "C03", "pkg/tss/internal/lagrange/lagrange.go", "	3:  {1, 3, 9, 27, 81, 243, 729, 2187, 6561},", "	3:  {1, 3, 9, 27, 81, 243, 729, 2187},", "C03.R1:lagrange|powers|3", "row too short: index out of range for some committees"},
	{"C03-m3", "C03", "x/tss/keeper/msg_server.go", "	if !assignedMembers.VerifySignatureR(req.MemberID, req.Signature.R()) {", "	if false && !assignedMembers.VerifySignatureR(req.MemberID, req.Signature.R()) {", "C03.R3:admission", "a share with a foreign nonce point is accepted"},
	{"C03-m4", "C03", "x/tss/keeper/msg_server.go", "		req.Signature,\n		am.PubKey,", "		req.Signature,\n		signing.GroupPubKey,", "C03.R3:verify-member-key", "share verified under the wrong key"},
	{"C03-m5", "C03", "x/tss/keeper/keeper_signing_endblock.go", "	if err = tss.VerifyGroupSigningSignature(signing.GroupPubKey, signing.Message, sig); err != nil {\n		return types.ErrInvalidSignature.Wrapf(\"failed to verify group signature: %v\", err)\n	}\n", "", "C03.R4:publish-only-verified", "an unverified aggregate is published"},
	{"C03-m6", "C03", "pkg/tss/hash.go", "		[]byte{rawGroupPubKey[0] + 25},", "		[]byte{rawGroupPubKey[0] + 27},", "C03.R2:hash|HashChallenge|layout", "challenge format drift shared by signer and verifier"},
	{"C03-m7", "C03", "pkg/tss/signing.go", "		if id > 20 {", "		if id > 21 {", "C03.R1:lagrange", "ids above the table bound take the table path"},
	{"C03-m8", "C03", "pkg/tss/hash.go", "	return Hash([]byte(ContextString), []byte(\"signCommitment\"), data)", "	return Hash([]byte(ContextString), []byte(\"signMsg\"), data)", "C03.R2:hash|HashSignCommitment|tag", "two hashes share a domain tag"},

	{"C03-m9", "C03", "x/tss/keeper/msg_server.go", "	// Compute lagrange coefficient", "	if uint64(req.MemberID) > 20 {\n		return nil, types.ErrSubmitSigningSignatureFailed.Wrap(\"unsupported member id\")\n	}\n	// Compute lagrange coefficient", "C03.R3:share-rejections", "shares of members with ids above 20 are refused although they are correct"},

	// ---------------- C04
	{"C04-m1", "C04", "x/tss/keeper/keeper_group_round1.go", "	if uint64(len(round1Info.CoefficientCommits)) != group.Threshold {", "	if uint64(len(round1Info.CoefficientCommits)) < group.Threshold {", "C04.R2:round1-info-valid", "oversized commitment vector accepted"},
	{"C04-m2", "C04", "x/tss/keeper/keeper_group_round3.go", "	complainantIndex := types.FindMemberSlot(complaint.Respondent, complaint.Complainant)", "	complainantIndex := types.FindMemberSlot(complaint.Complainant, complaint.Respondent)", "C04.R3:slot-from-respondent", "honest dealer framed for non-adjacent ids"},
	{"C04-m3", "C04", "x/tss/keeper/keeper_group_round3.go", "			maliciousMemberID = c.Complainant\n			complaintStatus = types.COMPLAINT_STATUS_FAILED", "			maliciousMemberID = c.Respondent\n			complaintStatus = types.COMPLAINT_STATUS_FAILED", "C04.R3:blame-polarity", "a false complaint blames the respondent"},
	{"C04-m4", "C04", "pkg/tss/round3.go", "	err = VerifySecretShare(midI, secretShare, commits)\n	if err == nil {\n		return ErrValidSecretShare\n	}", "	err = VerifySecretShare(midI, secretShare, commits)\n	if err != nil {\n		return ErrValidSecretShare\n	}", "C04.R3:complaint-succeeds-iff-share-bad", "complaint polarity inverted"},
	{"C04-m5", "C04", "x/tss/keeper/keeper_group_endblock.go", "		if !types.Members(members).HaveMalicious() {", "		if true || !types.Members(members).HaveMalicious() {", "C04.R5:active-only-if-no-malicious", "a group with a cheater becomes ACTIVE"},
	{"C04-m6", "C04", "x/tss/keeper/keeper_group_endblock.go", "		group.PubKey = k.GetAccumulatedCommit(ctx, groupID, 0)", "		group.PubKey = k.GetAccumulatedCommit(ctx, groupID, 1)", "C04.R5:group-key-is-accumulated-a0", "group key is not the constant-term commitment"},
	{"C04-m7", "C04", "x/tss/keeper/msg_server.go", "	if k.Keeper.HasRound1Info(ctx, groupID, req.Round1Info.MemberID) {", "	if false {", "C04.R1:round1", "a member re-submits round 1 and is accumulated twice"},
	{"C04-m8", "C04", "x/tss/keeper/msg_server.go", "	count := k.Keeper.GetRound2InfoCount(ctx, groupID)\n	if count == group.Size_ {", "	count := k.Keeper.GetRound2InfoCount(ctx, groupID)\n	if count >= group.Size_-1 {", "C04.R1:round2-advance", "round 3 starts before everybody dealt"},

	// ---------------- C05
	{"C05-m1", "C05", "x/tss/keeper/keeper_signing_endblock.go", "		if err := k.InitiateNewSigningRound(cacheCtx, sid); err != nil {\n			k.HandleFailedSigning(ctx, sid, err.Error())\n		} else {\n			writeFn()\n		}", "		err := k.InitiateNewSigningRound(cacheCtx, sid)\n		writeFn()\n		if err != nil {\n			k.HandleFailedSigning(ctx, sid, err.Error())\n		}", "C05.R3:de-consumption", "nonces dequeued by a failed retry stay consumed... and half-written attempts persist"},
	{"C05-m2", "C05", "x/tunnel/keeper/keeper_packet.go", "	cacheCtx, writeFn := ctx.CacheContext()\n	if err := k.ProducePacket(cacheCtx, tunnelID, pricesMap); err != nil {\n		return err\n	}\n	writeFn()\n", "	if err := k.ProducePacket(ctx, tunnelID, pricesMap); err != nil {\n		return err\n	}\n", "C05.R3:de-consumption", "tunnel signing failure leaves dequeued nonces consumed"},
	{"C05-m3", "C05", "x/tss/keeper/keeper_de.go", "	k.DeleteDE(ctx, address, deQueue.Head)\n\n	deQueue.Head += 1", "	deQueue.Head += 1\n	k.DeleteDE(ctx, address, deQueue.Head)\n", "C05.R2:head-read-is-head-deleted", "the returned nonce stays in the store and the next one is deleted unread"},
	{"C05-m4", "C05", "x/tss/keeper/keeper_de.go", "	if total > maxDESize {", "	if uint64(len(des)) > maxDESize {", "C05.R4:max-de-size", "queue grows beyond the maximum"},
	{"C05-m5", "C05", "x/tss/keeper/keeper_member.go", "		if !k.HasDE(ctx, acc) {", "		if false && !k.HasDE(ctx, acc) {", "C05.R4:eligible-active", "a member without nonces is put on a committee"},
	{"C05-m6", "C05", "x/tss/keeper/keeper_de.go", "	deQueue.Head += 1\n	k.SetDEQueue(ctx, address, deQueue)\n	return de, nil", "	k.SetDEQueue(ctx, address, deQueue)\n	return de, nil", "C05.R2:one-head-increment", "head never advances: the same index is read again"},

	// ---------------- C06
	{"C06-m1", "C06", "x/feeds/keeper/keeper_price.go", "	if totalPower.LT(powerQuorum) || !availablePower.IsPositive() || availablePower.MulRaw(2).LT(totalPower) {", "	if totalPower.LT(powerQuorum) && (!availablePower.IsPositive() || availablePower.MulRaw(2).LT(totalPower)) {", "C06.R1", "price AVAILABLE below quorum"},
	{"C06-m2", "C06", "x/feeds/types/median.go", "		if cumulativeWeight.MulRaw(2).GTE(totalWeight) {", "		if cumulativeWeight.MulRaw(3).GTE(totalWeight) {", "C06.R2:median-returns-an-input-price", "not the median"},
	{"C06-m3", "C06", "x/feeds/keeper/keeper_price.go", "			status := k.oracleKeeper.GetValidatorStatus(ctx, operator)\n			if !status.IsActive {", "			status := k.oracleKeeper.GetValidatorStatus(ctx, operator)\n			if false && !status.IsActive {", "C06.R3:only-active-validators", "inactive validators' prices are counted"},
	{"C06-m4", "C06", "x/feeds/keeper/keeper_price.go", "		valPrice.Timestamp >= blockTime.Unix()-feed.Interval {", "		valPrice.Timestamp >= blockTime.Unix()-2*feed.Interval {", "C06.R3:fresh-means", "stale prices are aggregated"},
	{"C06-m5", "C06", "x/feeds/types/median.go", "		sdkmath.NewInt(15),\n		sdkmath.NewInt(32),", "		sdkmath.NewInt(15),\n		sdkmath.NewInt(31),", "C06.R4:section-tables", "last section does not reach the scaling factor: power left unplaced"},
	{"C06-m6", "C06", "x/feeds/types/median.go", "		weightedPrices = append(weightedPrices, NewWeightedPrice(totalWeight, priceInfo.Price))", "		weightedPrices = append(weightedPrices, NewWeightedPrice(totalWeight, priceInfo.Price+1))", "C06.R2:weighted-price-is-input-price", "published price is not one of the inputs"},

	// ---------------- C07
	{"C07-m1", "C07", "x/feeds/keeper/keeper_signal.go", "	sumPower := math.ZeroInt()\n	for _, signal := range signals {\n		sumPower = sumPower.Add(math.NewInt(signal.Power))\n	}\n	if err := k.restakeKeeper.SetLockedPower(ctx, voter, types.ModuleName, sumPower); err != nil {", "	sumPower := types.SumPower(signals)\n	if err := k.restakeKeeper.SetLockedPower(ctx, voter, types.ModuleName, math.NewInt(sumPower)); err != nil {", "C07.R1:vote-sum-not-via-native-accumulator", "finding F1 returns: int64 sum wraps"},
	{"C07-m2", "C07", "x/feeds/keeper/msg_server.go", "		if signalTotalPower.Power < 0 {\n			return nil, types.ErrPowerNegative\n		}\n", "", "C07.R3:no-negative-total", "negative totals stored"},
	{"C07-m3", "C07", "x/feeds/keeper/keeper_signal.go", "	prevSignalTotalPower, err := k.GetSignalTotalPower(ctx, signal.ID)\n	if err == nil {\n		k.deleteSignalTotalPowerByPowerIndex(ctx, prevSignalTotalPower)\n	}\n", "	k.deleteSignalTotalPowerByPowerIndex(ctx, signal)\n", "C07.R4:old-index-entry-from-stored-record", "stale by-power index entries"},
	{"C07-m4", "C07", "x/feeds/keeper/keeper_feed.go", "		if interval > 0 {", "		if interval >= 0 {", "C07.R5:only-above-threshold", "signals below the threshold become feeds"},
	{"C07-m5", "C07", "x/feeds/keeper/msg_server.go", "	err = k.Keeper.LockVoterPower(ctx, voter, msg.Signals)\n	if err != nil {\n		return nil, err\n	}\n", "	_ = k.Keeper.LockVoterPower(ctx, voter, msg.Signals)\n", "C07.R2:vote-after-lock", "vote recorded although the lock was refused"},

	// ---------------- C08
	{"C08-m1", "C08", "x/tunnel/keeper/helper.go", "			newFeedPrices = append(newFeedPrices, feedPrice)\n		}\n	}\n\n	if shouldSend {", "			newFeedPrices = append(newFeedPrices, feedPrice)\n			shouldSend = true\n		}\n	}\n\n	if shouldSend {", "C08.R3:should-send", "a soft deviation alone produces a packet"},
	{"C08-m2", "C08", "x/tunnel/keeper/keeper_packet.go", "func (k Keeper) SendPacket(ctx sdk.Context, packet types.Packet) (err error) {\n	defer func() {\n		if r := recover(); r != nil {\n			ctx.Logger().Error(fmt.Sprintf(\"Panic recovered: %v\", r))\n			err = types.ErrSendPacketPanic\n			return\n		}\n	}()\n", "func (k Keeper) SendPacket(ctx sdk.Context, packet types.Packet) (err error) {\n", "C08.R1:route-tss-recover", "route panic halts the chain"},
	{"C08-m3", "C08", "x/tunnel/keeper/keeper_packet.go", "	if sendAll {\n		latestPrices.LastInterval = unixNow\n	}", "	latestPrices.LastInterval = unixNow", "C08.R3:last-interval-only-on-sendall", "deviation packets postpone the interval send for ever"},
	{"C08-m4", "C08", "x/tunnel/keeper/keeper_packet.go", "	tunnel.Sequence++\n	packet := types.NewPacket(\n		tunnelID,\n		tunnel.Sequence,", "	packet := types.NewPacket(\n		tunnelID,\n		tunnel.Sequence+1,", "C08.R2:one-seq-increment", "sequence never advances: packets overwrite each other"},
	{"C08-m5", "C08", "x/tunnel/keeper/keeper_packet.go", "	if !ok {\n		return k.DeactivateTunnel(ctx, tunnelID)", "	if false && !ok {\n		return k.DeactivateTunnel(ctx, tunnelID)", "C08.R4:produce-needs-fund", "packets produced for a payer that cannot pay"},
	{"C08-m6", "C08", "x/tunnel/keeper/keeper_packet.go", "	sendAll := unixNow >= int64(tunnel.Interval)+latestPrices.LastInterval", "	sendAll := unixNow > int64(tunnel.Interval)+latestPrices.LastInterval", "C08.R3:sendall-def", "interval send one second late"},

	// ---------------- C09
	{"C09-m1", "C09", "pkg/bandrng/sampling.go", "	availableWeights := make([]uint64, len(weights))\n	availableIndexes := make([]int, len(weights))\n	for idx, weight := range weights {\n		availableWeights[idx] = weight\n		availableIndexes[idx] = idx\n	}", "	availableWeights := weights\n	availableIndexes := make([]int, len(weights))\n	for idx := range weights {\n		availableIndexes[idx] = idx\n	}", "C09.R2:choose-some-copies-weights", "slice aliasing: the caller's weights are consumed, later tries differ"},
	{"C09-m2", "C09", "x/oracle/keeper/owasm.go", "			if k.GetValidatorStatus(ctx, operator).IsActive {\n				valOperators = append(valOperators, operator)\n				valPowers = append(valPowers, val.GetTokens().Uint64())\n			}", "			valOperators = append(valOperators, operator)\n			valPowers = append(valPowers, val.GetTokens().Uint64())", "C09.R1:validators-bonded-and-active", "inactive validators are chosen"},
	{"C09-m3", "C09", "x/tss/keeper/keeper_member.go", "		memberIdx[randomNumber] = memberIdx[members_size-i-1]\n", "", "C09.R3:partial-fisher-yates", "members can be picked twice"},
	{"C09-m4", "C09", "x/oracle/keeper/owasm.go", "	if len(valOperators) < size {", "	if len(valOperators) < size-1 {", "C09.R1:enough-validators", "sampling more validators than exist"},
	{"C09-m5", "C09", "x/tss/keeper/keeper_member.go", "	sort.Slice(selected, func(i, j int) bool { return selected[i].ID < selected[j].ID })\n", "	_ = sort.Slice\n", "C09.R3:sorted-by-id", "committee order differs from the specification"},

	// ---------------- C10
	{"C10-m1", "C10", "x/tss/keeper/keeper_signing.go", "	if signing.CurrentAttempt > params.MaxSigningAttempt {", "	if signing.CurrentAttempt >= params.MaxSigningAttempt {", "C10.R2:attempt-bound", "FALLEN one attempt early"},
	{"C10-m2", "C10", "x/tss/keeper/keeper_signing.go", "	expiredHeight := uint64(ctx.BlockHeight()) + params.SigningPeriod", "	expiredHeight := uint64(ctx.BlockHeight()) + params.SigningPeriod/2", "C10.R2:expiry-height", "attempts time out before the signing period"},
	{"C10-m3", "C10", "x/tss/keeper/msg_server.go", "	if sigCount == uint64(len(assignedMembers)) {", "	if sigCount >= uint64(len(assignedMembers))-1 {", "C10.R4:pending-when-all-submitted", "aggregation before everybody submitted"},
	{"C10-m4", "C10", "x/tss/keeper/keeper_signing_endblock.go", "				idleMembers := k.GetMembersNotSubmitSignature(ctx, signingID, signing.CurrentAttempt)\n				cb.OnSigningTimeout(ctx, signing.ID, idleMembers)", "				cb.OnSigningTimeout(ctx, signing.ID, k.MustGetCurrentAssignedMembers(ctx, signingID))", "C10.R3:timeout-gets-idle-members", "members that did submit are penalised"},
	{"C10-m5", "C10", "x/bandtss/keeper/tss_callback.go", "		if err != nil || !member.IsActive {", "		if err != nil || (false && !member.IsActive) {", "C10.R5:penalise-existing-active-only", "double penalty"},
	{"C10-m6", "C10", "x/tss/keeper/keeper_signing_endblock.go", "		if sa.ExpiredHeight > uint64(ctx.BlockHeight()) {\n			break\n		}\n", "", "C10.R2:never-before-period", "every attempt is expired immediately"},

	// ---------------- C11
	{"C11-m1", "C11", "x/bandtss/tss_handler.go", "const GroupTransitionMsgPrefix = \"\\x61\\xb9\\xb7\\x41\"", "const GroupTransitionMsgPrefix = \"\\x61\\xb9\\xb7\\x42\"", "C11.R1:tag|x/bandtss.GroupTransitionMsgPrefix", "tag no longer the documented keccak prefix"},
	{"C11-m2", "C11", "x/tss/types/originator.go", "		tss.Hash([]byte(o.Requester)),\n		tss.Hash([]byte(o.Memo)),", "		[]byte(o.Requester),\n		[]byte(o.Memo),", "C11.R2:direct-originator", "ambiguous concatenation: (ab,c) and (a,bc) collide"},
	{"C11-m3", "C11", "x/tunnel/types/signature_order.go", "func (ts *TunnelSignatureOrder) IsInternal() bool { return true }", "func (ts *TunnelSignatureOrder) IsInternal() bool { return false }", "C11.R4:internal-set|TunnelSignatureOrder", "users can obtain signatures over tunnel packets"},
	{"C11-m4", "C11", "x/bandtss/keeper/msg_server.go", "	if content.IsInternal() {", "	if false && content.IsInternal() {", "C11.R4:internal-rejected", "internal kinds reachable through MsgRequestSignature"},
	{"C11-m5", "C11", "x/oracle/tss_handler.go", "				return append([]byte(EncoderFullABIPrefix), bz...), nil", "				return append([]byte(EncoderPartialABIPrefix), bz...), nil", "C11.R3:oracle-encoder-selects-tag", "full-ABI payload tagged as partial-ABI"},
	{"C11-m6", "C11", "pkg/tickmath/tickmath.go", "		\"ffe5caca7e10e4e61c3624ea\",", "		\"ffe5caca7e10e4e61c3624eb\",", "C11.R5:tick|x96-table|2", "one table entry off by one"},
	{"C11-m7", "C11", "x/tss/types/helpers.go", "		sdk.Uint64ToBigEndian(signingID),\n		contentMsg,", "		contentMsg,\n		sdk.Uint64ToBigEndian(signingID),", "C11.R2:signing-layout", "content no longer last: layout changed"},

	// ---------------- C12
	{"C12-m1", "C12", "app/keepers/keys.go", "		tunneltypes.StoreKey,\n	)", "		tunneltypes.StoreKey,\n		\"icacontroller\",\n	)", "C12.R1:multistore", "a new store shifts the oracle leaf's path"},
	{"C12-m2", "C12", "client/grpc/oracle/proof/block_header_merkle_parts.go", "			cdcEncode(block.LastCommitHash),\n			cdcEncode(block.DataHash),", "			cdcEncode(block.DataHash),\n			cdcEncode(block.LastCommitHash),", "C12.R2:header|group", "header part does not match the header hash leaf order"},
	{"C12-m3", "C12", "client/grpc/oracle/proof/signature.go", "	suffix = append([]byte{18}, suffix...)", "	suffix = append([]byte{26}, suffix...)", "C12.R3:vote|part-set-tag", "wrong protobuf tag in the reconstructed vote"},
	{"C12-m4", "C12", "client/grpc/oracle/proof/multi_store.go", "		TssToUpgradeStoresMerkleHash:          tmbytes.HexBytes(multiStoreEp.Path[3].Suffix),", "		TssToUpgradeStoresMerkleHash:          tmbytes.HexBytes(multiStoreEp.Path[3].Prefix[1:]),", "C12.R1:multistore|step|3", "sibling taken from the wrong side"},
	{"C12-m5", "C12", "client/grpc/oracle/proof/iavl_proof.go", "		subtreeVersion, n3 := binary.Varint(step.Prefix[n1+n2:])", "		subtreeVersion, n3 := binary.Varint(step.Prefix[n1+n1:])", "C12.R5:node-header", "version parsed at the wrong offset once size needs two bytes"},

	// ---------------- C13
	{"C13-m1", "C13", "x/oracle/keeper/fee_collector.go", "	coll.collected = coll.collected.Add(coins...)\n\n	// If found any collected coin that exceed limit then return error\n	for _, c := range coll.collected {", "	if err := coll.bankKeeper.SendCoins(ctx, coll.payer, treasury, coins); err != nil {\n		return err\n	}\n	coll.collected = coll.collected.Add(coins...)\n\n	// If found any collected coin that exceed limit then return error\n	for _, c := range coll.collected {", "C13.R1", "coins move before the limit is checked"},
	{"C13-m2", "C13", "x/bandtss/keeper/keeper_signing.go", "		totalFee = feePerSigner.MulInt(math.NewInt(int64(currentGroup.Threshold)))", "		totalFee = feePerSigner.MulInt(math.NewInt(int64(currentGroup.Size_)))", "C13.R3:escrow-amount", "escrow sized by group size instead of threshold"},
	{"C13-m3", "C13", "x/bandtss/keeper/tss_callback.go", "		if signingID != bandtssSigning.CurrentGroupSigningID || bandtssSigning.FeePerSigner.IsZero() {", "		if bandtssSigning.FeePerSigner.IsZero() {", "C13.R4:payout-guards", "incoming-group signatures are paid"},
	{"C13-m4", "C13", "x/oracle/keeper/owasm.go", "			c.Amount = c.Amount.Mul(math.NewInt(int64(askCount)))", "			c.Amount = c.Amount.Mul(math.NewInt(int64(len(rawRequests))))", "C13.R2:multiplier-is-askcount", "fee multiplied by the wrong count"},
	{"C13-m5", "C13", "x/bandtss/keeper/tss_callback.go", "			if err != nil {\n				panic(err)\n			}\n		}\n		return\n	}", "			_ = err\n		}\n		return\n	}", "C13", "payout error ignored"},
	{"C13-m6", "C13", "x/bandtss/keeper/keeper_signing.go", "	if sender.String() != k.authority && currentGroupID != 0 {", "	if currentGroupID != 0 {", "C13.R3:fee-exemptions", "governance requests are charged"},

	// ---------------- C14
	{"C14-m1", "C14", "x/oracle/keeper/validator_status.go", "		remaining = remaining.Sub(reward)", "		remaining = remaining.Sub(oracleReward.MulDec(powerFraction))", "C14.R2:remaining-telescopes", "allocated and subtracted amounts differ: coins created or lost"},
	{"C14-m2", "C14", "x/bandtss/keeper/keeper_reward.go", "	communityFund := tssRewardInt.Sub(rewardInt.MulInt(math.NewInt(int64(len(validMembers))))...)", "	communityFund := tssRewardInt.Sub(rewardInt.MulInt(math.NewInt(int64(len(members))))...)", "C14.R3:community-fund-is-transferred-minus-paid", "rest computed with the wrong member count"},
	{"C14-m3", "C14", "app/modules.go", "		minttypes.ModuleName,\n		rollingseedtypes.ModuleName,\n		oracletypes.ModuleName,\n		tsstypes.ModuleName,\n		bandtsstypes.ModuleName,", "		minttypes.ModuleName,\n		rollingseedtypes.ModuleName,\n		tsstypes.ModuleName,\n		bandtsstypes.ModuleName,\n		oracletypes.ModuleName,", "C14.R5:begin-order", "bandtss takes its share before oracle"},
	{"C14-m4", "C14", "x/oracle/keeper/validator_status.go", "		if k.GetValidatorStatus(ctx, operator).IsActive {\n			toReward", "		if true || k.GetValidatorStatus(ctx, operator).IsActive {\n			toReward", "C14.R4:oracle-active-only", "inactive validators are rewarded"},
	{"C14-m5", "C14", "x/oracle/keeper/validator_status.go", "		powerFraction := math.LegacyNewDec(each.power).QuoTruncate(math.LegacyNewDec(totalPower))", "		powerFraction := math.LegacyNewDec(each.power).Quo(math.LegacyNewDec(totalPower))", "C14.R7:dec-ops", "rounding up can allocate more than the pool: begin-block panic"},
	{"C14-m6", "C14", "x/bank/keeper/keeper.go", "	if k.distrKeeper == nil || moduleName == distrtypes.ModuleName {", "	if k.distrKeeper == nil || moduleName != distrtypes.ModuleName {", "C14.R6:real-burn-only-for-distribution", "other modules really burn coins"},

	// ---------------- C15
	{"C15-m1", "C15", "x/oracle/keeper/validator_status.go", "	if status.IsActive && status.Since.Before(requestTime) {", "	if status.IsActive && !status.Since.After(requestTime) {", "C15.R2:miss-guards", "a validator activated in the request's own second is penalised"},
	{"C15-m2", "C15", "x/feeds/keeper/keeper_price.go", "	return lastTime < blockTime.Unix() && lastBlock < blockHeight", "	return lastTime < blockTime.Unix() || lastBlock < blockHeight", "C15.R5:miss-needs-both-bounds", "one clock is enough to deactivate"},
	{"C15-m3", "C15", "x/feeds/keeper/keeper_price.go", "		if valPrice.Timestamp+feed.Interval > lastTime {\n			lastTime = valPrice.Timestamp + feed.Interval\n		}", "		lastTime = valPrice.Timestamp + feed.Interval", "C15.R5:time-bound-from-price", "a price shortens the grace period"},
	{"C15-m4", "C15", "x/oracle/keeper/request.go", "			if !k.HasReport(ctx, currentReqID, v) {\n				k.MissReport", "			if true || !k.HasReport(ctx, currentReqID, v) {\n				k.MissReport", "C15.R3:miss-only-if-expired-and-unreported", "validators that reported are deactivated"},
	{"C15-m5", "C15", "x/oracle/keeper/validator_status.go", "	if !status.Since.IsZero() && status.Since.Add(penaltyDuration).After(ctx.BlockHeader().Time) {", "	if false && !status.Since.IsZero() && status.Since.Add(penaltyDuration).After(ctx.BlockHeader().Time) {", "C15.R2:activate-penalty", "re-activation without serving the penalty"},
	{"C15-m6", "C15", "x/oracle/keeper/validator_status.go", "		k.SetValidatorStatus(ctx, val, types.NewValidatorStatus(false, ctx.BlockHeader().Time))", "		k.SetValidatorStatus(ctx, val, types.NewValidatorStatus(false, requestTime))", "C15.R2:deactivated-since-now", "penalty clock starts at the request time"},

	// ---------------- C16
	{"C16-m1", "C16", "x/restake/keeper/msg_server.go", "	if !k.Keeper.isValidPower(ctx, addr, totalPower) {", "	if false && !k.Keeper.isValidPower(ctx, addr, totalPower) {", "C16.R1:unstake-guards", "locked power can be unstaked"},
	{"C16-m2", "C16", "x/restake/keeper/hooks.go", "	delegated = delegated.Sub(tokens.RoundInt())\n", "	_ = tokens\n", "C16.R2:remaining-power", "full removal checked against the pre-removal power"},
	{"C16-m3", "C16", "x/restake/keeper/keeper_lock.go", "	if totalPower.LT(power) {", "	if false && totalPower.LT(power) {", "C16.R4:lock-guards", "locks above the total power"},
	{"C16-m4", "C16", "x/restake/keeper/keeper_lock.go", "	addr := sdk.MustAccAddressFromBech32(lock.StakerAddress)\n	k.DeleteLock(ctx, addr, lock.Key)\n", "	addr := sdk.MustAccAddressFromBech32(lock.StakerAddress)\n", "C16.R5:delete-old-before-write", "stale by-power index entries keep binding"},
	{"C16-m5", "C16", "x/restake/keeper/keeper_lock.go", "		if k.IsActiveVault(ctx, key) {", "		if true || k.IsActiveVault(ctx, key) {", "C16.R7:first-active-vault-decides", "deactivated vaults keep constraining"},
	{"C16-m6", "C16", "x/restake/keeper/keeper_vault.go", "	vault.IsActive = false\n	k.SetVault(ctx, vault)", "	vault.IsActive = !vault.IsActive\n	k.SetVault(ctx, vault)", "C16.R6", "a vault can be re-activated"},
	{"C16-m7", "C16", "app/keepers/keepers.go", "			appKeepers.RestakeKeeper.Hooks(),\n", "", "C16.R3:hooks-wiring", "undelegations bypass the lock check"},

	// ---------------- C17
	{"C17-m1", "C17", "x/tunnel/keeper/msg_server.go", "	if msg.Creator != tunnel.Creator {\n		return nil, types.ErrInvalidTunnelCreator.Wrapf(\"creator %s, tunnelID %d\", msg.Creator, msg.TunnelID)\n	}\n\n	if !tunnel.IsActive {", "	if !tunnel.IsActive {", "C17.R1:creator", "anybody can deactivate a tunnel"},
	{"C17-m2", "C17", "x/tunnel/keeper/keeper_deposit.go", "	tunnel.TotalDeposit = tunnel.TotalDeposit.Add(depositAmount...)", "	tunnel.TotalDeposit = tunnel.TotalDeposit.Add(deposit.Amount...)", "C17.R2:deposit-one-amount", "total over-credited on a top-up"},
	{"C17-m3", "C17", "x/tunnel/keeper/keeper_deposit.go", "	if !deposit.Amount.IsAllGTE(amount) {\n		return types.ErrInsufficientDeposit\n	}\n", "", "C17.R2:withdraw-guards", "withdraw more than deposited"},
	{"C17-m4", "C17", "x/tunnel/keeper/keeper_tunnel.go", "	// remove the tunnel ID from the active tunnel IDs\n	k.DeleteActiveTunnelID(ctx, tunnelID)\n", "", "C17.R4", "flag inactive but still in the active index"},
	{"C17-m5", "C17", "x/tunnel/keeper/keeper_tunnel.go", "	if !tunnel.TotalDeposit.IsAllGTE(minDeposit) {\n		return types.ErrInsufficientDeposit\n	}\n\n	// add the tunnel ID", "	if false && !tunnel.TotalDeposit.IsAllGTE(minDeposit) {\n		return types.ErrInsufficientDeposit\n	}\n\n	// add the tunnel ID", "C17.R3:activate-needs-min-deposit", "activation without the minimum deposit"},
	{"C17-m6", "C17", "x/tunnel/keeper/keeper_deposit.go", "	deposit, found := k.GetDeposit(ctx, tunnelID, withdrawer)\n	if !found {\n		return types.ErrDepositNotFound\n	}", "	deposit, found := k.GetDeposit(ctx, tunnelID, sdk.MustAccAddressFromBech32(tunnel.Creator))\n	if !found {\n		return types.ErrDepositNotFound\n	}", "C17.R2:own-deposit-only", "withdrawing somebody else's deposit"},

	// ---------------- C18
	{"C18-m1", "C18", "x/bandtss/keeper/keeper_transition.go", "	if transition.Status != types.TRANSITION_STATUS_WAITING_EXECUTION {\n		k.EndGroupTransitionProcess(ctx, transition, false)\n		return\n	}\n", "", "C18.R2:set-current-needs-waiting-execution", "the group changes without the hand-over signature"},
	{"C18-m2", "C18", "x/bandtss/keeper/tss_callback.go", "	if found && signingID == transition.SigningID && transition.Status == types.TRANSITION_STATUS_WAITING_SIGN {\n		// add Members", "	if found && transition.Status == types.TRANSITION_STATUS_WAITING_SIGN {\n		// add Members", "C18.R3:handover-signed", "a stale signature advances a later transition"},
	{"C18-m3", "C18", "x/bandtss/keeper/keeper_transition.go", "	if _, found := k.GetGroupTransition(ctx); found {\n		return types.ErrTransitionInProgress\n	}", "	if t, found := k.GetGroupTransition(ctx); found && t.ExecTime.After(ctx.BlockTime()) {\n		return types.ErrTransitionInProgress\n	}", "C18.R5:in-progress", "a proposal in the execution block overwrites the scheduled transition"},
	{"C18-m4", "C18", "x/bandtss/keeper/keeper_transition.go", "	if !found || transition.ExecTime.After(ctx.BlockTime()) {", "	if !found {", "C18.R2:due-means-found-and-time", "transition executes before its execution time"},
	{"C18-m5", "C18", "x/bandtss/keeper/keeper_transition.go", "	if found && transition.Status == types.TRANSITION_STATUS_WAITING_EXECUTION {\n		return transition.IncomingGroupID\n	}", "	if found {\n		return transition.IncomingGroupID\n	}", "C18.R6:incoming-only-when-waiting-execution", "requests are sent to a group that has no key yet"},
	{"C18-m6", "C18", "x/bandtss/keeper/msg_server.go", "	if currentGroupID == req.IncomingGroupID {", "	if false && currentGroupID == req.IncomingGroupID {", "C18.R5:force-guards", "forced transition onto the current group deletes its members"},
	{"C18-m7", "C18", "x/bandtss/keeper/keeper_signing.go", "		} else {\n			writeFn()\n			incomingGroupSigningID = signingID\n		}", "		}\n		writeFn()\n		incomingGroupSigningID = signingID", "C18.R6:incoming-signing", "a failed incoming-group signing is half-committed"},

	// ---------------- C19
	{"C19-m1", "C19", "yoda/execute.go", "	preview := resValue\n	if len(preview) > 32 {\n		preview = preview[:32]\n	}\n	l.Debug(\":balloon: Received data source hash: %s content: %q\", hash, preview)", "	l.Debug(\":balloon: Received data source hash: %s content: %q\", hash, resValue[:32])", "C19.R4:yoda|unguarded-const-slice|yoda.GetExecutable", "finding F2 returns"},
	{"C19-m2", "C19", "yoda/handler.go", "		processingResultCh <- processingResult{\n			rawReport: types.NewRawReport(req.externalID, 255, nil),\n			err:       err,\n		}\n		return\n	} else {", "		return\n	} else {", "C19.R1:exactly-one-result", "an executor error drops the raw report: the whole request hangs"},
	{"C19-m3", "C19", "yoda/handler.go", "	resultsChan := make(chan processingResult, len(reqs))", "	resultsChan := make(chan processingResult, 1)", "C19.R2:fan-out-fan-in", "workers block on a too-small channel"},
	{"C19-m5", "C19", "yoda/handler.go", "	if !hasMe {", "	if false && !hasMe {", "C19.R3:only-if-selected", "reports for requests that did not select this validator"},

	// ---------------- C20
	{"C20-m1", "C20", "grogu/signaller/signaller.go", "	thresholdTime := time.Unix(oldPrice.Timestamp+s.params.CooldownTime+TimeBuffer, 0)", "	thresholdTime := time.Unix(oldPrice.Timestamp+s.params.CooldownTime-TimeBuffer, 0)", "C20.R4:daemon-cooldown-at-least-as-late", "daemon submits before the chain's cooldown passed"},
	{"C20-m2", "C20", "grogu/submitter/submitter.go", "	defer func() {\n		s.removePending(signalPrices)\n		s.idleKeyIDChannel <- keyID\n	}()\n", "	defer func() {\n		s.idleKeyIDChannel <- keyID\n	}()\n", "C20.R1:release-deferred-before-any-return", "signals stay in flight for ever"},
	{"C20-m3", "C20", "grogu/signaller/signaller.go", "		if _, ok := s.pendingSignalIDs.Load(signalID); !ok {\n			filtered = append(filtered, signalID)\n		}", "		filtered = append(filtered, signalID)", "C20.R3:non-pending-means-not-in-set", "a signal in flight is submitted again"},
	{"C20-m4", "C20", "grogu/signaller/signaller.go", "	feed, ok := s.signalIDToFeed[newPrice.SignalID]\n	if !ok {\n		return false\n	}", "	feed := s.signalIDToFeed[newPrice.SignalID]", "C20.R3:must-be-current-feed", "prices for signals that are not current feeds are submitted and rejected"},
	{"C20-m5", "C20", "grogu/signaller/utils.go", "	return deviationBasisPoint <= dev", "	return deviationBasisPoint < dev", "C20.R5:deviation-threshold-inclusive", "a move of exactly the deviation is not reported"},
	// ---------------- wave-2 engines (E13-E17)
	{"C04-m10", "C04", "x/tss/keeper/keeper_group_round3.go", "	return ctx.KVStore(k.storeKey).Has(types.ConfirmStoreKey(groupID, memberID))", "	return ctx.KVStore(k.storeKey).Has(types.ConfirmsStoreKey(groupID))", "C04.R7:store-keys", "HasConfirm probes the iteration prefix: duplicate confirms are never seen"},
	{"C10-m10", "C10", "x/bandtss/keeper/tss_callback.go", "		if err != nil || !member.IsActive {\n			continue\n		}", "		if err != nil || !member.IsActive {\n			return\n		}", "C10.R5:penalise-every-idle-member", "later idle members escape the penalty"},
	{"C03-m10", "C03", "x/tss/types/msgs.go", "	if err := m.Signature.Validate(); err != nil {", "	if err := m.Signature.R().Validate(); err != nil {", "C03.R6:wire", "over-long signatures pass stateless validation"},
	{"C09-m10", "C09", "x/oracle/types/params.go", "validateUint64(\"sampling try count\", true)", "validateUint64(\"sampling try count\", false)", "C09.R1:tries-positive", "zero tries accepted: empty committees"},
	{"C19-m10", "C19", "yoda/execute.go", "	return nil, lastErr", "	_ = lastErr\n	return nil, nil", "C19.R7:query-", "nil result with nil error after the retries: nil dereference in the fetchers"},
	{"C20-m10", "C20", "grogu/signaller/signaller.go", "	s.signalIDToFeed = sliceToMap(resp.CurrentFeeds.Feeds, func(feed types.FeedWithDeviation) string {\n		return feed.SignalID\n	})", "	for _, feed := range resp.CurrentFeeds.Feeds {\n		s.signalIDToFeed[feed.SignalID] = feed\n	}", "C20.R3:feeds-view", "removed feeds stay in the daemon's view"},
	{"C02-m10", "C02", "pkg/tickmath/tickmath.go", "	priceX96 = new(big.Int).Mul(priceX96, billion)\n", "	priceX96 = new(big.Int).Mul(priceX96, billion)\n	zero = priceX96\n", "C02.R1:lint", "consensus code writes a package variable"},
	{"C11-m10", "C11", "pkg/tickmath/tickmath.go", "	if msb >= 32 {", "	if msb > 32 {", "C11.R7:shift-counts", "31 - msb wraps for msb == 32"},
	{"C02-m11", "C02", "x/feeds/keeper/keeper_price.go", "		valPricesList, err := k.GetValidatorPriceList(ctx, val.Address)\n		if err != nil {\n			continue\n		}", "		valPricesList, err := k.GetValidatorPriceList(ctx, val.Address)\n		if err != nil {\n			return err\n		}", "C02.R10:abci-errors", "a new way for the feeds end-blocker to fail"},
	{"C02-m12", "C02", "x/feeds/keeper/keeper_price.go", "!availablePower.IsPositive() || ", "", "C02.R10:median-needs-available-power", "finding F4 returns"},
	{"C16-m10", "C16", "x/restake/keeper/keeper_stake.go", "	for _, denom := range allowedDenoms {\n		power = power.Add(stake.Coins.AmountOf(denom))\n	}", "	for _, coin := range stake.Coins {\n		power = power.Add(coin.Amount)\n	}\n	_ = allowedDenoms", "C16.R4:staked-power", "delisted denoms keep counting as power"},
	{"C15-m10", "C15", "x/feeds/keeper/msg_server.go", "types.NewValidatorPrice(msgPrice, blockTime, blockHeight)", "types.NewValidatorPrice(msgPrice, msg.Timestamp, blockHeight)", "C15.R5:stored-price-at-block-time", "the validator's own clock decides when it is reported missing"},
	{"C02-m13", "C02", "x/tss/types/helpers.go", "	slot := to - 1\n", "	slot := to - 1\n	slot = slot - from + from\n", "C02.R9:usub", "a new unguarded unsigned subtraction in consensus code"},
	{"C01-m10", "C01", "x/oracle/abci.go", "		k.ResolveRequest(ctx, reqID)\n", "		k.ResolveRequest(ctx, reqID)\n		if reqID == 0 {\n			break\n		}\n", "every-pending-request-resolved", "an early way out of the resolve loop"},
}
