package main

import (
	"go/ast"
	"go/token"
	"strings"

	"golang.org/x/tools/go/packages"
)

// Trusted-base cross-check: two axioms every "msg / ibc roots are atomic" argument leans on are read off the dependency
// SOURCE at the versions /repo's go.mod selects (syntax only, nothing is executed):
//   T1 baseapp.runTx runs the messages on a branched store that is written only when err == nil, under a deferred recover;
//   T2 ibc-go core RecvPacket calls the application's OnRecvPacket on a CacheContext whose writeFn is called only for a
//      successful (or nil) acknowledgement.

func findMethod(p *packages.Package, recv, name string) *ast.FuncDecl {
	for _, f := range p.Syntax {
		for _, d := range f.Decls {
			fd, ok := d.(*ast.FuncDecl)
			if !ok || fd.Name.Name != name || fd.Recv == nil || len(fd.Recv.List) != 1 {
				continue
			}
			t := fd.Recv.List[0].Type
			if st, ok := t.(*ast.StarExpr); ok {
				t = st.X
			}
			if id, ok := t.(*ast.Ident); ok && id.Name == recv {
				return fd
			}
		}
	}
	return nil
}

// callInsideIf: a call whose printed form starts with callPrefix occurs lexically inside the body (not the else) of an
// if statement whose printed condition contains every string in condParts.
func callInsideIf(fset *token.FileSet, fd *ast.FuncDecl, callPrefix string, condParts ...string) (found bool, outside bool) {
	var walk func(n ast.Node, guarded bool)
	walk = func(n ast.Node, guarded bool) {
		ast.Inspect(n, func(m ast.Node) bool {
			switch x := m.(type) {
			case *ast.IfStmt:
				cond := exprStringF(fset, x.Cond)
				ok := true
				for _, c := range condParts {
					if !strings.Contains(cond, c) {
						ok = false
					}
				}
				if x.Init != nil {
					walk(x.Init, guarded)
				}
				walk(x.Body, guarded || ok)
				if x.Else != nil {
					walk(x.Else, guarded)
				}
				return false
			case *ast.CallExpr:
				if strings.HasPrefix(exprStringF(fset, x.Fun), callPrefix) {
					if guarded {
						found = true
					} else {
						outside = true
					}
				}
			}
			return true
		})
	}
	walk(fd.Body, false)
	return
}

func hasDeferredRecover(fd *ast.FuncDecl) bool {
	ok := false
	ast.Inspect(fd.Body, func(n ast.Node) bool {
		ds, is := n.(*ast.DeferStmt)
		if !is {
			return true
		}
		ast.Inspect(ds, func(m ast.Node) bool {
			if ce, is := m.(*ast.CallExpr); is {
				if id, is := ce.Fun.(*ast.Ident); is && id.Name == "recover" {
					ok = true
				}
			}
			return true
		})
		return true
	})
	return ok
}

func (r *Report) TrustedBase(key string) {
	deps, err := loadDepSyntax(r.W.RepoDir, "github.com/cosmos/cosmos-sdk/baseapp", "github.com/cosmos/ibc-go/v8/modules/core/keeper")
	d1 := "baseapp.runTx executes messages on a branched store written only when err == nil, under a deferred recover (dependency source)"
	d2 := "ibc-go core RecvPacket runs OnRecvPacket on a CacheContext whose writeFn is called only for a nil/successful acknowledgement (dependency source)"
	if err != nil {
		r.Unres(key+"|load", d1, err.Error())
		return
	}
	if p := deps["github.com/cosmos/cosmos-sdk/baseapp"]; p != nil {
		fd := findMethod(p, "BaseApp", "runTx")
		if fd == nil {
			r.Unres(key+"|runTx", d1, "(*BaseApp).runTx not found")
		} else {
			in, _ := callInsideIf(p.Fset, fd, "msCache.Write", "err == nil")
			usesBranch := strings.Contains(exprStringF(p.Fset, &ast.FuncLit{Type: fd.Type, Body: fd.Body}), "app.runMsgs(runMsgCtx")
			if in && usesBranch && hasDeferredRecover(fd) {
				r.OK(key+"|runTx", d1, "cosmos-sdk/baseapp/baseapp.go", "msCache.Write() under `err == nil`; runMsgs on runMsgCtx; deferred recover present")
			} else {
				r.Bad(key+"|runTx", d1, "cosmos-sdk/baseapp/baseapp.go", "the atomicity axiom for msg roots does not hold for this SDK version: every `msg roots are atomic` argument must be revisited")
			}
		}
	} else {
		r.Unres(key+"|runTx", d1, "baseapp source not available")
	}
	if p := deps["github.com/cosmos/ibc-go/v8/modules/core/keeper"]; p != nil {
		fd := findMethod(p, "Keeper", "RecvPacket")
		if fd == nil {
			r.Unres(key+"|recvPacket", d2, "(Keeper).RecvPacket not found")
		} else {
			in, _ := callInsideIf(p.Fset, fd, "writeFn", "ack.Success()")
			body := exprStringF(p.Fset, &ast.FuncLit{Type: fd.Type, Body: fd.Body})
			if in && strings.Contains(body, "OnRecvPacket(cacheCtx") && strings.Contains(body, "ctx.CacheContext()") {
				r.OK(key+"|recvPacket", d2, "ibc-go/modules/core/keeper/msg_server.go", "OnRecvPacket(cacheCtx, …); writeFn() under `ack == nil || ack.Success()`")
			} else {
				r.Bad(key+"|recvPacket", d2, "ibc-go/modules/core/keeper/msg_server.go", "the atomicity axiom for ibc roots does not hold for this ibc-go version")
			}
		}
	} else {
		r.Unres(key+"|recvPacket", d2, "ibc-go core keeper source not available")
	}
}
