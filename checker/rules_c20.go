package main

func init() { props["C20"] = c20 }

func c20(r *Report) propMeta {
	w := r.W
	sg := "grogu/signaller.Signaller."
	sb := "grogu/submitter.Submitter."
	ft := "x/feeds/types"

	r.Rule("C20.R1", "pairing: in-flight signals are always released")
	sp := sb + "submitPrice"
	r.DeferredRelease("release-deferred-before-any-return", sp, "Submitter.removePending", "field:Submitter.idleKeyIDChannel")
	r.ArgHas("release-the-submitted-signals", sp+"$1", "Submitter.removePending", 0, 1, "freevar:signalPrices")
	r.ArgHas("submitted-signals-are-the-submission", sp, "Submitter.broadcastMsg", 1, 1, "field:MsgSubmitSignalPrices.SignalPrices|alloc:[1]github.com/cosmos/cosmos-sdk/types.Msg|alloc:types.Msg")
	r.Exists("message-carries-the-submission", sp, StoreEff("MsgSubmitSignalPrices.SignalPrices", "field:SignalPriceSubmission.SignalPrices"), 1)
	rp := sb + "removePending"
	r.ArgHas("remove-each-signal", rp, "Map.LoadAndDelete", 0, 1, "field:SignalPrice.SignalID", "param:toSubmitPrices|param:signalPrices|param:prices")
	r.Callers("callers", rp, []string{sp}, []string{sp})
	// ... and only for submissions that reach submitPrice at all: the submitter loop hands every queued submission over
	r.ReceiveAlwaysHandled("every-queued-submission-is-submitted", sb+"Start", []string{"field:Submitter.submitSignalPriceCh"}, "Submitter.submitPrice")
	// the deferred release only runs if submitPrice returns: its waits must be bounded
	r.NoTimerInLoop("timeouts-not-rearmed-per-iteration", []string{"grogu/submitter.", "grogu/signaller.", "grogu/querier."}, 20)

	r.Rule("C20.R2", "order: mark pending before hand-off")
	su := sg + "submitPrices"
	r.NotAfter("mark-before-send", su, CallEff("Map.LoadOrStore"), SendEff("field:Signaller.submitCh"))
	r.Exists("marks-every-price", su, CallEff("Map.LoadOrStore", "field:SignalPrice.SignalID", "param:prices", "field:Signaller.pendingSignalIDs"), 1)
	r.SendValueHas("hand-off-the-marked-prices", su, "field:Signaller.submitCh", "param:prices")
	r.Count("one-hand-off", su, []Effect{SendEff("field:Signaller.submitCh")}, "all", 1, 1)
	r.Exists("same-pending-set-on-both-sides", "grogu/submitter.Submitter.removePending", CallEff("Map.LoadAndDelete", "field:Submitter.pendingSignalIDs"), 1)

	r.Rule("C20.R3", "E3+E12 what is submitted")
	ex := sg + "execute"
	r.ArgHas("ask-only-non-pending", ex, "Client.GetPrices", 0, 1, "^call:Signaller.getNonPendingSignalIDs")
	r.ArgHas("filter-only-non-pending", ex, "Signaller.filterAndPrepareSignalPrices", 1, 1, "^call:Signaller.getNonPendingSignalIDs")
	r.ArgHas("submit-the-filtered", ex, "Signaller.submitPrices", 0, 1, "^call:Signaller.filterAndPrepareSignalPrices")
	r.Gate("nothing-if-empty", ex, CallEff("Signaller.submitPrices"), []Cond{{Op: "EQL", A: []string{"len", "call:Signaller.filterAndPrepareSignalPrices"}, B: []string{"const:0"}, Want: false, Desc: "some price to submit"}, nilErrOf("Client.GetPrices")}, GateOpts{})
	np := sg + "getNonPendingSignalIDs"
	r.Gate("non-pending-means-not-in-set", np, CallEff("builtin.append"), []Cond{{Op: "BOOL", A: []string{"^extract", "call:Map.Load", "field:Signaller.pendingSignalIDs"}, Want: false, Desc: "signal not in pendingSignalIDs"}}, GateOpts{})
	r.ArgHas("candidates-are-current-feeds", sg+"getAllSignalIDs", "builtin.append", 0, 1, "field:Signaller.signalIDToFeed|make:slice")
	fp := sg + "filterAndPrepareSignalPrices"
	r.Gate("only-valid-and-urgent", fp, CallEff("builtin.append"), []Cond{
		{Op: "BOOL", A: []string{"^call:Signaller.isPriceValid"}, Want: true, Desc: "isPriceValid"},
		{Op: "BOOL", A: []string{"^call:Signaller.isNonUrgentUnavailablePrices"}, Want: false, Desc: "not a non-urgent UNAVAILABLE price"},
		nilErrOf("signaller.convertPriceData"),
		{Op: "BOOL", A: []string{"^extract", "lookup"}, Want: true, Desc: "bothan returned a price for the signal"}}, GateOpts{})
	ipv := sg + "isPriceValid"
	r.Gate("must-be-current-feed", ipv, RetNotEff(0, "const:false"), []Cond{{Op: "BOOL", A: []string{"^extract", "lookup", "field:Signaller.signalIDToFeed", "field:SignalPrice.SignalID"}, Want: true, Desc: "signal is in the daemon's copy of the current feeds"}}, GateOpts{MinSites: 2})
	r.Exists("existing-price-goes-through-timing-rule", ipv, RetValEff(0, "^call:Signaller.shouldUpdatePrice"), 1)

	// what is handed to the submitter goroutine is a fresh slice (the next round must not rewrite an in-flight submission),
	// and the daemon's copy of the chain's current feeds / own prices is replaced as a whole on every refresh
	r.RetFresh("hand-off-fresh", fp, 0)
	r.NoMapPatch("feeds-view-replaced", "grogu/signaller", "Signaller.signalIDToFeed", 1, sg+"updateFeedMap", "grogu/signaller.New")
	r.NoMapPatch("prices-view-replaced", "grogu/signaller", "Signaller.signalIDToValidatorPrice", 1, sg+"updateValidatorPriceMap", "grogu/signaller.New")
	r.Exists("feeds-view-from-the-query", sg+"updateFeedMap", StoreEff("Signaller.signalIDToFeed", "^call:signaller.sliceToMap", "field:CurrentFeedWithDeviations.Feeds", "call:FeedQuerier.QueryCurrentFeeds"), 1)
	r.RetFresh("slice-to-map-fresh", "grogu/signaller.sliceToMap", 0)

	// the chain tells the daemon the STORED interval of each current feed (the one CheckMissReport enforces), and the
	// daemon never trusts a node that is behind a state it has already seen
	cfq := "x/feeds/keeper.queryServer.CurrentFeeds"
	r.ArgHas("query-reports-stored-interval", cfq, "types.NewFeedWithDeviation", 2, 1, "^field:Feed.Interval", "call:Keeper.GetCurrentFeeds", "!call:types.CalculateInterval")
	r.ArgHas("query-reports-stored-power", cfq, "types.NewFeedWithDeviation", 1, 1, "^field:Feed.Power", "call:Keeper.GetCurrentFeeds")
	r.ArgHas("query-reports-signal", cfq, "types.NewFeedWithDeviation", 0, 1, "^field:Feed.SignalID", "call:Keeper.GetCurrentFeeds")
	r.ctorField("feed-with-deviation-ctor", ft+".NewFeedWithDeviation", "FeedWithDeviation.Interval", 2)
	r.LoopVisitsAll("query-reports-every-feed", cfq, "types.NewFeedWithDeviation", LoopOpts{})
	gm := "grogu/querier.getMaxBlockHeightResponse"
	r.Gate("height-guard-only-moves-forward", gm, CallEff("atomic.Int64.Store", "param:maxBlockHeight"), []Cond{{Op: "LSS", A: []string{"phi", "field:responseWithBlockHeight.blockHeight"}, B: []string{"^call:atomic.Int64.Load", "param:maxBlockHeight"}, Want: false, Desc: "not (best height < highest height seen)"}}, GateOpts{})
	r.EffectSet("height-guard-written-only-by-store", gm, []string{"atomic.Int64.Swap", "atomic.Int64.Add", "atomic.Int64.CompareAndSwap"}, nil)
	r.Gate("stale-answer-rejected", gm, RetOK(), []Cond{{Op: "LSS", A: []string{"phi", "field:responseWithBlockHeight.blockHeight"}, B: []string{"^call:atomic.Int64.Load", "param:maxBlockHeight"}, Want: false, Desc: "not (best height < highest height seen)"}}, GateOpts{AnySite: true})

	r.Rule("C20.R4", "sibling agreement: cooldown on chain and in the daemon")
	ss := fMS + "SubmitSignalPrices"
	r.Gate("chain-cooldown", ss, CallEff("types.NewValidatorPrice"), []Cond{
		{Op: "BOOL", A: []string{"^extract", "lookup", "field:SignalPrice.SignalID"}, Want: true, Desc: "signal is a current feed"}}, GateOpts{FailIsError: true})
	r.GateAny("chain-cooldown-rule", ss, CallEff("types.NewValidatorPrice"), []Cond{
		{Op: "EQL", A: []string{"field:ValidatorPrice.SignalPriceStatus"}, B: []string{w.ConstAtom(ft, "SIGNAL_PRICE_STATUS_UNSPECIFIED")}, Want: true, Desc: "no previous price"},
		{Op: "LSS", A: []string{"call:Time.Unix", "call:Context.BlockTime"}, B: []string{"^binop:+", "field:ValidatorPrice.Timestamp", "field:Params.CooldownTime"}, Want: false, Desc: "not (blockTime < latest.Timestamp + CooldownTime)"}}, 1)
	r.FailureCensus("submission-rejections", ss, map[string]reject{
		"too-many-prices":  {[]string{"global:types.ErrSignalPricesTooLarge"}, []Cond{{Op: "LSS", A: []string{"len", "field:CurrentFeeds.Feeds"}, B: []string{"len", "field:MsgSubmitSignalPrices.SignalPrices"}, Want: true}}},
		"bad-validator":    {[]string{"^~call:types.ValAddressFromBech32"}, nil},
		"not-required":     {[]string{"^~call:Keeper.ValidateValidatorRequiredToSend"}, nil},
		"bad-timestamp":    {[]string{"global:types.ErrInvalidTimestamp"}, []Cond{{Op: "LSS", A: []string{"field:Params.AllowableBlockTimeDiscrepancy"}, B: []string{"call:types.AbsInt64"}, Want: true}}},
		"not-current-feed": {[]string{"global:types.ErrSignalIDNotSupported"}, []Cond{{Op: "BOOL", A: []string{"^extract", "lookup", "field:SignalPrice.SignalID"}, Want: false}}},
		"cooldown":         {[]string{"global:types.ErrPriceSubmitTooEarly"}, []Cond{{Op: "LSS", A: []string{"call:Time.Unix", "call:Context.BlockTime"}, B: []string{"^binop:+", "binops=+", "field:ValidatorPrice.Timestamp", "field:Params.CooldownTime"}, Want: true}}},
		"store-error":      {[]string{"^~call:Keeper.SetValidatorPriceList"}, nil},
	})
	su2 := sg + "shouldUpdatePrice"
	tooEarly := Cond{Op: "LSS", A: []string{"^param:now"}, B: []string{"^call:time.Unix", "binop:+", "binops=+", "field:ValidatorPrice.Timestamp", "field:Params.CooldownTime", "const:" + trimConst(w.ConstAtom("grogu/signaller", "TimeBuffer"))}, Want: false, Desc: "not now.Before(old.Timestamp + CooldownTime + TimeBuffer)"}
	r.Gate("daemon-cooldown-at-least-as-late", su2, RetConst(0, "true"), []Cond{tooEarly}, GateOpts{MinSites: 2})
	r.Gate("daemon-cooldown-at-least-as-late-deviation", su2, RetValEff(0, "^call:signaller.isDeviated"), []Cond{tooEarly}, GateOpts{})
	r.ConstNonNegative("time-buffer-non-negative", "grogu/signaller", "TimeBuffer")

	r.Rule("C20.R5", "E4 when to update")
	r.Gate("assigned-time-reached", su2, RetConst(0, "true"), []Cond{tooEarly}, GateOpts{MinSites: 2})
	r.CondExists("assigned-time-test", su2, Cond{Op: "LSS", A: []string{"^param:now"}, B: []string{"^call:signaller.calculateAssignedTime"}, Want: false}, 1)
	r.CondExists("status-change-test", su2, Cond{Op: "EQL", A: []string{"field:ValidatorPrice.SignalPriceStatus"}, B: []string{"field:SignalPrice.Status"}, Want: false}, 1)
	r.Exists("deviation-test", su2, RetValEff(0, "^call:signaller.isDeviated", "field:FeedWithDeviation.DeviationBasisPoint", "field:ValidatorPrice.Price", "field:SignalPrice.Price"), 1)
	r.CondCount("exactly-three-branches", su2, 4) // 3 branches + the returned isDeviated(...) (decisionCount)
	r.ArgHas("assigned-time-from-last-submission", su2, "signaller.calculateAssignedTime", 2, 1, "field:ValidatorPrice.Timestamp")
	r.ArgHas("assigned-time-interval", su2, "signaller.calculateAssignedTime", 1, 1, "field:FeedWithDeviation.Interval")
	id := "grogu/signaller.isDeviated"
	r.RetPred("deviation-threshold-inclusive", id, 0, Cond{Op: "LSS", A: []string{"^binop:/", "call:math.Abs", "param:oldPrice"}, B: []string{"^param:deviationBasisPoint"}, Want: false, Desc: "not (deviation < deviationBasisPoint)"}, 1)
	nu := sg + "isNonUrgentUnavailablePrices"
	r.Gate("unavailable-held-until-near-deadline", nu, RetConst(0, "true"), []Cond{
		{Op: "EQL", A: []string{"field:SignalPrice.Status"}, B: []string{w.ConstAtom(ft, "SIGNAL_PRICE_STATUS_UNAVAILABLE")}, Want: true, Desc: "status == UNAVAILABLE"},
		{Op: "LSS", A: []string{"^binop:-", "binops=+,-", "field:ValidatorPrice.Timestamp", "field:FeedWithDeviation.Interval"}, B: []string{"^param:now"}, Want: false, Desc: "not (now > deadline - FixedIntervalOffset)"}}, GateOpts{})

	r.Rule("C20.R6", "E9 assigned-time formula and CLI defaults")
	ca := "grogu/signaller.calculateAssignedTime"
	r.Exists("assigned-time-formula", ca, RetValEff(0, "^call:time.Unix", "param:timestamp", "param:interval", "binop:/", "const:100", "binop:%", "param:dpOffset", "param:dpStart", "call:sha256.Sum256", "param:valAddr"), 1)
	c20Defaults(r)

	r.Rule("C20.R6", "the daemon's gate is the chain's admission test; shared rules")
	r.Callers("admission-users", "x/feeds/keeper.Keeper.ValidateValidatorRequiredToSend", []string{"x/feeds/keeper.msgServer.SubmitSignalPrices", "x/feeds/keeper.queryServer.ValidValidator", "x/globalfee/feechecker.FeeChecker.IsBypassMinFeeMsg", "feechecker.FeeChecker.isBypassMinFeeMsg"}, []string{"x/feeds/keeper.msgServer.SubmitSignalPrices", "x/feeds/keeper.queryServer.ValidValidator"})
	r.Include("C15", "C15.R5")

	return propMeta{
		Decided: []string{
			"R1 submitPrice installs, before any return, a defer that unconditionally calls removePending(the submission's own prices) and returns the key; removePending deletes each signal id from the shared set",
			"R2 Signaller.submitPrices marks every price pending (LoadOrStore) before the single hand-off of that same slice on submitCh",
			"R3 execute asks bothan for, filters and submits only ids from getNonPendingSignalIDs (append only when absent from the pending set, candidates = the daemon's current feeds); a price is kept only if convertible, isPriceValid and not a non-urgent UNAVAILABLE; isPriceValid is false for signals that are not current feeds",
			"R4 chain rejects under blockTime < latest.Timestamp + CooldownTime (only with a previous price) and only accepts current feeds; the daemon returns true only past not now.Before(old.Timestamp + CooldownTime + TimeBuffer) with TimeBuffer >= 0 a constant: same operands, daemon at least as late",
			"R5 shouldUpdatePrice = past threshold && (assigned time reached || status changed || isDeviated); isDeviated compares deviationBasisPoint <= dev; UNAVAILABLE prices are held back until deadline - FixedIntervalOffset",
			"R6 assigned time = timestamp + interval*(hash % dpOffset + dpStart)/100 with the CLI defaults keeping dpStart + dpOffset <= 100",
			"R6 the ValidValidator query, grogu's only gate before it builds a submission, and the SubmitSignalPrices handler both call ValidateValidatorRequiredToSend (bonded AND oracle-active); the update-marker / stored-clock rules of C15.R5 are evaluated here too",
		},
		Undecided: []string{"'re-submits before the interval runs out' and promptness over price streams and polling phases (closed-loop timing) — the larger half of C20", "clock skew between daemon and chain beyond TimeBuffer"},
		Assume:    []string{"Go defer semantics (runs on panic too)", "sync.Map linearizability"},
	}
}
