package main

import (
	"fmt"
	"go/token"
	"go/types"
	"strings"

	"golang.org/x/tools/go/ssa"
)

// E14 per-element loops visit every element. LoopVisitsAll finds the natural loop of fn that contains a call of
// `callee` and lists every edge that leaves it. Allowed ways out: the loop's own exhausted-range / condition edge (from
// the header), a block that panics, and - if the rule says so - a return of a non-nil error (the whole transaction or
// block step aborts). Any other way out (return, break) stops processing the remaining elements: seed C10-4 turned the
// `continue` of bandtss OnSigningTimeout into `return`, leaving later idle members unpenalised.

type LoopOpts struct {
	AllowErrReturn bool
	MaxOtherExits  int      // exits that are neither header, panic nor error return (reviewed `break`s); default 0
	Outermost      bool     // take the OUTERMOST loop around the call (default: innermost)
	RangesOver     []string // atoms the loop bound (the header condition) must contain, e.g. "param:events"
}

// naturalLoops: for every loop header h (target of a back edge t->h with h dominating t) the set of blocks of its
// natural loop (h plus everything that reaches some t without passing through h).
func naturalLoops(fn *ssa.Function) map[*ssa.BasicBlock]map[*ssa.BasicBlock]bool {
	out := map[*ssa.BasicBlock]map[*ssa.BasicBlock]bool{}
	for _, t := range fn.Blocks {
		for _, h := range t.Succs {
			if !h.Dominates(t) {
				continue
			}
			l := out[h]
			if l == nil {
				l = map[*ssa.BasicBlock]bool{h: true}
				out[h] = l
			}
			var g func(b *ssa.BasicBlock)
			g = func(b *ssa.BasicBlock) {
				if l[b] {
					return
				}
				l[b] = true
				for _, p := range b.Preds {
					g(p)
				}
			}
			g(t)
		}
	}
	return out
}

func blockPanics(b *ssa.BasicBlock) bool {
	if len(b.Instrs) == 0 {
		return false
	}
	_, ok := b.Instrs[len(b.Instrs)-1].(*ssa.Panic)
	return ok
}

// returnsNonNilError: b ends in a Return whose error result is not the constant nil.
func returnsNonNilError(b *ssa.BasicBlock) bool {
	if len(b.Instrs) == 0 {
		return false
	}
	rt, ok := b.Instrs[len(b.Instrs)-1].(*ssa.Return)
	if !ok {
		return false
	}
	for i := range rt.Results {
		v := retValue(rt, i)
		if v == nil || !isErrorType(v.Type()) {
			continue
		}
		if c, ok := v.(*ssa.Const); ok && c.IsNil() {
			return false
		}
		return true
	}
	return false
}

func (r *Report) LoopVisitsAll(key, fnKey, callee string, o LoopOpts) {
	w := r.W
	fn := w.Fn(fnKey)
	d := fmt.Sprintf("the loop of %s that calls %s is left only when its range is exhausted (or by panic%s): every element is processed", fnKey, callee,
		map[bool]string{true: " / error return", false: ""}[o.AllowErrReturn])
	k := fmt.Sprintf("%s|%s|loop(%s)", key, fnKey, callee)
	if fn == nil {
		r.Unres(k, d, "function not found")
		return
	}
	w.FuncsAnalysed[fn] = true
	calls := Calls(fn, callee)
	if len(calls) == 0 {
		r.Unres(k, d, "no call of "+callee)
		return
	}
	// innermost natural loop containing a call of callee
	var loop map[*ssa.BasicBlock]bool
	var header *ssa.BasicBlock
	for h, l := range naturalLoops(fn) {
		for _, c := range calls {
			if l[c.Block()] && (loop == nil || (!o.Outermost && len(l) < len(loop)) || (o.Outermost && len(l) > len(loop))) {
				loop, header = l, h
			}
		}
	}
	if loop == nil {
		r.Unres(k, d, "the call of "+callee+" is not inside a loop")
		return
	}
	if len(o.RangesOver) > 0 {
		okBound := false
		if ifi := ifOf(header); ifi != nil {
			p := NormalizeCond(ifi.Cond)
			if (p.A != nil && p.A.Has(o.RangesOver...)) || (p.B != nil && p.B.Has(o.RangesOver...)) {
				okBound = true
			}
		}
		if !okBound {
			r.Bad(k, d, w.FnPos(fn), fmt.Sprintf("the loop around %s is not bounded by %v: it does not range over the whole collection", callee, o.RangesOver))
			return
		}
	}
	var bad []string
	others := 0
	exits := 0
	for _, b := range fn.Blocks {
		if !loop[b] {
			continue
		}
		for _, s := range b.Succs {
			if loop[s] {
				continue
			}
			exits++
			w.SitesExamined++
			switch {
			case b == header:
			case blockPanics(s):
			case o.AllowErrReturn && returnsNonNilError(s):
			default:
				others++
				pos := "-"
				for _, in := range s.Instrs {
					if in.Pos().IsValid() {
						pos = w.Pos(in.Pos())
						break
					}
				}
				if pos == "-" && len(b.Instrs) > 0 {
					pos = w.Pos(b.Instrs[len(b.Instrs)-1].Pos())
				}
				last := "jump"
				if len(s.Instrs) > 0 {
					last = strings.ToLower(strings.TrimPrefix(fmt.Sprintf("%T", s.Instrs[len(s.Instrs)-1]), "*ssa."))
				}
				bad = append(bad, fmt.Sprintf("%s (block %d -> %d, ends in %s)", pos, b.Index, s.Index, last))
			}
		}
	}
	if others > o.MaxOtherExits {
		r.Bad(k, d, w.FnPos(fn), fmt.Sprintf("early exit(s) from the per-element loop: %s; the remaining elements are not processed", strings.Join(bad, "; ")))
		return
	}
	r.OK(k, d, w.FnPos(fn), fmt.Sprintf("%d blocks, %d exit edges, %d reviewed other exits", len(loop), exits, others))
}

// LoopAlwaysCalls: in the loop of fn that contains the call of callee, every iteration reaches that call unless it
// leaves through the `unless` condition (the one reviewed reason to skip it): with the call's block and the skipping edge
// of the `unless` test removed, the loop header must be unreachable from the start of the body. A `continue` placed
// before the call (seed C17-6: non-IBC tunnels skipped the active-index write) is such a path.
func (r *Report) LoopAlwaysCalls(key, fnKey, callee string, unless Cond) {
	w := r.W
	fn := w.Fn(fnKey)
	d := fmt.Sprintf("every iteration of the loop of %s reaches %s unless %s", fnKey, callee, unless.Desc)
	k := fmt.Sprintf("%s|%s|%s", key, fnKey, callee)
	if fn == nil {
		r.Unres(k, d, "function not found")
		return
	}
	w.FuncsAnalysed[fn] = true
	calls := Calls(fn, callee)
	var loop map[*ssa.BasicBlock]bool
	var header *ssa.BasicBlock
	var callBlock *ssa.BasicBlock
	for h, l := range naturalLoops(fn) {
		for _, c := range calls {
			if l[c.Block()] && (loop == nil || len(l) < len(loop)) {
				loop, header, callBlock = l, h, c.Block()
			}
		}
	}
	if loop == nil {
		r.Unres(k, d, "no call of "+callee+" inside a loop")
		return
	}
	// the skipping edge of the `unless` test
	type edge struct{ from, to *ssa.BasicBlock }
	var skip []edge
	for _, ii := range w.ifs(fn) {
		if !loop[ii.b] || unless.Op == "" {
			continue
		}
		if m, passOnTrue := unless.Match(ii.pred); m {
			// unless.Want describes when the call is REQUIRED; the other edge is the reviewed skip
			if passOnTrue {
				skip = append(skip, edge{ii.b, ii.b.Succs[1]})
			} else {
				skip = append(skip, edge{ii.b, ii.b.Succs[0]})
			}
		}
	}
	if len(skip) == 0 && unless.Op != "" {
		r.Unres(k, d, "no test of ["+unless.Desc+"] in the loop")
		return
	}
	isSkip := func(a, b *ssa.BasicBlock) bool {
		for _, e := range skip {
			if e.from == a && e.to == b {
				return true
			}
		}
		return false
	}
	seen := map[*ssa.BasicBlock]bool{}
	var bad *ssa.BasicBlock
	var walk func(b *ssa.BasicBlock)
	walk = func(b *ssa.BasicBlock) {
		if seen[b] || b == callBlock || bad != nil {
			return
		}
		seen[b] = true
		for _, s := range b.Succs {
			if !loop[s] || isSkip(b, s) {
				continue
			}
			if s == header {
				bad = b
				return
			}
			walk(s)
		}
	}
	for _, s := range header.Succs {
		if loop[s] && s != header {
			walk(s)
		}
	}
	w.SitesExamined++
	if bad != nil {
		pos := "-"
		if len(bad.Instrs) > 0 {
			pos = w.posOr(bad.Instrs[len(bad.Instrs)-1].Pos(), fn)
		}
		r.Bad(k, d, pos, fmt.Sprintf("an iteration can return to the loop header from block %d without calling %s and without the reviewed skip", bad.Index, callee))
		return
	}
	r.OK(k, d, w.FnPos(fn), fmt.Sprintf("loop of %d blocks; only the reviewed skip avoids the call", len(loop)))
}

// IteratorLoopCensus: every loop that walks a KV-store iterator (`for ; it.Valid(); it.Next()`) in the given packages
// runs until the iterator is exhausted: its only ways out are the `Valid()` test of the header, a panic, or the return of
// an error - unless the function is in the reviewed table (loops that stop early on purpose). Seed C18-7 added
// `&& len(members) < MaxGroupSize` to the loop that lists a group's members.
func (r *Report) IteratorLoopCensus(key string, prefixes []string, allowed map[string]string, min int) {
	w := r.W
	d := "store-iterator loops run to exhaustion (or are reviewed early stops)"
	n := 0
	seenAllowed := map[string]bool{}
	for _, fk := range sortedKeys(w.Funcs) {
		ok := false
		for _, p := range prefixes {
			if strings.HasPrefix(fk, p) {
				ok = true
			}
		}
		fn := w.Funcs[fk]
		if !ok || len(fn.Blocks) == 0 || !inRepoScope(fn) {
			continue
		}
		for h, loop := range naturalLoops(fn) {
			ifi := ifOf(h)
			if ifi == nil {
				continue
			}
			ct := Render(ifi.Cond)
			isIter := false
			for a := range ct.Atoms() {
				if strings.HasPrefix(a, "call:github.com/cosmos/cosmos-db.") && strings.HasSuffix(a, ".Valid") {
					isIter = true
				}
			}
			if !isIter {
				continue
			}
			n++
			w.SitesExamined++
			var early []string
			for b := range loop {
				for _, s := range b.Succs {
					if loop[s] || b == h || blockPanics(s) || returnsNonNilError(s) {
						continue
					}
					early = append(early, fmt.Sprintf("block %d -> %d", b.Index, s.Index))
				}
			}
			// a header that is itself the second half of `a && b` shows up as an exit from a non-header block, caught above;
			// a header whose condition is not the bare Valid() call is an extra stop condition
			bare := ct.Op == "call" && strings.HasSuffix(ct.Name, ".Valid")
			k := fmt.Sprintf("%s|%s|loop@b%d", key, fk, h.Index)
			switch {
			case len(early) == 0 && bare:
				r.OK(k, d, w.posOr(ifi.Cond.Pos(), fn), "runs to exhaustion")
			case allowed[fk] != "":
				seenAllowed[fk] = true
				r.OK(k, d, w.posOr(ifi.Cond.Pos(), fn), "reviewed early stop: "+allowed[fk])
			default:
				r.Bad(k, d, w.posOr(ifi.Cond.Pos(), fn), fmt.Sprintf("the iterator loop of %s can stop before the iterator is exhausted (%v; bare Valid() header: %v): entries behind the stop are never seen", fk, early, bare))
			}
		}
	}
	// an iterator whose Valid() is tested outside any loop is looked at once: a walk that lost its back edge (an
	// unconditional break/return at the end of the body) or a deliberate "first entry only" read, which must be reviewed
	for _, fk := range sortedKeys(w.Funcs) {
		ok := false
		for _, p := range prefixes {
			if strings.HasPrefix(fk, p) {
				ok = true
			}
		}
		fn := w.Funcs[fk]
		if !ok || len(fn.Blocks) == 0 || !inRepoScope(fn) {
			continue
		}
		loops := naturalLoops(fn)
		for _, b := range fn.Blocks {
			ifi := ifOf(b)
			if ifi == nil {
				continue
			}
			isIter := false
			for a := range Render(ifi.Cond).Atoms() {
				if strings.HasPrefix(a, "call:github.com/cosmos/cosmos-db.") && strings.HasSuffix(a, ".Valid") {
					isIter = true
				}
			}
			if !isIter {
				continue
			}
			inLoop := false
			for _, l := range loops {
				if l[b] {
					inLoop = true
				}
			}
			if inLoop {
				continue
			}
			w.SitesExamined++
			k := fmt.Sprintf("%s|%s|single-look@b%d", key, fk, b.Index)
			if allowed[fk] != "" {
				seenAllowed[fk] = true
				r.OK(k, d, w.posOr(ifi.Cond.Pos(), fn), "reviewed: "+allowed[fk])
			} else {
				r.Bad(k, d, w.posOr(ifi.Cond.Pos(), fn), fmt.Sprintf("%s tests iterator.Valid() outside any loop: at most one entry is ever visited (a loop whose body ends in an unconditional break or return?)", fk))
			}
		}
	}
	// the same for iterations driven by a callback (`Iterate…(ctx, func(…) (stop bool))`): the callback never asks to stop
	for _, fk := range sortedKeys(w.Funcs) {
		ok := false
		for _, p := range prefixes {
			if strings.HasPrefix(fk, p) {
				ok = true
			}
		}
		fn := w.Funcs[fk]
		if !ok || len(fn.Blocks) == 0 || !inRepoScope(fn) || fn.Parent() != nil {
			continue
		}
		for _, b := range fn.Blocks {
			for _, in := range b.Instrs {
				ci, isCall := in.(ssa.CallInstruction)
				if !isCall || !strings.HasPrefix(lastName(CalleeName(ci.Common())), "Iterate") {
					continue
				}
				for _, a := range ci.Common().Args {
					var cb *ssa.Function
					switch x := a.(type) {
					case *ssa.MakeClosure:
						cb, _ = x.Fn.(*ssa.Function)
					case *ssa.Function:
						cb = x
					}
					if cb == nil || len(cb.Blocks) == 0 || cb.Signature.Results().Len() != 1 {
						continue
					}
					if bt, isB := cb.Signature.Results().At(0).Type().Underlying().(*types.Basic); !isB || bt.Kind() != types.Bool {
						continue
					}
					w.SitesExamined++
					stops := 0
					for _, cbb := range cb.Blocks {
						if rt := returnOf(cbb); rt != nil && cbb != cb.Recover {
							if cv, isC := retValue(rt, 0).(*ssa.Const); !isC || constString(cv) != "false" {
								stops++
							}
						}
					}
					k := fmt.Sprintf("%s|%s|callback of %s", key, fk, lastName(CalleeName(ci.Common())))
					switch {
					case stops == 0:
						r.OK(k, d, w.posOr(ci.Pos(), fn), "the callback always returns false (never stops the iteration)")
					case allowed[fk] != "":
						seenAllowed[fk] = true
						r.OK(k, d, w.posOr(ci.Pos(), fn), "reviewed early stop: "+allowed[fk])
					default:
						r.Bad(k, d, w.posOr(ci.Pos(), fn), fmt.Sprintf("the callback %s passes to %s can return true (= stop): the entries behind the stop are never visited", fk, lastName(CalleeName(ci.Common()))))
					}
				}
			}
		}
	}
	if n < min {
		r.Unres(key+"|count", d, fmt.Sprintf("%d iterator loops found, expected >= %d", n, min))
	}
	for f := range allowed {
		if !seenAllowed[f] {
			r.Unres(key+"|"+f+"#stale", d, "reviewed early stop no longer exists (stale table)")
		}
	}
}

// LoopTrips: the (single) counted loop of fn whose bound carries the atoms runs exactly `bound` times: it counts from 0
// with `i < bound` or from 1 with `i <= bound`.
func (r *Report) LoopTrips(key, fnKey string, boundAtoms []string) {
	w := r.W
	fn := w.Fn(fnKey)
	d := fmt.Sprintf("the loop of %s bounded by %v makes exactly that many iterations", fnKey, boundAtoms)
	k := key + "|" + fnKey
	if fn == nil {
		r.Unres(k, d, "function not found")
		return
	}
	w.FuncsAnalysed[fn] = true
	initOf := func(t ssa.Value) (int64, bool) {
		for {
			switch x := t.(type) {
			case *ssa.Convert:
				t = x.X
				continue
			case *ssa.Phi:
				for _, e := range x.Edges {
					if c, ok := e.(*ssa.Const); ok {
						if v, ok := constInt(c); ok {
							return v, true
						}
					}
				}
			}
			return 0, false
		}
	}
	for h := range naturalLoops(fn) {
		ifi := ifOf(h)
		if ifi == nil {
			continue
		}
		bo, ok := ifi.Cond.(*ssa.BinOp)
		if !ok {
			continue
		}
		var idx ssa.Value
		trips := int64(-1 << 62)
		xHas, yHas := Render(bo.X).Has(boundAtoms...), Render(bo.Y).Has(boundAtoms...)
		switch {
		case bo.Op == token.LSS && yHas: // i < bound
			idx = bo.X
			if c, ok := initOf(idx); ok {
				trips = -c
			}
		case bo.Op == token.LEQ && yHas: // i <= bound
			idx = bo.X
			if c, ok := initOf(idx); ok {
				trips = -c + 1
			}
		case bo.Op == token.GTR && xHas: // bound > i
			idx = bo.Y
			if c, ok := initOf(idx); ok {
				trips = -c
			}
		case bo.Op == token.GEQ && xHas: // bound >= i
			idx = bo.Y
			if c, ok := initOf(idx); ok {
				trips = -c + 1
			}
		default:
			continue
		}
		w.SitesExamined++
		if trips == 0 {
			r.OK(k, d, w.posOr(ifi.Cond.Pos(), fn), "counts "+clip(Render(ifi.Cond).String(), 100))
		} else if trips == int64(-1<<62) {
			r.Unres(k, d, "the loop counter does not start from a constant")
		} else {
			r.Bad(k, d, w.posOr(ifi.Cond.Pos(), fn), fmt.Sprintf("the loop makes bound%+d iterations", trips))
		}
		return
	}
	r.Unres(k, d, "no counted loop with that bound found")
}
