package main

func selfTestImpl(prop, dir string) any { return nil }
