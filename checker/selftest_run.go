package main

import (
	"encoding/json"
	"fmt"
	"os"
	"os/exec"
	"path/filepath"
	"sort"
	"strings"
	"sync"
)

type mutantResult struct {
	ID      string   `json:"id"`
	Why     string   `json:"breaks"`
	Expect  string   `json:"expected_rule"`
	Outcome string   `json:"outcome"` // detected | detected-by-other-rule | MISSED | stale | does-not-compile
	Hits    []string `json:"fired,omitempty"`
}

// selfTestImpl runs the mutation self-test of one property: every mutant in its own process (the analysis of a
// mutated program never shares state with the real one), at most six at a time.
func selfTestImpl(prop, dir string) any {
	exe, err := os.Executable()
	if err != nil {
		return map[string]any{"error": err.Error()}
	}
	var ms []mutant
	for _, m := range mutants {
		if m.Prop == prop {
			ms = append(ms, m)
		}
	}
	res := make([]mutantResult, len(ms))
	sem := make(chan struct{}, 5) // each variant is type-checked from source (about 3 GB, 15 s); a variant that stays open goes through further normal forms (peak about 6 GB, up to a minute or two)
	var wg sync.WaitGroup
	for i, m := range ms {
		wg.Add(1)
		go func(i int, m mutant) {
			defer wg.Done()
			sem <- struct{}{}
			defer func() { <-sem }()
			cmd := exec.Command(exe, "-property", prop, "-dir", dir, "-mutant", m.File+"::"+m.Old+"::"+m.New)
			out, _ := cmd.CombinedOutput()
			r := mutantResult{ID: m.ID, Why: m.Why, Expect: m.Expect}
			text := string(out)
			switch {
			case strings.Contains(text, "MUTANT-STALE"):
				r.Outcome = "stale"
			case strings.Contains(text, "MUTANT-NOCOMPILE"):
				r.Outcome = "does-not-compile"
			case !strings.Contains(text, "MUTANT-DONE"):
				// the analysis process did not finish (killed, out of memory, ...): not a verdict about the mutant
				r.Outcome = "error: " + clip(text, 120)
			default:
				for _, l := range strings.Split(text, "\n") {
					if strings.HasPrefix(l, "MUTANT-HIT ") {
						f := strings.Fields(l)
						if len(f) >= 3 {
							r.Hits = append(r.Hits, f[2])
						}
					}
				}
				r.Outcome = "MISSED"
				for _, h := range r.Hits {
					if strings.Contains(h, m.Expect) {
						r.Outcome = "detected"
					}
				}
				if r.Outcome == "MISSED" && len(r.Hits) > 0 {
					r.Outcome = "detected-by-other-rule"
				}
				if len(r.Hits) > 4 {
					r.Hits = r.Hits[:4]
				}
			}
			res[i] = r
		}(i, m)
	}
	// behaviour-preserving edits: must stay silent
	var bs []benign
	for _, b := range benigns {
		if b.Prop == prop {
			bs = append(bs, b)
		}
	}
	bres := make([]mutantResult, len(bs))
	for i, b := range bs {
		wg.Add(1)
		go func(i int, b benign) {
			defer wg.Done()
			sem <- struct{}{}
			defer func() { <-sem }()
			args := []string{"-property", prop, "-dir", dir, "-mutant", b.File + "::" + b.Old + "::" + b.New}
			if b.All {
				args = append(args, "-mutant-all")
			}
			if len(b.Edits) > 0 { // a multi-hunk refactor
				js, _ := json.Marshal(map[string]any{"File": b.File, "Edits": b.Edits})
				tf, err := os.CreateTemp("", "bandcheck-edit-*.json")
				if err == nil {
					tf.Write(js)
					tf.Close()
					defer os.Remove(tf.Name())
					args = []string{"-property", prop, "-dir", dir, "-mutant-json", tf.Name()}
				}
			}
			out, _ := exec.Command(exe, args...).CombinedOutput()
			text := string(out)
			r := mutantResult{ID: b.ID, Why: b.What, Expect: "no alarm"}
			switch {
			case strings.Contains(text, "MUTANT-STALE"):
				r.Outcome = "stale"
			case strings.Contains(text, "MUTANT-NOCOMPILE"):
				r.Outcome = "does-not-compile"
			case strings.Contains(text, "MUTANT-HIT "):
				r.Outcome = "FALSE-ALARM"
				for _, l := range strings.Split(text, "\n") {
					if strings.HasPrefix(l, "MUTANT-HIT ") {
						if f := strings.Fields(l); len(f) >= 3 && len(r.Hits) < 4 {
							r.Hits = append(r.Hits, f[2])
						}
					}
				}
			case strings.Contains(text, "MUTANT-DONE"):
				r.Outcome = "quiet"
			default:
				r.Outcome = "error: " + clip(text, 120)
			}
			bres[i] = r
		}(i, b)
	}
	// the kept seeded changes of this property (written by independent sub-agents, /verif/seeded/<id>/patch.diff),
	// applied as overlays to the current tree
	seedDirs, _ := filepath.Glob(filepath.Join(verifDir(), "seeded", prop+"-*"))
	sort.Strings(seedDirs)
	sres := make([]mutantResult, len(seedDirs))
	for i, sd := range seedDirs {
		wg.Add(1)
		go func(i int, sd string) {
			defer wg.Done()
			sem <- struct{}{}
			defer func() { <-sem }()
			r := mutantResult{ID: filepath.Base(sd), Why: "seeded change by an independent sub-agent (breaks the property, compiles, passes the existing tests)", Expect: "any rule of " + prop}
			out, _ := exec.Command(exe, "-property", prop, "-dir", dir, "-mutant-patch", filepath.Join(sd, "patch.diff")).CombinedOutput()
			text := string(out)
			switch {
			case strings.Contains(text, "MUTANT-STALE"):
				r.Outcome = "stale"
			case strings.Contains(text, "MUTANT-NOCOMPILE"):
				r.Outcome = "does-not-compile"
			case strings.Contains(text, "MUTANT-HIT "):
				r.Outcome = "detected"
				for _, l := range strings.Split(text, "\n") {
					if strings.HasPrefix(l, "MUTANT-HIT ") {
						if f := strings.Fields(l); len(f) >= 3 && len(r.Hits) < 3 {
							r.Hits = append(r.Hits, f[2])
						}
					}
				}
			case strings.Contains(text, "MUTANT-DONE"):
				r.Outcome = "MISSED"
			default:
				r.Outcome = "error: " + clip(text, 120)
			}
			sres[i] = r
		}(i, sd)
	}
	// self-consistency of the second pass: the rules evaluated on the normal form of the unchanged sources
	nf := mutantResult{ID: prop + "-normal-form", Why: "all rules of the property evaluated on the inlined normal form of the unchanged sources (what the second pass falls back on after a refactor)", Expect: "no alarm"}
	wg.Add(1)
	go func() {
		defer wg.Done()
		sem <- struct{}{}
		defer func() { <-sem }()
		out, _ := exec.Command(exe, "-property", prop, "-dir", dir, "-normal-form", "-hits").CombinedOutput()
		text := string(out)
		switch {
		case strings.Contains(text, "MUTANT-HIT "):
			nf.Outcome = "not-quiet"
			for _, l := range strings.Split(text, "\n") {
				if strings.HasPrefix(l, "MUTANT-HIT ") {
					if f := strings.Fields(l); len(f) >= 3 && len(nf.Hits) < 6 {
						nf.Hits = append(nf.Hits, f[2])
					}
				}
			}
		case strings.Contains(text, "MUTANT-DONE"):
			nf.Outcome = "quiet"
		default:
			nf.Outcome = "unavailable: " + clip(text, 120)
		}
	}()
	wg.Wait()
	fmt.Printf("normal-form %s %v\n", nf.Outcome, nf.Hits)
	cnt := map[string]int{}
	bcnt := map[string]int{}
	for _, r := range bres {
		bcnt[r.Outcome]++
		fmt.Printf("benign %s %s (%s) %v\n", r.ID, r.Outcome, r.Why, r.Hits)
	}
	scnt := map[string]int{}
	for _, r := range sres {
		scnt[r.Outcome]++
		fmt.Printf("seeded %s %s %v\n", r.ID, r.Outcome, r.Hits)
	}
	for _, r := range res {
		cnt[r.Outcome]++
		fmt.Printf("selftest %s %s (%s)\n", r.ID, r.Outcome, r.Expect)
	}
	return map[string]any{"mutants": len(res), "outcomes": cnt, "results": res,
		"behaviour_preserving_edits": len(bres), "behaviour_preserving_outcomes": bcnt, "behaviour_preserving_results": bres,
		"normal_form_self_consistency": nf,
		"seeded_changes":               len(sres), "seeded_outcomes": scnt, "seeded_results": sres,
		"method": "each mutant is a source edit applied via packages.Config.Overlay to the current /repo tree and analysed in its own process; it must type-check and make the named rule instance fire"}
}
