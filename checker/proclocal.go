package main

import (
	"go/token"
	"go/types"
	"strings"

	"golang.org/x/tools/go/ssa"
)

// Process-local state (part of the E8 determinism lint). Consensus code may keep state only in the context's stores.
// A write that lands in memory owned by a long-lived object (a keeper, a msg/query server, a module object, anything the
// application object holds) or in a package variable survives the call, is shared by CheckTx / simulation / FinalizeBlock
// states and is never rolled back with the context: two nodes with different process histories then execute the same
// block differently (seed C02-4: a params cache hung off the feeds keeper).

// longLived: named struct types of the repo that the application object (transitively) holds, plus repo types that wrap
// one of them (msgServer{Keeper}, TSSCallback{k *Keeper}, Hooks{k Keeper}).
func (w *World) longLived() map[*types.TypeName]bool {
	if w.longLivedCache != nil {
		return w.longLivedCache
	}
	L := map[*types.TypeName]bool{}
	inRepo := func(n *types.Named) bool {
		return n != nil && n.Obj().Pkg() != nil && (strings.HasPrefix(n.Obj().Pkg().Path(), modPrefix) || n.Obj().Pkg().Path()+"/" == modPrefix) && !scopeExcluded(relPkg(n.Obj().Pkg().Path()))
	}
	var addFields func(n *types.Named, d int)
	addFields = func(n *types.Named, d int) {
		if n == nil || d > 6 {
			return
		}
		st, ok := n.Underlying().(*types.Struct)
		if !ok {
			return
		}
		for i := 0; i < st.NumFields(); i++ {
			fn := namedOf(st.Field(i).Type())
			if inRepo(fn) {
				if _, isStruct := fn.Underlying().(*types.Struct); isStruct && !L[fn.Obj()] {
					L[fn.Obj()] = true
					addFields(fn, d+1)
				}
			}
		}
	}
	for _, rel := range []string{"app", "app/keepers"} {
		if p := w.PkgBy[rel]; p != nil {
			for _, name := range []string{"BandApp", "AppKeepers"} {
				if o, ok := p.Types.Scope().Lookup(name).(*types.TypeName); ok {
					L[o] = true
					addFields(namedOf(o.Type()), 0)
				}
			}
		}
	}
	// the relay-proof gRPC service object lives as long as the node process: state it keeps between calls is process-local
	if p := w.PkgBy["client/grpc/oracle/proof"]; p != nil {
		if o, ok := p.Types.Scope().Lookup("proofServer").(*types.TypeName); ok {
			L[o] = true
			addFields(namedOf(o.Type()), 0)
		}
	}
	for _, p := range w.Pkgs { // the positive example's stand-in
		if strings.HasPrefix(p.PkgPath, "bandcheck/testdata/") {
			if o, ok := p.Types.Scope().Lookup("Keeper").(*types.TypeName); ok {
				L[o] = true
			}
		}
	}
	// wrappers: repo struct types with a field whose type is long-lived (two rounds are enough for the repo's nesting)
	for round := 0; round < 2; round++ {
		for _, p := range w.Pkgs {
			if scopeExcluded(relPkg(p.PkgPath)) {
				continue
			}
			sc := p.Types.Scope()
			for _, name := range sc.Names() {
				tn, ok := sc.Lookup(name).(*types.TypeName)
				if !ok || L[tn] {
					continue
				}
				st, ok := tn.Type().Underlying().(*types.Struct)
				if !ok {
					continue
				}
				for i := 0; i < st.NumFields(); i++ {
					if fn := namedOf(st.Field(i).Type()); fn != nil && L[fn.Obj()] {
						L[tn] = true
					}
				}
			}
		}
	}
	w.longLivedCache = L
	return L
}

// processLocalWrite classifies the address a store writes to; "" if it is call-local.
func (w *World) processLocalWrite(addr ssa.Value) string {
	L := w.longLived()
	loaded := false
	v := addr
	for i := 0; i < 40 && v != nil; i++ {
		switch x := v.(type) {
		case *ssa.Global:
			return "write to package variable " + x.Name()
		case *ssa.FieldAddr:
			t := x.X.Type()
			if p, ok := t.Underlying().(*types.Pointer); ok {
				t = p.Elem()
			}
			if n := namedOf(t); n != nil && L[n.Obj()] {
				fld := fieldName(x.X.Type(), x.Field)
				if loaded {
					return "write through a reference held in " + fld
				}
				switch x.X.(type) {
				case *ssa.Parameter, *ssa.FreeVar:
					return "write to field " + fld + " of a long-lived object"
				}
			}
			v = x.X
		case *ssa.IndexAddr:
			v = x.X
		case *ssa.UnOp:
			if x.Op != token.MUL {
				return ""
			}
			loaded = true
			v = x.X
		case *ssa.Slice:
			v = x.X
		case *ssa.ChangeType:
			v = x.X
		case *ssa.Field:
			if n := namedOf(x.X.Type()); n != nil && L[n.Obj()] {
				return "write through a reference held in " + fieldName(x.X.Type(), x.Field)
			}
			v = x.X
		default:
			return ""
		}
	}
	return ""
}
