package main

func init() { props["C18"] = c18 }

func c18(r *Report) propMeta {
	w := r.W
	roots := w.ComputeRoots()
	bt := "x/bandtss/types"
	stCreating := w.ConstAtom(bt, "TRANSITION_STATUS_CREATING_GROUP")
	stSign := w.ConstAtom(bt, "TRANSITION_STATUS_WAITING_SIGN")
	stExec := w.ConstAtom(bt, "TRANSITION_STATUS_WAITING_EXECUTION")
	found := Cond{Op: "BOOL", A: []string{"^extract", "call:Keeper.GetGroupTransition"}, Want: true, Desc: "transition found"}
	statusIs := func(c, name string) Cond {
		return Cond{Op: "EQL", A: []string{"field:GroupTransition.Status"}, B: []string{c}, Want: true, Desc: "transition.Status == " + name}
	}

	r.Rule("C18.R1", "E1 who may change the current group / create a transition")
	gen := []string{bK + "InitGenesis", "x/bandtss.InitGenesis"}
	r.Callers("callers", bK+"SetCurrentGroup", append([]string{bK + "ExecuteGroupTransition"}, gen...), []string{bK + "ExecuteGroupTransition"})
	r.StoreWriters("current-group-store", []string{"global:types.CurrentGroupStoreKey"}, []string{bK + "SetCurrentGroup"}, "x/bandtss")
	r.StoreWriters("transition-store", []string{"global:types.GroupTransitionStoreKey"}, []string{bK + "SetGroupTransition", bK + "DeleteGroupTransition"}, "x/bandtss")
	r.Callers("callers", bK+"ExecuteGroupTransition", []string{"x/bandtss.EndBlocker"}, []string{"x/bandtss.EndBlocker"})
	r.Callers("callers", bK+"SetNewGroupTransition", []string{bMS + "TransitionGroup", bMS + "ForceTransitionGroup"}, []string{bMS + "TransitionGroup", bMS + "ForceTransitionGroup"})
	r.Callers("callers", bK+"SetGroupTransition", append([]string{bK + "SetNewGroupTransition", bCB + "OnGroupCreationCompleted", bCB + "OnSigningCompleted"}, gen...), []string{bK + "SetNewGroupTransition", bCB + "OnGroupCreationCompleted", bCB + "OnSigningCompleted"})
	r.Callers("callers", bK+"DeleteGroupTransition", []string{bK + "EndGroupTransitionProcess"}, []string{bK + "EndGroupTransitionProcess"})
	r.Callers("callers", bK+"EndGroupTransitionProcess", []string{bK + "ExecuteGroupTransition", bCB + "OnGroupCreationCompleted", bCB + "OnGroupCreationFailed", bCB + "OnGroupCreationExpired", bCB + "OnSigningFailed"}, []string{bK + "ExecuteGroupTransition"})
	eb := "x/bandtss.EndBlocker"
	r.Gate("execute-only-if-due", eb, CallEff("Keeper.ExecuteGroupTransition"), []Cond{{Op: "BOOL", A: []string{"^extract", "call:Keeper.ShouldExecuteGroupTransition"}, Want: true, Desc: "ok of ShouldExecuteGroupTransition"}}, GateOpts{})
	r.ArgHas("execute-the-due-transition", eb, "Keeper.ExecuteGroupTransition", 1, 1, "call:Keeper.ShouldExecuteGroupTransition")

	r.Rule("C18.R2", "E3+E4 execution")
	ex := bK + "ExecuteGroupTransition"
	r.Gate("set-current-needs-waiting-execution", ex, CallEff("Keeper.SetCurrentGroup"), []Cond{statusIs(stExec, "WAITING_EXECUTION")}, GateOpts{})
	r.Gate("delete-members-needs-waiting-execution", ex, CallEff("Keeper.DeleteMembers"), []Cond{statusIs(stExec, "WAITING_EXECUTION")}, GateOpts{})
	r.Gate("otherwise-drop", ex, CallEff("Keeper.EndGroupTransitionProcess", "const:false"), []Cond{{Op: "EQL", A: []string{"field:GroupTransition.Status"}, B: []string{stExec}, Want: false, Desc: "status != WAITING_EXECUTION"}}, GateOpts{})
	r.Count("one-end", ex, []Effect{CallEff("Keeper.EndGroupTransitionProcess")}, "all", 1, 1)
	r.ArgHas("new-current-is-incoming", ex, "types.NewCurrentGroup", 0, 1, "field:GroupTransition.IncomingGroupID", "param:transition")
	r.ArgHas("stored-current-group", ex, "Keeper.SetCurrentGroup", 1, 1, "call:types.NewCurrentGroup")
	se := bK + "ShouldExecuteGroupTransition"
	r.Gate("due-means-found-and-time", se, RetConst(1, "true"), []Cond{found,
		{Op: "LSS", A: []string{"call:Context.BlockTime", "!call:Time.Unix"}, B: []string{"field:GroupTransition.ExecTime", "!call:Time.Unix"}, Want: false, Desc: "not ExecTime.After(BlockTime)"}}, GateOpts{})
	r.Exists("due-returns-stored-transition", se, RetValEff(0, "call:Keeper.GetGroupTransition"), 1)

	r.Rule("C18.R3", "census of GroupTransition.Status")
	r.FieldWriters("status-writers", "GroupTransition.Status", nil, []string{bCB + "OnGroupCreationCompleted", bCB + "OnSigningCompleted", "x/bandtss/types.NewGroupTransition"}, []string{"x/bandtss"})
	r.FieldWriters("waiting-sign-writers", "GroupTransition.Status", []string{stSign}, []string{bCB + "OnGroupCreationCompleted"}, []string{"x/bandtss"})
	r.FieldWriters("waiting-exec-writers", "GroupTransition.Status", []string{stExec}, []string{bCB + "OnGroupCreationCompleted", bCB + "OnSigningCompleted"}, []string{"x/bandtss"})
	sn := bK + "SetNewGroupTransition"
	r.ArgHas("initial-status", sn, "types.NewGroupTransition", 5, 1, "^phi", stCreating, stExec)
	r.FlagOnlyUnderVal("exec-status-only-if-forced", sn, "types.NewGroupTransition", 5, stExec, []Cond{{Op: "BOOL", A: []string{"^param:isForceTransition"}, Want: true, Desc: "isForceTransition"}})
	oc := bCB + "OnSigningCompleted"
	r.Gate("handover-signed", oc, StoreEff("GroupTransition.Status", stExec), []Cond{
		{Op: "EQL", A: []string{"call:Keeper.GetSigningIDMapping"}, B: []string{"const:0"}, Want: true, Desc: "no bandtss signing mapping (not a user request)"},
		found,
		{Op: "EQL", A: []string{"param:signingID"}, B: []string{"field:GroupTransition.SigningID"}, Want: true, Desc: "signingID == transition.SigningID"},
		statusIs(stSign, "WAITING_SIGN")}, GateOpts{})
	r.Gate("handover-signed-store", oc, CallEff("Keeper.SetGroupTransition"), []Cond{
		found, {Op: "EQL", A: []string{"param:signingID"}, B: []string{"field:GroupTransition.SigningID"}, Want: true, Desc: "signingID == transition.SigningID"},
		statusIs(stSign, "WAITING_SIGN")}, GateOpts{})
	og := bCB + "OnGroupCreationCompleted"
	r.Gate("waiting-sign-after-signing-created", og, StoreEff("GroupTransition.Status", stSign), []Cond{nilErrOf("Keeper.CreateTransitionSigning"),
		{Op: "EQL", A: []string{"field:GroupTransition.CurrentGroupID"}, B: []string{"const:0"}, Want: false, Desc: "CurrentGroupID != 0"}}, GateOpts{})
	r.Gate("direct-exec-only-without-current-group", og, StoreEff("GroupTransition.Status", stExec), []Cond{
		{Op: "EQL", A: []string{"field:GroupTransition.CurrentGroupID"}, B: []string{"const:0"}, Want: true, Desc: "CurrentGroupID == 0"}}, GateOpts{})
	r.Exists("signing-id-recorded", og, StoreEff("GroupTransition.SigningID", "call:Keeper.CreateTransitionSigning"), 1)

	r.Rule("C18.R4", "E3 callbacks act only on the matching transition")
	matchCreating := []Cond{found,
		{Op: "EQL", A: []string{"field:GroupTransition.IncomingGroupID"}, B: []string{"param:groupID"}, Want: true, Desc: "IncomingGroupID == groupID"},
		statusIs(stCreating, "CREATING_GROUP")}
	r.Gate("completed-guards", og, CallEff("Keeper.SetGroupTransition"), append(append([]Cond{}, matchCreating...),
		Cond{Op: "LSS", A: []string{"field:GroupTransition.ExecTime", "!call:Time.Unix"}, B: []string{"call:Context.BlockTime", "!call:Time.Unix"}, Want: false, Desc: "not ExecTime.Before(BlockTime) (full time resolution, not whole seconds: seed C18-13)"}), GateOpts{})
	r.Gate("completed-guards-members", og, CallEff("Keeper.AddMembers"), matchCreating, GateOpts{})
	r.Gate("completed-guards-signing", og, CallEff("Keeper.CreateTransitionSigning"), matchCreating, GateOpts{})
	r.Gate("failed-guards", bCB+"OnGroupCreationFailed", CallEff("Keeper.EndGroupTransitionProcess"), matchCreating, GateOpts{})
	r.Gate("expired-guards", bCB+"OnGroupCreationExpired", CallEff("Keeper.EndGroupTransitionProcess"), matchCreating, GateOpts{})
	r.Gate("signing-failed-guards", bCB+"OnSigningFailed", CallEff("Keeper.EndGroupTransitionProcess"), []Cond{found,
		{Op: "EQL", A: []string{"param:signingID"}, B: []string{"field:GroupTransition.SigningID"}, Want: true, Desc: "signingID == transition.SigningID"},
		statusIs(stSign, "WAITING_SIGN")}, GateOpts{})
	for _, f := range []string{"OnGroupCreationFailed", "OnGroupCreationExpired", "OnSigningFailed"} {
		r.ArgHas("ends-as-failure", bCB+f, "Keeper.EndGroupTransitionProcess", 2, 1, "const:false")
	}

	r.Rule("C18.R5", "E3 proposal handlers")
	for _, h := range []string{"TransitionGroup", "ForceTransitionGroup"} {
		r.Gate("proposal-guards", bMS+h, CallEff("Keeper.SetNewGroupTransition"), []Cond{
			{Op: "EQL", A: []string{"call:Keeper.GetAuthority"}, B: []string{"field:Msg" + h + ".Authority"}, Want: true, Desc: "authority == req.Authority"},
			nilErrOf("Keeper.ValidateTransitionExecTime"), nilErrOf("Keeper.ValidateTransitionInProgress")}, GateOpts{FailIsError: true})
		r.ArgHas("exec-time-validated", bMS+h, "Keeper.ValidateTransitionExecTime", 1, 1, "field:Msg"+h+".ExecTime")
		r.ArgHas("exec-time-stored", bMS+h, "Keeper.SetNewGroupTransition", 2, 1, "field:Msg"+h+".ExecTime")
	}
	r.Gate("create-group-guards", bMS+"TransitionGroup", CallEff("TSSKeeper.CreateGroup"), []Cond{nilErrOf("Keeper.ValidateTransitionExecTime"), nilErrOf("Keeper.ValidateTransitionInProgress")}, GateOpts{})
	r.ArgHas("not-forced", bMS+"TransitionGroup", "Keeper.SetNewGroupTransition", 3, 1, "const:false")
	r.ArgHas("forced", bMS+"ForceTransitionGroup", "Keeper.SetNewGroupTransition", 3, 1, "const:true")
	r.ArgHas("incoming-is-created-group", bMS+"TransitionGroup", "Keeper.SetNewGroupTransition", 1, 1, "call:TSSKeeper.CreateGroup")
	ft := bMS + "ForceTransitionGroup"
	r.Gate("force-guards", ft, CallEff("Keeper.SetNewGroupTransition"), []Cond{
		{Op: "EQL", A: []string{"field:CurrentGroup.GroupID"}, B: []string{"field:MsgForceTransitionGroup.IncomingGroupID"}, Want: false, Desc: "incoming != current"},
		{Op: "EQL", A: []string{"field:Group.Status"}, B: []string{w.ConstAtom("x/tss/types", "GROUP_STATUS_ACTIVE")}, Want: true, Desc: "incoming group ACTIVE"},
		nilErrOf("TSSKeeper.GetGroup"), nilErrOf("Keeper.AddMembers")}, GateOpts{FailIsError: true})
	vp := bK + "ValidateTransitionInProgress"
	r.Gate("in-progress-iff-found", vp, RetOK(), []Cond{{Op: "BOOL", A: []string{"^extract", "call:Keeper.GetGroupTransition"}, Want: false, Desc: "no transition stored"}}, GateOpts{FailIsError: true})
	r.Count("in-progress-no-other-condition", vp, []Effect{CallEff("Keeper.GetGroupTransition")}, "all", 1, 1)
	r.CondCount("in-progress-single-condition", vp, 1)
	vt := bK + "ValidateTransitionExecTime"
	r.Gate("exec-window", vt, RetOK(), []Cond{
		{Op: "LSS", A: []string{"param:execTime"}, B: []string{"^call:Time.Add", "binops=", "field:Params.MinTransitionDuration", "call:Context.BlockTime"}, Want: false, Desc: "not execTime.Before(now+Min)"},
		{Op: "LSS", A: []string{"^call:Time.Add", "binops=", "field:Params.MaxTransitionDuration", "call:Context.BlockTime"}, B: []string{"param:execTime"}, Want: false, Desc: "not execTime.After(now+Max)"}}, GateOpts{FailIsError: true})

	r.Rule("C18.R6", "E6 incoming-group signing is best effort in a cache context")
	cs := bK + "createSigningRequest"
	r.Commit("incoming-signing", "x/tss/keeper.Keeper.RequestSigning", "cache", roots, []string{cs})
	ig := bK + "GetIncomingGroupID"
	r.Gate("incoming-only-when-waiting-execution", ig, RetValEff(0, "field:GroupTransition.IncomingGroupID"), []Cond{found, statusIs(stExec, "WAITING_EXECUTION")}, GateOpts{})
	r.Gate("incoming-error-not-fatal", cs, CallEff("Keeper.AddSigning"), []Cond{{Op: "EQL", A: []string{"call:TSSKeeper.RequestSigning", "call:Keeper.GetIncomingGroupID", "call:Context.CacheContext"}, B: []string{"const:nil"}, Want: false, Desc: "incoming RequestSigning failed"}}, GateOpts{AnySiteReach: true})

	r.Rule("C18.R7", "pairing: members follow the group")
	r.Gate("old-members-removed", ex, CallEff("Keeper.DeleteMembers"), []Cond{{Op: "EQL", A: []string{"field:GroupTransition.CurrentGroupID"}, B: []string{"const:0"}, Want: false, Desc: "CurrentGroupID != 0"}}, GateOpts{})
	r.ArgHas("old-members-of-current", ex, "Keeper.DeleteMembers", 1, 1, "field:GroupTransition.CurrentGroupID")
	// who removes / adds bandtss member records at all: only the transition machinery (and genesis import); a migration
	// or clean-up that prunes "other groups' members" also prunes the incoming group of a transition awaiting execution
	// (seed C18-12)
	r.Callers("member-record-removers", bK+"DeleteMember", []string{bK + "DeleteMembers"}, []string{bK + "DeleteMembers"})
	r.Callers("member-set-removers", bK+"DeleteMembers", []string{ex}, []string{ex})
	r.Callers("member-set-adders", bK+"AddMembers", []string{ft, og, oc}, []string{ft, og, oc})
	r.Dominated("members-added-before-exec-status", oc, CallEff("Keeper.AddMembers"), StoreEff("GroupTransition.Status", stExec))
	r.ArgHas("members-of-incoming", oc, "Keeper.AddMembers", 1, 1, "field:GroupTransition.IncomingGroupID")
	r.Dominated("members-added-before-exec-status", og, CallEff("Keeper.AddMembers"), StoreEff("GroupTransition.Status", stExec))
	r.ArgHas("force-members-of-incoming", ft, "Keeper.AddMembers", 1, 1, "field:MsgForceTransitionGroup.IncomingGroupID")
	r.SameValue("force-same-incoming", ft, ArgRef{"Keeper.AddMembers", 1}, ArgRef{"Keeper.SetNewGroupTransition", 1}, ArgRef{"TSSKeeper.GetGroup", 1})

	r.Rule("C18.R8", "store-key agreement: every point read/delete addresses a written key family")
	r.StoreKeyAgreement("store-keys", "bandtss", 8, nil)

	r.Rule("C18.R9", "E19 constructors of x/bandtss/types store their inputs unchanged")
	r.CtorFaithful("ctor", faithfulCtors["bandtss"]...)

	r.Rule("C18.lint", "E8 module lint: no nondeterminism / process-local state in x/bandtss")
	r.ModuleLint("module-lint", "bandtss", 20)

	r.Rule("C18.iter", "E14 store-iterator loops run to exhaustion")
	r.IteratorLoopCensus("iter", []string{"x/tss/", "x/bandtss/"}, nil, 10)

	return propMeta{
		Decided: []string{
			"R1 SetCurrentGroup is called only by ExecuteGroupTransition (and genesis), itself only by bandtss EndBlocker under ShouldExecuteGroupTransition's ok; transitions are created only by the two governance handlers; store keys have single writers",
			"R2 ExecuteGroupTransition switches groups only when Status == WAITING_EXECUTION, otherwise ends the transition as failed; the new group is transition.IncomingGroupID; due means found && !ExecTime.After(BlockTime)",
			"R3 census of GroupTransition.Status writes: WAITING_SIGN only after CreateTransitionSigning succeeded; WAITING_EXECUTION only (a) with no current group, (b) on completion of the signing whose id equals transition.SigningID while WAITING_SIGN and with no user-signing mapping, (c) initial status of a forced transition",
			"R4 creation callbacks act only when found && IncomingGroupID == groupID && Status == CREATING_GROUP (and, on completion, not past ExecTime); failure callbacks end the transition as failed",
			"R5 both proposal handlers: authority equality, exec-time window and no-transition-in-progress gate every write; ValidateTransitionInProgress errors iff a transition is stored (single condition); force additionally incoming != current, ACTIVE, AddMembers ok",
			"R6 the incoming-group RequestSigning runs on a CacheContext whose writeFn is gated by err == nil and whose failure does not abort the request; GetIncomingGroupID non-zero only under WAITING_EXECUTION",
			"R7 DeleteMembers(current) on execution; AddMembers(incoming) precedes every WAITING_EXECUTION",
			"R8 every KV-store Get/Has/Delete of x/bandtss uses a key builder of x/bandtss/types that some Set of the module also uses (a probe of an iteration prefix or of a sibling family is always-empty state)",
			"R9 the literal constructors of x/bandtss/types (frozen list) store each parameter or a constant unchanged in the record they build: what a handler validated is what is stored",
			"lint: the determinism lint (incl. writes to memory held by long-lived objects) over everything reachable from the handlers and blockers of x/bandtss",
			"iter: every KV-store iterator loop of the module's keeper runs until the iterator is exhausted (header is the bare Valid() test, no other way out but panic / error return), except reviewed early stops (seed C18-7 capped the member listing at MaxGroupSize)",
		},
		Undecided: []string{"interleavings of callbacks, deadlines and concurrent requests (schedule/history)", "that tss actually invokes the callbacks it should"},
		Assume:    []string{"VTA resolves the tss callback router to bandtss TSSCallback", "msg handlers atomic; governance authority check by address equality"},
	}
}
