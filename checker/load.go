package main

import (
	"crypto/sha1"
	"encoding/hex"
	"fmt"
	"go/ast"
	"go/constant"
	"go/printer"
	"go/token"
	"go/types"
	"os"
	"sort"
	"strings"
	"time"

	"golang.org/x/tools/go/callgraph"
	"golang.org/x/tools/go/callgraph/cha"
	"golang.org/x/tools/go/callgraph/vta"
	"golang.org/x/tools/go/packages"
	"golang.org/x/tools/go/ssa"
	"golang.org/x/tools/go/ssa/ssautil"
)

const modPrefix = "github.com/bandprotocol/chain/v3/"

// World is the resolved program every rule is evaluated against.
type World struct {
	RepoDir string
	Fset    *token.FileSet
	Pkgs    []*packages.Package
	PkgBy   map[string]*packages.Package // by path relative to module ("x/oracle/keeper")
	Prog    *ssa.Program
	SSAPkgs []*ssa.Package
	// Funcs: every source-level function (incl. anonymous), keyed canonically.
	Funcs    map[string]*ssa.Function
	AllFuncs map[*ssa.Function]bool
	cg       *callgraph.Graph
	LoadS    float64
	SSAS     float64
	CGS      float64
	// bookkeeping for evidence
	FuncsAnalysed map[*ssa.Function]bool
	Requested     map[string]bool // function keys the rules asked for (used by -freeze-params)
	SitesExamined int

	longLivedCache map[*types.TypeName]bool
	overlay        map[string][]byte
}

func relPkg(path string) string {
	if strings.HasPrefix(path, modPrefix) {
		return path[len(modPrefix):]
	}
	if path+"/" == modPrefix {
		return "."
	}
	return path
}

// scopeExcluded: packages that are loaded (must type-check) but are not rule scope.
func scopeExcluded(rel string) bool {
	if strings.HasPrefix(rel, "bandcheck/testdata/") {
		return false
	}
	for _, s := range []string{"testutil", "testing", "simulation", "client/cli", "benchmark", "/mocks", "/testdata"} {
		if strings.Contains(rel, s) {
			return true
		}
	}
	return false
}

type LoadOpts struct {
	Dir     string
	Overlay map[string][]byte
	NoCG    bool
}

func Load(o LoadOpts) (*World, error) {
	t0 := time.Now()
	os.Unsetenv("GOWORK")
	env := append(os.Environ(), "GOFLAGS=-mod=mod", "GOPROXY=off", "GOSUMDB=off", "GOTOOLCHAIN=local", "GOWORK=off")
	mode := packages.LoadSyntax
	if os.Getenv("BANDCHECK_LOADALL") != "" || len(o.Overlay) > 0 {
		mode = packages.LoadAllSyntax // everything type-checked from source: nothing is compiled, nothing enters the build cache
	}
	cfg := &packages.Config{
		Mode:       mode,
		Dir:        o.Dir,
		BuildFlags: []string{"-tags=verif"},
		Tests:      false,
		Env:        env,
		Overlay:    o.Overlay,
	}
	pkgs, err := packages.Load(cfg, "./...")
	if err != nil {
		return nil, fmt.Errorf("packages.Load: %w", err)
	}
	var errs []string
	packages.Visit(pkgs, nil, func(p *packages.Package) {
		for _, e := range p.Errors {
			errs = append(errs, e.Error())
		}
	})
	if len(errs) > 0 {
		if len(errs) > 8 {
			errs = errs[:8]
		}
		return nil, fmt.Errorf("load/type errors: %s", strings.Join(errs, "; "))
	}
	if mode == packages.LoadAllSyntax {
		// the dependencies were type-checked from source only to avoid compiling them; their syntax trees and per-node type
		// information are not used by any rule (TrustedBase parses what it needs itself) and are most of the memory
		initial := map[*packages.Package]bool{}
		for _, p := range pkgs {
			initial[p] = true
		}
		packages.Visit(pkgs, nil, func(p *packages.Package) {
			if !initial[p] {
				p.Syntax, p.TypesInfo = nil, nil
			}
		})
	}
	if len(pkgs) < 95 {
		return nil, fmt.Errorf("only %d packages loaded from %s (expected >= 95): refusing a vacuous analysis", len(pkgs), o.Dir)
	}
	w := &World{RepoDir: o.Dir, overlay: o.Overlay, Pkgs: pkgs, PkgBy: map[string]*packages.Package{}, Funcs: map[string]*ssa.Function{},
		AllFuncs: map[*ssa.Function]bool{}, FuncsAnalysed: map[*ssa.Function]bool{}}
	for _, p := range pkgs {
		w.PkgBy[relPkg(p.PkgPath)] = p
		w.Fset = p.Fset
	}
	w.recoverRenamedTypes()
	w.LoadS = time.Since(t0).Seconds()
	t1 := time.Now()
	prog, spkgs := ssautil.Packages(pkgs, ssa.InstantiateGenerics)
	prog.Build()
	w.Prog = prog
	for _, sp := range spkgs {
		if sp != nil {
			w.SSAPkgs = append(w.SSAPkgs, sp)
		}
	}
	w.AllFuncs = ssautil.AllFunctions(prog)
	for fn := range w.AllFuncs {
		if fn.Synthetic != "" && fn.Parent() == nil {
			continue
		}
		if fn.Pkg == nil && fn.Parent() == nil {
			continue
		}
		k := FuncKey(fn)
		if k != "" {
			if old, ok := w.Funcs[k]; ok && old != fn {
				// generic instantiations share a key with their origin; prefer origin
				if fn.Origin() != nil {
					continue
				}
			}
			w.Funcs[k] = fn
		}
	}
	w.recoverRenamed()
	w.SSAS = time.Since(t1).Seconds()
	return w, nil
}

// funcAlias: functions that were recognised as renamed anchors keep answering to the name the rule tables know.
var funcAlias = map[*ssa.Function]string{}
var aliasNotes []string

// recordPats (freeze mode only): every name pattern the rules matched against; the repo functions they name are frozen
// as anchors so that a rename of a callee named in a pattern is recovered like a rename of an anchored function.
var recordPats map[string]bool

// bodyFingerprint: hash of the printed body of a source function (whitespace-insensitive); "" when it has none.
func bodyFingerprint(w *World, fn *ssa.Function) string {
	fd, ok := fn.Syntax().(*ast.FuncDecl)
	if !ok || fd.Body == nil {
		return ""
	}
	var sb strings.Builder
	printer.Fprint(&sb, w.Fset, fd.Body)
	h := sha1.Sum([]byte(strings.Join(strings.Fields(sb.String()), "")))
	return hex.EncodeToString(h[:6])
}

// declAlias: frozen key of a renamed anchor -> its current name (for the rules that look declarations up by name)
var declAlias = map[string]string{}

func sigFingerprint(fn *ssa.Function) string {
	q := func(p *types.Package) string { return p.Path() }
	var sb strings.Builder
	if r := fn.Signature.Recv(); r != nil {
		sb.WriteString(types.TypeString(r.Type(), q) + "|")
	}
	tup := func(t *types.Tuple) {
		sb.WriteString("(")
		for i := 0; i < t.Len(); i++ {
			if i > 0 {
				sb.WriteString(",")
			}
			sb.WriteString(types.TypeString(t.At(i).Type(), q)) // types only: parameter names may change with the rename
		}
		sb.WriteString(")")
	}
	tup(fn.Signature.Params())
	tup(fn.Signature.Results())
	if fn.Signature.Variadic() {
		sb.WriteString("...")
	}
	return sb.String()
}

// recoverRenamed: an anchored function (frozenSigs) that no longer exists is matched to the unique function of the same
// package / receiver with the identical signature that is not an anchor itself. Renaming a function is a
// behaviour-preserving edit; without this every rule on it would turn unresolved and the check would alarm.
func (w *World) recoverRenamed() {
	scope := func(k string) string {
		if i := strings.LastIndexByte(k, '.'); i >= 0 {
			return k[:i]
		}
		return ""
	}
	for _, old := range sortedKeys(frozenSigs) {
		if _, ok := w.Funcs[old]; ok {
			continue
		}
		var cands []string
		for k, fn := range w.Funcs {
			if scope(k) != scope(old) || fn.Parent() != nil || len(fn.Blocks) == 0 {
				continue
			}
			if _, isAnchor := frozenSigs[k]; isAnchor {
				continue
			}
			if sigFingerprint(fn) == frozenSigs[old] {
				cands = append(cands, k)
			}
		}
		if len(cands) > 1 && frozenBodies[old] != "" {
			// several functions share the signature: the one whose body is unchanged is the renamed anchor
			var same []string
			for _, k := range cands {
				if bodyFingerprint(w, w.Funcs[k]) == frozenBodies[old] {
					same = append(same, k)
				}
			}
			cands = same
		}
		if len(cands) == 0 {
			// moved to another receiver (or made a plain function) of the same package: the unique NEW function of the
			// package - one that did not exist when the tables were frozen - with the same parameter and result types
			pkgOf := func(k string) string {
				if i := strings.LastIndexByte(k, '/'); i >= 0 {
					if j := strings.IndexByte(k[i:], '.'); j >= 0 {
						return k[:i+j]
					}
				}
				if j := strings.IndexByte(k, '.'); j >= 0 {
					return k[:j]
				}
				return k
			}
			noRecv := func(fp string) string {
				if i := strings.IndexByte(fp, '|'); i >= 0 {
					return fp[i+1:]
				}
				return fp
			}
			for k, fn := range w.Funcs {
				if pkgOf(k) != pkgOf(old) || fn.Parent() != nil || len(fn.Blocks) == 0 || frozenExported[k] {
					continue
				}
				if _, isAnchor := frozenSigs[k]; isAnchor {
					continue
				}
				if noRecv(sigFingerprint(fn)) == noRecv(frozenSigs[old]) {
					cands = append(cands, k)
				}
			}
		}
		if len(cands) == 0 && strings.HasPrefix(frozenSigs[old], "(") {
			// a plain function moved to another package (e.g. from the keeper into the types package): the unique NEW plain
			// function of the repository with exactly the same parameter and result types
			for k, fn := range w.Funcs {
				if fn.Parent() != nil || len(fn.Blocks) == 0 || frozenExported[k] || fn.Signature.Recv() != nil {
					continue
				}
				if _, isAnchor := frozenSigs[k]; isAnchor {
					continue
				}
				if sigFingerprint(fn) == frozenSigs[old] {
					cands = append(cands, k)
				}
			}
		}
		if len(cands) != 1 {
			continue
		}
		fn := w.Funcs[cands[0]]
		funcAlias[fn] = old
		declAlias[old] = cands[0][strings.LastIndexByte(cands[0], '.')+1:]
		w.Funcs[old] = fn
		delete(w.Funcs, cands[0]) // the function answers to its frozen name only (censuses walk w.Funcs by key)
		for k := range w.Funcs {
			if strings.HasPrefix(k, cands[0]+"$") {
				delete(w.Funcs, k)
			}
		}
		for _, a := range fn.AnonFuncs {
			w.Funcs[FuncKey(a)] = a
		}
		aliasNotes = append(aliasNotes, fmt.Sprintf("anchor %s not found; resolved to %s (same package/receiver, identical signature, not an anchor itself): treated as a rename", old, cands[0]))
	}
}

// CG builds the call graph lazily (VTA over CHA).
func (w *World) CG() *callgraph.Graph {
	if w.cg == nil {
		t := time.Now()
		w.cg = vta.CallGraph(w.AllFuncs, cha.CallGraph(w.Prog))
		w.CGS = time.Since(t).Seconds()
	}
	return w.cg
}

func typeName(t types.Type) string {
	for {
		switch tt := t.(type) {
		case *types.Pointer:
			t = tt.Elem()
			continue
		case *types.Named:
			return typeObjName(tt.Obj())
		case *types.Alias:
			t = types.Unalias(tt)
			continue
		}
		return t.String()
	}
}

func namedOf(t types.Type) *types.Named {
	for {
		switch tt := t.(type) {
		case *types.Pointer:
			t = tt.Elem()
			continue
		case *types.Alias:
			t = types.Unalias(tt)
			continue
		case *types.Named:
			return tt
		}
		return nil
	}
}

// ObjKey gives the canonical name of a function object: "<relpkg>.<Recv>.<Name>" or "<relpkg>.<Name>".
func ObjKey(f *types.Func) string {
	if f == nil {
		return ""
	}
	sig, _ := f.Type().(*types.Signature)
	pkg := ""
	if f.Pkg() != nil {
		pkg = relPkg(f.Pkg().Path())
	}
	fname := f.Name()
	if a, ok := methodAlias[f]; ok {
		fname = a
	}
	if sig != nil && sig.Recv() != nil {
		rt := sig.Recv().Type()
		if n := namedOf(rt); n != nil {
			p := pkg
			if n.Obj().Pkg() != nil {
				p = relPkg(n.Obj().Pkg().Path())
			}
			return p + "." + typeObjName(n.Obj()) + "." + fname
		}
		return pkg + "." + typeName(rt) + "." + fname
	}
	return pkg + "." + fname
}

// FuncKey gives the canonical key of an SSA function; anonymous functions get "<parent>$<n>".
func FuncKey(fn *ssa.Function) string {
	if fn == nil {
		return ""
	}
	if a, ok := funcAlias[fn]; ok {
		return a
	}
	if fn.Parent() != nil {
		// name is like "Outer$1" or "Outer$1$2"
		root := fn
		for root.Parent() != nil {
			root = root.Parent()
		}
		rk := FuncKey(root)
		suffix := strings.TrimPrefix(fn.Name(), root.Name())
		return rk + suffix
	}
	if o, ok := fn.Object().(*types.Func); ok && o != nil {
		if fn.Origin() != nil {
			if oo, ok := fn.Origin().Object().(*types.Func); ok {
				return ObjKey(oo)
			}
		}
		return ObjKey(o)
	}
	if fn.Pkg != nil {
		return relPkg(fn.Pkg.Pkg.Path()) + "." + fn.Name()
	}
	return fn.String()
}

// Fn resolves a function by canonical key; "" + error if missing.
func (w *World) Fn(key string) *ssa.Function {
	if w.Requested != nil {
		w.Requested[key] = true
	}
	return w.Funcs[key]
}

func (w *World) Pos(p token.Pos) string {
	if !p.IsValid() {
		return "-"
	}
	ps := w.Fset.Position(p)
	f := ps.Filename
	if strings.HasPrefix(f, w.RepoDir+"/") {
		f = f[len(w.RepoDir)+1:]
	}
	return fmt.Sprintf("%s:%d", f, ps.Line)
}

func (w *World) FnPos(fn *ssa.Function) string {
	if fn == nil {
		return "-"
	}
	return w.Pos(fn.Pos())
}

// nameMatch: does canonical name `full` match pattern `pat`? A pattern matches when equal or when it is a
// suffix of full starting at a '.' or '/' boundary.
func nameMatch(full, pat string) bool {
	if recordPats != nil {
		recordPats[strings.TrimPrefix(pat, "call:")] = true
	}
	if full == pat {
		return true
	}
	if strings.HasSuffix(full, pat) {
		c := full[len(full)-len(pat)-1]
		return c == '.' || c == '/'
	}
	return false
}

// CalleeName returns the canonical name of the callee at a call instruction: static function, interface
// method, builtin ("builtin.len"), or "" for dynamic calls of function values.
func CalleeName(c *ssa.CallCommon) string {
	if c.IsInvoke() {
		return ObjKey(c.Method)
	}
	switch v := c.Value.(type) {
	case *ssa.Function:
		// library synonyms: slices.Sort on a []string is sort.Strings (same order, both unstable on equal = identical keys)
		if k := FuncKey(v); k == "slices.Sort" && len(c.Args) == 1 {
			if st, ok := c.Args[0].Type().Underlying().(*types.Slice); ok {
				if b, ok := st.Elem().Underlying().(*types.Basic); ok {
					switch {
					case b.Kind() == types.String:
						return "sort.Strings"
					case b.Kind() == types.Int:
						return "sort.Ints"
					}
				}
			}
			return k
		} else {
			return k
		}
	case *ssa.Builtin:
		return "builtin." + v.Name()
	case *ssa.MakeClosure:
		if f, ok := v.Fn.(*ssa.Function); ok {
			return FuncKey(f)
		}
	}
	return ""
}

// Calls lists call instructions (call, defer, go) in fn whose callee matches pat.
func Calls(fn *ssa.Function, pat string) []ssa.CallInstruction {
	var out []ssa.CallInstruction
	for _, b := range fn.Blocks {
		for _, in := range b.Instrs {
			if ci, ok := in.(ssa.CallInstruction); ok {
				if nameMatch(CalleeName(ci.Common()), pat) {
					out = append(out, ci)
				}
			}
		}
	}
	return out
}

// sortedKeys helper
func sortedKeys[V any](m map[string]V) []string {
	ks := make([]string, 0, len(m))
	for k := range m {
		ks = append(ks, k)
	}
	sort.Strings(ks)
	return ks
}

// inRepoScope: function belongs to a repo package that is rule scope.
func inRepoScope(fn *ssa.Function) bool {
	root := fn
	for root.Parent() != nil {
		root = root.Parent()
	}
	var path string
	if root.Pkg != nil {
		path = root.Pkg.Pkg.Path()
	} else if o := root.Object(); o != nil && o.Pkg() != nil {
		path = o.Pkg().Path()
	} else {
		return false
	}
	if strings.HasPrefix(path, "bandcheck/testdata/") {
		return true
	}
	if !strings.HasPrefix(path, modPrefix) && path+"/" != modPrefix {
		return false
	}
	return !scopeExcluded(relPkg(path))
}

// FileOf returns the parsed file (AST) for a repo-relative path.
func (w *World) FileOf(rel string) (*packages.Package, *ast.File) {
	for _, p := range w.Pkgs {
		for i, f := range p.CompiledGoFiles {
			if strings.HasSuffix(f, "/"+rel) && i < len(p.Syntax) {
				return p, p.Syntax[i]
			}
		}
	}
	return nil, nil
}

// ConstAtom returns "const:<value>" for a named constant of a repo package (so rule tables name constants, never
// their numeric values).
func (w *World) ConstAtom(pkgRel, name string) string {
	p := w.PkgBy[pkgRel]
	if p == nil {
		return "const:<unresolved " + pkgRel + "." + name + ">"
	}
	c := lookupConst(p, name)
	if c == nil {
		return "const:<unresolved " + pkgRel + "." + name + ">"
	}
	if c.Val().Kind() == constant.String {
		return "const:" + printableConst(constant.StringVal(c.Val()))
	}
	return "const:" + c.Val().ExactString()
}

func readFile(name string) ([]byte, error) { return os.ReadFile(name) }
