package main

import (
	"encoding/json"
	"flag"
	"fmt"
	"os"
	"path/filepath"
	"runtime/debug"
	"sort"
	"strconv"
	"strings"
	"time"

	"golang.org/x/tools/go/ssa"
)

var procStart = time.Now()

type propFunc func(r *Report) propMeta

var props = map[string]propFunc{}

func verifDir() string {
	exe, err := os.Executable()
	if err == nil {
		d := filepath.Dir(filepath.Dir(exe))
		if _, err := os.Stat(filepath.Join(d, "MANIFEST.json")); err == nil {
			return d
		}
	}
	wd, _ := os.Getwd()
	return wd
}

func main() {
	prop := flag.String("property", "", "property id (C01..C20)")
	tier := flag.String("tier", "quick", "quick|thorough")
	warm := flag.Bool("warm", false, "perform one load to warm the build cache")
	dir := flag.String("dir", "/repo", "repository directory")
	dump := flag.String("dump", "", "debug: dump conditions/calls of a function key (comma separated)")
	list := flag.String("list", "", "debug: list function keys containing substring")
	explain := flag.String("explain", "", "replay: path of a violation file")
	mutant := flag.String("mutant", "", "internal: run the property on an overlay mutant (file::old::new)")
	callers := flag.String("callers", "", "debug: list callers of function key")
	manifest := flag.Bool("manifest", false, "regenerate MANIFEST.json from the registered properties")
	flag.Parse()
	if t := os.Getenv("VERIF_TIER"); t == "quick" || t == "thorough" {
		*tier = t
	}
	seed := 0
	if s := os.Getenv("VERIF_SEED"); s != "" {
		seed, _ = strconv.Atoi(s)
	}

	if *explain != "" {
		b, err := os.ReadFile(*explain)
		if err != nil {
			fmt.Println("cannot read", *explain, err)
			os.Exit(2)
		}
		var v map[string]any
		json.Unmarshal(b, &v)
		if p, ok := v["property"].(string); ok && *prop == "" {
			*prop = p
		}
		fmt.Printf("replaying %s: re-analysing %s for property %s; the recorded violation key is %v\n", *explain, *dir, *prop, v["key"])
	}

	opts := LoadOpts{Dir: *dir}
	var mutDesc string
	if *mutant != "" {
		parts := strings.SplitN(*mutant, "::", 3)
		if len(parts) != 3 {
			fmt.Println("bad -mutant")
			os.Exit(2)
		}
		p := filepath.Join(*dir, parts[0])
		src, err := os.ReadFile(p)
		if err != nil {
			fmt.Println("MUTANT-STALE cannot read", p)
			os.Exit(3)
		}
		if strings.Count(string(src), parts[1]) != 1 {
			fmt.Printf("MUTANT-STALE anchor text occurs %d times in %s\n", strings.Count(string(src), parts[1]), parts[0])
			os.Exit(3)
		}
		opts.Overlay = map[string][]byte{p: []byte(strings.Replace(string(src), parts[1], parts[2], 1))}
		mutDesc = parts[0]
	}

	w, err := Load(opts)
	if err != nil {
		if *mutant != "" {
			fmt.Println("MUTANT-NOCOMPILE", err)
			os.Exit(4)
		}
		fmt.Printf("internal: %v\n", err)
		if *prop != "" {
			r := NewReport(*prop, *tier, nil)
			r.Rule(*prop+".internal", "loader")
			r.Unres("load", "the repository loads and type-checks", err.Error())
			os.Exit(r.Finish(verifDir(), propMeta{}, seed, nil) | 1)
		}
		os.Exit(1)
	}
	if *warm {
		w.CG()
		fmt.Printf("warm: %d packages, %d functions, load %.1fs ssa %.1fs cg %.1fs\n", len(w.Pkgs), len(w.AllFuncs), w.LoadS, w.SSAS, w.CGS)
		return
	}
	if *manifest {
		if err := writeManifest(w, verifDir()); err != nil {
			fmt.Println(err)
			os.Exit(1)
		}
		fmt.Println("MANIFEST.json written")
		return
	}
	if *list != "" {
		for _, k := range sortedKeys(w.Funcs) {
			if strings.Contains(k, *list) {
				fmt.Println(k)
			}
		}
		return
	}
	if *callers != "" {
		fn := w.Fn(*callers)
		if fn == nil {
			fmt.Println("not found")
			os.Exit(2)
		}
		for _, e := range w.CallersOf(fn) {
			fmt.Printf("%s  at %s  scope=%v\n", FuncKey(e.Caller), w.Pos(e.Site.Pos()), inRepoScope(e.Caller))
		}
		return
	}
	if *dump != "" {
		for _, k := range strings.Split(*dump, ",") {
			dumpFn(w, k)
		}
		return
	}
	pf, ok := props[*prop]
	if !ok {
		fmt.Printf("unknown property %q; known: %v\n", *prop, sortedKeys(props))
		os.Exit(2)
	}
	r := NewReport(*prop, *tier, w)
	var meta propMeta
	func() {
		defer func() {
			if e := recover(); e != nil {
				r.Rule(*prop+".internal", "engine")
				r.Unres("panic", "the engines run to completion", fmt.Sprintf("engine panic: %v\n%s", e, debug.Stack()))
			}
		}()
		meta = pf(r)
	}()
	if *mutant != "" {
		// mutant mode: print violated keys, never touch evidence
		n := 0
		for _, o := range r.Obls {
			if o.status != Discharged {
				n++
				fmt.Printf("MUTANT-HIT %s %s [%s] %s\n", o.Status, o.Key, o.Where, clip(o.Detail, 160))
			}
		}
		fmt.Printf("MUTANT-DONE %s hits=%d\n", mutDesc, n)
		return
	}
	var st any
	if *tier == "thorough" {
		st = runSelfTest(*prop, *dir)
	}
	code := r.Finish(verifDir(), meta, seed, st)
	os.Exit(code)
}

func dumpFn(w *World, key string) {
	fn := w.Fn(key)
	if fn == nil {
		fmt.Println("not found:", key)
		return
	}
	fmt.Printf("=== %s (%s) blocks=%d\n", key, w.FnPos(fn), len(fn.Blocks))
	for _, b := range fn.Blocks {
		for _, in := range b.Instrs {
			switch x := in.(type) {
			case *ssa.If:
				p := NormalizeCond(x.Cond)
				fmt.Printf("  b%d IF %s  -> T:b%d F:b%d   [%s]\n", b.Index, clip(p.String(), 400), b.Succs[0].Index, b.Succs[1].Index, w.Pos(x.Cond.Pos()))
			case ssa.CallInstruction:
				fmt.Printf("  b%d CALL %s  [%s]\n", b.Index, clip(renderCall(x).String(), 300), w.Pos(x.Pos()))
			case *ssa.Return:
				var rs []string
				for _, r := range x.Results {
					rs = append(rs, clip(Render(r).String(), 160))
				}
				for i := range x.Results {
					if rv := retValue(x, i); rv != x.Results[i] {
						rs = append(rs, fmt.Sprintf("[#%d resolves to %s]", i, clip(Render(rv).String(), 120)))
					}
				}
				fmt.Printf("  b%d RETURN %s fail=%v\n", b.Index, strings.Join(rs, " ; "), returnIsFailure(fn, x))
			case *ssa.Store:
				fmt.Printf("  b%d STORE %s = %s\n", b.Index, clip(Render(x.Addr).String(), 100), clip(Render(x.Val).String(), 200))
			case *ssa.Panic:
				fmt.Printf("  b%d PANIC\n", b.Index)
			case *ssa.Send:
				fmt.Printf("  b%d SEND %s <- %s\n", b.Index, Render(x.Chan), clip(Render(x.X).String(), 200))
			}
		}
	}
	var anon []string
	for _, a := range fn.AnonFuncs {
		anon = append(anon, FuncKey(a))
	}
	sort.Strings(anon)
	if len(anon) > 0 {
		fmt.Println("  anon:", anon)
	}
}
