package main

import (
	"encoding/json"
	"flag"
	"fmt"
	"os"
	"path/filepath"
	"sort"
	"strconv"
	"strings"
	"time"

	"golang.org/x/tools/go/ssa"
)

var procStart = time.Now()

type propFunc func(r *Report) propMeta

var props = map[string]propFunc{}

func verifDir() string {
	exe, err := os.Executable()
	if err == nil {
		d := filepath.Dir(filepath.Dir(exe))
		if _, err := os.Stat(filepath.Join(d, "MANIFEST.json")); err == nil {
			return d
		}
	}
	wd, _ := os.Getwd()
	return wd
}

func main() {
	prop := flag.String("property", "", "property id (C01..C20)")
	tier := flag.String("tier", "quick", "quick|thorough")
	warm := flag.Bool("warm", false, "perform one load to warm the build cache")
	dir := flag.String("dir", "/repo", "repository directory")
	dump := flag.String("dump", "", "debug: dump conditions/calls of a function key (comma separated)")
	list := flag.String("list", "", "debug: list function keys containing substring")
	explain := flag.String("explain", "", "replay: path of a violation file")
	mutant := flag.String("mutant", "", "internal: run the property on an overlay mutant (file::old::new)")
	callers := flag.String("callers", "", "debug: list callers of function key")
	storeDump := flag.String("store-sites", "", "debug: list KV-store access sites of a module with their key builders")
	sweep := flag.String("benign-sweep", "", "maintenance: apply a mechanical behaviour-preserving rewrite (swapcmp) to every file holding an anchored function and run all properties on each; must be silent")
	mutJSON := flag.String("mutant-json", "", "internal: overlay edit set {file, edits:[[old,new],…]} read from a JSON file")
	mutPatch := flag.String("mutant-patch", "", "internal: overlay built from a unified diff (a kept seeded change)")
	mutAll := flag.Bool("mutant-all", false, "internal: replace every occurrence of the anchor (renames)")
	manifest := flag.Bool("manifest", false, "regenerate MANIFEST.json from the registered properties")
	hitsOnly := flag.Bool("hits", false, "internal: print open obligations as MUTANT-HIT lines and write no evidence")
	forceNF := flag.Bool("normal-form", false, "evaluate on the inlined normal form of the sources instead of the sources (self-consistency of the second pass)")
	freeze := flag.Bool("freeze-params", false, "maintenance: rewrite checker/params_frozen.go from the current tree")
	flag.Parse()
	if t := os.Getenv("VERIF_TIER"); t == "quick" || t == "thorough" {
		*tier = t
	}
	seed := 0
	if s := os.Getenv("VERIF_SEED"); s != "" {
		seed, _ = strconv.Atoi(s)
	}

	if *explain != "" {
		b, err := os.ReadFile(*explain)
		if err != nil {
			fmt.Println("cannot read", *explain, err)
			os.Exit(2)
		}
		var v map[string]any
		json.Unmarshal(b, &v)
		if p, ok := v["property"].(string); ok && *prop == "" {
			*prop = p
		}
		fmt.Printf("replaying %s: re-analysing %s for property %s; the recorded violation key is %v\n", *explain, *dir, *prop, v["key"])
	}

	opts := LoadOpts{Dir: *dir}
	var mutDesc string
	if *mutant != "" {
		parts := strings.SplitN(*mutant, "::", 3)
		if len(parts) != 3 {
			fmt.Println("bad -mutant")
			os.Exit(2)
		}
		p := filepath.Join(*dir, parts[0])
		src, err := os.ReadFile(p)
		if err != nil {
			fmt.Println("MUTANT-STALE cannot read", p)
			os.Exit(3)
		}
		n := strings.Count(string(src), parts[1])
		if (n != 1 && !*mutAll) || n == 0 {
			fmt.Printf("MUTANT-STALE anchor text occurs %d times in %s\n", n, parts[0])
			os.Exit(3)
		}
		opts.Overlay = map[string][]byte{p: []byte(strings.ReplaceAll(string(src), parts[1], parts[2]))}
		mutDesc = parts[0]
	}

	if *mutJSON != "" {
		var spec struct {
			File  string
			Edits [][2]string
		}
		b, err := os.ReadFile(*mutJSON)
		if err == nil {
			err = json.Unmarshal(b, &spec)
		}
		if err != nil {
			fmt.Println("MUTANT-STALE bad edit set:", err)
			os.Exit(3)
		}
		p := filepath.Join(*dir, spec.File)
		src, err := os.ReadFile(p)
		if err != nil {
			fmt.Println("MUTANT-STALE cannot read", p)
			os.Exit(3)
		}
		s := string(src)
		for i, e := range spec.Edits {
			if strings.Count(s, e[0]) != 1 {
				fmt.Printf("MUTANT-STALE edit %d: anchor text occurs %d times in %s\n", i, strings.Count(s, e[0]), spec.File)
				os.Exit(3)
			}
			s = strings.Replace(s, e[0], e[1], 1)
		}
		opts.Overlay = map[string][]byte{p: []byte(s)}
		mutDesc = spec.File
		*mutant = "json"
	}
	if *mutPatch != "" {
		ov, err := overlayFromPatch(*dir, *mutPatch)
		if err != nil {
			fmt.Println("MUTANT-STALE", err)
			os.Exit(3)
		}
		opts.Overlay = ov
		mutDesc = *mutPatch
		*mutant = "patch"
	}

	w, err := Load(opts)
	if err != nil {
		if *mutant != "" {
			fmt.Println("MUTANT-NOCOMPILE", err)
			os.Exit(4)
		}
		fmt.Printf("internal: %v\n", err)
		if *prop != "" {
			r := NewReport(*prop, *tier, nil)
			r.Rule(*prop+".internal", "loader")
			r.Unres("load", "the repository loads and type-checks", err.Error())
			os.Exit(r.Finish(verifDir(), propMeta{}, seed, nil) | 1)
		}
		os.Exit(1)
	}
	if *forceNF {
		w2 := secondWorld(w, opts)
		if w2 == nil {
			fmt.Println("internal: the normal form could not be built or does not type-check (BANDCHECK_DEBUG=1 for the errors)")
			os.Exit(1)
		}
		w = w2
	}
	if *warm {
		w.CG()
		fmt.Printf("warm: %d packages, %d functions, load %.1fs ssa %.1fs cg %.1fs\n", len(w.Pkgs), len(w.AllFuncs), w.LoadS, w.SSAS, w.CGS)
		return
	}
	if *sweep != "" {
		os.Exit(runBenignSweep(w, *sweep, *dir))
	}
	if *freeze {
		w.Requested = map[string]bool{}
		recordPats = map[string]bool{}
		for _, id := range sortedKeys(props) {
			func() {
				defer func() { recover() }()
				props[id](NewReport(id, "quick", w))
			}()
		}
		var sb strings.Builder
		sb.WriteString("package main\n\n// Code generated by `bandcheck -freeze-params`; parameter names of the functions the rule tables refer to, as they\n// were when the tables were frozen. Rules keep matching these names even if a parameter is renamed in /repo.\nvar frozenParams = map[string][]string{\n")
		keys := map[string]bool{}
		for k := range w.Requested {
			if fn := w.Funcs[k]; fn != nil {
				keys[k] = true
				for _, a := range fn.AnonFuncs {
					keys[FuncKey(a)] = true
				}
			}
		}
		pats := recordPats
		recordPats = nil
		for k := range recordDecls {
			if fn := w.Funcs[k]; fn != nil {
				keys[k] = true
			}
		}
		for k, fn := range w.Funcs {
			if fn == nil || fn.Parent() != nil || len(fn.Blocks) == 0 || !inRepoScope(fn) || keys[k] {
				continue
			}
			for pat := range pats {
				if strings.Contains(pat, ".") && nameMatch(k, pat) {
					keys[k] = true
					for _, a := range fn.AnonFuncs {
						keys[FuncKey(a)] = true
					}
					break
				}
			}
		}
		for _, k := range sortedKeys(keys) {
			fn := w.Funcs[k]
			if fn == nil || len(fn.Params) == 0 {
				continue
			}
			var ns []string
			for _, p := range fn.Params {
				ns = append(ns, strconv.Quote(p.Name()))
			}
			sb.WriteString("\t" + strconv.Quote(k) + ": {" + strings.Join(ns, ", ") + "},\n")
		}
		sb.WriteString("}\n\n// free variables (captured locals) of the closures the rules refer to\nvar frozenFreeVars = map[string][]string{\n")
		for _, k := range sortedKeys(keys) {
			fn := w.Funcs[k]
			if fn == nil || len(fn.FreeVars) == 0 {
				continue
			}
			var ns []string
			for _, p := range fn.FreeVars {
				ns = append(ns, strconv.Quote(p.Name()))
			}
			sb.WriteString("\t" + strconv.Quote(k) + ": {" + strings.Join(ns, ", ") + "},\n")
		}
		sb.WriteString("}\n\n// signature fingerprints of the anchored functions: a renamed anchor is recovered when exactly one function of the same\n// package / receiver that is not itself an anchor has the same signature (load.go recoverRenamed)\nvar frozenSigs = map[string]string{\n")
		for _, k := range sortedKeys(keys) {
			fn := w.Funcs[k]
			if fn == nil || fn.Parent() != nil {
				continue
			}
			sb.WriteString("\t" + strconv.Quote(k) + ": " + strconv.Quote(sigFingerprint(fn)) + ",\n")
		}
		sb.WriteString("}\n\n// body fingerprints, used to pick the renamed anchor when several functions share its signature\nvar frozenBodies = map[string]string{\n")
		for _, k := range sortedKeys(keys) {
			fn := w.Funcs[k]
			if fn == nil || fn.Parent() != nil {
				continue
			}
			if h := bodyFingerprint(w, fn); h != "" {
				sb.WriteString("\t" + strconv.Quote(k) + ": " + strconv.Quote(h) + ",\n")
			}
		}
		sb.WriteString("}\n")
		// every exported function / method of the repository that exists today: an exported function that is NOT in this
		// list is new (e.g. a helper extracted by a refactor) and may be inlined by the second pass
		sb.WriteString("\n// repository functions (exported or not) at freeze time: a function that is not listed is new (inline.go helperDecl)\nvar frozenExported = map[string]bool{\n")
		for _, k := range sortedKeys(w.Funcs) {
			fn := w.Funcs[k]
			if fn == nil || fn.Parent() != nil || !inRepoScope(fn) || fn.Object() == nil {
				continue
			}
			sb.WriteString("\t" + strconv.Quote(k) + ": true,\n")
		}
		sb.WriteString("}\n")
		sb.WriteString(freezeShapes(w, pats))
		sb.WriteString(freezeConsts(w))
		out := filepath.Join(verifDir(), "checker", "params_frozen.go")
		if err := os.WriteFile(out, []byte(sb.String()), 0o644); err != nil {
			fmt.Println(err)
			os.Exit(1)
		}
		fmt.Printf("wrote %s (%d functions)\n", out, len(keys))
		return
	}
	if *manifest {
		if err := writeManifest(w, verifDir()); err != nil {
			fmt.Println(err)
			os.Exit(1)
		}
		fmt.Println("MANIFEST.json written")
		return
	}
	if *list != "" {
		for _, k := range sortedKeys(w.Funcs) {
			if strings.Contains(k, *list) {
				fmt.Println(k)
			}
		}
		return
	}
	if *storeDump != "" {
		if *storeDump == "ctors" {
			dumpFaithfulCtors(w)
			return
		}
		if *storeDump == "usub" {
			rt := w.ComputeRoots()
			dumpUsub(w, fnSet(rt.Msg, rt.ABCI, rt.IBC, rt.Hook, rt.Ante))
			return
		}
		if strings.Contains(*storeDump, ".") {
			dumpKeyTerm(w, *storeDump)
			return
		}
		dumpStoreSites(w, *storeDump)
		return
	}
	if *callers != "" {
		fn := w.Fn(*callers)
		if fn == nil {
			fmt.Println("not found")
			os.Exit(2)
		}
		for _, e := range w.CallersOf(fn) {
			fmt.Printf("%s  at %s  scope=%v\n", FuncKey(e.Caller), w.Pos(e.Site.Pos()), inRepoScope(e.Caller))
		}
		return
	}
	if *dump != "" {
		for _, k := range strings.Split(*dump, ",") {
			dumpFn(w, k)
		}
		return
	}
	if *prop == "all" {
		// overlay mode over every property at once (used by the behaviour-preserving sweep)
		known, _ := loadKnownFindings(verifDir())
		n := 0
		chain := newChain(w, opts)
		chain.keepAll = true
		for _, id := range sortedKeys(props) {
			r, _ := runProp(id, w, "quick")
			chain.decide(id, "quick", r, known)
			for _, o := range r.Obls {
				isKnown := false
				for _, kf := range known {
					if kf.Property == id && kf.Key == o.Key && o.status == Violated {
						isKnown = true
					}
				}
				if o.status != Discharged && !isKnown {
					n++
					fmt.Printf("MUTANT-HIT %s %s [%s] %s\n", o.Status, o.Key, o.Where, clip(o.Detail, 160))
				}
			}
		}
		fmt.Printf("MUTANT-DONE %s hits=%d\n", mutDesc, n)
		return
	}
	pf, ok := props[*prop]
	if !ok {
		fmt.Printf("unknown property %q; known: %v\n", *prop, sortedKeys(props))
		os.Exit(2)
	}
	_ = pf
	r, meta := runProp(*prop, w, *tier)
	{
		known, _ := loadKnownFindings(verifDir())
		newChain(w, opts).decide(*prop, *tier, r, known)
	}
	if *mutant != "" || *hitsOnly {
		// mutant mode: print violated keys, never touch evidence
		n := 0
		known, _ := loadKnownFindings(verifDir())
		for _, o := range r.Obls {
			isKnown := false
			for _, kf := range known { // a listed finding is not news in a mutant / benign-edit run either
				if kf.Property == r.Property && kf.Key == o.Key && o.status == Violated {
					isKnown = true
				}
			}
			if o.status != Discharged && !isKnown {
				n++
				fmt.Printf("MUTANT-HIT %s %s [%s] %s\n", o.Status, o.Key, o.Where, clip(o.Detail, 160))
			}
		}
		fmt.Printf("MUTANT-DONE %s hits=%d\n", mutDesc, n)
		return
	}
	var st any
	if *tier == "thorough" {
		st = runSelfTest(*prop, *dir)
	}
	code := r.Finish(verifDir(), meta, seed, st)
	os.Exit(code)
}

func dumpFn(w *World, key string) {
	fn := w.Fn(key)
	if fn == nil {
		fmt.Println("not found:", key)
		return
	}
	fmt.Printf("=== %s (%s) blocks=%d\n", key, w.FnPos(fn), len(fn.Blocks))
	for _, b := range fn.Blocks {
		for _, in := range b.Instrs {
			switch x := in.(type) {
			case *ssa.If:
				p := NormalizeCond(x.Cond)
				fmt.Printf("  b%d IF %s  -> T:b%d F:b%d   [%s]\n", b.Index, clip(p.String(), 400), b.Succs[0].Index, b.Succs[1].Index, w.Pos(x.Cond.Pos()))
			case ssa.CallInstruction:
				fmt.Printf("  b%d CALL %s  [%s]\n", b.Index, clip(renderCall(x).String(), 300), w.Pos(x.Pos()))
			case *ssa.Return:
				var rs []string
				for _, r := range x.Results {
					rs = append(rs, clip(Render(r).String(), 160))
				}
				for i := range x.Results {
					if rv := retValue(x, i); rv != x.Results[i] {
						rs = append(rs, fmt.Sprintf("[#%d resolves to %s]", i, clip(Render(rv).String(), 120)))
					}
				}
				fmt.Printf("  b%d RETURN %s fail=%v\n", b.Index, strings.Join(rs, " ; "), returnIsFailure(fn, x))
			case *ssa.Store:
				fmt.Printf("  b%d STORE %s = %s\n", b.Index, clip(Render(x.Addr).String(), 100), clip(Render(x.Val).String(), 200))
			case *ssa.Panic:
				fmt.Printf("  b%d PANIC\n", b.Index)
			case *ssa.Send:
				fmt.Printf("  b%d SEND %s <- %s\n", b.Index, Render(x.Chan), clip(Render(x.X).String(), 200))
			}
		}
	}
	var anon []string
	for _, a := range fn.AnonFuncs {
		anon = append(anon, FuncKey(a))
	}
	sort.Strings(anon)
	if len(anon) > 0 {
		fmt.Println("  anon:", anon)
	}
}
