package main

import (
	"fmt"
	"go/token"
	"go/types"
	"strings"

	"golang.org/x/tools/go/ssa"
)

// RetFresh: result #idx of fn never shares backing storage with memory that outlives the call (receiver / parameter
// fields, globals, captured variables): it is rooted in make / nil / a composite literal. A slice that is handed to
// another goroutine and then rebuilt in place by the next round is the aliasing bug of seed C20-3.
func (r *Report) RetFresh(key, fnKey string, idx int) {
	w := r.W
	fn := w.Fn(fnKey)
	d := fmt.Sprintf("result #%d of %s is freshly allocated (does not alias receiver, parameter, global or captured memory)", idx, fnKey)
	k := fmt.Sprintf("%s|%s|ret#%d", key, fnKey, idx)
	if fn == nil {
		r.Unres(k, d, "function not found")
		return
	}
	w.FuncsAnalysed[fn] = true
	shared := func(v ssa.Value) bool {
		switch v.(type) {
		case *ssa.Parameter, *ssa.Global, *ssa.FreeVar:
			return true
		}
		return false
	}
	n := 0
	for _, b := range fn.Blocks {
		if b == fn.Recover {
			continue
		}
		rt := returnOf(b)
		if rt == nil {
			continue
		}
		v := retValue(rt, idx)
		if v == nil {
			continue
		}
		n++
		w.SitesExamined++
		if mayAlias(v, shared, map[ssa.Value]bool{}) {
			r.Bad(k, d, w.Pos(rt.Pos()), "the returned value may alias "+strings.TrimSpace(Render(v).String())+": a later call rewrites what an earlier caller still holds")
			return
		}
	}
	if n == 0 {
		r.Unres(k, d, "no return site")
		return
	}
	r.OK(k, d, w.FnPos(fn), fmt.Sprintf("%d return sites", n))
}

// NoMapPatch: inside the packages with prefix pkgPrefix no map update writes into a map loaded from `field`: the cached
// view is REPLACED as a whole (so entries that disappeared upstream disappear here too), never patched (seed C20-4).
func (r *Report) NoMapPatch(key, pkgPrefix, field string, minReplacers int, replacers ...string) {
	w := r.W
	d := fmt.Sprintf("the map in %s is only ever replaced as a whole by {%s}; no entry-wise update or delete", field, strings.Join(replacers, ", "))
	k := key + "|" + field
	bad := 0
	for _, fk := range sortedKeys(w.Funcs) {
		if !strings.HasPrefix(fk, pkgPrefix) {
			continue
		}
		fn := w.Funcs[fk]
		if len(fn.Blocks) == 0 || !inRepoScope(fn) {
			continue
		}
		for _, s := range w.Sites(fn, MapUpdEff()) {
			mu := s.Instr.(*ssa.MapUpdate)
			if Render(mu.Map).Has("field:" + field) {
				bad++
				r.Bad(fmt.Sprintf("%s|patched-in|%s", k, fk), d, w.Pos(s.Instr.Pos()), fk+" updates single entries of "+field+": entries removed upstream are never dropped")
			}
		}
		for _, c := range Calls(fn, "builtin.delete") {
			if Render(c.Common().Args[0]).Has("field:" + field) {
				bad++
				r.Bad(fmt.Sprintf("%s|deleted-in|%s", k, fk), d, w.Pos(c.Pos()), fk+" deletes single entries of "+field)
			}
		}
	}
	r.FieldWriters(key+"|replacers", field, nil, replacers, []string{pkgPrefix})
	if bad == 0 {
		r.OK(k, d, "-", "no entry-wise write found in "+pkgPrefix)
	}
}

// RetErrDerives: every return of fn whose error result is not the constant nil returns an error that derives from a call of
// `callee` (so a caller's `if err != nil` sees the failure); returning a never-assigned named result (always nil) after the
// retries are exhausted hands the caller (nil, nil) - seed C19-3.
func (r *Report) RetErrDerives(key, fnKey, callee string) {
	w := r.W
	fn := w.Fn(fnKey)
	d := fmt.Sprintf("every non-constant error returned by %s derives from %s", fnKey, callee)
	k := fmt.Sprintf("%s|%s|err<-%s", key, fnKey, callee)
	if fn == nil {
		r.Unres(k, d, "function not found")
		return
	}
	w.FuncsAnalysed[fn] = true
	ei := errResultIndex(fn)
	if ei < 0 {
		r.Unres(k, d, "function has no error result")
		return
	}
	n := 0
	for _, b := range fn.Blocks {
		if b == fn.Recover {
			continue
		}
		rt := returnOf(b)
		if rt == nil {
			continue
		}
		v := retValue(rt, ei)
		if c, ok := v.(*ssa.Const); ok && c.IsNil() {
			continue
		}
		n++
		w.SitesExamined++
		if t := Render(v); !t.Has("call:" + callee) {
			r.Bad(k, d, w.posOr(rt.Pos(), fn), "returns the error value "+clip(t.String(), 160)+", which never carries the failure of "+callee)
			return
		}
	}
	if n == 0 {
		r.Unres(k, d, "no return of a non-constant error")
		return
	}
	r.OK(k, d, w.FnPos(fn), fmt.Sprintf("%d error return(s)", n))
}

// GoArgNotReused: a slice handed to a goroutine (`go callee(..., s, ...)`, s loaded from a slot P) is not kept in P by a
// re-slice that still starts at the same element (P = P[:0], P = P[:n]) nor left in P unchanged: the next append to P
// would write into the array the goroutine is still reading (seed C19-5). Accepted resets: a fresh slice, or the disjoint
// tail P = P[n:].
func (r *Report) GoArgNotReused(key, fnKey, callee string, minSites int) {
	w := r.W
	fn := w.Fn(fnKey)
	d := fmt.Sprintf("in %s a slice passed to `go %s` is afterwards replaced in its slot by a fresh slice or by the disjoint tail, never by a re-slice that keeps its first element", fnKey, callee)
	k := key + "|" + fnKey + "|go " + callee
	if fn == nil {
		r.Unres(k, d, "function not found")
		return
	}
	w.FuncsAnalysed[fn] = true
	slotOf := func(v ssa.Value) ssa.Value { // the address the (possibly re-sliced) value was loaded from
		for i := 0; i < 8; i++ {
			switch x := v.(type) {
			case *ssa.Slice:
				v = x.X
			case *ssa.UnOp:
				if x.Op == token.MUL {
					return x.X
				}
				return nil
			default:
				return nil
			}
		}
		return nil
	}
	// same slot: identical address, or the same element of the same slice (index operands are the same SSA value)
	sameSlot := func(a, b ssa.Value) bool {
		if sameAddr(a, b) {
			return true
		}
		ia, ok1 := a.(*ssa.IndexAddr)
		ib, ok2 := b.(*ssa.IndexAddr)
		return ok1 && ok2 && seeThrough(ia.Index) == seeThrough(ib.Index) && (ia.X == ib.X || Render(ia.X).String() == Render(ib.X).String())
	}
	n := 0
	for _, b := range fn.Blocks {
		for _, in := range b.Instrs {
			g, ok := in.(*ssa.Go)
			if !ok || !nameMatch(CalleeName(&g.Call), callee) {
				continue
			}
			for _, a := range g.Call.Args {
				if _, isSlice := a.Type().Underlying().(*types.Slice); !isSlice {
					continue
				}
				slot := slotOf(a)
				if slot == nil {
					continue
				}
				n++
				w.SitesExamined++
				// stores to the same slot reachable after the go statement (same block suffix or later blocks)
				reset := false
				for _, b2 := range fn.Blocks {
					for _, in2 := range b2.Instrs {
						st, ok := in2.(*ssa.Store)
						if !ok || !sameSlot(st.Addr, slot) {
							continue
						}
						if b2 == b && instrIndex(in2) < instrIndex(in) {
							continue
						}
						if !(b2 == b || reachFrom(b, nil)[b2]) {
							continue
						}
						if sl, ok := st.Val.(*ssa.Slice); ok && slotOf(sl) != nil && sameSlot(slotOf(sl), slot) {
							if sl.Low == nil {
								r.Bad(fmt.Sprintf("%s#%d", k, n), d, w.posOr(st.Pos(), fn), "the slot is reset to "+clip(Render(st.Val).String(), 100)+", which keeps the backing array the goroutine reads from its first element")
								return
							}
							reset = true // disjoint tail
							continue
						}
						if call, ok := st.Val.(*ssa.Call); ok && CalleeName(&call.Call) == "builtin.append" {
							continue // growth elsewhere in the loop; judged by the reset that precedes it
						}
						reset = true
					}
				}
				if !reset {
					r.Bad(fmt.Sprintf("%s#%d", k, n), d, w.posOr(g.Pos(), fn), "the slice stays in its slot after the hand-off")
					return
				}
			}
		}
	}
	if n < minSites {
		r.Unres(k, d, fmt.Sprintf("%d hand-offs found, expected >= %d", n, minSites))
		return
	}
	r.OK(k, d, w.FnPos(fn), fmt.Sprintf("%d hand-offs", n))
}

// NoResliceAfterHandOff: in the given packages no slice value that was handed off (argument of a call other than the
// builtins, sent on a channel, stored into a field or converted to an interface) is afterwards reset with `s[:0]`
// (or `s[:n]` keeping its first element): the next append would overwrite the array the receiver still holds. The
// in-place filter idiom `out := in[:0]` over a slice that never left the function is accepted.
// Seed C05-12: the cylinder DE worker queued `NewMsgSubmitDEs(batch)` and reused `batch[:0]` for the next batch.
func (r *Report) NoResliceAfterHandOff(key string, prefixes []string, minFuncs int) {
	w := r.W
	d := "a slice that was handed off is not reset to length 0 over the same array in " + strings.Join(prefixes, ", ")
	n := 0
	for _, fk := range sortedKeys(w.Funcs) {
		ok := false
		for _, p := range prefixes {
			if strings.HasPrefix(fk, p) {
				ok = true
			}
		}
		fn := w.Funcs[fk]
		if !ok || len(fn.Blocks) == 0 {
			continue
		}
		n++
		nres := 0
		w.FuncsAnalysed[fn] = true
		for _, b := range fn.Blocks {
			for _, in := range b.Instrs {
				sl, isSl := in.(*ssa.Slice)
				if !isSl || sl.Low != nil || sl.High == nil {
					continue
				}
				if c, isC := sl.High.(*ssa.Const); !isC || constString(c) != "0" {
					continue
				}
				if _, isSlice := sl.X.Type().Underlying().(*types.Slice); !isSlice || sl.X.Referrers() == nil {
					continue
				}
				handed := ""
				for _, ref := range *sl.X.Referrers() {
					switch x := ref.(type) {
					case ssa.CallInstruction:
						if _, isB := x.Common().Value.(*ssa.Builtin); !isB {
							for _, a := range x.Common().Args {
								if a == sl.X {
									handed = "passed to " + CalleeName(x.Common())
								}
							}
						}
					case *ssa.Send:
						if x.X == sl.X {
							handed = "sent on a channel"
						}
					case *ssa.Store:
						if x.Val == sl.X {
							if _, isFA := x.Addr.(*ssa.FieldAddr); isFA {
								handed = "stored into a field"
							}
						}
					case *ssa.MakeInterface:
						handed = "converted to an interface value"
					}
				}
				if handed == "" {
					continue
				}
				w.SitesExamined++
				nres++
				r.Bad(fmt.Sprintf("%s|%s|reslice#%d", key, fk, nres), d, w.posOr(sl.Pos(), fn), fmt.Sprintf("%s: the slice was %s and is then reset with [:0]; the next append writes into the array the receiver still reads", fk, handed))
			}
		}
	}
	if n < minFuncs {
		r.Unres(key+"|count", d, fmt.Sprintf("%d functions examined, expected >= %d", n, minFuncs))
		return
	}
	r.OK(key, d, "-", fmt.Sprintf("%d functions examined", n))
}

// ArgEdgesAmong: every value that can flow (through phis) into argument #idx of callee in fn matches one of the
// alternatives (each alternative is a list of patterns all of which must hold for that value).
func (r *Report) ArgEdgesAmong(key, fnKey, callee string, idx int, alts [][]string, desc string) {
	w := r.W
	fn := w.Fn(fnKey)
	d := fmt.Sprintf("in %s every value reaching argument #%d of %s is %s", fnKey, idx, callee, desc)
	k := fmt.Sprintf("%s|%s|%s#%d", key, fnKey, callee, idx)
	if fn == nil {
		r.Unres(k, d, "function not found")
		return
	}
	w.FuncsAnalysed[fn] = true
	calls := Calls(fn, callee)
	if len(calls) == 0 {
		r.Unres(k, d, "no call of "+callee)
		return
	}
	n := 0
	for _, c := range calls {
		seen := map[ssa.Value]bool{}
		var leaves []ssa.Value
		var visit func(v ssa.Value)
		visit = func(v ssa.Value) {
			if seen[v] {
				return
			}
			seen[v] = true
			if p, ok := v.(*ssa.Phi); ok {
				for _, e := range p.Edges {
					visit(e)
				}
				return
			}
			leaves = append(leaves, v)
		}
		visit(seeThrough(argValue(c.Common(), idx)))
		for _, lv := range leaves {
			w.SitesExamined++
			n++
			t := Render(lv)
			ok := false
			for _, alt := range alts {
				if t.Has(alt...) {
					ok = true
				}
			}
			if !ok {
				r.Bad(k, d, w.posOr(c.Pos(), fn), "a value of another origin reaches the argument: "+clip(t.String(), 160))
				return
			}
		}
	}
	r.OK(k, d, w.FnPos(fn), fmt.Sprintf("%d incoming value(s)", n))
}

// AllStoresHave: fn stores into the field at least once and the value of EVERY such store matches the patterns (with
// a root anchor this excludes a merge of the expected value with one of another origin, e.g. a cache hit).
func (r *Report) AllStoresHave(key, fnKey, field string, atoms ...string) {
	w := r.W
	fn := w.Fn(fnKey)
	d := fmt.Sprintf("in %s every value stored into %s derives from {%s}", fnKey, field, strings.Join(atoms, ", "))
	k := fmt.Sprintf("%s|%s|%s", key, fnKey, field)
	if fn == nil {
		r.Unres(k, d, "function not found")
		return
	}
	w.FuncsAnalysed[fn] = true
	n := 0
	for _, b := range fn.Blocks {
		for _, in := range b.Instrs {
			st, ok := in.(*ssa.Store)
			if !ok {
				continue
			}
			fa, ok := st.Addr.(*ssa.FieldAddr)
			if !ok || !nameMatch(fieldName(fa.X.Type(), fa.Field), field) {
				continue
			}
			n++
			w.SitesExamined++
			if t := Render(st.Val); !t.Has(atoms...) {
				r.Bad(k, d, w.posOr(st.Pos(), fn), "stored value is "+clip(t.String(), 200))
				return
			}
		}
	}
	if n == 0 {
		r.Unres(k, d, "no store to the field in this function")
		return
	}
	r.OK(k, d, w.FnPos(fn), fmt.Sprintf("%d store(s)", n))
}
