package main

import (
	"fmt"
	"go/types"
	"strings"

	"golang.org/x/tools/go/ssa"
)

// E19 field-by-field converters. A function that builds a Dst value out of a Src value (a wire / ABI / event mirror of a
// state record) must copy like to like: every field of Dst that fn stores and that has a namesake in Src gets a value
// that derives from THAT field of Src and from no other field of Src; renamed fields are listed explicitly. Seed C12-5
// filled ResultEthereum.AnsCount from Result.AskCount: one wrong row in a twelve-row literal.
func (r *Report) SameNameFields(key, fnKey, dst, src string, renamed map[string]string, minFields int) {
	w := r.W
	fn := w.Fn(fnKey)
	d := fmt.Sprintf("%s copies every field of %s into the field of the same name of %s (renamed: %v)", fnKey, src, dst, renamed)
	k := key + "|" + fnKey
	if fn == nil {
		r.Unres(k, d, "function not found")
		return
	}
	w.FuncsAnalysed[fn] = true
	// field names of the source struct type ("<pkg rel path>.<Type>")
	srcFields := map[string]bool{}
	if i := strings.LastIndexByte(src, '.'); i > 0 {
		if p := w.PkgBy[src[:i]]; p != nil {
			if tn, ok := p.Types.Scope().Lookup(src[i+1:]).(*types.TypeName); ok {
				if st, ok := tn.Type().Underlying().(*types.Struct); ok {
					for j := 0; j < st.NumFields(); j++ {
						srcFields[st.Field(j).Name()] = true
					}
				}
			}
		}
		src = src[i+1:]
	}
	if len(srcFields) == 0 {
		r.Unres(k, d, "source struct type "+src+" not found")
		return
	}
	n := 0
	for _, b := range fn.Blocks {
		for _, in := range b.Instrs {
			st, ok := in.(*ssa.Store)
			if !ok {
				continue
			}
			fa, ok := st.Addr.(*ssa.FieldAddr)
			if !ok {
				continue
			}
			fname := fieldName(fa.X.Type(), fa.Field) // "Dst.F"
			if !strings.HasPrefix(fname, dst+".") {
				continue
			}
			f := strings.TrimPrefix(fname, dst+".")
			want := f
			if rn, ok := renamed[f]; ok {
				want = rn
			}
			if !srcFields[want] {
				continue // a field without counterpart: not this rule's business
			}
			n++
			w.SitesExamined++
			t := Render(st.Val)
			kk := fmt.Sprintf("%s|%s.%s", k, dst, f)
			var others []string
			for a := range t.Atoms() {
				if strings.HasPrefix(a, "field:"+src+".") && a != "field:"+src+"."+want {
					others = append(others, strings.TrimPrefix(a, "field:"))
				}
			}
			switch {
			case !t.Has("field:" + src + "." + want):
				r.Bad(kk, d, w.posOr(st.Pos(), fn), fmt.Sprintf("%s.%s is filled from %s, not from %s.%s", dst, f, clip(t.String(), 120), src, want))
			case len(others) > 0:
				r.Bad(kk, d, w.posOr(st.Pos(), fn), fmt.Sprintf("%s.%s also depends on %v", dst, f, others))
			default:
				r.OK(kk, d, w.posOr(st.Pos(), fn), src+"."+want)
			}
		}
	}
	if n < minFields {
		r.Unres(k+"|count", d, fmt.Sprintf("%d mapped fields found, expected >= %d", n, minFields))
	}
}
