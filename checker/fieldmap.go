package main

import (
	"fmt"
	"go/types"
	"strings"

	"golang.org/x/tools/go/ssa"
)

// E19 field-by-field converters. A function that builds a Dst value out of a Src value (a wire / ABI / event mirror of a
// state record) must copy like to like: every field of Dst that fn stores and that has a namesake in Src gets a value
// that derives from THAT field of Src and from no other field of Src; renamed fields are listed explicitly. Seed C12-5
// filled ResultEthereum.AnsCount from Result.AskCount: one wrong row in a twelve-row literal.
func (r *Report) SameNameFields(key, fnKey, dst, src string, renamed map[string]string, minFields int) {
	w := r.W
	fn := w.Fn(fnKey)
	d := fmt.Sprintf("%s copies every field of %s into the field of the same name of %s (renamed: %v)", fnKey, src, dst, renamed)
	k := key + "|" + fnKey
	if fn == nil {
		r.Unres(k, d, "function not found")
		return
	}
	w.FuncsAnalysed[fn] = true
	// field names of the source struct type ("<pkg rel path>.<Type>")
	srcFields := map[string]bool{}
	if i := strings.LastIndexByte(src, '.'); i > 0 {
		if p := w.PkgBy[src[:i]]; p != nil {
			if tn, ok := p.Types.Scope().Lookup(src[i+1:]).(*types.TypeName); ok {
				if st, ok := tn.Type().Underlying().(*types.Struct); ok {
					for j := 0; j < st.NumFields(); j++ {
						srcFields[st.Field(j).Name()] = true
					}
				}
			}
		}
		src = src[i+1:]
	}
	if len(srcFields) == 0 {
		r.Unres(k, d, "source struct type "+src+" not found")
		return
	}
	n := 0
	for _, b := range fn.Blocks {
		for _, in := range b.Instrs {
			st, ok := in.(*ssa.Store)
			if !ok {
				continue
			}
			fa, ok := st.Addr.(*ssa.FieldAddr)
			if !ok {
				continue
			}
			fname := fieldName(fa.X.Type(), fa.Field) // "Dst.F"
			if !strings.HasPrefix(fname, dst+".") {
				continue
			}
			f := strings.TrimPrefix(fname, dst+".")
			want := f
			if rn, ok := renamed[f]; ok {
				want = rn
			}
			if !srcFields[want] {
				continue // a field without counterpart: not this rule's business
			}
			n++
			w.SitesExamined++
			t := Render(st.Val)
			kk := fmt.Sprintf("%s|%s.%s", k, dst, f)
			var others []string
			for a := range t.Atoms() {
				if strings.HasPrefix(a, "field:"+src+".") && a != "field:"+src+"."+want {
					others = append(others, strings.TrimPrefix(a, "field:"))
				}
			}
			switch {
			case !t.Has("field:" + src + "." + want):
				r.Bad(kk, d, w.posOr(st.Pos(), fn), fmt.Sprintf("%s.%s is filled from %s, not from %s.%s", dst, f, clip(t.String(), 120), src, want))
			case len(others) > 0:
				r.Bad(kk, d, w.posOr(st.Pos(), fn), fmt.Sprintf("%s.%s also depends on %v", dst, f, others))
			default:
				r.OK(kk, d, w.posOr(st.Pos(), fn), src+"."+want)
			}
		}
	}
	if n < minFields {
		r.Unres(k+"|count", d, fmt.Sprintf("%d mapped fields found, expected >= %d", n, minFields))
	}
}

// CtorFaithful: a constructor NewX(p1..pn) X{...} stores in every field exactly one of its parameters (through
// conversions) or a constant - it does not transform what it is given. Seed C18-5 made NewGroupTransition truncate the
// execution time to whole seconds, so the stored time was no longer the proposed and validated one.
func (r *Report) CtorFaithful(key string, fnKeys ...string) {
	w := r.W
	for _, fk := range fnKeys {
		fn := w.Fn(fk)
		d := fk + " stores its parameters (or constants) unchanged in the fields of the value it builds"
		k := key + "|" + fk
		if fn == nil {
			r.Unres(k, d, "function not found")
			continue
		}
		w.FuncsAnalysed[fn] = true
		n := 0
		bad := ""
		for _, b := range fn.Blocks {
			for _, in := range b.Instrs {
				st, ok := in.(*ssa.Store)
				if !ok {
					continue
				}
				fa, ok := st.Addr.(*ssa.FieldAddr)
				if !ok {
					continue
				}
				if _, isAlloc := fa.X.(*ssa.Alloc); !isAlloc {
					continue
				}
				n++
				w.SitesExamined++
				v := seeThrough(st.Val)
				if _, isParam := v.(*ssa.Parameter); isParam {
					continue
				}
				if _, isConst := v.(*ssa.Const); isConst {
					continue
				}
				if bad == "" {
					bad = fmt.Sprintf("%s = %s at %s", fieldName(fa.X.Type(), fa.Field), clip(Render(st.Val).String(), 100), w.posOr(st.Pos(), fn))
				}
			}
		}
		// which parameter (by position) or constant feeds which field is frozen too: two parameters of the same type
		// stored crosswise, or a constant stored where a parameter belongs, is as wrong as a transformation
		if want, ok := faithfulCtorMap[fk]; ok && bad == "" && n > 0 {
			got := ctorMapping(fn)
			for _, f := range sortedKeys(want) {
				if g, has := got[f]; !has {
					bad = fmt.Sprintf("field %s is no longer set from %s", f, want[f])
				} else if g != want[f] {
					bad = fmt.Sprintf("field %s is set from %s, the reviewed constructor sets it from %s", f, g, want[f])
				}
				if bad != "" {
					break
				}
			}
		}
		switch {
		case n == 0:
			r.Unres(k, d, "no field stores found (not a literal constructor any more)")
		case bad != "":
			r.Bad(k, d, w.FnPos(fn), "transforms an input: "+bad)
		default:
			r.OK(k, d, w.FnPos(fn), fmt.Sprintf("%d fields", n))
		}
	}
}

// ctorMapping: field name -> "#i" (the i-th parameter) or "const:v" for the stores of a literal constructor.
func ctorMapping(fn *ssa.Function) map[string]string {
	out := map[string]string{}
	for _, b := range fn.Blocks {
		for _, in := range b.Instrs {
			st, ok := in.(*ssa.Store)
			if !ok {
				continue
			}
			fa, ok := st.Addr.(*ssa.FieldAddr)
			if !ok {
				continue
			}
			if _, isAlloc := fa.X.(*ssa.Alloc); !isAlloc {
				continue
			}
			f := fieldName(fa.X.Type(), fa.Field)
			switch v := seeThrough(st.Val).(type) {
			case *ssa.Parameter:
				for i, p := range fn.Params {
					if p == v {
						// in frozen positions (a reordered signature keeps its mapping)
						for fi := range fn.Params {
							if permutedIndex(fn, fi) == i {
								out[f] = fmt.Sprintf("#%d", fi)
							}
						}
					}
				}
			case *ssa.Const:
				out[f] = "const:" + constString(v)
			default:
				out[f] = "expr"
			}
		}
	}
	return out
}

// dumpFaithfulCtors lists the New* functions of the repo's types packages that are faithful today (maintenance).
func dumpFaithfulCtors(w *World) {
	for _, fk := range sortedKeys(w.Funcs) {
		i := strings.LastIndexByte(fk, '.')
		if i < 0 || !strings.HasPrefix(fk[i+1:], "New") || !strings.Contains(fk, "/types.") || strings.Contains(fk, "$") {
			continue
		}
		fn := w.Funcs[fk]
		if len(fn.Blocks) != 1 || !inRepoScope(fn) {
			continue
		}
		rep := NewReport("ZZ", "quick", w)
		rep.Rule("ZZ", "x")
		rep.CtorFaithful("x", fk)
		ok := true
		for _, o := range rep.Obls {
			if o.status != Discharged {
				ok = false
			}
		}
		fmt.Println(ok, fk)
	}
	// the frozen field <- parameter table (paste into ctors_frozen.go)
	fmt.Println("var faithfulCtorMap = map[string]map[string]string{")
	for _, mod := range sortedKeys(faithfulCtors) {
		for _, fk := range faithfulCtors[mod] {
			fn := w.Fn(fk)
			if fn == nil {
				continue
			}
			m := ctorMapping(fn)
			var parts []string
			for _, f := range sortedKeys(m) {
				parts = append(parts, fmt.Sprintf("%q: %q", f, m[f]))
			}
			fmt.Printf("\t%q: {%s},\n", fk, strings.Join(parts, ", "))
		}
	}
	fmt.Println("}")
}
