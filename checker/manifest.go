package main

import (
	"bufio"
	"encoding/json"
	"fmt"
	"os"
	"path/filepath"
	"strings"
)

var techniques = map[string]string{}
var designRef = map[string]string{}

// writeManifest regenerates MANIFEST.json from the registered properties (run with -manifest).
func writeManifest(w *World, dir string) error {
	f, err := os.Open(filepath.Join(dir, "properties.jsonl"))
	if err != nil {
		return err
	}
	defer f.Close()
	var ids []string
	sc := bufio.NewScanner(f)
	sc.Buffer(make([]byte, 1<<20), 1<<22)
	for sc.Scan() {
		var p struct {
			ID string `json:"id"`
		}
		if json.Unmarshal(sc.Bytes(), &p) == nil && p.ID != "" {
			ids = append(ids, p.ID)
		}
	}
	checks := []any{}
	na := []any{}
	served := []string{}
	for _, id := range ids {
		pf, ok := props[id]
		if !ok {
			reason := naReasons[id]
			if reason == "" {
				reason = "check not implemented yet (build in progress; DESIGN.md §3 lists the planned structural clauses)"
			}
			na = append(na, map[string]string{"property_id": id, "reason": reason})
			continue
		}
		r := NewReport(id, "quick", w)
		meta := pf(r)
		served = append(served, id)
		tech := techniques[id]
		if tech == "" {
			engs := map[string]bool{}
			for _, o := range r.Obls {
				engs[o.Engine] = true
			}
			tech = "static analysis over go/ssa + VTA call graph: " + strings.Join(sortedKeys(engs), "; ")
		}
		checks = append(checks, map[string]any{
			"property_id":         id,
			"quick_cmd":           fmt.Sprintf("bin/bandcheck -property %s -tier quick", id),
			"thorough_cmd":        fmt.Sprintf("bin/bandcheck -property %s -tier thorough", id),
			"evidence_file":       fmt.Sprintf("evidence/%s.json", id),
			"replay_cmd_template": fmt.Sprintf("bin/bandcheck -property %s -explain {path}", id),
			"engine":              "bandcheck",
			"level_claimed": map[string]string{
				"category":   "other",
				"text":       "Decides structural necessary conditions of the property on every path / for every caller of the current source, not the behaviour itself: " + strings.Join(meta.Decided, "; ") + ".",
				"design_ref": "DESIGN.md §3 " + id,
			},
			"level_note": "NOT decided (runtime-value clauses): " + strings.Join(meta.Undecided, "; ") + ". Trusted base: " + strings.Join(meta.Assume, "; ") + ".",
			"technique":  tech,
		})
	}
	m := map[string]any{
		"version":   1,
		"setup_cmd": "cd checker && GOFLAGS=-mod=mod GOPROXY=off GOSUMDB=off GOTOOLCHAIN=local GOWORK=off go build -o ../bin/bandcheck . && cd .. && bin/bandcheck -warm",
		"hooks": map[string]any{
			"guard":            "verif",
			"enable":           "-tags=verif is passed to the loader; no hook file exists because static analysis needs no instrumentation",
			"baseline_off_cmd": "cd /repo && go test -mod=mod -json -vet=off -count=1 -timeout 25m ./...",
			"source_commits":   []string{},
			"add_only":         true,
		},
		"engines": []any{map[string]any{"name": "bandcheck", "path": "checker/", "serves_properties": served,
			"kind_free_text": "custom static analyser (go/packages + go/ssa + VTA call graph) with repo-specific frozen rule tables: who-may-call, store ownership, check-gates-effect via dominance, condition descriptors, exactly-once path counting, conditional-commit walk, panic census, determinism lint, table/constant agreement, provenance"}},
		"checks":         checks,
		"not_applicable": na,
		"notes":          "All claims are at level 'other': each check decides named structural necessary conditions by static analysis of /repo's current source (DESIGN.md §0); nothing is executed. Findings on the unchanged tree are listed in known-findings.txt.",
	}
	b, _ := json.MarshalIndent(m, "", " ")
	return os.WriteFile(filepath.Join(dir, "MANIFEST.json"), append(b, '\n'), 0o644)
}

var naReasons = map[string]string{}
