package main

import (
	"bytes"
	"go/types"

	"encoding/json"
	"fmt"
	"go/ast"
	"go/printer"
	"go/token"
	"golang.org/x/tools/go/packages"
	"os"
	"os/exec"
	"sort"
	"strings"
	"sync"
)

// Behaviour-preserving sweep. For every source file that holds a function the rule tables anchor, one mechanical
// rewrite is applied to the WHOLE file and all twenty properties are evaluated on the result; any hit is a false alarm of
// the checker. Rewrites:
//
//	swapcmp   a == b -> b == a, a != b -> b != a, a < b -> b > a, a <= b -> b >= a (and vice versa), for comparisons whose
//	          operands contain no call other than len/cap (so evaluation order cannot matter)
//	errsplit  if err := f(); err != nil {…}  ->  err := f(); if err != nil {…}   inside a fresh block (scope preserved)
func rewriteFile(w *World, file *ast.File, kind string) ([]byte, int) {
	n := 0
	pure := func(e ast.Expr) bool {
		ok := true
		ast.Inspect(e, func(m ast.Node) bool {
			if ce, is := m.(*ast.CallExpr); is {
				if id, isID := ce.Fun.(*ast.Ident); isID && (id.Name == "len" || id.Name == "cap") {
					return true
				}
				ok = false
			}
			if _, is := m.(*ast.UnaryExpr); is && m.(*ast.UnaryExpr).Op == token.ARROW {
				ok = false
			}
			return true
		})
		return ok
	}
	mirror := map[token.Token]token.Token{token.EQL: token.EQL, token.NEQ: token.NEQ, token.LSS: token.GTR, token.GTR: token.LSS, token.LEQ: token.GEQ, token.GEQ: token.LEQ}
	switch kind {
	case "swapcmp":
		ast.Inspect(file, func(m ast.Node) bool {
			be, ok := m.(*ast.BinaryExpr)
			if !ok {
				return true
			}
			op, isCmp := mirror[be.Op]
			if !isCmp || !pure(be.X) || !pure(be.Y) {
				return true
			}
			// keep `x == nil` style too: swapping is still equivalent
			be.X, be.Y, be.Op = be.Y, be.X, op
			n++
			return true
		})
	case "errsplit":
		ast.Inspect(file, func(m ast.Node) bool {
			blk, ok := m.(*ast.BlockStmt)
			if !ok {
				return true
			}
			for i, st := range blk.List {
				is, ok := st.(*ast.IfStmt)
				if !ok || is.Init == nil || is.Else != nil {
					continue
				}
				as, ok := is.Init.(*ast.AssignStmt)
				if !ok || as.Tok != token.DEFINE {
					continue
				}
				init := is.Init
				is.Init = nil
				blk.List[i] = &ast.BlockStmt{List: []ast.Stmt{init, is}}
				n++
			}
			return true
		})
	case "negif":
		// if c {A} else {B}  ->  if !(c) {B} else {A}   (plain else blocks only)
		ast.Inspect(file, func(m ast.Node) bool {
			is, ok := m.(*ast.IfStmt)
			if !ok || is.Else == nil {
				return true
			}
			eb, ok := is.Else.(*ast.BlockStmt)
			if !ok {
				return true
			}
			is.Cond = &ast.UnaryExpr{Op: token.NOT, X: &ast.ParenExpr{X: is.Cond}}
			is.Body, is.Else = eb, is.Body
			n++
			return true
		})
	case "vardecl":
		// x := e  ->  var x = e   (statement level, one name, one value)
		conv := func(list []ast.Stmt) {
			for i, st := range list {
				as, ok := st.(*ast.AssignStmt)
				if !ok || as.Tok != token.DEFINE || len(as.Lhs) != 1 || len(as.Rhs) != 1 {
					continue
				}
				id, ok := as.Lhs[0].(*ast.Ident)
				if !ok || id.Name == "_" {
					continue
				}
				list[i] = &ast.DeclStmt{Decl: &ast.GenDecl{Tok: token.VAR, Specs: []ast.Spec{&ast.ValueSpec{Names: []*ast.Ident{id}, Values: []ast.Expr{as.Rhs[0]}}}}}
				n++
			}
		}
		ast.Inspect(file, func(m ast.Node) bool {
			switch b := m.(type) {
			case *ast.BlockStmt:
				conv(b.List)
			case *ast.CaseClause:
				conv(b.Body)
			}
			return true
		})
	case "incdec":
		// x++ -> x += 1, x-- -> x -= 1 (statement level; loop post statements too)
		var fix func(st ast.Stmt) ast.Stmt
		fix = func(st ast.Stmt) ast.Stmt {
			if ids, ok := st.(*ast.IncDecStmt); ok && pure(ids.X) {
				op := token.ADD_ASSIGN
				if ids.Tok == token.DEC {
					op = token.SUB_ASSIGN
				}
				n++
				return &ast.AssignStmt{Lhs: []ast.Expr{ids.X}, Tok: op, Rhs: []ast.Expr{&ast.BasicLit{Kind: token.INT, Value: "1"}}}
			}
			return st
		}
		ast.Inspect(file, func(m ast.Node) bool {
			switch b := m.(type) {
			case *ast.BlockStmt:
				for i := range b.List {
					b.List[i] = fix(b.List[i])
				}
			case *ast.CaseClause:
				for i := range b.Body {
					b.Body[i] = fix(b.Body[i])
				}
			case *ast.ForStmt:
				if b.Post != nil {
					b.Post = fix(b.Post)
				}
			}
			return true
		})
	}
	if kind == "rettmp" || kind == "retlit" {
		// rettmp: return f(a, b)  ->  r0, r1 := f(a, b); return r0, r1
		// retlit: return T{…} / return &T{…}  ->  r0 := T{…}; return r0
		var pkg *packages.Package
		for _, p := range w.Pkgs {
			for _, f := range p.Syntax {
				if f == file {
					pkg = p
				}
			}
		}
		serial := 0
		conv := func(list []ast.Stmt) []ast.Stmt {
			if pkg == nil || len(list) == 0 {
				return list
			}
			rs, ok := list[len(list)-1].(*ast.ReturnStmt)
			if !ok || len(rs.Results) != 1 {
				return list
			}
			var ce ast.Expr
			if kind == "retlit" {
				e := rs.Results[0]
				if ue, isAddr := e.(*ast.UnaryExpr); isAddr && ue.Op == token.AND {
					e = ue.X
				}
				cl, isLit := e.(*ast.CompositeLit)
				if !isLit || cl.Type == nil {
					return list
				}
				ce = rs.Results[0]
			} else {
				call, ok := rs.Results[0].(*ast.CallExpr)
				if !ok {
					return list
				}
				if _, isConv := pkg.TypesInfo.Types[call.Fun]; isConv && pkg.TypesInfo.Types[call.Fun].IsType() {
					return list
				}
				ce = call
			}
			tv, ok := pkg.TypesInfo.Types[ce]
			if !ok || tv.IsType() || tv.Type == nil {
				return list
			}
			cnt := 1
			if tup, isTup := tv.Type.(*types.Tuple); isTup {
				cnt = tup.Len()
			}
			if cnt == 0 {
				return list
			}
			var lhs, res []ast.Expr
			for j := 0; j < cnt; j++ {
				nm := fmt.Sprintf("rt%d_%dZq", serial, j)
				lhs = append(lhs, ast.NewIdent(nm))
				res = append(res, ast.NewIdent(nm))
			}
			serial++
			n++
			out := append([]ast.Stmt{}, list[:len(list)-1]...)
			out = append(out, &ast.AssignStmt{Lhs: lhs, Tok: token.DEFINE, Rhs: []ast.Expr{ce}}, &ast.ReturnStmt{Results: res})
			return out
		}
		ast.Inspect(file, func(m ast.Node) bool {
			switch b := m.(type) {
			case *ast.BlockStmt:
				b.List = conv(b.List)
			case *ast.CaseClause:
				b.Body = conv(b.Body)
			}
			return true
		})
	}
	if kind == "renamelocals" {
		// every local variable and parameter gets a new name (definition and all uses)
		var pkg *packages.Package
		for _, p := range w.Pkgs {
			for _, f := range p.Syntax {
				if f == file {
					pkg = p
				}
			}
		}
		if pkg != nil {
			rename := func(id *ast.Ident, obj types.Object) {
				v, ok := obj.(*types.Var)
				if !ok || v.IsField() || id.Name == "_" || v.Parent() == nil || v.Parent() == types.Universe || v.Parent().Parent() == types.Universe {
					return // fields, blanks and package-level variables (of this or any other package) keep their names
				}
				if !strings.HasSuffix(id.Name, "Zq") {
					id.Name += "Zq"
					n++
				}
			}
			skip := map[string]bool{}
			ast.Inspect(file, func(m ast.Node) bool {
				if ts, ok := m.(*ast.TypeSwitchStmt); ok {
					if as, ok := ts.Assign.(*ast.AssignStmt); ok && len(as.Lhs) == 1 {
						if id, ok := as.Lhs[0].(*ast.Ident); ok {
							skip[id.Name] = true
						}
					}
				}
				return true
			})
			ast.Inspect(file, func(m ast.Node) bool {
				if id, ok := m.(*ast.Ident); ok && !skip[id.Name] {
					if obj := pkg.TypesInfo.Defs[id]; obj != nil {
						rename(id, obj)
					} else if obj := pkg.TypesInfo.Uses[id]; obj != nil {
						rename(id, obj)
					}
				}
				return true
			})
		}
	}
	var buf bytes.Buffer
	if err := printer.Fprint(&buf, w.Fset, file); err != nil {
		return nil, 0
	}
	return buf.Bytes(), n
}

func runBenignSweep(w *World, kind, dir string) int {
	// files that hold anchored functions
	files := map[string]*ast.File{}
	for k := range frozenSigs {
		fn := w.Funcs[k]
		if fn == nil || !fn.Pos().IsValid() {
			continue
		}
		name := w.Fset.Position(fn.Pos()).Filename
		if strings.HasSuffix(name, ".pb.go") {
			continue
		}
		for _, p := range w.Pkgs {
			for i, f := range p.CompiledGoFiles {
				if f == name && i < len(p.Syntax) {
					files[name] = p.Syntax[i]
				}
			}
		}
	}
	var names []string
	for n := range files {
		names = append(names, n)
	}
	sort.Strings(names)
	exe, _ := os.Executable()
	type res struct {
		file  string
		edits int
		out   string
	}
	results := make([]res, len(names))
	sem := make(chan struct{}, 5)
	var wg sync.WaitGroup
	for i, name := range names {
		src, n := rewriteFile(w, files[name], kind)
		if n == 0 || src == nil {
			results[i] = res{name, 0, ""}
			continue
		}
		orig, err := os.ReadFile(name)
		if err != nil {
			continue
		}
		wg.Add(1)
		go func(i int, name string, src, orig []byte, n int) {
			defer wg.Done()
			sem <- struct{}{}
			defer func() { <-sem }()
			rel := strings.TrimPrefix(name, dir+"/")
			js, _ := json.Marshal(map[string]any{"File": rel, "Edits": [][2]string{{string(orig), string(src)}}})
			tf, _ := os.CreateTemp("", "bandcheck-sweep-*.json")
			tf.Write(js)
			tf.Close()
			defer os.Remove(tf.Name())
			out, _ := exec.Command(exe, "-property", "all", "-dir", dir, "-mutant-json", tf.Name()).CombinedOutput()
			results[i] = res{rel, n, string(out)}
		}(i, name, src, orig, n)
	}
	wg.Wait()
	bad := 0
	total := 0
	for _, r := range results {
		if r.edits == 0 {
			continue
		}
		total++
		switch {
		case strings.Contains(r.out, "MUTANT-NOCOMPILE"):
			fmt.Printf("sweep %s %s: does-not-compile (%d edits) %s\n", kind, r.file, r.edits, clip(r.out, 200))
			bad++
		case strings.Contains(r.out, "MUTANT-HIT "):
			bad++
			fmt.Printf("sweep %s %s: FALSE-ALARM (%d edits)\n", kind, r.file, r.edits)
			for _, l := range strings.Split(r.out, "\n") {
				if strings.HasPrefix(l, "MUTANT-HIT ") {
					fmt.Println("   ", clip(l, 260))
				}
			}
		case strings.Contains(r.out, "MUTANT-DONE"):
			fmt.Printf("sweep %s %s: quiet (%d edits)\n", kind, r.file, r.edits)
		default:
			bad++
			fmt.Printf("sweep %s %s: error %s\n", kind, r.file, clip(r.out, 200))
		}
	}
	fmt.Printf("sweep %s: %d files rewritten, %d not quiet\n", kind, total, bad)
	if bad > 0 {
		return 1
	}
	return 0
}
