package main

import (
	"bytes"
	"go/types"

	"encoding/json"
	"fmt"
	"go/ast"
	"go/printer"
	"go/token"
	"golang.org/x/tools/go/packages"
	"os"
	"os/exec"
	"sort"
	"strings"
	"sync"
)

// Behaviour-preserving sweep. For every source file that holds a function the rule tables anchor, one mechanical
// rewrite is applied to the WHOLE file and all twenty properties are evaluated on the result; any hit is a false alarm of
// the checker. Rewrites:
//
//	swapcmp   a == b -> b == a, a != b -> b != a, a < b -> b > a, a <= b -> b >= a (and vice versa), for comparisons whose
//	          operands contain no call other than len/cap (so evaluation order cannot matter)
//	errsplit  if err := f(); err != nil {…}  ->  err := f(); if err != nil {…}   inside a fresh block (scope preserved)
func rewriteFile(w *World, file *ast.File, kind string) ([]byte, int) {
	n := 0
	pure := func(e ast.Expr) bool {
		ok := true
		ast.Inspect(e, func(m ast.Node) bool {
			if ce, is := m.(*ast.CallExpr); is {
				if id, isID := ce.Fun.(*ast.Ident); isID && (id.Name == "len" || id.Name == "cap") {
					return true
				}
				ok = false
			}
			if _, is := m.(*ast.UnaryExpr); is && m.(*ast.UnaryExpr).Op == token.ARROW {
				ok = false
			}
			return true
		})
		return ok
	}
	mirror := map[token.Token]token.Token{token.EQL: token.EQL, token.NEQ: token.NEQ, token.LSS: token.GTR, token.GTR: token.LSS, token.LEQ: token.GEQ, token.GEQ: token.LEQ}
	switch kind {
	case "swapcmp":
		ast.Inspect(file, func(m ast.Node) bool {
			be, ok := m.(*ast.BinaryExpr)
			if !ok {
				return true
			}
			op, isCmp := mirror[be.Op]
			if !isCmp || !pure(be.X) || !pure(be.Y) {
				return true
			}
			// keep `x == nil` style too: swapping is still equivalent
			be.X, be.Y, be.Op = be.Y, be.X, op
			n++
			return true
		})
	case "errsplit":
		ast.Inspect(file, func(m ast.Node) bool {
			blk, ok := m.(*ast.BlockStmt)
			if !ok {
				return true
			}
			for i, st := range blk.List {
				is, ok := st.(*ast.IfStmt)
				if !ok || is.Init == nil || is.Else != nil {
					continue
				}
				as, ok := is.Init.(*ast.AssignStmt)
				if !ok || as.Tok != token.DEFINE {
					continue
				}
				init := is.Init
				is.Init = nil
				blk.List[i] = &ast.BlockStmt{List: []ast.Stmt{init, is}}
				n++
			}
			return true
		})
	}
	if kind == "renamelocals" {
		// every local variable and parameter gets a new name (definition and all uses)
		var pkg *packages.Package
		for _, p := range w.Pkgs {
			for _, f := range p.Syntax {
				if f == file {
					pkg = p
				}
			}
		}
		if pkg != nil {
			rename := func(id *ast.Ident, obj types.Object) {
				v, ok := obj.(*types.Var)
				if !ok || v.IsField() || id.Name == "_" || v.Parent() == nil || v.Parent() == types.Universe || v.Parent().Parent() == types.Universe {
					return // fields, blanks and package-level variables (of this or any other package) keep their names
				}
				if !strings.HasSuffix(id.Name, "Zq") {
					id.Name += "Zq"
					n++
				}
			}
			skip := map[string]bool{}
			ast.Inspect(file, func(m ast.Node) bool {
				if ts, ok := m.(*ast.TypeSwitchStmt); ok {
					if as, ok := ts.Assign.(*ast.AssignStmt); ok && len(as.Lhs) == 1 {
						if id, ok := as.Lhs[0].(*ast.Ident); ok {
							skip[id.Name] = true
						}
					}
				}
				return true
			})
			ast.Inspect(file, func(m ast.Node) bool {
				if id, ok := m.(*ast.Ident); ok && !skip[id.Name] {
					if obj := pkg.TypesInfo.Defs[id]; obj != nil {
						rename(id, obj)
					} else if obj := pkg.TypesInfo.Uses[id]; obj != nil {
						rename(id, obj)
					}
				}
				return true
			})
		}
	}
	var buf bytes.Buffer
	if err := printer.Fprint(&buf, w.Fset, file); err != nil {
		return nil, 0
	}
	return buf.Bytes(), n
}

func runBenignSweep(w *World, kind, dir string) int {
	// files that hold anchored functions
	files := map[string]*ast.File{}
	for k := range frozenSigs {
		fn := w.Funcs[k]
		if fn == nil || !fn.Pos().IsValid() {
			continue
		}
		name := w.Fset.Position(fn.Pos()).Filename
		if strings.HasSuffix(name, ".pb.go") {
			continue
		}
		for _, p := range w.Pkgs {
			for i, f := range p.CompiledGoFiles {
				if f == name && i < len(p.Syntax) {
					files[name] = p.Syntax[i]
				}
			}
		}
	}
	var names []string
	for n := range files {
		names = append(names, n)
	}
	sort.Strings(names)
	exe, _ := os.Executable()
	type res struct {
		file  string
		edits int
		out   string
	}
	results := make([]res, len(names))
	sem := make(chan struct{}, 5)
	var wg sync.WaitGroup
	for i, name := range names {
		src, n := rewriteFile(w, files[name], kind)
		if n == 0 || src == nil {
			results[i] = res{name, 0, ""}
			continue
		}
		orig, err := os.ReadFile(name)
		if err != nil {
			continue
		}
		wg.Add(1)
		go func(i int, name string, src, orig []byte, n int) {
			defer wg.Done()
			sem <- struct{}{}
			defer func() { <-sem }()
			rel := strings.TrimPrefix(name, dir+"/")
			js, _ := json.Marshal(map[string]any{"File": rel, "Edits": [][2]string{{string(orig), string(src)}}})
			tf, _ := os.CreateTemp("", "bandcheck-sweep-*.json")
			tf.Write(js)
			tf.Close()
			defer os.Remove(tf.Name())
			out, _ := exec.Command(exe, "-property", "all", "-dir", dir, "-mutant-json", tf.Name()).CombinedOutput()
			results[i] = res{rel, n, string(out)}
		}(i, name, src, orig, n)
	}
	wg.Wait()
	bad := 0
	total := 0
	for _, r := range results {
		if r.edits == 0 {
			continue
		}
		total++
		switch {
		case strings.Contains(r.out, "MUTANT-NOCOMPILE"):
			fmt.Printf("sweep %s %s: does-not-compile (%d edits) %s\n", kind, r.file, r.edits, clip(r.out, 200))
			bad++
		case strings.Contains(r.out, "MUTANT-HIT "):
			bad++
			fmt.Printf("sweep %s %s: FALSE-ALARM (%d edits)\n", kind, r.file, r.edits)
			for _, l := range strings.Split(r.out, "\n") {
				if strings.HasPrefix(l, "MUTANT-HIT ") {
					fmt.Println("   ", clip(l, 260))
				}
			}
		case strings.Contains(r.out, "MUTANT-DONE"):
			fmt.Printf("sweep %s %s: quiet (%d edits)\n", kind, r.file, r.edits)
		default:
			bad++
			fmt.Printf("sweep %s %s: error %s\n", kind, r.file, clip(r.out, 200))
		}
	}
	fmt.Printf("sweep %s: %d files rewritten, %d not quiet\n", kind, total, bad)
	if bad > 0 {
		return 1
	}
	return 0
}
