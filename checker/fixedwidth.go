package main

// E18 fixed-width wire encodings. The raw bytes of pkg/tss values are hashed (challenges, binding factors, symmetric
// keys), so every value must have exactly ONE accepted encoding. For byte-slice types that means: the parser / validator
// accepts exactly one length. Finding F6: tss.Point went through secp256k1.ParsePubKey, which also parses the 65-byte
// uncompressed and hybrid encodings; a complaint carrying the true key-sym in uncompressed form made the chain derive a
// different AES key and blame an honest dealer.

type fixedWidth struct {
	Fn    string // function whose nil-error returns must be gated
	Param string // frozen name of the byte-slice parameter / receiver
	N     string // "const:<n>"
	What  string
}

func (r *Report) FixedWidth(key string, table []fixedWidth) {
	for _, f := range table {
		ln := []string{"^len", "param:" + f.Param}
		eq := Cond{Op: "EQL", A: ln, B: []string{f.N}, Want: true, Desc: "len(" + f.Param + ") == " + f.N[6:]}
		fn := r.W.Fn(f.Fn)
		if fn == nil {
			r.Unres(key+"|"+f.Fn, f.What+" accepts exactly one length", "function not found")
			continue
		}
		// idiom A: one equality; idiom B: a lower and an upper bound
		hasEq := false
		for _, ii := range r.W.ifs(fn) {
			if m, _ := eq.Match(ii.pred); m {
				hasEq = true
			}
		}
		eff := RetOK()
		if errResultIndex(fn) < 0 {
			continue
		}
		if hasEq {
			r.Gate(key+"|"+f.What, f.Fn, eff, []Cond{eq}, GateOpts{})
		} else {
			r.Gate(key+"|"+f.What, f.Fn, eff, []Cond{
				{Op: "LSS", A: ln, B: []string{f.N}, Want: false, Desc: "not len(" + f.Param + ") < " + f.N[6:]},
				{Op: "LSS", A: []string{f.N}, B: ln, Want: false, Desc: "not len(" + f.Param + ") > " + f.N[6:]}}, GateOpts{})
		}
	}
}

// ExternalCallers: the repo functions (key prefix pkgPrefix) that call the dependency function `callee` directly are
// exactly the allowed ones (every other parse of the same wire type would bypass the length gate).
func (r *Report) ExternalCallers(key, pkgPrefix, callee string, allowed []string) {
	w := r.W
	d := "direct callers of " + callee + " under " + pkgPrefix + " are exactly the reviewed ones"
	found := map[string]string{}
	for _, fk := range sortedKeys(w.Funcs) {
		if len(fk) < len(pkgPrefix) || fk[:len(pkgPrefix)] != pkgPrefix {
			continue
		}
		fn := w.Funcs[fk]
		if len(fn.Blocks) == 0 || !inRepoScope(fn) {
			continue
		}
		if cs := Calls(fn, callee); len(cs) > 0 {
			found[fk] = w.Pos(cs[0].Pos())
		}
	}
	for _, fk := range sortedKeys(found) {
		ok := false
		for _, a := range allowed {
			if nameMatch(fk, a) {
				ok = true
			}
		}
		w.SitesExamined++
		if ok {
			r.OK(key+"|"+fk, d, found[fk], "reviewed caller")
		} else {
			r.Bad(key+"|"+fk, d, found[fk], fk+" parses with "+callee+" directly, bypassing the single gated parser")
		}
	}
	for _, a := range allowed {
		hit := false
		for fk := range found {
			if nameMatch(fk, a) {
				hit = true
			}
		}
		if !hit {
			r.Unres(key+"|"+a+"#stale", d, "reviewed caller no longer calls "+callee)
		}
	}
}
