package main

import (
	"fmt"
	"go/constant"
	"sort"
	"strings"

	"golang.org/x/tools/go/ssa"
)

// E20 event agreement between chain and daemons. The daemons learn what to do from events: they look up
// (event type, attribute key) pairs in the logs of new blocks / their own transactions. Every pair a daemon reads must
// be emitted by the chain: some sdk.NewEvent(<type>, …) of a module carries an attribute with that key. Renaming or
// dropping an attribute on the chain side (or reading another key in the daemon) silently blinds the daemon.

type evPair struct{ Type, Key string }

// constStrings: the string constants a value can take, following parameters one or two levels up to the callers' arguments.
func (w *World) constStrings(fn *ssa.Function, v ssa.Value, depth int) []string {
	switch x := seeThrough(v).(type) {
	case *ssa.Const:
		if x.Value != nil && x.Value.Kind() == constant.String {
			return []string{constant.StringVal(x.Value)}
		}
	case *ssa.Parameter:
		if depth > 2 {
			return nil
		}
		idx := -1
		for i, p := range fn.Params {
			if p == x {
				idx = i
			}
		}
		if idx < 0 {
			return nil
		}
		var out []string
		for _, caller := range w.Funcs {
			if len(caller.Blocks) == 0 {
				continue
			}
			for _, b := range caller.Blocks {
				for _, in := range b.Instrs {
					ci, ok := in.(ssa.CallInstruction)
					if !ok || ci.Common().StaticCallee() != fn || idx >= len(ci.Common().Args) {
						continue
					}
					out = append(out, w.constStrings(caller, ci.Common().Args[idx], depth+1)...)
				}
			}
		}
		return out
	case *ssa.Phi:
		var out []string
		for _, e := range x.Edges {
			out = append(out, w.constStrings(fn, e, depth+1)...)
		}
		return out
	}
	// a value the function compares with string constants (`if ev.Type == A || ev.Type == B { use(ev.Type) }`)
	var out []string
	vs := Render(v).String()
	for _, ii := range w.ifs(fn) {
		p := ii.pred
		if p.Op != "EQL" || p.A == nil || p.B == nil {
			continue
		}
		if p.A.String() == vs && p.B.Op == "const" {
			out = append(out, p.B.Name)
		}
		if p.B.String() == vs && p.A.Op == "const" {
			out = append(out, p.A.Name)
		}
	}
	return out
}

// emittedEvents: (type, key) pairs of every sdk.NewEvent(type, NewAttribute(key, …)…) in repo module code.
func (w *World) emittedEvents() map[evPair]string {
	out := map[evPair]string{}
	for fk, fn := range w.Funcs {
		if !strings.HasPrefix(fk, "x/") || len(fn.Blocks) == 0 || !inRepoScope(fn) {
			continue
		}
		for _, c := range Calls(fn, "cosmos-sdk/types.NewEvent") {
			args := c.Common().Args
			if len(args) == 0 {
				continue
			}
			types := w.constStrings(fn, args[0], 0)
			var keys []string
			var walk func(t *Term)
			walk = func(t *Term) {
				if t.Op == "call" && strings.HasSuffix(t.Name, "cosmos-sdk/types.NewAttribute") && len(t.Args) > 0 && t.Args[0].Op == "const" {
					keys = append(keys, t.Args[0].Name)
				}
				for _, a := range t.Args {
					walk(a)
				}
			}
			walk(renderCall(c))
			for _, ty := range types {
				for _, k := range keys {
					out[evPair{ty, k}] = w.Pos(c.Pos())
				}
			}
		}
	}
	// event.AppendAttributes(NewAttribute(key, …)…) on an event built by NewEvent(type)
	for fk, fn := range w.Funcs {
		if !strings.HasPrefix(fk, "x/") || len(fn.Blocks) == 0 || !inRepoScope(fn) {
			continue
		}
		for _, c := range Calls(fn, "cosmos-sdk/types.Event.AppendAttributes") {
			t := renderCall(c)
			var types, keys []string
			var walk func(t *Term, d int)
			walk = func(t *Term, d int) {
				if d > 25 {
					return
				}
				if t.Op == "call" && len(t.Args) > 0 && t.Args[0].Op == "const" {
					if strings.HasSuffix(t.Name, "cosmos-sdk/types.NewEvent") {
						types = append(types, t.Args[0].Name)
					}
					if strings.HasSuffix(t.Name, "cosmos-sdk/types.NewAttribute") {
						keys = append(keys, t.Args[0].Name)
					}
				}
				for _, a := range t.Args {
					walk(a, d+1)
				}
			}
			walk(t, 0)
			for _, ty := range types {
				for _, k := range keys {
					if _, ok := out[evPair{ty, k}]; !ok {
						out[evPair{ty, k}] = w.Pos(c.Pos())
					}
				}
			}
		}
	}
	return out
}

// daemonEventReads: (type, key) pairs passed to GetEventValue* helpers from the daemon packages.
func (w *World) daemonEventReads(prefixes ...string) map[evPair]string {
	out := map[evPair]string{}
	for fk, fn := range w.Funcs {
		ok := false
		for _, p := range prefixes {
			if strings.HasPrefix(fk, p) {
				ok = true
			}
		}
		if !ok || len(fn.Blocks) == 0 {
			continue
		}
		for _, b := range fn.Blocks {
			for _, in := range b.Instrs {
				ci, isCall := in.(ssa.CallInstruction)
				if !isCall {
					continue
				}
				n := lastName(CalleeName(ci.Common()))
				if !strings.HasPrefix(n, "GetEventValue") || len(ci.Common().Args) < 3 {
					continue
				}
				args := ci.Common().Args
				for _, ty := range w.constStrings(fn, args[len(args)-2], 0) {
					for _, k := range w.constStrings(fn, args[len(args)-1], 0) {
						out[evPair{ty, k}] = w.Pos(in.Pos())
					}
				}
			}
		}
	}
	return out
}

func (r *Report) EventAgreement(key string, min int, prefixes ...string) {
	w := r.W
	d := fmt.Sprintf("every (event type, attribute key) pair read by %v is emitted by a module", prefixes)
	em := w.emittedEvents()
	rd := w.daemonEventReads(prefixes...)
	if len(rd) < min {
		r.Unres(key+"|count", d, fmt.Sprintf("%d read pairs found, expected >= %d", len(rd), min))
	}
	var ps []evPair
	for p := range rd {
		ps = append(ps, p)
	}
	sort.Slice(ps, func(i, j int) bool { return ps[i].Type+ps[i].Key < ps[j].Type+ps[j].Key })
	for _, p := range ps {
		w.SitesExamined++
		k := fmt.Sprintf("%s|%s.%s", key, p.Type, p.Key)
		if pos, ok := em[p]; ok {
			r.OK(k, d, rd[p], "emitted at "+pos)
		} else {
			r.Bad(k, d, rd[p], fmt.Sprintf("the daemon reads attribute %q of event %q, which no module emits: the daemon never sees the value", p.Key, p.Type))
		}
	}
}
