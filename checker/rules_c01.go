package main

const (
	oK  = "x/oracle/keeper.Keeper."
	oMS = "x/oracle/keeper.msgServer."
)

var genesisCallers = []string{"InitGenesis", "x/oracle.InitGenesis"}

func init() { props["C01"] = c01 }

func c01(r *Report) propMeta {
	nilErr := func(call string) Cond {
		return Cond{Op: "EQL", A: []string{"call:" + call}, B: []string{"const:nil"}, Want: true, Desc: call + " == nil"}
	}
	// R1 store ownership
	r.Rule("C01.R1", "E2 store ownership")
	r.StoreWriters("result-store", []string{"call:types.ResultStoreKey", "global:types.ResultStoreKeyPrefix"}, []string{oK + "SetResult"}, "x/oracle")
	r.StoreWriters("report-store", []string{"call:types.ReportsOfValidatorPrefixKey", "call:types.ReportStoreKey", "global:types.ReportStoreKeyPrefix"}, []string{oK + "SetReport", oK + "DeleteReports"}, "x/oracle")
	r.StoreWriters("last-expired", []string{"global:types.RequestLastExpiredStoreKey"}, []string{oK + "SetRequestLastExpired"}, "x/oracle")
	r.StoreWriters("pending-list", []string{"global:types.PendingResolveListStoreKey"}, []string{oK + "SetPendingResolveList"}, "x/oracle")

	// R2 who-may-call
	r.Rule("C01.R2", "E1 who-may-call")
	r.Callers("callers", oK+"SetResult", []string{oK + "SaveResult", "x/oracle/keeper.Keeper.InitGenesis", "x/oracle.InitGenesis"}, []string{oK + "SaveResult"})
	r.Callers("callers", oK+"SaveResult", []string{oK + "ResolveSuccess", oK + "ResolveFailure", oK + "ResolveExpired"}, []string{oK + "ResolveSuccess", oK + "ResolveFailure", oK + "ResolveExpired"})
	r.Callers("callers", oK+"ResolveSuccess", []string{oK + "ResolveRequest"}, []string{oK + "ResolveRequest"})
	r.Callers("callers", oK+"ResolveFailure", []string{oK + "ResolveRequest"}, []string{oK + "ResolveRequest"})
	r.Callers("callers", oK+"ResolveRequest", []string{"x/oracle.EndBlocker"}, []string{"x/oracle.EndBlocker"})
	r.Callers("callers", oK+"ResolveExpired", []string{oK + "ProcessExpiredRequests"}, []string{oK + "ProcessExpiredRequests"})
	r.Callers("callers", oK+"ProcessExpiredRequests", []string{"x/oracle.EndBlocker"}, []string{"x/oracle.EndBlocker"})
	r.Callers("callers", oK+"AddPendingRequest", []string{oMS + "ReportData"}, []string{oMS + "ReportData"})
	r.Callers("callers", oK+"SetReport", []string{oK + "AddReport", "x/oracle/keeper.Keeper.InitGenesis", "x/oracle.InitGenesis"}, []string{oK + "AddReport"})
	r.Callers("callers", oK+"AddReport", []string{oMS + "ReportData"}, []string{oMS + "ReportData"})
	r.Callers("callers", oK+"SetPendingResolveList", []string{oK + "AddPendingRequest", "x/oracle.EndBlocker", "x/oracle.InitGenesis", "x/oracle/keeper.Keeper.InitGenesis"}, []string{oK + "AddPendingRequest", "x/oracle.EndBlocker"})
	r.Callers("callers", oK+"SetRequestLastExpired", []string{oK + "ProcessExpiredRequests", "x/oracle.InitGenesis", "x/oracle/keeper.Keeper.InitGenesis"}, []string{oK + "ProcessExpiredRequests"})
	r.Callers("callers", oK+"DeleteReports", []string{oK + "ProcessExpiredRequests"}, []string{oK + "ProcessExpiredRequests"})
	r.Callers("callers", oK+"DeleteRequest", []string{oK + "ProcessExpiredRequests"}, []string{oK + "ProcessExpiredRequests"})

	// R3 ReportData gates
	r.Rule("C01.R3", "E3+E4 check-gates-effect")
	r.Gate("pending-trigger", oMS+"ReportData", CallEff("Keeper.AddPendingRequest"), []Cond{
		{Op: "BOOL", A: []string{"call:Keeper.HasResult"}, Want: false, Desc: "not HasResult(requestID)"},
		{Op: "EQL", A: []string{"call:Keeper.GetReportCount"}, B: []string{"field:Request.MinCount"}, Want: true, Desc: "GetReportCount(requestID) == request.MinCount (equality, not >=)"},
		nilErr("Keeper.AddReport"),
	}, GateOpts{})
	r.Gate("not-expired", oMS+"ReportData", CallEff("Keeper.AddReport"), []Cond{
		{Op: "LSS", A: []string{"call:Keeper.GetRequestLastExpired"}, B: []string{"field:MsgReportData.RequestID"}, Want: true, Desc: "requestID > RequestLastExpired"},
	}, GateOpts{FailIsError: true})
	r.ArgHas("pending-id", oMS+"ReportData", "Keeper.AddPendingRequest", 1, 1, "field:MsgReportData.RequestID")
	r.ArgHas("count-id", oMS+"ReportData", "Keeper.GetReportCount", 1, 1, "field:MsgReportData.RequestID")
	r.ArgHas("hasresult-id", oMS+"ReportData", "Keeper.HasResult", 1, 1, "field:MsgReportData.RequestID")
	r.ArgHas("mincount-of-request", oMS+"ReportData", "Keeper.MustGetRequest", 1, 1, "field:MsgReportData.RequestID")
	r.Dominated("count-after-add", oMS+"ReportData", CallEff("Keeper.AddReport"), CallEff("Keeper.GetReportCount"))

	// R4 expiry
	r.Rule("C01.R4", "E3+E4 check-gates-effect")
	notYet := Cond{Op: "LSS", A: []string{"call:Context.BlockHeight"}, B: []string{"^binop:+", "binops=+", "field:Request.RequestHeight", "field:Params.ExpirationBlockCount"}, Want: false, Desc: "not (requestHeight + expirationBlockCount > blockHeight)"}
	r.Gate("expired-noresult", oK+"ProcessExpiredRequests", CallEff("Keeper.ResolveExpired"), []Cond{
		{Op: "BOOL", A: []string{"call:Keeper.HasResult"}, Want: false, Desc: "not HasResult(id)"}, notYet}, GateOpts{})
	for _, c := range []string{"Keeper.DeleteRequest", "Keeper.DeleteReports", "Keeper.SetRequestLastExpired"} {
		r.Gate("expired-cleanup", oK+"ProcessExpiredRequests", CallEff(c), []Cond{notYet}, GateOpts{})
	}
	r.SameValue("expiry-same-id", oK+"ProcessExpiredRequests", ArgRef{"Keeper.HasResult", 1}, ArgRef{"Keeper.ResolveExpired", 1}, ArgRef{"Keeper.DeleteRequest", 1}, ArgRef{"Keeper.DeleteReports", 1}, ArgRef{"Keeper.SetRequestLastExpired", 1}, ArgRef{"Keeper.MustGetRequest", 1})
	r.ArgHas("cursor-start", oK+"ProcessExpiredRequests", "Keeper.MustGetRequest", 1, 1, "call:Keeper.GetRequestLastExpired", "const:1")
	r.Dominated("resolve-before-delete", oK+"ProcessExpiredRequests", CallEff("Keeper.HasResult"), CallEff("Keeper.DeleteRequest"))

	// R5 report validity
	r.Rule("C01.R5", "E3 fail-means-error")
	r.Gate("valid-report", oK+"CheckValidReport", RetOK(), []Cond{
		nilErr("Keeper.GetRequest"),
		{Op: "BOOL", A: []string{"^phi", "call:ValAddress.Equals", "field:Request.RequestedValidators", "param:val"}, Want: true, Desc: "val ∈ request.RequestedValidators"},
		{Op: "BOOL", A: []string{"call:Keeper.HasReport", "param:rid", "param:val"}, Want: false, Desc: "not HasReport(rid,val)"},
		{Op: "EQL", A: []string{"len", "param:rawReports"}, B: []string{"len", "field:Request.RawRequests"}, Want: true, Desc: "len(rawReports) == len(request.RawRequests)"},
	}, GateOpts{FailIsError: true})
	r.Gate("valid-report-eid", oK+"CheckValidReport", RetOK(), []Cond{
		{Op: "BOOL", A: []string{"call:ContainsEID", "field:Request.RawRequests", "field:RawReport.ExternalID"}, Want: true, Desc: "ContainsEID(request.RawRequests, rep.ExternalID) for every rep"},
	}, GateOpts{FailIsError: true, LoopAll: true})
	r.Gate("setreport-after-check", oK+"AddReport", CallEff("Keeper.SetReport"), []Cond{nilErr("Keeper.CheckValidReport")}, GateOpts{FailIsError: true})
	r.SameValue("check-same-args", oK+"AddReport", ArgRef{"Keeper.CheckValidReport", 1}, ArgRef{"Keeper.SetReport", 1})
	// two spellings of "all external ids distinct": a seen-map, or a seen-slice probed with slices.Contains
	vb := "x/oracle/types.MsgReportData.ValidateBasic"
	r.AnyOf("dup-eid", "MsgReportData.ValidateBasic refuses a report in which two raw reports share an external id (every id is looked up among the ids seen so far, then recorded)", map[string]func(*Report){
		"seen-map": func(s *Report) {
			s.Gate("dup-eid", vb, RetOK(), []Cond{
				{Op: "BOOL", A: []string{"lookup", "field:RawReport.ExternalID", "field:MsgReportData.RawReports"}, Want: false, Desc: "external id not seen before (duplicate check)"},
			}, GateOpts{FailIsError: true, LoopAll: true})
			s.Exists("dup-eid-recorded", vb, MapUpdEff("field:RawReport.ExternalID", "field:MsgReportData.RawReports"), 1)
		},
		"seen-slice": func(s *Report) {
			s.Gate("dup-eid", vb, RetOK(), []Cond{
				{Op: "BOOL", A: []string{"^call:slices.Contains", "field:RawReport.ExternalID", "field:MsgReportData.RawReports|param:m"}, Want: false, Desc: "external id not among the ids seen so far (slices.Contains)"},
			}, GateOpts{FailIsError: true, LoopAll: true})
			s.Exists("dup-eid-recorded", vb, CallEff("builtin.append", "field:RawReport.ExternalID"), 1)
			s.ArgHas("dup-eid-probes-the-recorded-ids", vb, "slices.Contains", 0, 1, "call:builtin.append")
		},
	})

	// the owasm environment is called back from inside the script execution of the end-blocker (through cgo, so not
	// through the call graph): an out-of-range validator index must come back as an error, never as an index panic
	// (seed C01-14: the guard compared with ask_count inclusive instead of the length of the slice that is indexed)
	ge := "x/oracle/types.ExecuteEnv.getExternalDataFull"
	r.Gate("validator-index-below-the-indexed-length", ge, IndexEff("field:Request.RequestedValidators"), []Cond{
		{Op: "LSS", A: []string{"param:valIdx"}, B: []string{"^len|^convert", "len", "field:Request.RequestedValidators"}, Want: true, Desc: "valIdx < len(RequestedValidators)"},
		{Op: "LSS", A: []string{"param:valIdx"}, B: []string{"const:0"}, Want: false, Desc: "not valIdx < 0"},
	}, GateOpts{FailIsError: true})

	// one request's failure to create its signing (error OR panic below bandtss) must not stop the resolve loop: the
	// recover barrier of safeCreateSigning is part of "every pending request gets exactly one result" (seed C01-13 moved
	// recover() into a helper, where it recovers nothing)
	r.Include("C02", "C02.R3")

	r.Rule("C01.R9", "rejection census: a report is refused only for the stated reasons")
	r.FailureCensus("report-rejections", oMS+"ReportData", map[string]reject{
		"data-too-large":   {[]string{"global:types.ErrTooLargeRawReportData"}, []Cond{{Op: "LSS", A: []string{"field:Params.MaxReportDataSize"}, B: []string{"len", "field:RawReport.Data"}, Want: true}}},
		"bad-validator":    {[]string{"^~call:types.ValAddressFromBech32"}, nil},
		"already-expired":  {[]string{"global:types.ErrRequestAlreadyExpired"}, []Cond{{Op: "LSS", A: []string{"call:Keeper.GetRequestLastExpired"}, B: []string{"field:MsgReportData.RequestID"}, Want: false}}},
		"add-report-error": {[]string{"^~call:Keeper.AddReport"}, nil},
	})
	r.FailureCensus("report-rejections", oK+"AddReport", map[string]reject{"invalid-report": {[]string{"^~call:Keeper.CheckValidReport"}, nil}})
	r.FailureCensus("report-rejections", oK+"CheckValidReport", map[string]reject{
		"unknown-request":  {[]string{"^~call:Keeper.GetRequest"}, nil},
		"bad-stored-addr":  {[]string{"^~call:types.ValAddressFromBech32"}, nil},
		"not-requested":    {[]string{"global:types.ErrValidatorNotRequested"}, []Cond{{Op: "BOOL", A: []string{"^phi", "call:ValAddress.Equals"}, Want: false}}},
		"already-reported": {[]string{"global:types.ErrValidatorAlreadyReported"}, []Cond{{Op: "BOOL", A: []string{"^call:Keeper.HasReport"}, Want: true}}},
		"wrong-size":       {[]string{"global:types.ErrInvalidReportSize"}, []Cond{{Op: "EQL", A: []string{"len", "param:rawReports"}, B: []string{"len", "field:Request.RawRequests"}, Want: false}}},
		"unknown-eid":      {[]string{"global:types.ErrRawRequestNotFound"}, []Cond{{Op: "BOOL", A: []string{"^call:keeper.ContainsEID"}, Want: false}}},
	})

	// R6 exactly one resolve
	r.Rule("C01.R6", "E5 exactly-once")
	r.Count("one-resolve", oK+"ResolveRequest", []Effect{CallEff("Keeper.ResolveSuccess"), CallEff("Keeper.ResolveFailure")}, "all", 1, 1)
	r.Count("one-save", oK+"ResolveSuccess", []Effect{CallEff("Keeper.SaveResult")}, "all", 1, 1)
	r.Count("one-save", oK+"ResolveFailure", []Effect{CallEff("Keeper.SaveResult")}, "all", 1, 1)
	r.Count("one-save", oK+"ResolveExpired", []Effect{CallEff("Keeper.SaveResult")}, "all", 1, 1)
	r.Count("one-set", oK+"SaveResult", []Effect{CallEff("Keeper.SetResult")}, "all", 1, 1)
	r.ArgHas("status-success", oK+"ResolveSuccess", "Keeper.SaveResult", 2, 1, "const:1")
	r.ArgHas("status-failure", oK+"ResolveFailure", "Keeper.SaveResult", 2, 1, "const:2")
	r.ArgHas("status-expired", oK+"ResolveExpired", "Keeper.SaveResult", 2, 1, "const:3")

	// R7 end-block order
	r.Rule("C01.R7", "E3 order")
	eb := "x/oracle.EndBlocker"
	r.NotAfter("resolve-then-clear", eb, CallEff("Keeper.ResolveRequest"), CallEff("Keeper.SetPendingResolveList"))
	r.Dominated("clear-then-expire", eb, CallEff("Keeper.SetPendingResolveList"), CallEff("Keeper.ProcessExpiredRequests"))
	r.NotAfter("clear-then-expire", eb, CallEff("Keeper.SetPendingResolveList"), CallEff("Keeper.ProcessExpiredRequests"))
	r.Count("clear-once", eb, []Effect{CallEff("Keeper.SetPendingResolveList")}, "all", 1, 1)
	r.Count("expire-once", eb, []Effect{CallEff("Keeper.ProcessExpiredRequests")}, "all", 1, 1)
	r.ArgHas("resolve-ids-from-list", eb, "Keeper.ResolveRequest", 1, 1, "call:Keeper.GetPendingResolveList")
	r.ArgLacks("clear-is-empty", eb, "Keeper.SetPendingResolveList", 1, "call:Keeper.GetPendingResolveList", "param:ctx")

	// R8 result mirrors the request
	r.Rule("C01.R8", "E12 provenance")
	sr := oK + "SaveResult"
	req := "call:Keeper.MustGetRequest"
	r.ArgHas("req-id", sr, "Keeper.MustGetRequest", 1, 1, "param:id")
	r.ArgHas("cnt-id", sr, "Keeper.GetReportCount", 1, 1, "param:id")
	r.ArgHas("result-id", sr, "Keeper.SetResult", 1, 1, "param:id")
	r.ArgHas("client-id", sr, "types.NewResult", 0, 1, "field:Request.ClientID", req)
	r.ArgHas("script-id", sr, "types.NewResult", 1, 1, "field:Request.OracleScriptID", req)
	r.ArgHas("calldata", sr, "types.NewResult", 2, 1, "field:Request.Calldata", req)
	r.ArgHas("ask-count", sr, "types.NewResult", 3, 1, "len", "field:Request.RequestedValidators", req)
	r.ArgHas("min-count", sr, "types.NewResult", 4, 1, "field:Request.MinCount", req)
	r.ArgHas("request-id", sr, "types.NewResult", 5, 1, "param:id")
	r.ArgHas("ans-count", sr, "types.NewResult", 6, 1, "call:Keeper.GetReportCount")
	r.ArgHas("request-time", sr, "types.NewResult", 7, 1, "field:Request.RequestTime", req)
	r.ArgHas("resolve-time", sr, "types.NewResult", 8, 1, "call:Context.BlockTime", "call:Time.Unix")
	r.ArgHas("status", sr, "types.NewResult", 9, 1, "param:status")
	r.ArgHas("result", sr, "types.NewResult", 10, 1, "param:result")
	r.ArgHas("stored-is-new", sr, "Keeper.SetResult", 2, 1, "call:types.NewResult")
	// NewResult itself maps its parameters to the like-named fields
	for i, f := range []string{"ClientID", "OracleScriptID", "Calldata", "AskCount", "MinCount", "RequestID", "AnsCount", "RequestTime", "ResolveTime", "ResolveStatus", "Result"} {
		r.ctorField("newresult", "x/oracle/types.NewResult", "Result."+f, i)
	}

	r.LoopVisitsAll("every-pending-request-resolved", "x/oracle.EndBlocker", "Keeper.ResolveRequest", LoopOpts{})
	// the sweep runs up to the LAST request created, not to a cap (seed C01-6 bounded it to 100 per block: late reports were
	// accepted for requests behind the cap), starting right after the last expired one
	per := "x/oracle/keeper.Keeper.ProcessExpiredRequests"
	r.CondExists("sweep-up-to-request-count", per, Cond{Op: "LSS", A: []string{"^call:Keeper.GetRequestCount"}, B: []string{"^phi", "call:Keeper.GetRequestLastExpired", "const:1"}, Want: false}, 1)
	r.CondCount("sweep-branches", per, 5)                                                                                                                   // loop bound, not-yet-expired break, has-result, validator loop, has-report
	r.LoopVisitsAll("every-expired-request-resolved", "x/oracle/keeper.Keeper.ProcessExpiredRequests", "Keeper.ResolveExpired", LoopOpts{MaxOtherExits: 1}) // reviewed `break` at the first request not yet expired

	r.Rule("C01.R10", "store-key agreement: every point read/delete addresses a written key family")
	r.StoreKeyAgreement("store-keys", "oracle", 14, nil)

	r.Rule("C01.R11", "E19 constructors of x/oracle/types store their inputs unchanged")
	r.CtorFaithful("ctor", faithfulCtors["oracle"]...)

	r.Rule("C01.lint", "E8 module lint: no nondeterminism / process-local state in x/oracle")
	r.ModuleLint("module-lint", "oracle", 20)

	r.Rule("C01.iter", "E14 store-iterator loops run to exhaustion")
	r.IteratorLoopCensus("iter", []string{"x/oracle/"}, nil, 3)

	return propMeta{
		Decided: []string{
			"R1 result/report/cursor/pending stores are written only by their single setter",
			"R2 the setter/resolve call chain has exactly the frozen callers (EndBlocker -> ResolveRequest -> Resolve{Success,Failure} -> SaveResult -> SetResult; ProcessExpiredRequests -> ResolveExpired; ReportData -> AddReport/AddPendingRequest)",
			"R3 ReportData appends to the pending list only under !HasResult and GetReportCount == MinCount (equality) after AddReport succeeded; reports only for ids above the expiry cursor",
			"R4 expiry resolves EXPIRED only under !HasResult and only once the window passed; cleanup gated likewise and applied to the same id",
			"R5 CheckValidReport nil-return gated by requested-validator / not-yet-reported / size / external-id checks (failing edge returns an error); SetReport gated by it; duplicate external ids rejected in ValidateBasic",
			"R6 ResolveRequest runs exactly one of ResolveSuccess/ResolveFailure on every path, each saves exactly one result with its own status constant",
			"R7 EndBlocker resolves, then clears the list exactly once with a fresh empty list, then processes expiry",
			"R9 ReportData / AddReport / CheckValidReport reject only for the frozen set of reasons (a new rejection, e.g. a height-based expiry test in the message path, is reported)", "R8 every NewResult argument is the like-named field of the stored request / the live report count / block time",
			"R10 every KV-store Get/Has/Delete of x/oracle uses a key builder of x/oracle/types that some Set of the module also uses (a probe of an iteration prefix or of a sibling family is always-empty state)",
			"R11 the literal constructors of x/oracle/types (frozen list) store each parameter or a constant unchanged in the record they build: what a handler validated is what is stored",
			"lint: the determinism lint (incl. writes to memory held by long-lived objects) over everything reachable from the handlers and blockers of x/oracle",
			"iter: every KV-store iterator loop of the module's keeper runs until the iterator is exhausted (header is the bare Valid() test, no other way out but panic / error return), except reviewed early stops",
		},
		Undecided: []string{"correctness of the owasm script output", "that the pending list never carries a stale id across blocks (history invariant; R7 is its structural half)", "interleavings beyond the per-path facts"},
		Assume:    []string{"go/types + go/ssa + VTA call graph are sound for this reflection-free keeper code", "baseapp runTx executes a message atomically", "genesis import is trusted (InitGenesis may write the stores)"},
	}
}
