package main

import (
	"fmt"
	"go/constant"
	"go/token"
	"go/types"
	"sort"
	"strings"

	"golang.org/x/tools/go/ssa"
)

// E11: constant-bound slicing / indexing of slices and strings whose length is not established on the path.

type sliceSite struct {
	Fn, What, Pos string
	Need          int64
	Have          int64
}

func constInt(v ssa.Value) (int64, bool) {
	c, ok := v.(*ssa.Const)
	if !ok || c.Value == nil || c.Value.Kind() != constant.Int {
		return 0, false
	}
	i, ok := constant.Int64Val(c.Value)
	return i, ok
}

func isSliceOrString(t types.Type) bool {
	switch u := t.Underlying().(type) {
	case *types.Slice:
		return true
	case *types.Basic:
		return u.Info()&types.IsString != 0
	}
	return false
}

// lenLowerBound: the largest k such that len(x) >= k is established on every path to block b.
func (w *World) lenLowerBound(fn *ssa.Function, x ssa.Value, b *ssa.BasicBlock, in ssa.Instruction) int64 {
	x = seeThrough(x)
	best := int64(0)
	switch v := x.(type) {
	case *ssa.MakeSlice:
		if n, ok := constInt(v.Len); ok {
			best = n
		}
	case *ssa.Const:
		if v.Value != nil && v.Value.Kind() == constant.String {
			best = int64(len(constant.StringVal(v.Value)))
		}
	case *ssa.Slice:
		// x = y[lo:hi] with constants: len = hi-lo
		if hi, ok := constInt(v.High); ok && v.High != nil {
			lo := int64(0)
			if v.Low != nil {
				lo, _ = constInt(v.Low)
			}
			best = hi - lo
		}
		if pt, ok := v.X.Type().Underlying().(*types.Pointer); ok && v.High == nil {
			if at, ok := pt.Elem().Underlying().(*types.Array); ok {
				best = at.Len()
			}
		}
	case *ssa.Call:
		// crypto hashes etc. are not modelled; tmhash.Sum / Hash return 32 bytes but we stay conservative
	}
	isLenOfX := func(t *Term) bool {
		if t == nil || t.Op != "len" || len(t.Args) != 1 || t.Args[0].Val == nil {
			return false
		}
		return sameCanon(canonValue(t.Args[0].Val), canonValue(x)) || seeThrough(t.Args[0].Val) == x
	}
	cs := w.controlConds(fn, b)
	// plus: the instruction's own block may be the target of a conditional edge from its immediate dominator
	for _, c := range cs {
		p := c.pred
		truth := c.onTrue != p.Neg // truth value of Op(A,B)
		switch p.Op {
		case "LSS":
			if isLenOfX(p.A) {
				if k, ok := termConst(p.B); ok && !truth { // !(len < k) => len >= k
					if k > best {
						best = k
					}
				}
			}
			if isLenOfX(p.B) {
				if k, ok := termConst(p.A); ok && truth { // k < len => len >= k+1
					if k+1 > best {
						best = k + 1
					}
				}
			}
		case "EQL":
			if isLenOfX(p.A) || isLenOfX(p.B) {
				other := p.B
				if isLenOfX(p.B) {
					other = p.A
				}
				if k, ok := termConst(other); ok {
					if truth && k > best {
						best = k
					}
					if !truth && k == 0 && best < 1 {
						best = 1
					}
				}
			}
		}
	}
	return best
}

func termConst(t *Term) (int64, bool) {
	if t == nil || t.Op != "const" {
		return 0, false
	}
	var k int64
	_, err := fmt.Sscanf(t.Name, "%d", &k)
	return k, err == nil
}

// UnguardedConstSlices lists constant-bound slice/index operations on slices/strings in fn whose operand length is
// not established by a dominating length check.
func (w *World) UnguardedConstSlices(fn *ssa.Function) []sliceSite {
	var out []sliceSite
	fk := FuncKey(fn)
	for _, b := range fn.Blocks {
		for _, in := range b.Instrs {
			switch x := in.(type) {
			case *ssa.Slice:
				if !isSliceOrString(x.X.Type()) {
					continue
				}
				need := int64(-1)
				if x.High != nil {
					if h, ok := constInt(x.High); ok {
						need = h
					}
				}
				if x.Low != nil {
					if l, ok := constInt(x.Low); ok && l > need {
						need = l
					}
				}
				if need <= 0 {
					continue
				}
				have := w.lenLowerBound(fn, x.X, b, in)
				if have < need {
					out = append(out, sliceSite{fk, fmt.Sprintf("slice expression needs len >= %d", need), w.posOr(x.Pos(), fn), need, have})
				}
			case *ssa.IndexAddr:
				if !isSliceOrString(x.X.Type()) {
					continue
				}
				if i, ok := constInt(x.Index); ok {
					have := w.lenLowerBound(fn, x.X, b, in)
					if have < i+1 {
						out = append(out, sliceSite{fk, fmt.Sprintf("index [%d] needs len >= %d", i, i+1), w.posOr(x.Pos(), fn), i + 1, have})
					}
				}
			case *ssa.Lookup:
				if !isSliceOrString(x.X.Type()) {
					continue
				}
				if i, ok := constInt(x.Index); ok {
					have := w.lenLowerBound(fn, x.X, b, in)
					if have < i+1 {
						out = append(out, sliceSite{fk, fmt.Sprintf("string index [%d] needs len >= %d", i, i+1), w.posOr(x.Pos(), fn), i + 1, have})
					}
				}
			}
		}
	}
	return out
}

type sliceAllow struct{ Fn, What, Why string }

// ConstSlices: every unguarded constant slice/index in the functions of the given packages is in the accepted table.
func (r *Report) ConstSlices(key string, pkgPrefixes []string, allow []sliceAllow, minFuncs int) {
	w := r.W
	d := fmt.Sprintf("no constant-bound slice/index of a slice or string without an established length in %v (a panic kills the daemon)", pkgPrefixes)
	n := 0
	var sites []sliceSite
	for k, fn := range w.Funcs {
		if len(fn.Blocks) == 0 {
			continue
		}
		ok := false
		for _, p := range pkgPrefixes {
			if strings.HasPrefix(k, p) {
				ok = true
			}
		}
		if !ok || strings.HasSuffix(w.Fset.Position(fn.Pos()).Filename, "_test.go") {
			continue
		}
		n++
		w.FuncsAnalysed[fn] = true
		sites = append(sites, w.UnguardedConstSlices(fn)...)
	}
	sort.Slice(sites, func(i, j int) bool { return sites[i].Fn+sites[i].Pos < sites[j].Fn+sites[j].Pos })
	if n < minFuncs {
		r.Unres(key+"|scope", d, fmt.Sprintf("%d functions scanned, expected >= %d", n, minFuncs))
	}
	cnt := map[string]int{}
	for _, s := range sites {
		k := key + "|unguarded-const-slice|" + s.Fn
		cnt[k]++
		kk := k
		if cnt[k] > 1 {
			kk = fmt.Sprintf("%s#%d", k, cnt[k])
		}
		why := ""
		for _, a := range allow {
			if a.Fn == s.Fn && strings.HasPrefix(s.What, a.What) {
				why = a.Why
			}
		}
		if why != "" {
			r.OK(kk, d, s.Pos, "accepted: "+why)
		} else {
			r.Bad(kk, d, s.Pos, fmt.Sprintf("%s in %s but only len >= %d is established on this path", s.What, s.Fn, s.Have))
		}
	}
	r.OK(key+"|scanned", d, "-", fmt.Sprintf("%d functions scanned, %d unguarded sites", n, len(sites)))
}

var _ = token.NoPos

// ConstSlicesReach: as ConstSlices, over the functions with the given prefix reachable from roots.
func (r *Report) ConstSlicesReach(key string, roots []*ssa.Function, prefix string, allow []sliceAllow, minFuncs int) {
	w := r.W
	d := "no constant-bound slice/index of a slice or string without an established length in code reachable from the daemon goroutines (a panic kills the daemon)"
	if len(roots) == 0 {
		r.Unres(key+"|roots", d, "no goroutine root found")
		return
	}
	reach := w.ReachableFrom(roots, nil)
	n := 0
	var sites []sliceSite
	for fn := range reach {
		if len(fn.Blocks) == 0 || !strings.HasPrefix(FuncKey(fn), prefix) {
			continue
		}
		n++
		w.FuncsAnalysed[fn] = true
		sites = append(sites, w.UnguardedConstSlices(fn)...)
	}
	sort.Slice(sites, func(i, j int) bool { return sites[i].Fn+sites[i].Pos < sites[j].Fn+sites[j].Pos })
	if n < minFuncs {
		r.Unres(key+"|scope", d, fmt.Sprintf("%d functions reachable, expected >= %d", n, minFuncs))
	}
	cnt := map[string]int{}
	for _, s := range sites {
		k := key + "|unguarded-const-slice|" + s.Fn
		cnt[k]++
		kk := k
		if cnt[k] > 1 {
			kk = fmt.Sprintf("%s#%d", k, cnt[k])
		}
		why := ""
		for _, a := range allow {
			if a.Fn == s.Fn && strings.HasPrefix(s.What, a.What) {
				why = a.Why
			}
		}
		if why != "" {
			r.OK(kk, d, s.Pos, "accepted: "+why)
		} else {
			r.Bad(kk, d, s.Pos, fmt.Sprintf("%s in %s but only len >= %d is established on this path", s.What, s.Fn, s.Have))
		}
	}
	var rk []string
	for _, f := range roots {
		rk = append(rk, FuncKey(f))
	}
	r.OK(key+"|scanned", d, "-", fmt.Sprintf("%d functions reachable from roots %v, %d unguarded sites", n, rk, len(sites)))
}
