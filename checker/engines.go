package main

import (
	"fmt"
	"go/constant"
	"go/token"
	"go/types"
	"sort"
	"strings"
	"unicode/utf8"

	"golang.org/x/tools/go/callgraph"
	"golang.org/x/tools/go/ssa"
)

// =====================================================================================
// Effects (what a check must gate)

type Effect struct {
	Kind  string   // "call", "store", "retok", "retconst", "retnonzero", "send"
	Pat   string   // callee pattern / field "Type.Field"
	Val   []string // optional atoms the stored / returned value (or call as a whole) must contain
	Idx   int      // result index for retconst
	Const string   // constant for retconst / store
}

func CallEff(pat string, atoms ...string) Effect { return Effect{Kind: "call", Pat: pat, Val: atoms} }
func StoreEff(field string, atoms ...string) Effect {
	return Effect{Kind: "store", Pat: field, Val: atoms}
}
func RetOK() Effect                      { return Effect{Kind: "retok"} }
func RetConst(idx int, c string) Effect  { return Effect{Kind: "retconst", Idx: idx, Const: c} }
func SendEff(chanAtoms ...string) Effect { return Effect{Kind: "send", Val: chanAtoms} }
func MapUpdEff(atoms ...string) Effect   { return Effect{Kind: "mapupdate", Val: atoms} }

func (e Effect) String() string {
	switch e.Kind {
	case "call":
		if len(e.Val) > 0 {
			return "call " + e.Pat + " with " + strings.Join(e.Val, ",")
		}
		return "call " + e.Pat
	case "store":
		if len(e.Val) > 0 {
			return "store " + e.Pat + " = " + strings.Join(e.Val, ",")
		}
		return "store " + e.Pat
	case "retok":
		return "return with nil error"
	case "retconst":
		return fmt.Sprintf("return result#%d == %s", e.Idx, e.Const)
	case "send":
		return "send on " + strings.Join(e.Val, ",")
	case "mapupdate":
		return "map update " + strings.Join(e.Val, ",")
	case "retval":
		return fmt.Sprintf("return result#%d containing %s", e.Idx, strings.Join(e.Val, ","))
	case "retnot":
		return fmt.Sprintf("return result#%d not containing %s", e.Idx, strings.Join(e.Val, ","))
	}
	return e.Kind
}

func (w *World) Sites(fn *ssa.Function, e Effect) []Site {
	w.FuncsAnalysed[fn] = true
	var out []Site
	for _, b := range fn.Blocks {
		if b == fn.Recover && strings.HasPrefix(e.Kind, "ret") {
			continue // synthetic recover block: not a source-level return
		}
		for _, in := range b.Instrs {
			switch e.Kind {
			case "call":
				if ci, ok := in.(ssa.CallInstruction); ok {
					w.SitesExamined++
					if nameMatch(CalleeName(ci.Common()), e.Pat) {
						if len(e.Val) > 0 {
							t := renderCall(ci)
							if !t.Has(e.Val...) {
								continue
							}
						}
						out = append(out, Site{in, b, "call " + CalleeName(ci.Common())})
					}
				}
			case "store":
				if st, ok := in.(*ssa.Store); ok {
					if fa, ok := st.Addr.(*ssa.FieldAddr); ok {
						if nameMatch(fieldName(fa.X.Type(), fa.Field), e.Pat) {
							if len(e.Val) > 0 && !Render(st.Val).Has(e.Val...) {
								continue
							}
							out = append(out, Site{in, b, "store " + fieldName(fa.X.Type(), fa.Field)})
						}
					}
				}
			case "retok":
				if rt, ok := in.(*ssa.Return); ok {
					idx := errResultIndex(fn)
					if idx >= 0 && idx < len(rt.Results) && isNilConst(retValue(rt, idx)) {
						out = append(out, Site{in, b, "return nil"})
					}
				}
			case "retconst":
				if rt, ok := in.(*ssa.Return); ok && e.Idx < len(rt.Results) {
					if c, ok := seeThrough(retValue(rt, e.Idx)).(*ssa.Const); ok && constString(c) == e.Const {
						out = append(out, Site{in, b, "return " + e.Const})
					}
				}
			case "retval", "retnot":
				if rt, ok := in.(*ssa.Return); ok && e.Idx < len(rt.Results) {
					has := Render(retValue(rt, e.Idx)).Has(e.Val...)
					if (e.Kind == "retval") == has {
						out = append(out, Site{in, b, "return " + clip(Render(rt.Results[e.Idx]).String(), 60)})
					}
				}
			case "index":
				// an element access x[i] of a slice / array whose term carries the atoms
				switch x := in.(type) {
				case *ssa.IndexAddr:
					if Render(x.X).Has(e.Val...) {
						out = append(out, Site{in, b, "index " + clip(Render(x.X).String(), 60)})
					}
				case *ssa.Index:
					if Render(x.X).Has(e.Val...) {
						out = append(out, Site{in, b, "index " + clip(Render(x.X).String(), 60)})
					}
				}
			case "decision":
				// a boolean the function's result depends on: a returned bool value, or a branch condition both of whose
				// successors return a bool constant (the same comparison written `if c { return true }; return false`)
				if rt, ok := in.(*ssa.Return); ok && e.Idx < len(rt.Results) {
					if _, isConst := retValue(rt, e.Idx).(*ssa.Const); !isConst && Render(retValue(rt, e.Idx)).Has(e.Val...) {
						out = append(out, Site{in, b, "return " + clip(Render(rt.Results[e.Idx]).String(), 60)})
					}
				}
				if ifi, ok := in.(*ssa.If); ok && len(b.Succs) == 2 {
					constRet := func(sb *ssa.BasicBlock) bool {
						rt := returnOf(sb)
						if rt == nil || len(sb.Instrs) != 1 || e.Idx >= len(rt.Results) {
							return false
						}
						_, isC := retValue(rt, e.Idx).(*ssa.Const)
						return isC
					}
					if constRet(b.Succs[0]) && constRet(b.Succs[1]) && Render(ifi.Cond).Has(e.Val...) {
						out = append(out, Site{in, b, "branch " + clip(Render(ifi.Cond).String(), 60)})
					}
				}
			case "mapupdate":
				if mu, ok := in.(*ssa.MapUpdate); ok {
					t := &Term{Op: "mapupdate", Args: []*Term{Render(mu.Map), Render(mu.Key), Render(mu.Value)}}
					if t.Has(e.Val...) {
						out = append(out, Site{in, b, "mapupdate"})
					}
				}
			case "send":
				if sd, ok := in.(*ssa.Send); ok {
					if Render(sd.Chan).Has(e.Val...) {
						out = append(out, Site{in, b, "send"})
					}
				}
			}
		}
	}
	return out
}

func renderCall(ci ssa.CallInstruction) *Term {
	if v, ok := ci.(*ssa.Call); ok {
		return Render(v)
	}
	c := ci.Common()
	t := &Term{Op: "call", Name: CalleeName(c)}
	if c.IsInvoke() {
		t.Args = append(t.Args, Render(c.Value))
	}
	for _, a := range c.Args {
		t.Args = append(t.Args, Render(a))
	}
	return t
}

// =====================================================================================
// E3 check-gates-effect

type ifInfo struct {
	b    *ssa.BasicBlock
	pred Pred
}

func (w *World) ifs(fn *ssa.Function) []ifInfo {
	var out []ifInfo
	for _, b := range fn.Blocks {
		if i := ifOf(b); i != nil {
			out = append(out, ifInfo{b, NormalizeCond(i.Cond)})
		}
	}
	return out
}

// gatedBy: is the site gated by some If matching cond? Returns (gated, number of matching Ifs, detail).
func (w *World) gatedBy(fn *ssa.Function, ifs []ifInfo, s Site, c Cond, loopAll ...bool) (bool, int, string) {
	la := len(loopAll) > 0 && loopAll[0]
	maySkip := len(loopAll) > 1 && loopAll[1]
	conditional := len(loopAll) > 2 && loopAll[2]
	matched := 0
	var why []string
	for _, ii := range ifs {
		m, passOnTrue := c.Match(ii.pred)
		if !m {
			continue
		}
		matched++
		pass, fail := ii.b.Succs[0], ii.b.Succs[1]
		if !passOnTrue {
			pass, fail = fail, pass
		}
		_ = pass
		pos := w.Pos(ifOf(ii.b).Cond.Pos())
		if ii.b == s.Block {
			why = append(why, pos+": effect precedes the check in the same block")
			continue
		}
		if !la && !conditional && !ii.b.Dominates(s.Block) {
			why = append(why, pos+": check does not dominate the effect")
			continue
		}
		if la {
			// a per-element check: its loop runs before the effect, and no iteration gets around the check
			if h, ok := iterationAlwaysPasses(fn, ii.b); !ok && !maySkip {
				why = append(why, pos+": an iteration of the loop can avoid the per-element check")
				continue
			} else if h == nil && !ii.b.Dominates(s.Block) {
				// the "per-element" check is in no loop at all (e.g. every path through the body leaves the loop, so there is
				// no back edge): it is an ordinary check and must dominate the effect like one
				why = append(why, pos+": the per-element check is not inside a loop (at most one element is ever checked) and does not dominate the effect")
				continue
			} else if h != nil && !h.Dominates(s.Block) {
				why = append(why, pos+": the loop holding the per-element check does not dominate the effect")
				continue
			} else if h != nil && !maySkip {
				// ... and the loop looks at EVERY element: its only ways out are exhaustion (the header), an error return or a
				// panic - a `break` after the first acceptable element leaves the rest unchecked (seed C13-10)
				early := ""
				if loop := naturalLoops(fn)[h]; loop != nil {
					for b := range loop {
						for _, sc := range b.Succs {
							if loop[sc] || b == h || blockPanics(sc) || returnsNonNilError(sc) {
								continue
							}
							if sc != s.Block && !reachFrom(sc, nil)[s.Block] {
								continue // leaves without ever reaching the effect
							}
							early = fmt.Sprintf("block %d -> %d", b.Index, sc.Index)
						}
					}
				}
				if early != "" {
					why = append(why, pos+": the loop holding the per-element check can stop before all elements were checked ("+early+")")
					continue
				}
			}
		}
		if reachFrom(fail, map[*ssa.BasicBlock]bool{ii.b: true})[s.Block] {
			why = append(why, pos+": effect reachable from the failing edge of the check")
			continue
		}
		return true, matched, pos
	}
	if matched == 0 {
		return false, 0, "no condition in the function matches " + c.String()
	}
	return false, matched, strings.Join(why, "; ")
}

// iterationAlwaysPasses: blk lies in a natural loop and every path from the start of the loop body back to the loop
// header goes through blk. Returns the loop header (nil when blk is in no loop, which LoopAll callers tolerate only if
// dominance holds - handled by the caller through the ordinary reachability test).
func iterationAlwaysPasses(fn *ssa.Function, blk *ssa.BasicBlock) (*ssa.BasicBlock, bool) {
	var loop map[*ssa.BasicBlock]bool
	var header *ssa.BasicBlock
	for h, l := range naturalLoops(fn) {
		if l[blk] && (loop == nil || len(l) < len(loop)) {
			loop, header = l, h
		}
	}
	if loop == nil {
		return nil, true
	}
	if blk == header {
		return header, true
	}
	seen := map[*ssa.BasicBlock]bool{}
	escaped := false
	var walk func(b *ssa.BasicBlock)
	walk = func(b *ssa.BasicBlock) {
		if seen[b] || b == blk || escaped {
			return
		}
		seen[b] = true
		for _, s := range b.Succs {
			if !loop[s] {
				continue
			}
			if s == header {
				escaped = true
				return
			}
			walk(s)
		}
	}
	for _, s := range header.Succs {
		if loop[s] && s != header {
			walk(s)
		}
	}
	return header, !escaped
}

type GateOpts struct {
	MinSites     int
	FailIsError  bool // additionally: every return reachable from the failing edge is a failure return
	AnySite      bool // at least one site must be gated rather than all (rare)
	AnySiteReach bool // the effect must be REACHABLE from the failing edge of the check (best-effort semantics)
	LoopAll      bool // the check sits in a loop over elements ("for all x: check(x)"): dominance is not required,
	// only that the effect is unreachable from the failing edge without re-evaluating the check
	Conditional bool     // the check sits under a condition of its own (e.g. "only when a fee is due"): it need not dominate the effect, but the effect must be unreachable from its failing edge
	LoopOver    []string // with LoopAll: the loop holding the check runs up to len(<term with these atoms>) exactly (not len-1, not a prefix)
	LoopMaySkip bool     // with LoopAll: some iterations legitimately do not evaluate the check (reviewed `continue` / `i > 0 &&`)
}

// Gate: every site of effect e in function fnKey is gated by every cond.
func (r *Report) Gate(key, fnKey string, e Effect, conds []Cond, o GateOpts) {
	w := r.W
	fn := w.Fn(fnKey)
	desc := fmt.Sprintf("in %s every [%s] is gated by %v", fnKey, e, conds)
	if fn == nil {
		r.Unres(key, desc, "function "+fnKey+" not found")
		return
	}
	sites := w.Sites(fn, e)
	min := o.MinSites
	if min == 0 {
		min = 1
	}
	if len(sites) < min {
		r.Unres(key, desc, fmt.Sprintf("effect [%s] has %d sites in %s, expected >= %d", e, len(sites), fnKey, min))
		return
	}
	ifs := w.ifs(fn)
	if o.AnySiteReach {
		for _, c := range conds {
			k := fmt.Sprintf("%s|%s|%s|reach", key, fnKey, c.String())
			dd := fmt.Sprintf("in %s [%s] stays reachable when %s holds", fnKey, e, c.String())
			n, ok := 0, false
			for _, ii := range ifs {
				m, passOnTrue := c.Match(ii.pred)
				if !m {
					continue
				}
				n++
				pass := ii.b.Succs[0]
				if !passOnTrue {
					pass = ii.b.Succs[1]
				}
				reach := reachFrom(pass, map[*ssa.BasicBlock]bool{ii.b: true})
				for _, s := range sites {
					if reach[s.Block] {
						ok = true
					}
				}
			}
			switch {
			case n == 0:
				r.Unres(k, dd, "no condition matches")
			case ok:
				r.OK(k, dd, w.FnPos(fn), "reachable")
			default:
				r.Bad(k, dd, w.FnPos(fn), "the effect is cut off on that edge")
			}
		}
		return
	}
	for _, c := range conds {
		nOK := 0
		for i, s := range sites {
			ok, _, detail := w.gatedBy(fn, ifs, s, c, o.LoopAll, o.LoopMaySkip, o.Conditional)
			if ok && o.LoopAll && len(o.LoopOver) > 0 {
				if why := w.loopBoundMismatch(fn, ifs, c, o.LoopOver); why != "" {
					ok, detail = false, why
				}
			}
			k := fmt.Sprintf("%s|%s|%s", key, fnKey, c.String())
			if len(sites) > 1 {
				k += fmt.Sprintf("#%d", i)
			}
			d := fmt.Sprintf("in %s [%s] gated by %s", fnKey, s.Label, c.String())
			if ok {
				nOK++
				if !o.AnySite {
					r.OK(k, d, w.Pos(s.Instr.Pos()), "gated by check at "+detail)
				}
			} else if !o.AnySite {
				r.Bad(k, d, w.posOr(s.Instr.Pos(), fn), detail)
			}
		}
		if o.AnySite {
			k := fmt.Sprintf("%s|%s|%s", key, fnKey, c.String())
			d := fmt.Sprintf("in %s some [%s] gated by %s", fnKey, e, c.String())
			if nOK > 0 {
				r.OK(k, d, w.FnPos(fn), fmt.Sprintf("%d of %d sites gated", nOK, len(sites)))
			} else {
				r.Bad(k, d, w.FnPos(fn), "no site gated")
			}
		}
		if o.FailIsError {
			r.failIsError(key, fn, fnKey, ifs, c)
		}
	}
}

func (w *World) posOr(p token.Pos, fn *ssa.Function) string {
	if p.IsValid() {
		return w.Pos(p)
	}
	return w.FnPos(fn)
}

// failIsError: for every If matching c, every return reachable from its failing edge (without re-evaluating it)
// is a failure return.
func (r *Report) failIsError(key string, fn *ssa.Function, fnKey string, ifs []ifInfo, c Cond) {
	w := r.W
	n := 0
	for _, ii := range ifs {
		m, passOnTrue := c.Match(ii.pred)
		if !m {
			continue
		}
		n++
		fail := ii.b.Succs[1]
		if !passOnTrue {
			fail = ii.b.Succs[0]
		}
		k := fmt.Sprintf("%s|%s|fail-is-error|%s", key, fnKey, c.String())
		d := fmt.Sprintf("in %s when %s fails every reachable return carries a non-nil error", fnKey, c.String())
		bad := ""
		for b := range reachFrom(fail, map[*ssa.BasicBlock]bool{ii.b: true}) {
			if rt := returnOf(b); rt != nil {
				idx := errResultIndex(fn)
				if idx >= 0 && idx < len(rt.Results) && isNilConst(retValue(rt, idx)) {
					bad = w.posOr(rt.Pos(), fn)
				}
			}
		}
		if bad != "" {
			r.Bad(k, d, bad, "a nil-error return is reachable from the failing edge of the check at "+w.Pos(ifOf(ii.b).Cond.Pos()))
		} else {
			r.OK(k, d, w.Pos(ifOf(ii.b).Cond.Pos()), "all returns reachable from the failing edge are error returns")
		}
	}
	if n == 0 {
		r.Unres(fmt.Sprintf("%s|%s|fail-is-error|%s", key, fnKey, c.String()), "check exists", "no condition matches "+c.String())
	}
}

// CondExists: a condition matching c exists in fn (used for decision-table rules), returning count.
func (r *Report) CondExists(key, fnKey string, c Cond, want int) {
	w := r.W
	fn := w.Fn(fnKey)
	d := fmt.Sprintf("%s has %d condition(s) of the form %s", fnKey, want, c.String())
	if fn == nil {
		r.Unres(key, d, "function not found")
		return
	}
	w.FuncsAnalysed[fn] = true
	n := 0
	pos := ""
	for _, ii := range w.ifs(fn) {
		if m, _ := c.Match(ii.pred); m {
			n++
			pos = w.Pos(ifOf(ii.b).Cond.Pos())
		}
	}
	k := key + "|" + fnKey + "|" + c.String()
	if n >= want {
		r.OK(k, d, pos, fmt.Sprintf("%d found", n))
	} else {
		r.Bad(k, d, w.FnPos(fn), fmt.Sprintf("%d found", n))
	}
}

// =====================================================================================
// E1 who-may-call

func rootFn(fn *ssa.Function) *ssa.Function {
	for fn.Parent() != nil {
		fn = fn.Parent()
	}
	return fn
}

type callerEdge struct {
	Caller *ssa.Function // real (non-synthetic) caller, root-normalised for closures in Key
	Site   ssa.CallInstruction
}

// CallersOf lists call edges into fn, eliding synthetic wrappers/thunks/bound-method closures.
func (w *World) CallersOf(fn *ssa.Function) []callerEdge {
	cg := w.CG()
	var out []callerEdge
	seen := map[*ssa.Function]bool{}
	var rec func(f *ssa.Function, d int)
	rec = func(f *ssa.Function, d int) {
		if seen[f] || d > 6 {
			return
		}
		seen[f] = true
		n := cg.Nodes[f]
		if n == nil {
			return
		}
		for _, e := range n.In {
			c := e.Caller.Func
			if c.Synthetic != "" && c.Parent() == nil {
				rec(c, d+1)
				continue
			}
			out = append(out, callerEdge{c, e.Site})
		}
	}
	rec(fn, 0)
	// generic instantiations / origin
	return out
}

// Callers: the set of in-scope callers of target must equal-or-be-subset of allowed; every `must` caller must exist.
func (r *Report) Callers(key, target string, allowed []string, must []string) {
	w := r.W
	fn := w.Fn(target)
	d := fmt.Sprintf("callers of %s ⊆ {%s}", target, strings.Join(allowed, ", "))
	if fn == nil {
		r.Unres(key+"|"+target, d, "function not found")
		return
	}
	got := map[string]string{}
	for _, e := range w.CallersOf(fn) {
		if !inRepoScope(e.Caller) {
			continue
		}
		k := FuncKey(rootFn(e.Caller))
		pos := "-"
		if e.Site != nil {
			pos = w.Pos(e.Site.Pos())
		}
		if _, ok := got[k]; !ok {
			got[k] = pos
		}
		w.SitesExamined++
	}
	allow := map[string]bool{}
	for _, a := range allowed {
		allow[a] = true
	}
	for _, c := range sortedKeys(got) {
		ok := false
		for a := range allow {
			if nameMatch(c, a) {
				ok = true
			}
		}
		if ok {
			r.OK(key+"|"+target+"<-"+c, d, got[c], "allowed caller")
		} else {
			r.Bad(key+"|"+target+"<-"+c, d, got[c], "caller "+c+" is not in the allowed set")
		}
	}
	for _, m := range must {
		found := false
		for c := range got {
			if nameMatch(c, m) {
				found = true
			}
		}
		if !found {
			r.Unres(key+"|"+target+"<-"+m+"#stale", d, "expected caller "+m+" no longer calls "+target+" (stale table)")
		}
	}
}

// =====================================================================================
// E5 exactly-once

// Count: number of executions of calls matching pats along entry->exit paths of fn must be within [min,max]
// (max<0 = unbounded allowed). exits: "ok" = returns that are not provable failure returns, "all" = all returns.
func (r *Report) Count(key, fnKey string, effs []Effect, exits string, min, max int) {
	w := r.W
	fn := w.Fn(fnKey)
	names := []string{}
	for _, e := range effs {
		names = append(names, e.String())
	}
	d := fmt.Sprintf("on every %s path of %s the number of [%s] is in [%d,%d]", exits, fnKey, strings.Join(names, " | "), min, max)
	k := key + "|" + fnKey + "|" + strings.Join(names, "+")
	if fn == nil {
		r.Unres(k, d, "function not found")
		return
	}
	set := map[ssa.Instruction]bool{}
	for _, e := range effs {
		for _, s := range w.Sites(fn, e) {
			set[s.Instr] = true
		}
	}
	if len(set) == 0 && min > 0 {
		r.Unres(k, d, "no effect site found")
		return
	}
	ex := map[*ssa.BasicBlock]bool{}
	for _, b := range fn.Blocks {
		if b == fn.Recover {
			continue
		}
		if rt := returnOf(b); rt != nil {
			if exits == "ok" && returnIsFailure(fn, rt) {
				continue
			}
			if exits == "fail" && !returnIsFailure(fn, rt) {
				continue
			}
			if exits == "fail" && len(rt.Results) > 0 {
				// the failure being returned is the counted effect's own error (`if err := eff(); err != nil { return err }`,
				// equivalently `return eff()`): the effect did not take place
				v := rt.Results[len(rt.Results)-1]
				if ex, ok := v.(*ssa.Extract); ok {
					v = ex.Tuple
				}
				if ins, ok := v.(ssa.Instruction); ok && set[ins] {
					continue
				}
			}
			ex[b] = true
		}
	}
	mn, mx, ok := pathCount(fn, set, ex)
	if !ok {
		r.Unres(k, d, "no exit reachable")
		return
	}
	det := fmt.Sprintf("measured min=%d max=%d over %d effect sites, %d exits", mn, mx, len(set), len(ex))
	if mn < min || (max >= 0 && (mx < 0 || mx > max)) {
		r.Bad(k, d, w.FnPos(fn), det)
	} else {
		r.OK(k, d, w.FnPos(fn), det)
	}
}

// =====================================================================================
// E12 provenance

// argValue returns the SSA value of declared parameter #idx (receiver excluded) at a call.
func argValue(c *ssa.CallCommon, idx int) ssa.Value {
	off := 0
	if !c.IsInvoke() {
		if sig, ok := c.Value.Type().Underlying().(*types.Signature); ok && sig.Recv() != nil {
			off = 1
		} else if f, ok := c.Value.(*ssa.Function); ok && f.Signature.Recv() != nil {
			off = 1
		}
	}
	if f := c.StaticCallee(); f != nil && idx >= 0 && len(f.Params) == len(c.Args) {
		idx = permutedIndex(f, idx+off) - off // a reordered signature: the table's position follows the parameter's name
	}
	if idx+off < len(c.Args) && idx+off >= 0 {
		return c.Args[idx+off]
	}
	return nil
}

// recvValue returns the receiver value at a method call.
func recvValue(c *ssa.CallCommon) ssa.Value {
	if c.IsInvoke() {
		return c.Value
	}
	if f, ok := c.Value.(*ssa.Function); ok && f.Signature.Recv() != nil && len(c.Args) > 0 {
		return c.Args[0]
	}
	return nil
}

// ArgHas: at every call of callee in fn, argument #idx (idx -1 = receiver) renders to a term containing atoms.
func (r *Report) ArgHas(key, fnKey, callee string, idx int, minSites int, atoms ...string) {
	w := r.W
	fn := w.Fn(fnKey)
	d := fmt.Sprintf("in %s argument #%d of %s derives from {%s}", fnKey, idx, callee, strings.Join(atoms, ", "))
	k := fmt.Sprintf("%s|%s|%s#%d", key, fnKey, callee, idx)
	if fn == nil {
		r.Unres(k, d, "function not found")
		return
	}
	w.FuncsAnalysed[fn] = true
	calls := Calls(fn, callee)
	if minSites == 0 {
		minSites = 1
	}
	if len(calls) < minSites {
		r.Unres(k, d, fmt.Sprintf("%d call sites of %s, expected >= %d", len(calls), callee, minSites))
		return
	}
	for i, ci := range calls {
		var v ssa.Value
		if idx < 0 {
			v = recvValue(ci.Common())
		} else {
			v = argValue(ci.Common(), idx)
		}
		kk := k
		if len(calls) > 1 {
			kk = fmt.Sprintf("%s@%d", k, i)
		}
		if v == nil {
			r.Unres(kk, d, "argument not present")
			continue
		}
		t := Render(v)
		w.SitesExamined++
		missing := []string{}
		for _, a := range atoms {
			if !t.Has(a) {
				missing = append(missing, a)
			}
		}
		if len(missing) == 0 {
			r.OK(kk, d, w.Pos(ci.Pos()), "term: "+clip(t.String(), 200))
		} else {
			r.Bad(kk, d, w.posOr(ci.Pos(), fn), "missing "+strings.Join(missing, ", ")+" in term "+clip(t.String(), 300))
		}
	}
}

// ArgLacks: the argument must NOT contain any of the atoms.
func (r *Report) ArgLacks(key, fnKey, callee string, idx int, atoms ...string) {
	w := r.W
	fn := w.Fn(fnKey)
	d := fmt.Sprintf("in %s argument #%d of %s does not derive from {%s}", fnKey, idx, callee, strings.Join(atoms, ", "))
	k := fmt.Sprintf("%s|%s|%s#%d|lacks", key, fnKey, callee, idx)
	if fn == nil {
		r.Unres(k, d, "function not found")
		return
	}
	calls := Calls(fn, callee)
	if len(calls) == 0 {
		r.Unres(k, d, "no call site of "+callee)
		return
	}
	for i, ci := range calls {
		v := argValue(ci.Common(), idx)
		if idx < 0 {
			v = recvValue(ci.Common())
		}
		kk := fmt.Sprintf("%s@%d", k, i)
		if v == nil {
			r.Unres(kk, d, "argument not present")
			continue
		}
		t := Render(v)
		at := t.Atoms()
		found := []string{}
		for _, a := range atoms {
			if atomsHave(at, a) {
				found = append(found, a)
			}
		}
		if len(found) == 0 {
			r.OK(kk, d, w.Pos(ci.Pos()), "term: "+clip(t.String(), 200))
		} else {
			r.Bad(kk, d, w.posOr(ci.Pos(), fn), "contains "+strings.Join(found, ", ")+": "+clip(t.String(), 300))
		}
	}
}

func clip(s string, n int) string {
	if len(s) > n {
		for n > 0 && !utf8.RuneStart(s[n]) { // never cut inside a multi-byte rune (log strings carry emoji)
			n--
		}
		return s[:n] + "…"
	}
	return s
}

type ArgRef struct {
	Callee string
	Idx    int
}

// SameValue: in fn, the listed (callee,arg) operands are all the same SSA value (after seeing through
// conversions and single-store locals).
func (r *Report) SameValue(key, fnKey string, refs ...ArgRef) {
	w := r.W
	fn := w.Fn(fnKey)
	var names []string
	for _, a := range refs {
		names = append(names, fmt.Sprintf("%s#%d", a.Callee, a.Idx))
	}
	d := fmt.Sprintf("in %s the operands %s are one and the same value", fnKey, strings.Join(names, ", "))
	k := key + "|" + fnKey + "|" + strings.Join(names, "=")
	if fn == nil {
		r.Unres(k, d, "function not found")
		return
	}
	w.FuncsAnalysed[fn] = true
	var vals []ssa.Value
	for _, a := range refs {
		cs := Calls(fn, a.Callee)
		if len(cs) == 0 {
			r.Unres(k, d, "no call of "+a.Callee)
			return
		}
		for _, c := range cs {
			var v ssa.Value
			if a.Idx < 0 {
				v = recvValue(c.Common())
			} else {
				v = argValue(c.Common(), a.Idx)
			}
			if v == nil {
				r.Unres(k, d, "argument missing at "+a.Callee)
				return
			}
			vals = append(vals, canonValue(v))
		}
	}
	for i := 1; i < len(vals); i++ {
		if !sameCanon(vals[0], vals[i]) {
			r.Bad(k, d, w.FnPos(fn), fmt.Sprintf("operand 0 is %s but operand %d is %s", clip(Render(vals[0]).String(), 120), i, clip(Render(vals[i]).String(), 120)))
			return
		}
	}
	r.OK(k, d, w.FnPos(fn), "value: "+clip(Render(vals[0]).String(), 160))
}

// canonValue sees through conversions, single-store locals and loads of the same address.
func canonValue(v ssa.Value) ssa.Value {
	v = seeThrough(v)
	return v
}

func sameCanon(a, b ssa.Value) bool {
	if a == b {
		return true
	}
	// two loads of the same address with no intervening store
	ua, ok1 := a.(*ssa.UnOp)
	ub, ok2 := b.(*ssa.UnOp)
	if ok1 && ok2 && ua.Op == token.MUL && ub.Op == token.MUL {
		return sameAddr(ua.X, ub.X) && !storeBetween(ua, ub) && !storeBetween(ub, ua)
	}
	ca, ok1 := a.(*ssa.Const)
	cb, ok2 := b.(*ssa.Const)
	if ok1 && ok2 {
		return constString(ca) == constString(cb) && types.Identical(ca.Type(), cb.Type())
	}
	// same field of same value
	fa, ok1 := a.(*ssa.Field)
	fb, ok2 := b.(*ssa.Field)
	if ok1 && ok2 && fa.Field == fb.Field {
		return sameCanon(canonValue(fa.X), canonValue(fb.X))
	}
	// extracts of the same tuple
	ea, ok1 := a.(*ssa.Extract)
	eb, ok2 := b.(*ssa.Extract)
	if ok1 && ok2 && ea.Index == eb.Index && ea.Tuple == eb.Tuple {
		return true
	}
	return false
}

// storeBetween: some store to the address loaded by l1 can execute after l1 and before l2.
func storeBetween(l1, l2 *ssa.UnOp) bool {
	fn := l1.Parent()
	for _, b := range fn.Blocks {
		for _, in := range b.Instrs {
			st, ok := in.(*ssa.Store)
			if !ok || !(sameAddr(st.Addr, l1.X) || addrPrefix(st.Addr, l1.X)) {
				continue
			}
			// after l1?
			after := false
			if st.Block() == l1.Block() {
				after = instrIndex(st) > instrIndex(l1)
			}
			if !after {
				for _, s := range l1.Block().Succs {
					if reachFrom(s, nil)[st.Block()] {
						after = true
					}
				}
			}
			if !after {
				continue
			}
			before := false
			if st.Block() == l2.Block() {
				before = instrIndex(st) < instrIndex(l2)
			}
			if !before {
				for _, s := range st.Block().Succs {
					if reachFrom(s, nil)[l2.Block()] {
						before = true
					}
				}
			}
			if before {
				return true
			}
		}
	}
	return false
}

// addrPrefix: a is the whole-struct address of which b is a field address (a store to the struct overwrites b).
func addrPrefix(a, b ssa.Value) bool {
	for i := 0; i < 6; i++ {
		fb, ok := b.(*ssa.FieldAddr)
		if !ok {
			return false
		}
		if fb.X == a {
			return true
		}
		b = fb.X
	}
	return false
}

func sameAddr(a, b ssa.Value) bool {
	if a == b {
		return true
	}
	fa, ok1 := a.(*ssa.FieldAddr)
	fb, ok2 := b.(*ssa.FieldAddr)
	if ok1 && ok2 && fa.Field == fb.Field {
		return sameAddr(fa.X, fb.X) || sameCanon(canonValue(fa.X), canonValue(fb.X))
	}
	return false
}

// =====================================================================================
// Field-store census: functions that store to field (optionally a value containing atoms) ⊆ allowed

func (r *Report) FieldWriters(key, field string, valAtoms []string, allowed []string, scopePkgs []string) {
	w := r.W
	d := fmt.Sprintf("stores to %s %v occur only in {%s}", field, valAtoms, strings.Join(allowed, ", "))
	found := map[string]string{}
	for k, fn := range w.Funcs {
		if !inRepoScope(fn) || len(fn.Blocks) == 0 {
			continue
		}
		if len(scopePkgs) > 0 {
			ok := false
			for _, p := range scopePkgs {
				if strings.HasPrefix(k, p) {
					ok = true
				}
			}
			if !ok {
				continue
			}
		}
		if strings.HasSuffix(w.Fset.Position(fn.Pos()).Filename, ".pb.go") {
			continue
		}
		for _, s := range w.Sites(fn, StoreEff(field, valAtoms...)) {
			rk := FuncKey(rootFn(fn))
			if _, ok := found[rk]; !ok {
				found[rk] = w.Pos(s.Instr.Pos())
			}
		}
	}
	if len(found) == 0 {
		r.Unres(key+"|"+field, d, "no store site found at all")
		return
	}
	for _, f := range sortedKeys(found) {
		ok := false
		for _, a := range allowed {
			if nameMatch(f, a) {
				ok = true
			}
		}
		kk := fmt.Sprintf("%s|%s%v<-%s", key, field, valAtoms, f)
		if ok {
			r.OK(kk, d, found[f], "allowed writer")
		} else {
			r.Bad(kk, d, found[f], f+" writes "+field+" but is not in the allowed set")
		}
	}
	for _, a := range allowed {
		hit := false
		for f := range found {
			if nameMatch(f, a) {
				hit = true
			}
		}
		if !hit {
			r.Unres(fmt.Sprintf("%s|%s%v<-%s#stale", key, field, valAtoms, a), d, "expected writer "+a+" no longer writes the field (stale table)")
		}
	}
}

// =====================================================================================
// Roots

type Roots struct {
	Msg, ABCI, IBC, Hook, Ante, Daemon map[*ssa.Function]string
}

func implementsIface(w *World, t types.Type, pkgRel, ifaceName string) bool {
	p := w.PkgBy[pkgRel]
	if p == nil {
		return false
	}
	o := p.Types.Scope().Lookup(ifaceName)
	if o == nil {
		return false
	}
	it, ok := o.Type().Underlying().(*types.Interface)
	if !ok {
		return false
	}
	return types.Implements(t, it) || types.Implements(types.NewPointer(t), it)
}

func (w *World) methodsOf(t types.Type) []*ssa.Function {
	var out []*ssa.Function
	for _, tt := range []types.Type{t, types.NewPointer(t)} {
		ms := w.Prog.MethodSets.MethodSet(tt)
		for i := 0; i < ms.Len(); i++ {
			f := w.Prog.MethodValue(ms.At(i))
			if f != nil {
				// unwrap synthetic pointer-receiver wrapper to declared function
				if f.Synthetic != "" {
					if o, ok := f.Object().(*types.Func); ok {
						if real := w.Funcs[ObjKey(o)]; real != nil {
							f = real
						}
					}
				}
				out = append(out, f)
			}
		}
	}
	return out
}

func (w *World) ComputeRoots() *Roots {
	r := &Roots{Msg: map[*ssa.Function]string{}, ABCI: map[*ssa.Function]string{}, IBC: map[*ssa.Function]string{}, Hook: map[*ssa.Function]string{}, Ante: map[*ssa.Function]string{}, Daemon: map[*ssa.Function]string{}}
	for rel, p := range w.PkgBy {
		if scopeExcluded(rel) {
			continue
		}
		scope := p.Types.Scope()
		for _, name := range scope.Names() {
			tn, ok := scope.Lookup(name).(*types.TypeName)
			if !ok || tn.IsAlias() {
				continue
			}
			t := tn.Type()
			if _, isIface := t.Underlying().(*types.Interface); isIface {
				continue
			}
			// msg servers: x/<m>/keeper types implementing x/<m>/types.MsgServer
			if strings.HasPrefix(rel, "x/") && strings.HasSuffix(rel, "/keeper") {
				typesPkg := strings.TrimSuffix(rel, "/keeper") + "/types"
				if implementsIface(w, t, typesPkg, "MsgServer") {
					ip := w.PkgBy[typesPkg].Types.Scope().Lookup("MsgServer").Type().Underlying().(*types.Interface)
					for i := 0; i < ip.NumMethods(); i++ {
						mn := ip.Method(i).Name()
						if f := w.Funcs[rel+"."+name+"."+mn]; f != nil {
							r.Msg[f] = "msg"
						}
					}
				}
			}
			if name == "AppModule" && strings.HasPrefix(rel, "x/") {
				for _, mn := range []string{"BeginBlock", "EndBlock", "PreBlock"} {
					if f := w.Funcs[rel+".AppModule."+mn]; f != nil {
						r.ABCI[f] = "abci"
					}
				}
			}
			if name == "IBCModule" || name == "AppModule" {
				for _, mn := range []string{"OnRecvPacket", "OnAcknowledgementPacket", "OnTimeoutPacket", "OnChanOpenInit", "OnChanOpenTry", "OnChanOpenAck", "OnChanOpenConfirm", "OnChanCloseInit", "OnChanCloseConfirm"} {
					if f := w.Funcs[rel+"."+name+"."+mn]; f != nil {
						r.IBC[f] = "ibc"
					}
				}
			}
			if name == "Hooks" && rel == "x/restake/keeper" {
				for _, f := range w.methodsOf(t) {
					if inRepoScope(f) {
						r.Hook[f] = "hook"
					}
				}
			}
			for _, mn := range []string{"AnteHandle", "PostHandle", "CheckTxFee", "CheckTxFeeWithMinGasPrices"} {
				if f := w.Funcs[rel+"."+name+"."+mn]; f != nil {
					r.Ante[f] = "ante"
				}
			}
		}
	}
	return r
}

// =====================================================================================
// E6 conditional-commit discipline (backward ctx-provenance walk)

type ctxClass int

const (
	ctxUnknown ctxClass = iota
	ctxParam
	ctxCache
	ctxFresh // context built from scratch (e.g. NewContext) – only in queries / init
)

func isSDKContext(t types.Type) bool {
	n := namedOf(t)
	if n == nil || n.Obj().Pkg() == nil {
		return false
	}
	return (n.Obj().Name() == "Context" && (n.Obj().Pkg().Path() == "github.com/cosmos/cosmos-sdk/types" || n.Obj().Pkg().Path() == "context"))
}

// ctxOrigin classifies where a context value comes from. For ctxCache the CacheContext call is returned.
func ctxOrigin(v ssa.Value, depth int) (ctxClass, *ssa.Call) {
	if depth > 25 || v == nil {
		return ctxUnknown, nil
	}
	switch x := v.(type) {
	case *ssa.Parameter:
		return ctxParam, nil
	case *ssa.Extract:
		if c, ok := x.Tuple.(*ssa.Call); ok {
			n := CalleeName(&c.Call)
			if nameMatch(n, "Context.CacheContext") && x.Index == 0 {
				return ctxCache, c
			}
		}
		return ctxUnknown, nil
	case *ssa.Call:
		n := CalleeName(&x.Call)
		if nameMatch(n, "UnwrapSDKContext") || nameMatch(n, "WrapSDKContext") {
			return ctxOrigin(x.Call.Args[0], depth+1)
		}
		// ctx.WithX(...) methods returning a Context
		if !x.Call.IsInvoke() && len(x.Call.Args) > 0 && isSDKContext(x.Call.Args[0].Type()) && isSDKContext(x.Type()) {
			return ctxOrigin(x.Call.Args[0], depth+1)
		}
		if nameMatch(n, "NewContext") || nameMatch(n, "NewUncachedContext") {
			return ctxFresh, nil
		}
		return ctxUnknown, nil
	case *ssa.UnOp:
		if x.Op == token.MUL {
			switch a := x.X.(type) {
			case *ssa.Alloc:
				return combineStores(a, depth)
			case *ssa.FreeVar:
				return freeVarOrigin(a, depth)
			}
		}
		return ctxUnknown, nil
	case *ssa.FreeVar:
		return freeVarOrigin(x, depth)
	case *ssa.Phi:
		cls := ctxUnknown
		var cc *ssa.Call
		for i, e := range x.Edges {
			c, k := ctxOrigin(e, depth+1)
			if i == 0 {
				cls, cc = c, k
			} else if c != cls {
				if c == ctxParam || cls == ctxParam {
					return ctxParam, nil
				}
				return ctxUnknown, nil
			}
		}
		return cls, cc
	case *ssa.ChangeType:
		return ctxOrigin(x.X, depth+1)
	case *ssa.MakeInterface:
		return ctxOrigin(x.X, depth+1)
	case *ssa.ChangeInterface:
		return ctxOrigin(x.X, depth+1)
	case *ssa.TypeAssert:
		return ctxOrigin(x.X, depth+1)
	}
	return ctxUnknown, nil
}

func combineStores(a *ssa.Alloc, depth int) (ctxClass, *ssa.Call) {
	cls := ctxUnknown
	var cc *ssa.Call
	first := true
	if a.Referrers() == nil {
		return ctxUnknown, nil
	}
	for _, ref := range *a.Referrers() {
		st, ok := ref.(*ssa.Store)
		if !ok || st.Addr != a {
			continue
		}
		c, k := ctxOrigin(st.Val, depth+1)
		if first {
			cls, cc, first = c, k, false
		} else if c != cls {
			if c == ctxParam || cls == ctxParam {
				return ctxParam, nil
			}
			return ctxUnknown, nil
		}
	}
	return cls, cc
}

func freeVarOrigin(fv *ssa.FreeVar, depth int) (ctxClass, *ssa.Call) {
	fn := fv.Parent()
	par := fn.Parent()
	if par == nil {
		return ctxUnknown, nil
	}
	idx := -1
	for i, f := range fn.FreeVars {
		if f == fv {
			idx = i
		}
	}
	for _, b := range par.Blocks {
		for _, in := range b.Instrs {
			if mc, ok := in.(*ssa.MakeClosure); ok && mc.Fn == fn && idx >= 0 && idx < len(mc.Bindings) {
				bv := mc.Bindings[idx]
				if a, ok := bv.(*ssa.Alloc); ok {
					return combineStores(a, depth+1)
				}
				return ctxOrigin(bv, depth+1)
			}
		}
	}
	return ctxUnknown, nil
}

// ctxArgAt finds the context-typed argument of a call.
func ctxArgAt(c *ssa.CallCommon) ssa.Value {
	for _, a := range c.Args {
		if isSDKContext(a.Type()) {
			// skip the receiver if the receiver itself is a Context (method on ctx)
			return a
		}
	}
	return nil
}

// HasRecoverBarrier: fn defers a closure that calls recover() and assigns a non-nil error to a variable that is
// one of fn's NAMED RESULTS (i.e. the value the function returns after the recovery). Assigning to an ordinary
// local does not convert the panic into an error: the function would return the zero values.
func HasRecoverBarrier(fn *ssa.Function) bool {
	if fn.Recover == nil {
		return false
	}
	// allocs whose value is returned from the recover block = named results
	named := map[ssa.Value]bool{}
	if rt := returnOf(fn.Recover); rt != nil {
		for _, rv := range rt.Results {
			if u, ok := rv.(*ssa.UnOp); ok && u.Op == token.MUL {
				named[u.X] = true
			}
		}
	}
	if len(named) == 0 {
		return false
	}
	for _, b := range fn.Blocks {
		for _, in := range b.Instrs {
			d, ok := in.(*ssa.Defer)
			if !ok {
				continue
			}
			// `defer handler(…, &err)`: a named function that calls recover() itself and stores a non-nil error through the
			// pointer parameter that receives the address of the named result
			if df, isFn := d.Call.Value.(*ssa.Function); isFn && len(df.Blocks) > 0 {
				for ai, a := range d.Call.Args {
					if !named[a] || ai >= len(df.Params) {
						continue
					}
					hasRec, sets := false, false
					for _, cb := range df.Blocks {
						for _, ci := range cb.Instrs {
							if c, ok := ci.(*ssa.Call); ok && CalleeName(&c.Call) == "builtin.recover" {
								hasRec = true
							}
							if st, ok := ci.(*ssa.Store); ok && st.Addr == ssa.Value(df.Params[ai]) && isErrorType(st.Val.Type()) && !isNilConst(st.Val) {
								sets = true
							}
						}
					}
					if hasRec && sets {
						return true
					}
				}
			}
			mc, ok := d.Call.Value.(*ssa.MakeClosure)
			if !ok {
				continue
			}
			cf, _ := mc.Fn.(*ssa.Function)
			if cf == nil {
				continue
			}
			hasRecover, setsErr := false, false
			for _, cb := range cf.Blocks {
				for _, ci := range cb.Instrs {
					if c, ok := ci.(*ssa.Call); ok && CalleeName(&c.Call) == "builtin.recover" {
						hasRecover = true
					}
					if st, ok := ci.(*ssa.Store); ok {
						fv, ok := st.Addr.(*ssa.FreeVar)
						if !ok || !isErrorType(st.Val.Type()) || isNilConst(st.Val) {
							continue
						}
						for i, f := range cf.FreeVars {
							if f == fv && i < len(mc.Bindings) && named[mc.Bindings[i]] {
								setsErr = true
							}
						}
					}
				}
			}
			if hasRecover && setsErr && recoverAlwaysSetsErr(cf, func(st *ssa.Store) bool {
				fv, ok := st.Addr.(*ssa.FreeVar)
				if !ok || !isErrorType(st.Val.Type()) || isNilConst(st.Val) {
					return false
				}
				for i, f := range cf.FreeVars {
					if f == fv && i < len(mc.Bindings) && named[mc.Bindings[i]] {
						return true
					}
				}
				return false
			}) {
				return true
			}
		}
	}
	return false
}

// writeFnDiscipline: the writeFn paired with CacheContext call cc is called at least once and every call is gated
// by `err == nil` of a call that received the cached context.
func (w *World) writeFnDiscipline(fn *ssa.Function, cc *ssa.Call) (bool, string) {
	var writeFn ssa.Value
	var cacheCtx ssa.Value
	if cc.Referrers() != nil {
		for _, ref := range *cc.Referrers() {
			if ex, ok := ref.(*ssa.Extract); ok {
				if ex.Index == 1 {
					writeFn = ex
				} else {
					cacheCtx = ex
				}
			}
		}
	}
	if writeFn == nil || cacheCtx == nil {
		return false, "writeFn of CacheContext is discarded: nothing is ever committed or the pairing is lost"
	}
	// calls of writeFn (possibly through a local)
	var wcalls []ssa.Instruction
	for _, b := range fn.Blocks {
		for _, in := range b.Instrs {
			if ci, ok := in.(ssa.CallInstruction); ok {
				if seeThrough(ci.Common().Value) == writeFn {
					wcalls = append(wcalls, in)
				}
			}
		}
	}
	if len(wcalls) == 0 {
		return false, "writeFn is never called"
	}
	// calls that receive the cached ctx and return an error
	type ucall struct {
		call *ssa.Call
		name string
	}
	var users []ucall
	for _, b := range fn.Blocks {
		for _, in := range b.Instrs {
			c, ok := in.(*ssa.Call)
			if !ok || c == cc {
				continue
			}
			for _, a := range c.Call.Args {
				if cls, k := ctxOrigin(a, 0); cls == ctxCache && k == cc && isSDKContext(a.Type()) {
					users = append(users, ucall{c, CalleeName(&c.Call)})
					break
				}
			}
		}
	}
	if len(users) == 0 {
		return false, "no call receives the cached context"
	}
	ifs := w.ifs(fn)
	for _, wc := range wcalls {
		if _, isDefer := wc.(*ssa.Defer); isDefer {
			return false, "writeFn is deferred: it runs on the error path too (" + w.Pos(wc.Pos()) + ")"
		}
		for _, u := range users {
			res := u.call.Call.Signature().Results()
			hasErr := false
			for i := 0; i < res.Len(); i++ {
				if isErrorType(res.At(i).Type()) {
					hasErr = true
				}
			}
			if !hasErr {
				continue
			}
			name := u.name
			if name == "" {
				name = "<dynamic>"
			}
			c := Cond{Op: "EQL", A: []string{"call:" + name}, B: []string{"const:nil"}, Want: true}
			ok, _, detail := w.gatedBy(fn, ifs, Site{wc, wc.Block(), "writeFn()"}, c)
			if !ok {
				return false, fmt.Sprintf("writeFn() at %s is not gated by `%s(cacheCtx,…) == nil`: %s", w.Pos(wc.Pos()), name, detail)
			}
		}
	}
	return true, fmt.Sprintf("%d writeFn call(s), each gated by err==nil of %d call(s) on the cached context", len(wcalls), len(users))
}

type walkResult struct {
	Boundaries map[string]string // boundary function -> detail
	Violations [][]string        // call paths reaching an abci root unprotected
	BadBound   map[string]string
	RootsHit   map[string]bool
	Unknown    []string
}

// CommitWalk walks backwards from target; need = "cache" (must cross a conditional-commit boundary) or
// "recover" (must cross a recover barrier) before reaching an abci root.
func (w *World) CommitWalk(target *ssa.Function, roots *Roots, need string) *walkResult {
	res := &walkResult{Boundaries: map[string]string{}, BadBound: map[string]string{}, RootsHit: map[string]bool{}}
	type state struct {
		fn *ssa.Function
	}
	seen := map[*ssa.Function]bool{}
	var rec func(fn *ssa.Function, path []string)
	rec = func(fn *ssa.Function, path []string) {
		if seen[fn] || len(path) > 40 {
			return
		}
		seen[fn] = true
		w.FuncsAnalysed[fn] = true
		if need == "recover" && HasRecoverBarrier(fn) {
			res.Boundaries[FuncKey(fn)] = "defer recover() converting the panic into the error result"
			return
		}
		rf := rootFn(fn)
		if kind, ok := roots.ABCI[rf]; ok {
			_ = kind
			res.RootsHit[FuncKey(rf)] = true
			res.Violations = append(res.Violations, append(append([]string{}, path...), "ROOT "+FuncKey(rf)+" (begin/end-block: not atomic, not recovered)"))
			return
		}
		if _, ok := roots.Msg[rf]; ok {
			res.RootsHit[FuncKey(rf)] = true
			return
		}
		if _, ok := roots.IBC[rf]; ok {
			res.RootsHit[FuncKey(rf)] = true
			return
		}
		if _, ok := roots.Ante[rf]; ok {
			res.RootsHit[FuncKey(rf)] = true
			return
		}
		if fn.Parent() != nil {
			// closure: context comes lexically from the parent unless it is the closure's own parameter
			// (callback invoked by an iterator with the same ctx): continue with both the parent and callers.
			rec(fn.Parent(), append(path, "closure in "+FuncKey(fn.Parent())))
		}
		for _, e := range w.CallersOf(fn) {
			if !inRepoScope(e.Caller) {
				continue
			}
			w.SitesExamined++
			step := fmt.Sprintf("%s calls %s at %s", FuncKey(e.Caller), FuncKey(fn), w.Pos(e.Site.Pos()))
			if need == "cache" {
				a := ctxArgAt(e.Site.Common())
				if a == nil {
					// callee takes no context from this caller (e.g. bound via closure) -> continue
					rec(e.Caller, append(path, step))
					continue
				}
				cls, cc := ctxOrigin(a, 0)
				switch cls {
				case ctxCache:
					ok, detail := w.writeFnDiscipline(e.Caller, cc)
					k := FuncKey(e.Caller)
					if ok {
						res.Boundaries[k] = detail
					} else {
						res.BadBound[k] = detail
					}
					continue
				case ctxFresh:
					continue
				case ctxUnknown:
					res.Unknown = append(res.Unknown, step)
					continue
				}
			}
			rec(e.Caller, append(path, step))
		}
	}
	rec(target, []string{"TARGET " + FuncKey(target)})
	return res
}

// Commit: every backward path from target to a begin/end-block root crosses a conditional-commit boundary
// (need="cache") or a recover barrier (need="recover"). expectBoundaries lists the boundary functions confirmed by
// hand (all must still be boundaries: stale detection).
func (r *Report) Commit(key, target, need string, roots *Roots, expectBoundaries []string) {
	w := r.W
	fn := w.Fn(target)
	d := fmt.Sprintf("every call path from a begin/end-block root to %s crosses a %s boundary", target, need)
	if fn == nil {
		r.Unres(key+"|"+target, d, "function not found")
		return
	}
	res := w.CommitWalk(fn, roots, need)
	for _, u := range res.Unknown {
		r.Unres(key+"|"+target+"|ctx-origin|"+u, d, "cannot classify the context argument: "+u)
	}
	for _, b := range sortedKeys(res.BadBound) {
		r.Bad(key+"|"+target+"|boundary|"+b, d, w.FnPos(w.Fn(b)), res.BadBound[b])
	}
	for _, v := range res.Violations {
		root := v[len(v)-1]
		r.Bad(key+"|"+target+"|unprotected|"+root, d, w.FnPos(fn), "unprotected path", v...)
	}
	for _, b := range sortedKeys(res.Boundaries) {
		r.OK(key+"|"+target+"|boundary|"+b, d, w.FnPos(w.Fn(b)), res.Boundaries[b])
	}
	for _, e := range expectBoundaries {
		hit := false
		for b := range res.Boundaries {
			if nameMatch(b, e) {
				hit = true
			}
		}
		for b := range res.BadBound {
			if nameMatch(b, e) {
				hit = true
			}
		}
		if !hit {
			r.Unres(key+"|"+target+"|boundary|"+e+"#stale", d, "expected boundary "+e+" is no longer on any path (stale table or boundary removed)")
		}
	}
}

// =====================================================================================
// forward reachability

func (w *World) ReachableFrom(roots []*ssa.Function, stop func(*ssa.Function) bool) map[*ssa.Function][]string {
	cg := w.CG()
	out := map[*ssa.Function][]string{}
	type item struct {
		fn   *ssa.Function
		path []string
	}
	var q []item
	for _, r := range roots {
		if _, ok := out[r]; !ok {
			out[r] = []string{FuncKey(r)}
			q = append(q, item{r, out[r]})
		}
	}
	for len(q) > 0 {
		it := q[0]
		q = q[1:]
		if stop != nil && stop(it.fn) {
			continue
		}
		n := cg.Nodes[it.fn]
		if n == nil {
			continue
		}
		// deterministic order
		outs := append([]*callgraph.Edge{}, n.Out...)
		sort.Slice(outs, func(i, j int) bool { return outs[i].Site.Pos() < outs[j].Site.Pos() })
		for _, e := range outs {
			c := e.Callee.Func
			if _, ok := out[c]; ok {
				continue
			}
			if c.Synthetic == "" && !inRepoScope(c) {
				continue
			}
			p := it.path
			if c.Synthetic == "" || c.Parent() != nil {
				p = append(append([]string{}, it.path...), FuncKey(c))
			}
			out[c] = p
			q = append(q, item{c, p})
		}
		// anonymous functions created here are reachable too (they are invoked by callees outside the repo)
		for _, af := range it.fn.AnonFuncs {
			if _, ok := out[af]; !ok {
				p := append(append([]string{}, it.path...), FuncKey(af))
				out[af] = p
				q = append(q, item{af, p})
			}
		}
	}
	return out
}

// =====================================================================================
// E2 store ownership: functions that Set/Delete a KV key built from any of keyAtoms ⊆ allowed

func (r *Report) StoreWriters(key string, keyAtoms []string, allowed []string, pkgPrefix string) {
	w := r.W
	d := fmt.Sprintf("KVStore.Set/Delete with a key built from {%s} occurs only in {%s}", strings.Join(keyAtoms, ", "), strings.Join(allowed, ", "))
	found := map[string]string{}
	for k, fn := range w.Funcs {
		if len(fn.Blocks) == 0 || !inRepoScope(fn) || !strings.HasPrefix(k, pkgPrefix) {
			continue
		}
		for _, b := range fn.Blocks {
			for _, in := range b.Instrs {
				ci, ok := in.(ssa.CallInstruction)
				if !ok {
					continue
				}
				n := CalleeName(ci.Common())
				if !(strings.HasSuffix(n, "KVStore.Set") || strings.HasSuffix(n, "KVStore.Delete") || strings.HasSuffix(n, "Store.Set") || strings.HasSuffix(n, "Store.Delete")) {
					continue
				}
				w.SitesExamined++
				kv := argValue(ci.Common(), 0)
				if kv == nil {
					continue
				}
				at := Render(kv).Atoms()
				for _, ka := range keyAtoms {
					if atomsHave(at, ka) {
						found[FuncKey(rootFn(fn))] = w.Pos(in.Pos())
					}
				}
			}
		}
	}
	if len(found) == 0 {
		r.Unres(key+"|"+strings.Join(keyAtoms, ","), d, "no write site found at all (key constructor renamed?)")
		return
	}
	for _, f := range sortedKeys(found) {
		ok := false
		for _, a := range allowed {
			if nameMatch(f, a) {
				ok = true
			}
		}
		kk := key + "|" + keyAtoms[0] + "<-" + f
		if ok {
			r.OK(kk, d, found[f], "allowed writer")
		} else {
			r.Bad(kk, d, found[f], f+" writes this store but is not an allowed writer")
		}
	}
}

// Dominated: every site of B is dominated by (comes after, on every path) a site of A.
func (r *Report) Dominated(key, fnKey string, A, B Effect) {
	w := r.W
	fn := w.Fn(fnKey)
	d := fmt.Sprintf("in %s every [%s] is preceded on every path by [%s]", fnKey, B, A)
	k := key + "|" + fnKey + "|" + A.String() + " dom " + B.String()
	if fn == nil {
		r.Unres(k, d, "function not found")
		return
	}
	as, bs := w.Sites(fn, A), w.Sites(fn, B)
	if len(as) == 0 || len(bs) == 0 {
		r.Unres(k, d, fmt.Sprintf("sites: %d of first, %d of second", len(as), len(bs)))
		return
	}
	for _, b := range bs {
		dom := false
		for _, a := range as {
			if a.Block == b.Block {
				if instrIndex(a.Instr) < instrIndex(b.Instr) {
					dom = true
				}
			} else if a.Block.Dominates(b.Block) {
				dom = true
			}
		}
		if !dom {
			r.Bad(k, d, w.posOr(b.Instr.Pos(), fn), "this site is not dominated by any ["+A.String()+"]")
			return
		}
	}
	r.OK(k, d, w.FnPos(fn), fmt.Sprintf("%d / %d sites", len(as), len(bs)))
}

// NotAfter: no site of A can execute after a site of B (no CFG path from B to A).
func (r *Report) NotAfter(key, fnKey string, A, B Effect) {
	w := r.W
	fn := w.Fn(fnKey)
	d := fmt.Sprintf("in %s no [%s] can execute after [%s]", fnKey, A, B)
	k := key + "|" + fnKey + "|" + A.String() + " notafter " + B.String()
	if fn == nil {
		r.Unres(k, d, "function not found")
		return
	}
	as, bs := w.Sites(fn, A), w.Sites(fn, B)
	if len(as) == 0 || len(bs) == 0 {
		r.Unres(k, d, fmt.Sprintf("sites: %d of first, %d of second", len(as), len(bs)))
		return
	}
	for _, b := range bs {
		reach := map[*ssa.BasicBlock]bool{}
		for _, s := range b.Block.Succs {
			for x := range reachFrom(s, nil) {
				reach[x] = true
			}
		}
		for _, a := range as {
			after := reach[a.Block]
			if a.Block == b.Block && instrIndex(a.Instr) > instrIndex(b.Instr) {
				after = true
			}
			if after {
				r.Bad(k, d, w.posOr(a.Instr.Pos(), fn), "["+A.String()+"] can execute after ["+B.String()+"]")
				return
			}
		}
	}
	r.OK(k, d, w.FnPos(fn), fmt.Sprintf("%d / %d sites", len(as), len(bs)))
}

// Exists: the effect has at least min sites in fn.
func (r *Report) Exists(key, fnKey string, e Effect, min int) {
	w := r.W
	fn := w.Fn(fnKey)
	d := fmt.Sprintf("%s contains at least %d [%s]", fnKey, min, e)
	k := key + "|" + fnKey + "|" + e.String()
	if fn == nil {
		r.Unres(k, d, "function not found")
		return
	}
	n := len(w.Sites(fn, e))
	if n >= min {
		r.OK(k, d, w.FnPos(fn), fmt.Sprintf("%d sites", n))
	} else {
		r.Bad(k, d, w.FnPos(fn), fmt.Sprintf("%d sites", n))
	}
}

// ctorField: in constructor fnKey the store to field comes from parameter #idx.
func (r *Report) ctorField(key, fnKey, field string, idx int) {
	w := r.W
	fn := w.Fn(fnKey)
	d := fmt.Sprintf("%s assigns parameter #%d to %s", fnKey, idx, field)
	k := fmt.Sprintf("%s|%s|%s", key, fnKey, field)
	if fn == nil {
		r.Unres(k, d, "function not found")
		return
	}
	if idx >= len(fn.Params) {
		r.Unres(k, d, "no such parameter")
		return
	}
	idx = permutedIndex(fn, idx) // a reordered signature: the position follows the parameter
	sites := w.Sites(fn, StoreEff(field))
	if len(sites) != 1 {
		r.Unres(k, d, fmt.Sprintf("%d stores to the field", len(sites)))
		return
	}
	st := sites[0].Instr.(*ssa.Store)
	if seeThrough(st.Val) == ssa.Value(fn.Params[idx]) {
		r.OK(k, d, w.Pos(st.Pos()), "param "+fn.Params[idx].Name())
	} else {
		r.Bad(k, d, w.posOr(st.Pos(), fn), "stored value is "+clip(Render(st.Val).String(), 120))
	}
}

// RetHas: every return of fn has result #idx rendering to a term containing atoms.
func (r *Report) RetHas(key, fnKey string, idx int, atoms ...string) {
	w := r.W
	fn := w.Fn(fnKey)
	d := fmt.Sprintf("every return of %s yields result #%d derived from {%s}", fnKey, idx, strings.Join(atoms, ", "))
	k := fmt.Sprintf("%s|%s|ret#%d", key, fnKey, idx)
	if fn == nil {
		r.Unres(k, d, "function not found")
		return
	}
	w.FuncsAnalysed[fn] = true
	n := 0
	for _, b := range fn.Blocks {
		rt := returnOf(b)
		if rt == nil || idx >= len(rt.Results) || b == fn.Recover {
			continue
		}
		n++
		t := Render(retValue(rt, idx))
		for _, a := range atoms {
			if !t.Has(a) {
				r.Bad(k, d, w.posOr(rt.Pos(), fn), "missing "+a+" in "+clip(t.String(), 240))
				return
			}
		}
	}
	if n == 0 {
		r.Unres(k, d, "no return")
		return
	}
	r.OK(k, d, w.FnPos(fn), fmt.Sprintf("%d return(s)", n))
}

// =====================================================================================
// Disjunctive gating and boolean-flag provenance

func RetValEff(idx int, atoms ...string) Effect { return Effect{Kind: "retval", Idx: idx, Val: atoms} }

// IndexEff: an element access of a slice whose term carries the atoms.
func IndexEff(atoms ...string) Effect { return Effect{Kind: "index", Val: atoms} }

// DecisionEff: a boolean result or the branch condition that stands for it (see Sites).
func DecisionEff(idx int, atoms ...string) Effect {
	return Effect{Kind: "decision", Idx: idx, Val: atoms}
}
func RetNotEff(idx int, atoms ...string) Effect { return Effect{Kind: "retnot", Idx: idx, Val: atoms} }

// passEdges returns the (block -> successor index) pass edges of every If matching any of the conds.
func (w *World) passEdges(fn *ssa.Function, conds []Cond) (map[*ssa.BasicBlock]int, int) {
	out := map[*ssa.BasicBlock]int{}
	n := 0
	for _, ii := range w.ifs(fn) {
		for _, c := range conds {
			if m, passOnTrue := c.Match(ii.pred); m {
				idx := 0
				if !passOnTrue {
					idx = 1
				}
				out[ii.b] = idx
				n++
				break
			}
		}
	}
	return out, n
}

// reachableCut: blocks reachable from entry when the given pass edges are removed.
func reachableCut(fn *ssa.Function, cut map[*ssa.BasicBlock]int) map[*ssa.BasicBlock]bool {
	seen := map[*ssa.BasicBlock]bool{fn.Blocks[0]: true}
	st := []*ssa.BasicBlock{fn.Blocks[0]}
	for len(st) > 0 {
		b := st[len(st)-1]
		st = st[:len(st)-1]
		for i, s := range b.Succs {
			if ci, ok := cut[b]; ok && ci == i {
				continue
			}
			if !seen[s] {
				seen[s] = true
				st = append(st, s)
			}
		}
	}
	return seen
}

// GateAny: every site of e is reachable only through the pass edge of at least one check matching one of conds
// (disjunctive gate: `if a || b { effect }`, or several guarded paths into one block).
func (r *Report) GateAny(key, fnKey string, e Effect, conds []Cond, minSites int) {
	w := r.W
	fn := w.Fn(fnKey)
	d := fmt.Sprintf("in %s every [%s] is reached only through (%v)", fnKey, e, conds)
	k := key + "|" + fnKey + "|" + e.String() + "|any"
	if fn == nil {
		r.Unres(k, d, "function not found")
		return
	}
	sites := w.Sites(fn, e)
	if minSites == 0 {
		minSites = 1
	}
	if len(sites) < minSites {
		r.Unres(k, d, fmt.Sprintf("%d effect sites, expected >= %d", len(sites), minSites))
		return
	}
	cut, n := w.passEdges(fn, conds)
	if n == 0 {
		r.Bad(k, d, w.FnPos(fn), "no condition in the function matches any of the alternatives")
		return
	}
	reach := reachableCut(fn, cut)
	for i, s := range sites {
		kk := k
		if len(sites) > 1 {
			kk = fmt.Sprintf("%s#%d", k, i)
		}
		if reach[s.Block] {
			r.Bad(kk, d, w.posOr(s.Instr.Pos(), fn), "effect reachable without passing any of the checks")
		} else {
			r.OK(kk, d, w.Pos(s.Instr.Pos()), fmt.Sprintf("%d matching checks cut all paths", n))
		}
	}
}

// FlagTrueOnlyUnder: the boolean flag that is the condition matching flagCond (a phi merging constants) receives
// the constant `val` only from blocks reached through the pass edge of one of conds.
func (r *Report) FlagOnlyUnder(key, fnKey string, flagAtoms []string, val string, conds []Cond) {
	w := r.W
	fn := w.Fn(fnKey)
	d := fmt.Sprintf("in %s the flag tested by [%s] is set to %s only under (%v)", fnKey, strings.Join(flagAtoms, " "), val, conds)
	k := key + "|" + fnKey + "|flag=" + val
	if fn == nil {
		r.Unres(k, d, "function not found")
		return
	}
	w.FuncsAnalysed[fn] = true
	var phis []*ssa.Phi
	for _, b := range fn.Blocks {
		if i := ifOf(b); i != nil {
			v := i.Cond
			if u, ok := v.(*ssa.UnOp); ok && u.Op == token.NOT {
				v = u.X
			}
			if p, ok := v.(*ssa.Phi); ok && Render(p).Has(flagAtoms...) {
				phis = append(phis, p)
			}
		}
	}
	if len(phis) != 1 {
		r.Unres(k, d, fmt.Sprintf("%d flag conditions found, expected 1", len(phis)))
		return
	}
	cut, n := w.passEdges(fn, conds)
	if n == 0 {
		r.Bad(k, d, w.FnPos(fn), "no condition matches the alternatives")
		return
	}
	reach := reachableCut(fn, cut)
	seen := map[*ssa.Phi]bool{}
	bad := ""
	nset := 0
	var visit func(p *ssa.Phi)
	visit = func(p *ssa.Phi) {
		if seen[p] {
			return
		}
		seen[p] = true
		for i, e := range p.Edges {
			switch x := e.(type) {
			case *ssa.Const:
				if constString(x) == val {
					nset++
					pred := p.Block().Preds[i]
					// the edge pred->phi block itself may be a cut pass edge
					if ci, ok := cut[pred]; ok && pred.Succs[ci] == p.Block() && len(pred.Succs) == 2 && pred.Succs[1-ci] != p.Block() {
						continue
					}
					if reach[pred] {
						bad = fmt.Sprintf("constant %s flows in from block %d (%s) which is reachable without any of the checks", val, pred.Index, w.posOr(lastPos(pred), fn))
					}
				}
			case *ssa.Phi:
				visit(x)
			}
		}
	}
	visit(phis[0])
	if nset == 0 {
		r.Unres(k, d, "flag never receives the constant")
		return
	}
	if bad != "" {
		r.Bad(k, d, w.FnPos(fn), bad)
	} else {
		r.OK(k, d, w.FnPos(fn), fmt.Sprintf("%d setting edge(s), all behind %d matching checks", nset, n))
	}
}

func lastPos(b *ssa.BasicBlock) token.Pos {
	for i := len(b.Instrs) - 1; i >= 0; i-- {
		if p := b.Instrs[i].Pos(); p.IsValid() {
			return p
		}
	}
	return token.NoPos
}

// =====================================================================================
// Ownership: no store through memory derived from a shared source

// addrBase walks an address chain (field/index addressing) down to the object it addresses: a local Alloc or
// a value (slice header / pointer) obtained elsewhere.
func addrBase(a ssa.Value) ssa.Value {
	for i := 0; i < 12; i++ {
		switch x := a.(type) {
		case *ssa.FieldAddr:
			a = x.X
		case *ssa.IndexAddr:
			a = x.X
		default:
			return a
		}
	}
	return a
}

// mayAlias: v may share backing storage with a value for which isSource holds. Fresh allocations (make, new,
// composite literals) and results of unknown calls do not alias; slices, re-slices, phis, append results (first
// operand) and copies through locals do.
func mayAlias(v ssa.Value, isSource func(ssa.Value) bool, seen map[ssa.Value]bool) bool {
	if v == nil || seen[v] || len(seen) > 200 {
		return false
	}
	seen[v] = true
	if isSource(v) {
		return true
	}
	switch x := v.(type) {
	case *ssa.Slice:
		return mayAlias(x.X, isSource, seen)
	case *ssa.Phi:
		for _, e := range x.Edges {
			if mayAlias(e, isSource, seen) {
				return true
			}
		}
	case *ssa.Call:
		if CalleeName(&x.Call) == "builtin.append" && len(x.Call.Args) > 0 {
			return mayAlias(x.Call.Args[0], isSource, seen)
		}
	case *ssa.ChangeType:
		return mayAlias(x.X, isSource, seen)
	case *ssa.Convert:
		return mayAlias(x.X, isSource, seen)
	case *ssa.MakeInterface:
		return mayAlias(x.X, isSource, seen)
	case *ssa.UnOp:
		if x.Op == token.MUL {
			if a, ok := x.X.(*ssa.Alloc); ok {
				vals, _ := storesTo(a)
				for _, sv := range vals {
					if mayAlias(sv, isSource, seen) {
						return true
					}
				}
				return false
			}
			return mayAlias(x.X, isSource, seen)
		}
	case *ssa.FreeVar:
		return isSource(x)
	case *ssa.IndexAddr:
		return mayAlias(x.X, isSource, seen)
	case *ssa.FieldAddr:
		return mayAlias(x.X, isSource, seen)
	case *ssa.Field:
		return mayAlias(x.X, isSource, seen)
	}
	return false
}

// sourcePred builds the "is a shared source" predicate from atoms: "param:<name>" or "field:<T.F>".
func sourcePred(atoms []string) func(ssa.Value) bool {
	return func(v ssa.Value) bool {
		for _, a := range atoms {
			switch {
			case strings.HasPrefix(a, "param:"):
				if p, ok := v.(*ssa.Parameter); ok && frozenParamName(p) == a[6:] {
					return true
				}
			case strings.HasPrefix(a, "freevar:"):
				if fv, ok := v.(*ssa.FreeVar); ok && (a == "freevar:*" || frozenFreeVarName(fv) == a[8:]) {
					return true
				}
			case strings.HasPrefix(a, "field:"):
				switch x := v.(type) {
				case *ssa.FieldAddr:
					if nameMatch(fieldName(x.X.Type(), x.Field), a[6:]) {
						return true
					}
				case *ssa.Field:
					if nameMatch(fieldName(x.X.Type(), x.Field), a[6:]) {
						return true
					}
				}
			}
		}
		return false
	}
}

// NoWriteThrough: fn contains no store (or in-place append) into memory that may alias a value designated by atoms
// ("param:p" / "field:T.F"): no in-place mutation of shared backing storage.
func (r *Report) NoWriteThrough(key, fnKey string, atoms ...string) {
	w := r.W
	fn := w.Fn(fnKey)
	d := fmt.Sprintf("%s never writes into memory that may alias {%s} (no in-place mutation of shared backing storage)", fnKey, strings.Join(atoms, ", "))
	k := key + "|" + fnKey + "|" + strings.Join(atoms, ",")
	if fn == nil {
		r.Unres(k, d, "function not found")
		return
	}
	w.FuncsAnalysed[fn] = true
	isSrc := sourcePred(atoms)
	n := 0
	for _, f := range append([]*ssa.Function{fn}, fn.AnonFuncs...) {
		for _, b := range f.Blocks {
			for _, in := range b.Instrs {
				switch x := in.(type) {
				case *ssa.Store:
					n++
					switch a := x.Addr.(type) {
					case *ssa.IndexAddr:
						if mayAlias(a.X, isSrc, map[ssa.Value]bool{}) {
							r.Bad(k, d, w.posOr(x.Pos(), f), "element store into "+clip(Render(a.X).String(), 160))
							return
						}
					case *ssa.FieldAddr:
						// field of an element: &s[i].f
						if ia, ok := a.X.(*ssa.IndexAddr); ok && mayAlias(ia.X, isSrc, map[ssa.Value]bool{}) {
							r.Bad(k, d, w.posOr(x.Pos(), f), "element-field store into "+clip(Render(ia.X).String(), 160))
							return
						}
					}
				case *ssa.Call:
					if CalleeName(&x.Call) == "builtin.append" && len(x.Call.Args) > 0 {
						n++
						// append(shared[:k], ...) overwrites shared's backing array
						if sl, ok := x.Call.Args[0].(*ssa.Slice); ok && mayAlias(sl.X, isSrc, map[ssa.Value]bool{}) {
							r.Bad(k, d, w.posOr(x.Pos(), f), "append onto a re-slice of "+clip(Render(sl.X).String(), 160))
							return
						}
					}
					if n2 := CalleeName(&x.Call); n2 == "builtin.copy" && len(x.Call.Args) > 0 && mayAlias(x.Call.Args[0], isSrc, map[ssa.Value]bool{}) {
						r.Bad(k, d, w.posOr(x.Pos(), f), "copy into shared storage")
						return
					}
					if n2 := CalleeName(&x.Call); (strings.HasPrefix(n2, "sort.") || strings.HasPrefix(n2, "slices.Sort")) && len(x.Call.Args) > 0 && mayAlias(x.Call.Args[0], isSrc, map[ssa.Value]bool{}) {
						r.Bad(k, d, w.posOr(x.Pos(), f), "in-place sort of shared storage")
						return
					}
				}
			}
		}
	}
	r.OK(k, d, w.FnPos(fn), fmt.Sprintf("%d stores/appends examined", n))
}

// EffectSet: the set of callee names matching any of pats, called from functions reachable from fnKey (repo scope),
// is a subset of allowed.
func (r *Report) EffectSet(key, fnKey string, pats []string, allowed []string) {
	w := r.W
	fn := w.Fn(fnKey)
	d := fmt.Sprintf("calls matching %v reachable from %s ⊆ {%s}", pats, fnKey, strings.Join(allowed, ", "))
	k := key + "|" + fnKey
	if fn == nil {
		r.Unres(k, d, "function not found")
		return
	}
	reach := w.ReachableFrom([]*ssa.Function{fn}, nil)
	found := map[string]string{}
	for f := range reach {
		if len(f.Blocks) == 0 || !inRepoScope(f) {
			continue
		}
		w.FuncsAnalysed[f] = true
		for _, b := range f.Blocks {
			for _, in := range b.Instrs {
				ci, ok := in.(ssa.CallInstruction)
				if !ok {
					continue
				}
				n := CalleeName(ci.Common())
				for _, p := range pats {
					if strings.Contains(n, p) {
						if _, ok := found[n]; !ok {
							found[n] = FuncKey(f) + " at " + w.posOr(in.Pos(), f)
						}
					}
				}
			}
		}
	}
	for _, n := range sortedKeys(found) {
		ok := false
		for _, a := range allowed {
			if nameMatch(n, a) {
				ok = true
			}
		}
		kk := k + "|" + n
		if ok {
			r.OK(kk, d, found[n], "allowed")
		} else {
			r.Bad(kk, d, found[n], n+" is reachable but not in the allowed effect set")
		}
	}
	r.OK(k+"|scanned", d, w.FnPos(fn), fmt.Sprintf("%d functions reachable, %d distinct matching callees", len(reach), len(found)))
}

// ErrorsNotDropped: in packages with the given prefixes, no call whose callee name contains any of pats and that
// returns an error has its error result discarded.
func (r *Report) ErrorsNotDropped(key string, pkgPrefixes []string, pats []string, minCalls int) {
	w := r.W
	d := fmt.Sprintf("no error returned by %v is discarded in %v", pats, pkgPrefixes)
	n := 0
	for k, fn := range w.Funcs {
		if len(fn.Blocks) == 0 || !inRepoScope(fn) {
			continue
		}
		ok := false
		for _, p := range pkgPrefixes {
			if strings.HasPrefix(k, p) {
				ok = true
			}
		}
		if !ok {
			continue
		}
		for _, b := range fn.Blocks {
			for _, in := range b.Instrs {
				ci, ok := in.(ssa.CallInstruction)
				if !ok {
					continue
				}
				name := CalleeName(ci.Common())
				hit := false
				for _, p := range pats {
					if strings.Contains(name, p) {
						hit = true
					}
				}
				if !hit {
					continue
				}
				res := ci.Common().Signature().Results()
				ei := -1
				for i := 0; i < res.Len(); i++ {
					if isErrorType(res.At(i).Type()) {
						ei = i
					}
				}
				if ei < 0 {
					continue
				}
				n++
				w.SitesExamined++
				used := false
				if v, ok := in.(*ssa.Call); ok && v.Referrers() != nil {
					for _, ref := range *v.Referrers() {
						switch x := ref.(type) {
						case *ssa.DebugRef:
						case *ssa.Extract:
							if x.Index == ei && x.Referrers() != nil {
								for _, rr := range *x.Referrers() {
									if _, dbg := rr.(*ssa.DebugRef); !dbg {
										used = true
									}
								}
							}
						default:
							if res.Len() == 1 {
								used = true
							}
						}
					}
				}
				if !used {
					r.Bad(key+"|"+k+"|"+name, d, w.posOr(in.Pos(), fn), "error result of "+name+" is discarded in "+k)
				}
			}
		}
	}
	if n < minCalls {
		r.Unres(key+"|min", d, fmt.Sprintf("only %d fallible calls found, expected >= %d", n, minCalls))
		return
	}
	r.OK(key+"|scanned", d, "-", fmt.Sprintf("%d fallible call sites examined", n))
}

// CondCount: fn has exactly n conditional branches (used where "no additional condition" is the rule).
func (r *Report) CondCount(key, fnKey string, n int) {
	w := r.W
	fn := w.Fn(fnKey)
	d := fmt.Sprintf("%s has exactly %d conditional branch(es)", fnKey, n)
	k := key + "|" + fnKey
	if fn == nil {
		r.Unres(k, d, "function not found")
		return
	}
	got := decisionCount(w, fn)
	if got == n {
		r.OK(k, d, w.FnPos(fn), fmt.Sprintf("%d", got))
	} else {
		r.Bad(k, d, w.FnPos(fn), fmt.Sprintf("%d conditional branches found", got))
	}
}

// decisionCount: the branches of fn plus the boolean computations it RETURNS without branching on them (`return a < b`,
// the second operand of `return x && y`, `return f()` of a bool): so that `return a < b` and
// `if a < b { return true }; return false` count the same.
func decisionCount(w *World, fn *ssa.Function) int {
	n := len(w.ifs(fn))
	conds := map[ssa.Value]bool{}
	for _, b := range fn.Blocks {
		if ifi := ifOf(b); ifi != nil {
			conds[ifi.Cond] = true
		}
	}
	seen := map[ssa.Value]bool{}
	var visit func(v ssa.Value)
	visit = func(v ssa.Value) {
		if v == nil || seen[v] {
			return
		}
		seen[v] = true
		switch x := v.(type) {
		case *ssa.Const:
		case *ssa.Phi:
			for _, e := range x.Edges {
				visit(e)
			}
		case *ssa.UnOp:
			if x.Op == token.NOT {
				visit(x.X)
				return
			}
			if !conds[v] {
				n++
			}
		default:
			if !conds[v] {
				n++
			}
		}
	}
	// ... and the errors it returns straight from a call without testing them (`return f()` is
	// `if e := f(); e != nil { return e }; return nil`)
	tested := map[ssa.Value]bool{}
	for c := range conds {
		if bo, ok := c.(*ssa.BinOp); ok {
			tested[bo.X], tested[bo.Y] = true, true
		}
	}
	var visitErr func(v ssa.Value)
	visitErr = func(v ssa.Value) {
		if v == nil || seen[v] {
			return
		}
		seen[v] = true
		switch x := v.(type) {
		case *ssa.Phi:
			for _, e := range x.Edges {
				visitErr(e)
			}
		case *ssa.Call, *ssa.Extract:
			if !tested[v] {
				n++
			}
		}
	}
	for _, b := range fn.Blocks {
		if rt := returnOf(b); rt != nil && b != fn.Recover {
			for i := range rt.Results {
				rv := retValue(rt, i)
				if bt, ok := rv.Type().Underlying().(*types.Basic); ok && bt.Kind() == types.Bool {
					visit(rv)
				} else if isErrorType(rv.Type()) {
					visitErr(rv)
				}
			}
		}
	}
	return n
}

// FlagOnlyUnderVal: argument #idx of callee in fn is a phi; the constant val flows into it only from blocks behind
// the pass edge of one of conds.
func (r *Report) FlagOnlyUnderVal(key, fnKey, callee string, idx int, valAtom string, conds []Cond) {
	w := r.W
	fn := w.Fn(fnKey)
	val := strings.TrimPrefix(valAtom, "const:")
	d := fmt.Sprintf("in %s argument #%d of %s takes the value %s only under (%v)", fnKey, idx, callee, val, conds)
	k := key + "|" + fnKey + "|" + callee + "=" + val
	if fn == nil {
		r.Unres(k, d, "function not found")
		return
	}
	calls := Calls(fn, callee)
	if len(calls) != 1 {
		r.Unres(k, d, fmt.Sprintf("%d calls of %s", len(calls), callee))
		return
	}
	v := seeThrough(argValue(calls[0].Common(), idx))
	phi, ok := v.(*ssa.Phi)
	if !ok {
		if c, isC := v.(*ssa.Const); isC && constString(c) != val {
			r.OK(k, d, w.Pos(calls[0].Pos()), "argument is a different constant")
			return
		}
		r.Bad(k, d, w.posOr(calls[0].Pos(), fn), "argument is not a merge of constants: "+clip(Render(v).String(), 120))
		return
	}
	cut, n := w.passEdges(fn, conds)
	if n == 0 {
		r.Bad(k, d, w.FnPos(fn), "no condition matches")
		return
	}
	reach := reachableCut(fn, cut)
	nset := 0
	for i, e := range phi.Edges {
		c, isC := e.(*ssa.Const)
		if !isC {
			r.Bad(k, d, w.FnPos(fn), "non-constant value flows into the argument")
			return
		}
		if constString(c) != val {
			continue
		}
		nset++
		pred := phi.Block().Preds[i]
		if ci, ok := cut[pred]; ok && pred.Succs[ci] == phi.Block() && pred.Succs[1-ci] != phi.Block() {
			continue
		}
		if reach[pred] {
			r.Bad(k, d, w.posOr(lastPos(pred), fn), "the value flows in on a path that passes none of the checks")
			return
		}
	}
	if nset == 0 {
		r.Unres(k, d, "value never flows in")
		return
	}
	r.OK(k, d, w.Pos(calls[0].Pos()), fmt.Sprintf("%d edge(s) behind %d check(s)", nset, n))
}

// =====================================================================================
// E10 unchecked native-width arithmetic

// NoNativeArith: fn (and its closures) performs no native integer `ops` whose operands derive from atoms.
// Loop-carried accumulations (a phi that feeds itself through the operation) are what overflow silently.
func (r *Report) NoNativeArith(key, fnKey string, ops []string, atoms ...string) {
	w := r.W
	fn := w.Fn(fnKey)
	d := fmt.Sprintf("%s performs no native-width integer %v on values derived from {%s} (overflow wraps silently)", fnKey, ops, strings.Join(atoms, ", "))
	k := key + "|" + fnKey + "|" + strings.Join(ops, "")
	if fn == nil {
		r.Unres(k, d, "function not found")
		return
	}
	w.FuncsAnalysed[fn] = true
	n := 0
	for _, f := range append([]*ssa.Function{fn}, fn.AnonFuncs...) {
		for _, b := range f.Blocks {
			for _, in := range b.Instrs {
				bo, ok := in.(*ssa.BinOp)
				if !ok {
					continue
				}
				bt, isBasic := bo.Type().Underlying().(*types.Basic)
				if !isBasic || bt.Info()&types.IsInteger == 0 {
					continue
				}
				hit := false
				for _, o := range ops {
					if bo.Op.String() == o {
						hit = true
					}
				}
				if !hit {
					continue
				}
				n++
				t := Render(bo)
				if t.Has(atoms...) {
					r.Bad(k, d, w.posOr(bo.Pos(), f), "native "+bo.Op.String()+" on "+clip(t.String(), 200))
					return
				}
			}
		}
	}
	r.OK(k, d, w.FnPos(fn), fmt.Sprintf("%d native operations of that kind examined, none on the listed sources", n))
}

// BlamePolarity (C04): in ProcessComplaint the member passed to MarkMemberMalicious is Complainant on the
// VerifyComplaint-failed edge and Respondent on the success edge (a phi of the two field loads).
func (r *Report) BlamePolarity(key, fnKey string) {
	w := r.W
	fn := w.Fn(fnKey)
	d := "MarkMemberMalicious receives c.Complainant when VerifyComplaint fails and c.Respondent when it succeeds"
	k := key + "|" + fnKey
	if fn == nil {
		r.Unres(k, d, "function not found")
		return
	}
	calls := Calls(fn, "Keeper.MarkMemberMalicious")
	if len(calls) != 1 {
		r.Unres(k, d, fmt.Sprintf("%d calls of MarkMemberMalicious", len(calls)))
		return
	}
	v := seeThrough(argValue(calls[0].Common(), 2))
	phi, ok := v.(*ssa.Phi)
	if !ok || len(phi.Edges) != 2 {
		r.Bad(k, d, w.posOr(calls[0].Pos(), fn), "blamed member is not a two-way choice: "+clip(Render(v).String(), 160))
		return
	}
	// find the If on VerifyComplaint's error
	ifs := w.ifs(fn)
	c := nilErrOf("Keeper.VerifyComplaint")
	var ib *ssa.BasicBlock
	var okOnTrue bool
	for _, ii := range ifs {
		if m, p := c.Match(ii.pred); m {
			ib, okOnTrue = ii.b, p
		}
	}
	if ib == nil {
		r.Bad(k, d, w.FnPos(fn), "no branch on the result of VerifyComplaint")
		return
	}
	okSucc, failSucc := ib.Succs[0], ib.Succs[1]
	if !okOnTrue {
		okSucc, failSucc = failSucc, okSucc
	}
	for i, e := range phi.Edges {
		pred := phi.Block().Preds[i]
		t := Render(e)
		fromOK := pred == okSucc || reachFrom(okSucc, map[*ssa.BasicBlock]bool{ib: true})[pred] && !reachFrom(failSucc, map[*ssa.BasicBlock]bool{ib: true})[pred]
		fromFail := pred == failSucc || reachFrom(failSucc, map[*ssa.BasicBlock]bool{ib: true})[pred] && !reachFrom(okSucc, map[*ssa.BasicBlock]bool{ib: true})[pred]
		switch {
		case fromOK && !t.Has("^field:Complaint.Respondent"):
			r.Bad(k, d, w.posOr(calls[0].Pos(), fn), "on the complaint-success edge the blamed member is "+clip(t.String(), 100))
			return
		case fromFail && !t.Has("^field:Complaint.Complainant"):
			r.Bad(k, d, w.posOr(calls[0].Pos(), fn), "on the complaint-failed edge the blamed member is "+clip(t.String(), 100))
			return
		case !fromOK && !fromFail:
			r.Bad(k, d, w.posOr(calls[0].Pos(), fn), "cannot attribute an incoming value to one edge of the VerifyComplaint branch")
			return
		}
	}
	r.OK(k, d, w.Pos(calls[0].Pos()), "complainant on failure, respondent on success")
}

// RetOKHas: every nil-error return of fn has result #idx containing atoms.
func (r *Report) RetOKHas(key, fnKey string, idx int, atoms ...string) {
	w := r.W
	fn := w.Fn(fnKey)
	d := fmt.Sprintf("every nil-error return of %s yields result #%d of the form {%s}", fnKey, idx, strings.Join(atoms, ", "))
	k := fmt.Sprintf("%s|%s|retok#%d", key, fnKey, idx)
	if fn == nil {
		r.Unres(k, d, "function not found")
		return
	}
	sites := w.Sites(fn, RetOK())
	if len(sites) == 0 {
		r.Unres(k, d, "no nil-error return")
		return
	}
	for _, s := range sites {
		rt := s.Instr.(*ssa.Return)
		t := Render(retValue(rt, idx))
		if !t.Has(atoms...) {
			r.Bad(k, d, w.posOr(rt.Pos(), fn), "returns "+clip(t.String(), 200))
			return
		}
	}
	r.OK(k, d, w.FnPos(fn), fmt.Sprintf("%d success return(s)", len(sites)))
}

// NoWriteThroughFields: fn never stores to the listed fields (of any object).
func (r *Report) NoWriteThroughFields(key, fnKey string, fields ...string) {
	w := r.W
	fn := w.Fn(fnKey)
	d := fmt.Sprintf("%s never assigns %v", fnKey, fields)
	k := key + "|" + fnKey
	if fn == nil {
		r.Unres(k, d, "function not found")
		return
	}
	for _, f := range append([]*ssa.Function{fn}, fn.AnonFuncs...) {
		for _, fld := range fields {
			if s := w.Sites(f, StoreEff(fld)); len(s) > 0 {
				r.Bad(k, d, w.posOr(s[0].Instr.Pos(), f), "assigns "+fld)
				return
			}
		}
	}
	r.OK(k, d, w.FnPos(fn), "no assignment")
}

// FreeVarWriters: the captured local of fn whose type ends with typeSuffix (identified by type, not by its source
// name) is appended-to / assigned only in the listed closures (or fn itself for its empty initialisation).
func (r *Report) FreeVarWriters(key, fnKey, typeSuffix string, allowed []string) {
	w := r.W
	fn := w.Fn(fnKey)
	name := typeSuffix
	d := fmt.Sprintf("the captured local of type %s in %s is written only in %v", typeSuffix, fnKey, allowed)
	k := key + "|" + fnKey + "|" + typeSuffix
	if fn == nil {
		r.Unres(k, d, "function not found")
		return
	}
	var alloc *ssa.Alloc
	for _, b := range fn.Blocks {
		for _, in := range b.Instrs {
			if a, ok := in.(*ssa.Alloc); ok && a.Heap {
				if pt, isP := a.Type().(*types.Pointer); isP && strings.HasSuffix(pt.Elem().String(), typeSuffix) {
					captured := false
					if a.Referrers() != nil {
						for _, ref := range *a.Referrers() {
							if _, isMC := ref.(*ssa.MakeClosure); isMC {
								captured = true
							}
						}
					}
					if captured {
						alloc = a
					}
				}
			}
		}
	}
	if alloc == nil {
		r.Unres(k, d, "captured local not found (not captured any more?)")
		return
	}
	writers := map[string]bool{}
	for _, ref := range *alloc.Referrers() {
		switch x := ref.(type) {
		case *ssa.Store:
			if x.Addr == ssa.Value(alloc) {
				if c, ok := x.Val.(*ssa.Const); ok && c.Value == nil {
					continue // zero initialisation
				}
				init := true
				for a := range Render(x.Val).Atoms() {
					if strings.HasPrefix(a, "call:") || strings.HasPrefix(a, "param:") || strings.HasPrefix(a, "field:") {
						init = false
					}
				}
				if init {
					continue // initialisation with an empty literal
				}
				writers[fnKey] = true
			}
		case *ssa.MakeClosure:
			cf := x.Fn.(*ssa.Function)
			for i, bnd := range x.Bindings {
				if bnd != ssa.Value(alloc) {
					continue
				}
				fv := cf.FreeVars[i]
				for _, fr := range *fv.Referrers() {
					if st, ok := fr.(*ssa.Store); ok && st.Addr == ssa.Value(fv) {
						writers[FuncKey(cf)] = true
					}
				}
			}
		}
	}
	for wr := range writers {
		ok := false
		for _, a := range allowed {
			if wr == a {
				ok = true
			}
		}
		if !ok {
			r.Bad(k, d, w.FnPos(fn), wr+" also writes "+name)
			return
		}
	}
	if len(writers) == 0 {
		r.Unres(k, d, "no writer found")
		return
	}
	r.OK(k, d, w.FnPos(fn), fmt.Sprintf("writers: %v", sortedKeys(writers)))
}

// StatusSums (C06): in CalculatePricesPowers each accumulator is Add(priceInfo.Power) under the matching status.
func (r *Report) StatusSums(key, fnKey, typesPkg string) {
	w := r.W
	fn := w.Fn(fnKey)
	d := "CalculatePricesPowers adds each entry's power to total and to exactly the bucket of its status, returned in the order (total, available, unavailable, unsupported)"
	k := key + "|" + fnKey
	if fn == nil {
		r.Unres(k, d, "function not found")
		return
	}
	w.FuncsAnalysed[fn] = true
	var ret *ssa.Return
	for _, b := range fn.Blocks {
		if rt := returnOf(b); rt != nil && b != fn.Recover {
			ret = rt
		}
	}
	if ret == nil || len(ret.Results) != 4 {
		r.Unres(k, d, "unexpected result arity")
		return
	}
	want := []string{"", "SIGNAL_PRICE_STATUS_AVAILABLE", "SIGNAL_PRICE_STATUS_UNAVAILABLE", "SIGNAL_PRICE_STATUS_UNSUPPORTED"}
	ifs := w.ifs(fn)
	for i, res := range ret.Results {
		phi, ok := seeThrough(res).(*ssa.Phi)
		if !ok {
			r.Bad(k, d, w.FnPos(fn), fmt.Sprintf("result #%d is not a loop accumulator", i))
			return
		}
		// find the Add call feeding the accumulator
		var add *ssa.Call
		seen := map[ssa.Value]bool{}
		var walk func(v ssa.Value)
		walk = func(v ssa.Value) {
			if seen[v] || add != nil {
				return
			}
			seen[v] = true
			switch x := v.(type) {
			case *ssa.Phi:
				for _, e := range x.Edges {
					walk(e)
				}
			case *ssa.Call:
				if nameMatch(CalleeName(&x.Call), "Int.Add") {
					add = x
				}
			}
		}
		walk(phi)
		if add == nil || !Render(add.Call.Args[1]).Has("^field:ValidatorPriceInfo.Power") || !Render(add.Call.Args[0]).Has("phi") {
			r.Bad(k, d, w.FnPos(fn), fmt.Sprintf("result #%d is not accumulated as acc.Add(priceInfo.Power)", i))
			return
		}
		if want[i] == "" {
			// total: must not be gated by any status comparison
			c := Cond{Op: "EQL", A: []string{"field:ValidatorPriceInfo.SignalPriceStatus"}, B: []string{"const"}, Want: true}
			_ = c
			gated := false
			for _, ii := range ifs {
				if ii.pred.Op == "EQL" && ii.pred.A.Has("field:ValidatorPriceInfo.SignalPriceStatus") && ii.b.Dominates(add.Block()) && ii.b != add.Block() {
					gated = true
				}
			}
			if gated {
				r.Bad(k, d, w.posOr(add.Pos(), fn), "the total is accumulated under a status condition")
				return
			}
			continue
		}
		c := Cond{Op: "EQL", A: []string{"field:ValidatorPriceInfo.SignalPriceStatus"}, B: []string{w.ConstAtom(typesPkg, want[i])}, Want: true}
		if ok, _, det := w.gatedBy(fn, ifs, Site{add, add.Block(), "add"}, c); !ok {
			r.Bad(k, d, w.posOr(add.Pos(), fn), fmt.Sprintf("result #%d is not accumulated under status == %s: %s", i, want[i], det))
			return
		}
	}
	r.OK(k, d, w.FnPos(fn), "four accumulators, each under its own status")
}

// FileLint: the determinism lint restricted to the functions declared in one file.
func (r *Report) FileLint(key, relFile string) {
	w := r.W
	d := "no nondeterministic construct in " + relFile
	var fns []*ssa.Function
	for _, fn := range w.Funcs {
		if len(fn.Blocks) > 0 && strings.HasSuffix(w.Fset.Position(fn.Pos()).Filename, "/"+relFile) {
			fns = append(fns, fn)
		}
	}
	if len(fns) == 0 {
		r.Unres(key, d, "no function found in file")
		return
	}
	n := 0
	for _, fn := range fns {
		hits, ranges, _ := w.lintOne(fn)
		n++
		for _, h := range append(hits, ranges...) {
			if strings.HasSuffix(h.What, "[collect-and-sort]") {
				continue
			}
			r.Bad(key+"|"+h.Fn+"|"+h.What, d, h.Pos, h.What+" in "+h.Fn)
		}
	}
	r.OK(key+"|clean", d, relFile, fmt.Sprintf("%d functions linted", n))
}

// OldIndexDeletionUnconditional (C07.R4): the deletion of the old by-power index entry must not sit under the branch
// that tests the NEW power; it must depend only on whether a stored record exists.
func (r *Report) OldIndexDeletionUnconditional(key, fnKey string) {
	w := r.W
	fn := w.Fn(fnKey)
	d := "the old index entry is deleted on both the zero and the non-zero new-power path"
	k := key + "|" + fnKey
	if fn == nil {
		r.Unres(k, d, "function not found")
		return
	}
	sites := w.Sites(fn, CallEff("Keeper.deleteSignalTotalPowerByPowerIndex"))
	if len(sites) == 0 {
		r.Unres(k, d, "no deletion site")
		return
	}
	zero := Cond{Op: "EQL", A: []string{"field:Signal.Power", "param:signal"}, B: []string{"const:0"}, Want: true}
	for _, ii := range w.ifs(fn) {
		if m, _ := zero.Match(ii.pred); m {
			for _, s := range sites {
				if ii.b.Dominates(s.Block) && ii.b != s.Block {
					r.Bad(k, d, w.posOr(s.Instr.Pos(), fn), "deletion of the old index entry happens only on one side of the new-power test")
					return
				}
			}
		}
	}
	r.OK(k, d, w.FnPos(fn), "deletion precedes the new-power test")
}

// nativeAccumulator: fn returns a native-width integer that is accumulated with + or * over a loop
// (a phi feeding itself through the operation): such a result wraps silently for large inputs.
func nativeAccumulator(fn *ssa.Function) bool {
	if fn == nil || len(fn.Blocks) == 0 {
		return false
	}
	res := fn.Signature.Results()
	intRes := false
	for i := 0; i < res.Len(); i++ {
		if b, ok := res.At(i).Type().Underlying().(*types.Basic); ok && b.Info()&types.IsInteger != 0 {
			intRes = true
		}
	}
	if !intRes {
		return false
	}
	for _, b := range fn.Blocks {
		for _, in := range b.Instrs {
			bo, ok := in.(*ssa.BinOp)
			if !ok || (bo.Op != token.ADD && bo.Op != token.MUL) {
				continue
			}
			for _, op := range []ssa.Value{bo.X, bo.Y} {
				if phi, ok := op.(*ssa.Phi); ok {
					for _, e := range phi.Edges {
						if e == ssa.Value(bo) {
							// loop-carried; ignore plain index counters (the other operand is the constant 1)
							other := bo.Y
							if op == bo.Y {
								other = bo.X
							}
							if c, isC := other.(*ssa.Const); isC && constString(c) == "1" {
								continue
							}
							return true
						}
					}
				}
			}
		}
	}
	return false
}

// ArgNoNativeAccumulation: the argument does not derive from the result of any repo function that accumulates in
// native width (interprocedural companion of NoNativeArith).
func (r *Report) ArgNoNativeAccumulation(key, fnKey, callee string, idx int) {
	w := r.W
	fn := w.Fn(fnKey)
	d := fmt.Sprintf("in %s argument #%d of %s does not derive from a native-width accumulator function", fnKey, idx, callee)
	k := fmt.Sprintf("%s|%s|%s#%d", key, fnKey, callee, idx)
	if fn == nil {
		r.Unres(k, d, "function not found")
		return
	}
	calls := Calls(fn, callee)
	if len(calls) == 0 {
		r.Unres(k, d, "no call site")
		return
	}
	for _, ci := range calls {
		v := argValue(ci.Common(), idx)
		if v == nil {
			r.Unres(k, d, "argument missing")
			return
		}
		for a := range Render(v).Atoms() {
			if !strings.HasPrefix(a, "call:") {
				continue
			}
			if cf := w.Funcs[a[5:]]; cf != nil && nativeAccumulator(cf) {
				r.Bad(k, d, w.posOr(ci.Pos(), fn), "derives from "+a[5:]+", which sums/multiplies in native width")
				return
			}
		}
	}
	r.OK(k, d, w.FnPos(fn), "no native accumulator in the derivation")
}

// MustPass: once `trigger` has executed, every non-failure return is preceded by `required` (no path from the trigger
// to a success return avoids it).
func (r *Report) MustPass(key, fnKey string, trigger, required Effect) {
	w := r.W
	fn := w.Fn(fnKey)
	d := fmt.Sprintf("in %s every success return after [%s] passes through [%s]", fnKey, trigger, required)
	k := key + "|" + fnKey + "|" + trigger.String() + "=>" + required.String()
	if fn == nil {
		r.Unres(k, d, "function not found")
		return
	}
	ts, rs := w.Sites(fn, trigger), w.Sites(fn, required)
	if len(ts) == 0 || len(rs) == 0 {
		r.Unres(k, d, fmt.Sprintf("sites: %d trigger, %d required", len(ts), len(rs)))
		return
	}
	reqBlocks := map[*ssa.BasicBlock]bool{}
	for _, s := range rs {
		reqBlocks[s.Block] = true
	}
	for _, t := range ts {
		// blocks reachable from the trigger without passing a required block
		start := map[*ssa.BasicBlock]bool{}
		if reqBlocks[t.Block] {
			// required in the same block after the trigger? then everything after passes it
			after := false
			for _, s := range rs {
				if s.Block == t.Block && instrIndex(s.Instr) > instrIndex(t.Instr) {
					after = true
				}
			}
			if after {
				continue
			}
		}
		for _, s := range t.Block.Succs {
			for b := range reachFrom(s, reqBlocks) {
				start[b] = true
			}
		}
		if rt := returnOf(t.Block); rt != nil {
			start[t.Block] = true
		}
		for b := range start {
			rt := returnOf(b)
			if rt == nil || b == fn.Recover || returnIsFailure(fn, rt) {
				continue
			}
			// a return whose returned error IS the required call (return f(...)) passes it
			idx := errResultIndex(fn)
			if idx >= 0 {
				if c, ok := seeThrough(retValue(rt, idx)).(*ssa.Call); ok {
					isReq := false
					for _, s := range rs {
						if s.Instr == ssa.Instruction(c) {
							isReq = true
						}
					}
					if isReq {
						continue
					}
				}
			}
			r.Bad(k, d, w.posOr(rt.Pos(), fn), "a success return is reachable after the trigger without passing the required call")
			return
		}
	}
	r.OK(k, d, w.FnPos(fn), fmt.Sprintf("%d trigger / %d required sites", len(ts), len(rs)))
}

// OnlyCallsOf: within fn, calls whose callee name contains `family` are all in `allowed` (exact last-name match).
func (r *Report) OnlyCallsOf(key, fnKey, family string, allowed []string) {
	w := r.W
	fn := w.Fn(fnKey)
	d := fmt.Sprintf("in %s every %s operation is one of %v", fnKey, family, allowed)
	k := key + "|" + fnKey + "|" + family
	if fn == nil {
		r.Unres(k, d, "function not found")
		return
	}
	n := 0
	for _, b := range fn.Blocks {
		for _, in := range b.Instrs {
			ci, ok := in.(ssa.CallInstruction)
			if !ok {
				continue
			}
			name := CalleeName(ci.Common())
			if !strings.Contains(name, family) {
				continue
			}
			n++
			ok2 := false
			for _, a := range allowed {
				if lastName(name) == a {
					ok2 = true
				}
			}
			if !ok2 {
				r.Bad(k, d, w.posOr(in.Pos(), fn), name+" is not in the allowed set")
				return
			}
		}
	}
	if n == 0 {
		r.Unres(k, d, "no call of that family")
		return
	}
	r.OK(k, d, w.FnPos(fn), fmt.Sprintf("%d calls", n))
}

// SameRoot: the argument `ref` and the argument #0 of every call of `callee` in fn are the same value (the Coins that
// were moved are the Coins that are split).
func (r *Report) SameRoot(key, fnKey string, ref ArgRef, callee string) {
	w := r.W
	fn := w.Fn(fnKey)
	d := fmt.Sprintf("in %s the value passed to %s#%d is the one re-expressed by %s", fnKey, ref.Callee, ref.Idx, callee)
	k := key + "|" + fnKey
	if fn == nil {
		r.Unres(k, d, "function not found")
		return
	}
	rc := Calls(fn, ref.Callee)
	if len(rc) != 1 {
		r.Unres(k, d, fmt.Sprintf("%d calls of %s", len(rc), ref.Callee))
		return
	}
	moved := canonValue(argValue(rc[0].Common(), ref.Idx))
	n := 0
	for _, c := range Calls(fn, callee) {
		a := argValue(c.Common(), 0)
		if a == nil {
			continue
		}
		if sameCanon(canonValue(a), moved) {
			n++
		}
	}
	if n >= 1 {
		r.OK(k, d, w.Pos(rc[0].Pos()), fmt.Sprintf("%d conversion(s) of the transferred value", n))
	} else {
		r.Bad(k, d, w.posOr(rc[0].Pos(), fn), "the split does not start from the transferred Coins value")
	}
}

// Telescoping (C14.R2): the loop-carried `remaining` is initialised from the post-tax reward, decreased by exactly the
// value allocated in the loop, and the final allocation to the proposer receives it.
func (r *Report) Telescoping(key, fnKey string) {
	w := r.W
	fn := w.Fn(fnKey)
	d := "remaining := reward - tax; remaining -= each allocation; proposer gets remaining"
	k := key + "|" + fnKey
	if fn == nil {
		r.Unres(k, d, "function not found")
		return
	}
	allocs := Calls(fn, "DistrKeeper.AllocateTokensToValidator")
	if len(allocs) != 2 {
		r.Unres(k, d, fmt.Sprintf("%d AllocateTokensToValidator calls, expected 2 (loop + proposer)", len(allocs)))
		return
	}
	var final ssa.CallInstruction
	for _, a := range allocs {
		if Render(argValue(a.Common(), 1)).Has("field:Header.ProposerAddress") {
			final = a
		}
	}
	if final == nil {
		r.Bad(k, d, w.FnPos(fn), "no allocation to the proposer")
		return
	}
	v := seeThrough(argValue(final.Common(), 2))
	phi, ok := v.(*ssa.Phi)
	if !ok {
		r.Bad(k, d, w.posOr(final.Pos(), fn), "the proposer's amount is not the loop-carried remainder: "+clip(Render(v).String(), 120))
		return
	}
	okInit, okStep := false, false
	for _, e := range phi.Edges {
		t := Render(e)
		if c, isCall := seeThrough(e).(*ssa.Call); isCall && nameMatch(CalleeName(&c.Call), "DecCoins.Sub") {
			if seeThrough(c.Call.Args[0]) == ssa.Value(phi) {
				// remaining.Sub(reward): reward must be the loop allocation's amount
				for _, a := range allocs {
					if a != final && sameCanon(canonValue(argValue(a.Common(), 2)), canonValue(c.Call.Args[1])) {
						okStep = true
					}
				}
			} else if t.Has("call:DistrKeeper.GetCommunityTax") {
				okInit = true
			}
		}
	}
	if okInit && okStep {
		r.OK(k, d, w.Pos(final.Pos()), "init = reward - tax; step subtracts the allocated value; proposer receives the phi")
	} else {
		r.Bad(k, d, w.posOr(final.Pos(), fn), fmt.Sprintf("telescoping broken: init-from-post-tax=%v step-subtracts-allocated=%v", okInit, okStep))
	}
}

// BandtssRest (C14.R3): communityFund = transferred.Sub(rewardInt.MulInt(len(validMembers))) where `transferred` is the
// value moved to distribution, `rewardInt` the value paid per member and the length is that of the ranged slice.
func (r *Report) BandtssRest(key, fnKey string) {
	w := r.W
	fn := w.Fn(fnKey)
	d := "communityFund = transferred - paidPerMember × len(paid members)"
	k := key + "|" + fnKey
	if fn == nil {
		r.Unres(k, d, "function not found")
		return
	}
	fund := Calls(fn, "DistrKeeper.FundCommunityPool")
	move := Calls(fn, "BankKeeper.SendCoinsFromModuleToModule")
	pay := Calls(fn, "BankKeeper.SendCoinsFromModuleToAccount")
	if len(fund) != 1 || len(move) != 1 || len(pay) != 1 {
		r.Unres(k, d, fmt.Sprintf("calls: fund=%d move=%d pay=%d", len(fund), len(move), len(pay)))
		return
	}
	sub, ok := seeThrough(argValue(fund[0].Common(), 1)).(*ssa.Call)
	if !ok || !nameMatch(CalleeName(&sub.Call), "Coins.Sub") {
		r.Bad(k, d, w.posOr(fund[0].Pos(), fn), "funded amount is not a Coins.Sub")
		return
	}
	if !sameCanon(canonValue(sub.Call.Args[0]), canonValue(argValue(move[0].Common(), 3))) {
		r.Bad(k, d, w.posOr(fund[0].Pos(), fn), "minuend is not the transferred amount")
		return
	}
	st := Render(sub.Call.Args[1])
	paid := canonValue(argValue(pay[0].Common(), 3))
	var mul *ssa.Call
	for _, b := range fn.Blocks {
		for _, in := range b.Instrs {
			if c, ok := in.(*ssa.Call); ok && nameMatch(CalleeName(&c.Call), "Coins.MulInt") {
				mul = c
			}
		}
	}
	if mul == nil || !sameCanon(canonValue(mul.Call.Args[0]), paid) {
		r.Bad(k, d, w.posOr(fund[0].Pos(), fn), "subtrahend is not (the per-member payment).MulInt(...)")
		return
	}
	// the multiplier is len(slice) of the slice the pay loop ranges over
	recv := Render(argValue(pay[0].Common(), 2))
	_ = st
	multiplier := Render(mul.Call.Args[1])
	if !multiplier.Has("len", "call:builtin.append") || multiplier.Has("call:TSSKeeper.MustGetMembers", "!call:builtin.append") || !recv.Has("call:builtin.append") {
		r.Bad(k, d, w.posOr(fund[0].Pos(), fn), "multiplier is not the length of the paid-members slice")
		return
	}
	r.OK(k, d, w.Pos(fund[0].Pos()), "transferred − paid×len(validMembers)")
}

// =====================================================================================
// Control conditions of value edges (for variables that are SSA phis, not stores)

type ctl struct {
	pred   Pred
	onTrue bool
	pos    token.Pos
}

// controlConds: the (condition, polarity) pairs every path from entry to block b must have taken.
func (w *World) controlConds(fn *ssa.Function, b *ssa.BasicBlock) []ctl {
	var out []ctl
	for d := b.Idom(); d != nil; d = d.Idom() {
		ifi := ifOf(d)
		if ifi == nil {
			continue
		}
		t, f := d.Succs[0], d.Succs[1]
		if t != f {
			if edgeDominates(d, t, b) {
				out = append(out, ctl{NormalizeCond(ifi.Cond), true, ifi.Cond.Pos()})
			} else if edgeDominates(d, f, b) {
				out = append(out, ctl{NormalizeCond(ifi.Cond), false, ifi.Cond.Pos()})
			}
		}
	}
	return out
}

func ctlSatisfies(cs []ctl, c Cond) bool {
	for _, x := range cs {
		if m, passOnTrue := c.Match(x.pred); m && passOnTrue == x.onTrue {
			return true
		}
	}
	return false
}

func ctlMentions(cs []ctl, atoms ...string) bool {
	for _, x := range cs {
		if x.pred.A != nil && x.pred.A.Has(atoms...) {
			return true
		}
		if x.pred.B != nil && x.pred.B.Has(atoms...) {
			return true
		}
	}
	return false
}

// comparedPhi: the phi that is compared (as either operand of a relational BinOp) against a value containing otherAtoms.
func comparedPhi(fn *ssa.Function, otherAtoms ...string) *ssa.Phi {
	for _, b := range fn.Blocks {
		for _, in := range b.Instrs {
			bo, ok := in.(*ssa.BinOp)
			if !ok {
				continue
			}
			switch bo.Op {
			case token.LSS, token.GTR, token.LEQ, token.GEQ:
			default:
				continue
			}
			if p, ok := bo.X.(*ssa.Phi); ok && Render(bo.Y).Has(otherAtoms...) && !Render(bo.Y).Has("phi") {
				return p
			}
			if p, ok := bo.Y.(*ssa.Phi); ok && Render(bo.X).Has(otherAtoms...) && !Render(bo.X).Has("phi") {
				return p
			}
		}
	}
	return nil
}

// PhiEdge: for the variable (phi) compared against `against`, every incoming value containing edgeAtoms arrives under
// all of `must` and under no condition mentioning `mustNotMention`.
func (r *Report) PhiEdge(key, fnKey string, against []string, edgeAtoms []string, must []Cond, mustNotMention [][]string) {
	w := r.W
	fn := w.Fn(fnKey)
	d := fmt.Sprintf("in %s the variable compared with %v takes a value from %v only under %v and independently of %v", fnKey, against, edgeAtoms, must, mustNotMention)
	k := fmt.Sprintf("%s|%s|%v<-%v", key, fnKey, against, edgeAtoms)
	if fn == nil {
		r.Unres(k, d, "function not found")
		return
	}
	w.FuncsAnalysed[fn] = true
	phi := comparedPhi(fn, against...)
	if phi == nil {
		r.Unres(k, d, "no merged variable is compared against that operand")
		return
	}
	n := 0
	seen := map[*ssa.Phi]bool{}
	var bad string
	var visit func(p *ssa.Phi)
	visit = func(p *ssa.Phi) {
		if seen[p] {
			return
		}
		seen[p] = true
		for i, e := range p.Edges {
			if q, ok := e.(*ssa.Phi); ok {
				visit(q)
				continue
			}
			t := Render(e)
			if !t.Has(edgeAtoms...) {
				continue
			}
			n++
			pred := p.Block().Preds[i]
			cs := w.controlConds(fn, pred)
			// the edge pred->phi block itself may be a conditional edge
			if ifi := ifOf(pred); ifi != nil && pred.Succs[0] != pred.Succs[1] {
				cs = append(cs, ctl{NormalizeCond(ifi.Cond), pred.Succs[0] == p.Block(), ifi.Cond.Pos()})
			}
			for _, c := range must {
				if !ctlSatisfies(cs, c) {
					bad = "value " + clip(t.String(), 100) + " flows in without " + c.String()
				}
			}
			for _, mn := range mustNotMention {
				if ctlMentions(cs, mn...) {
					bad = "value " + clip(t.String(), 100) + " flows in only under a condition on " + strings.Join(mn, ",")
				}
			}
		}
	}
	visit(phi)
	if n == 0 {
		r.Unres(k, d, "no incoming value matches")
		return
	}
	if bad != "" {
		r.Bad(k, d, w.FnPos(fn), bad)
	} else {
		r.OK(k, d, w.FnPos(fn), fmt.Sprintf("%d incoming value(s)", n))
	}
}

// ConstArgCallers: callers of ctor passing the constant `val` at parameter idx ⊆ allowed (E1-arg).
func (r *Report) ConstArgCallers(key, ctor string, idx int, val string, allowed []string) {
	w := r.W
	fn := w.Fn(ctor)
	d := fmt.Sprintf("%s(...#%d=%s...) is called only in %v", ctor, idx, val, allowed)
	k := key + "|" + ctor + "=" + val
	if fn == nil {
		r.Unres(k, d, "function not found")
		return
	}
	found := map[string]string{}
	for _, e := range w.CallersOf(fn) {
		if !inRepoScope(e.Caller) || e.Site == nil {
			continue
		}
		v := argValue(e.Site.Common(), idx)
		c, ok := seeThrough(v).(*ssa.Const)
		ck := FuncKey(rootFn(e.Caller))
		if !ok {
			found[ck+" (non-constant)"] = w.Pos(e.Site.Pos())
			continue
		}
		if constString(c) == val {
			found[ck] = w.Pos(e.Site.Pos())
		}
	}
	if len(found) == 0 {
		r.Unres(k, d, "no such call found")
		return
	}
	for _, c := range sortedKeys(found) {
		ok := false
		for _, a := range allowed {
			if c == a {
				ok = true
			}
		}
		if ok {
			r.OK(k+"<-"+c, d, found[c], "allowed")
		} else {
			r.Bad(k+"<-"+c, d, found[c], c+" is not an allowed site")
		}
	}
}

// Conjunction: fn returns true only if both comparisons (variable < a) and (variable < b) hold.
func (r *Report) Conjunction(key, fnKey string, a, b []string) {
	w := r.W
	fn := w.Fn(fnKey)
	d := fmt.Sprintf("%s returns the conjunction of the comparison against %v and the comparison against %v", fnKey, a, b)
	k := key + "|" + fnKey
	if fn == nil {
		r.Unres(k, d, "function not found")
		return
	}
	var ret *ssa.Return
	n := 0
	for _, bl := range fn.Blocks {
		if rt := returnOf(bl); rt != nil && bl != fn.Recover {
			ret = rt
			n++
		}
	}
	mm := func(p Pred, x []string) bool {
		return p.Op == "LSS" && !p.Neg && p.A.Has("phi") && p.B.Has(x...)
	}
	if n == 2 {
		// the same conjunction in branch form: if !(x) { return false }; return y
		var fb, gb *ssa.BasicBlock
		var cmp2 *ssa.BinOp
		for _, bl := range fn.Blocks {
			rt := returnOf(bl)
			if rt == nil || bl == fn.Recover || len(rt.Results) != 1 {
				continue
			}
			switch x := rt.Results[0].(type) {
			case *ssa.Const:
				if constString(x) == "false" && len(bl.Instrs) == 1 {
					fb = bl
				}
			case *ssa.BinOp:
				gb, cmp2 = bl, x
			}
		}
		if fb != nil && gb != nil && len(fb.Preds) == 1 {
			if first := ifOf(fb.Preds[0]); first != nil && fb.Preds[0].Succs[1] == fb && fb.Preds[0].Succs[0] == gb && len(gb.Preds) == 1 {
				p1, p2 := NormalizeCond(first.Cond), NormalizeCond(cmp2)
				if (mm(p1, a) && mm(p2, b)) || (mm(p1, b) && mm(p2, a)) {
					r.OK(k, d, w.Pos(cmp2.Pos()), "both strict comparisons: the first one failing returns false, otherwise the second one is returned")
				} else {
					r.Bad(k, d, w.posOr(cmp2.Pos(), fn), "comparisons are "+p1.String()+" and "+p2.String())
				}
				return
			}
		}
	}
	if n == 3 {
		// fully branched: if !(x) { return false }; if y { return true }; return false
		for _, bl := range fn.Blocks {
			rt := returnOf(bl)
			if rt == nil || len(rt.Results) != 1 || len(bl.Instrs) != 1 || len(bl.Preds) != 1 {
				continue
			}
			cv, isC := rt.Results[0].(*ssa.Const)
			if !isC || constString(cv) != "true" {
				continue
			}
			p2 := bl.Preds[0]
			second := ifOf(p2)
			if second == nil || p2.Succs[0] != bl || len(p2.Preds) != 1 {
				continue
			}
			p1 := p2.Preds[0]
			first := ifOf(p1)
			if first == nil || p1.Succs[0] != p2 {
				continue
			}
			isFalseRet := func(sb *ssa.BasicBlock) bool {
				rt := returnOf(sb)
				if rt == nil || len(rt.Results) != 1 {
					return false
				}
				c, ok := rt.Results[0].(*ssa.Const)
				return ok && constString(c) == "false"
			}
			if !isFalseRet(p1.Succs[1]) || !isFalseRet(p2.Succs[1]) {
				continue
			}
			pa, pb := NormalizeCond(first.Cond), NormalizeCond(second.Cond)
			if (mm(pa, a) && mm(pb, b)) || (mm(pa, b) && mm(pb, a)) {
				r.OK(k, d, w.Pos(second.Cond.Pos()), "both strict comparisons as two successive branches; true only when both hold")
			} else {
				r.Bad(k, d, w.posOr(second.Cond.Pos(), fn), "comparisons are "+pa.String()+" and "+pb.String())
			}
			return
		}
	}
	if n != 1 || len(ret.Results) != 1 {
		r.Bad(k, d, w.FnPos(fn), fmt.Sprintf("%d returns", n))
		return
	}
	phi, ok := ret.Results[0].(*ssa.Phi)
	if !ok || len(phi.Edges) != 2 {
		r.Bad(k, d, w.posOr(ret.Pos(), fn), "result is not a short-circuit conjunction: "+clip(Render(ret.Results[0]).String(), 160))
		return
	}
	var cmp *ssa.BinOp
	var constEdge *ssa.Const
	var constPred *ssa.BasicBlock
	for i, e := range phi.Edges {
		switch x := e.(type) {
		case *ssa.Const:
			constEdge, constPred = x, phi.Block().Preds[i]
		case *ssa.BinOp:
			cmp = x
		}
	}
	if cmp == nil || constEdge == nil || constString(constEdge) != "false" {
		r.Bad(k, d, w.posOr(ret.Pos(), fn), "result is not `x && y` (a disjunction or a single comparison)")
		return
	}
	first := ifOf(constPred)
	if first == nil {
		r.Bad(k, d, w.posOr(ret.Pos(), fn), "no first comparison")
		return
	}
	p1, p2 := NormalizeCond(first.Cond), NormalizeCond(cmp)
	m := func(p Pred, x []string) bool {
		return p.Op == "LSS" && !p.Neg && p.A.Has("phi") && p.B.Has(x...)
	}
	if (m(p1, a) && m(p2, b)) || (m(p1, b) && m(p2, a)) {
		r.OK(k, d, w.Pos(ret.Pos()), "both strict comparisons, joined by &&")
	} else {
		r.Bad(k, d, w.posOr(ret.Pos(), fn), "comparisons are "+p1.String()+" and "+p2.String())
	}
}

// SiblingCreator (C17.R1): for every method of the tunnel msgServer whose request type has Creator and TunnelID
// fields, every state-changing keeper call is gated by msg.Creator == tunnel.Creator of GetTunnel(msg.TunnelID).
func (r *Report) SiblingCreator(key string, min int) {
	w := r.W
	roots := w.ComputeRoots()
	d := "every tunnel management handler (request has Creator+TunnelID) gates all keeper writes by msg.Creator == tunnel.Creator"
	n := 0
	for fn := range roots.Msg {
		fk := FuncKey(fn)
		if !strings.HasPrefix(fk, "x/tunnel/keeper.msgServer.") || len(fn.Params) < 3 {
			continue
		}
		pt, ok := fn.Params[2].Type().(*types.Pointer)
		if !ok {
			continue
		}
		st, ok := pt.Elem().Underlying().(*types.Struct)
		if !ok {
			continue
		}
		hasC, hasT := false, false
		for i := 0; i < st.NumFields(); i++ {
			switch st.Field(i).Name() {
			case "Creator":
				hasC = true
			case "TunnelID":
				hasT = true
			}
		}
		if !hasC || !hasT {
			continue
		}
		n++
		msgT := typeName(pt.Elem())
		cond := Cond{Op: "EQL", A: []string{"field:" + msgT + ".Creator"}, B: []string{"field:Tunnel.Creator", "call:Keeper.GetTunnel", "field:" + msgT + ".TunnelID"}, Want: true, Desc: "msg.Creator == GetTunnel(msg.TunnelID).Creator"}
		ifs := w.ifs(fn)
		writes := 0
		for _, b := range fn.Blocks {
			for _, in := range b.Instrs {
				ci, ok := in.(ssa.CallInstruction)
				if !ok {
					continue
				}
				name := CalleeName(ci.Common())
				if !strings.HasPrefix(name, "x/tunnel/keeper.Keeper.") {
					continue
				}
				ln := lastName(name)
				if strings.HasPrefix(ln, "Get") || strings.HasPrefix(ln, "Has") || strings.HasPrefix(ln, "Must") || strings.HasPrefix(ln, "Validate") {
					continue
				}
				writes++
				k := key + "|" + fk + "|" + ln
				if ok, _, det := w.gatedBy(fn, ifs, Site{in, b, ln}, cond); ok {
					r.OK(k, d, w.Pos(in.Pos()), "gated by the creator check at "+det)
				} else {
					r.Bad(k, d, w.posOr(in.Pos(), fn), "keeper write "+ln+" not gated by the creator check: "+det)
				}
			}
		}
		if writes == 0 {
			r.Unres(key+"|"+fk+"|writes", d, "handler performs no keeper write (table stale?)")
		}
		r.failIsError(key, fn, fk, ifs, cond)
	}
	if n < min {
		r.Unres(key+"|count", d, fmt.Sprintf("%d management handlers found, expected >= %d", n, min))
	}
}

// MustPassWhen (C17.R5): in WithdrawFromTunnel the deactivation branch's error is returned (not swallowed).
func (r *Report) MustPassWhen(key, fnKey string) {
	w := r.W
	fn := w.Fn(fnKey)
	d := "an error of DeactivateTunnel aborts the withdrawal"
	k := key + "|" + fnKey
	if fn == nil {
		r.Unres(k, d, "function not found")
		return
	}
	ifs := w.ifs(fn)
	r.failIsError(key, fn, fnKey, ifs, nilErrOf("Keeper.DeactivateTunnel"))
	_ = k
}

// ShuffleShape (C09.R3): GetRandomMembers draws rng.NextUint64() % (n - i), reads memberIdx[draw], overwrites
// memberIdx[draw] with memberIdx[n-i-1] and appends members[memberIdx-read].
func (r *Report) ShuffleShape(key, fnKey string) {
	w := r.W
	fn := w.Fn(fnKey)
	d := "partial Fisher-Yates: draw % (n-i); take idx[draw]; idx[draw] = idx[n-i-1]; append members[taken]"
	k := key + "|" + fnKey
	if fn == nil {
		r.Unres(k, d, "function not found")
		return
	}
	w.FuncsAnalysed[fn] = true
	var rem *ssa.BinOp
	for _, b := range fn.Blocks {
		for _, in := range b.Instrs {
			if bo, ok := in.(*ssa.BinOp); ok && bo.Op == token.REM {
				rem = bo
			}
		}
	}
	if rem == nil || !Render(rem.X).Has("^call:Rng.NextUint64") {
		r.Bad(k, d, w.FnPos(fn), "no `rng.NextUint64() % ...`")
		return
	}
	mod := Render(rem.Y)
	if !mod.Has("^binop:-", "len", "call:Keeper.GetAvailableMembers", "phi") {
		r.Bad(k, d, w.posOr(rem.Pos(), fn), "modulus is not (available - i): "+clip(mod.String(), 160))
		return
	}
	// the store memberIdx[draw] = memberIdx[n-i-1]
	okStore := false
	for _, b := range fn.Blocks {
		for _, in := range b.Instrs {
			st, ok := in.(*ssa.Store)
			if !ok {
				continue
			}
			ia, ok := st.Addr.(*ssa.IndexAddr)
			if !ok || seeThrough(ia.Index) != ssa.Value(rem) {
				continue
			}
			v := Render(st.Val)
			if v.Has("^index", "binop:-", "const:1", "len", "phi") {
				okStore = true
			}
		}
	}
	if !okStore {
		r.Bad(k, d, w.posOr(rem.Pos(), fn), "no `idx[draw] = idx[n-i-1]` swap")
		return
	}
	// appended element is members[idx[draw]]
	okApp := false
	for _, c := range Calls(fn, "builtin.append") {
		t := renderCall(c)
		if t.Has("call:Keeper.GetAvailableMembers", "binop:%", "call:Rng.NextUint64") {
			okApp = true
		}
	}
	if !okApp {
		r.Bad(k, d, w.FnPos(fn), "selected member is not members[idx[draw]]")
		return
	}
	// the auxiliary array holds POSITIONS of the eligible list: it is filled with idx[j] = j, and the selected element is
	// members[idx[draw]] with no arithmetic between the two index operations (seed C09-6 shuffled member ids and used
	// members[id-1], which is a position only while every member of the group is eligible)
	var aux ssa.Value
	for _, b := range fn.Blocks {
		for _, in := range b.Instrs {
			if ia, ok := in.(*ssa.IndexAddr); ok && seeThrough(ia.Index) == ssa.Value(rem) {
				aux = ia.X
			}
		}
	}
	if aux == nil {
		r.Bad(k, d, w.posOr(rem.Pos(), fn), "no array indexed by the draw")
		return
	}
	identity := false
	for _, b := range fn.Blocks {
		for _, in := range b.Instrs {
			st, ok := in.(*ssa.Store)
			if !ok {
				continue
			}
			if ia, ok := st.Addr.(*ssa.IndexAddr); ok && ia.X == aux && seeThrough(ia.Index) != ssa.Value(rem) && seeThrough(st.Val) == seeThrough(ia.Index) {
				identity = true
			}
		}
	}
	if _, isMake := aux.(*ssa.MakeSlice); !isMake || !identity {
		r.Bad(k, d, w.posOr(rem.Pos(), fn), "the shuffled array is not a fresh slice filled with idx[j] = j (positions of the eligible list): "+clip(Render(aux).String(), 120))
		return
	}
	direct := false
	for _, b := range fn.Blocks {
		for _, in := range b.Instrs {
			ia, ok := in.(*ssa.IndexAddr)
			if !ok || ia.X == aux {
				continue
			}
			if !Render(ia.X).Has("call:Keeper.GetAvailableMembers") {
				continue
			}
			// index operand: a load of aux[draw], possibly converted - but no arithmetic
			if u, ok := seeThrough(ia.Index).(*ssa.UnOp); ok && u.Op == token.MUL {
				if ja, ok := u.X.(*ssa.IndexAddr); ok && ja.X == aux && seeThrough(ja.Index) == ssa.Value(rem) {
					direct = true
				}
			}
		}
	}
	if !direct {
		r.Bad(k, d, w.posOr(rem.Pos(), fn), "the selected member is not members[idx[draw]] (the drawn slot's content used directly as the position)")
		return
	}
	r.OK(k, d, w.Pos(rem.Pos()), "shape matches")
}

// ---- channel helpers (daemon rules)

func sendsOn(fn *ssa.Function, chanAtoms ...string) []*ssa.Send {
	var out []*ssa.Send
	for _, b := range fn.Blocks {
		for _, in := range b.Instrs {
			if s, ok := in.(*ssa.Send); ok && Render(s.Chan).Has(chanAtoms...) {
				out = append(out, s)
			}
		}
	}
	return out
}

// SendValueHas: every value sent on the channel contains atoms.
func (r *Report) SendValueHas(key, fnKey, ch string, atoms ...string) {
	w := r.W
	fn := w.Fn(fnKey)
	d := fmt.Sprintf("every value sent on %s in %s is built from {%s}", ch, fnKey, strings.Join(atoms, ", "))
	k := key + "|" + fnKey + "|" + ch
	if fn == nil {
		r.Unres(k, d, "function not found")
		return
	}
	ss := sendsOn(fn, ch)
	if len(ss) == 0 {
		r.Unres(k, d, "no send")
		return
	}
	for _, s := range ss {
		t := Render(s.X)
		if !t.Has(atoms...) {
			r.Bad(k, d, w.posOr(s.Pos(), fn), "sent value is "+clip(t.String(), 200))
			return
		}
	}
	r.OK(k, d, w.FnPos(fn), fmt.Sprintf("%d send(s)", len(ss)))
}

// GateSend: the sends whose value contains `sel` also contain `must` and are gated by conds.
func (r *Report) GateSend(key, fnKey string, sel, must []string, conds []Cond) {
	w := r.W
	fn := w.Fn(fnKey)
	d := fmt.Sprintf("in %s the send carrying %v also carries %v and happens only under %v", fnKey, sel, must, conds)
	k := key + "|" + fnKey
	if fn == nil {
		r.Unres(k, d, "function not found")
		return
	}
	ifs := w.ifs(fn)
	n := 0
	for _, b := range fn.Blocks {
		for _, in := range b.Instrs {
			s, ok := in.(*ssa.Send)
			if !ok || !Render(s.X).Has(sel...) {
				continue
			}
			n++
			if !Render(s.X).Has(must...) {
				r.Bad(k, d, w.posOr(s.Pos(), fn), "sent value lacks "+strings.Join(must, ",")+": "+clip(Render(s.X).String(), 160))
				return
			}
			for _, c := range conds {
				if ok, _, det := w.gatedBy(fn, ifs, Site{in, b, "send"}, c); !ok {
					r.Bad(k, d, w.posOr(s.Pos(), fn), "send not gated by "+c.String()+": "+det)
					return
				}
			}
		}
	}
	if n == 0 {
		r.Unres(k, d, "no such send")
		return
	}
	r.OK(k, d, w.FnPos(fn), fmt.Sprintf("%d send(s)", n))
}

// SendsUnder: every send on ch whose value does NOT contain `unless` contains `must`.
func (r *Report) SendsUnder(key, fnKey, ch, unless, must string) {
	w := r.W
	fn := w.Fn(fnKey)
	d := fmt.Sprintf("in %s every send on %s that does not carry %s carries %s", fnKey, ch, unless, must)
	k := key + "|" + fnKey
	if fn == nil {
		r.Unres(k, d, "function not found")
		return
	}
	n := 0
	for _, s := range sendsOn(fn, ch) {
		t := Render(s.X)
		if t.Has(unless) {
			continue
		}
		n++
		if !t.Has(must) {
			r.Bad(k, d, w.posOr(s.Pos(), fn), "sent value is "+clip(t.String(), 160))
			return
		}
	}
	if n == 0 {
		r.Unres(k, d, "no failure send")
		return
	}
	r.OK(k, d, w.FnPos(fn), fmt.Sprintf("%d failure send(s)", n))
}

// ChanShape (C19.R2): make(chan T, len(reqs)); a `go` per element of reqs passing that channel; a receive per element of
// the same reqs; every received rawReport appended to the result.
func (r *Report) ChanShape(key, fnKey string) {
	w := r.W
	fn := w.Fn(fnKey)
	d := "result channel buffered to len(reqs); one goroutine and one receive per element of the same slice; each received report appended"
	k := key + "|" + fnKey
	if fn == nil {
		r.Unres(k, d, "function not found")
		return
	}
	w.FuncsAnalysed[fn] = true
	var mk *ssa.MakeChan
	var gos []*ssa.Go
	var recvs []*ssa.UnOp
	for _, b := range fn.Blocks {
		for _, in := range b.Instrs {
			switch x := in.(type) {
			case *ssa.MakeChan:
				mk = x
			case *ssa.Go:
				gos = append(gos, x)
			case *ssa.UnOp:
				if x.Op == token.ARROW {
					recvs = append(recvs, x)
				}
			}
		}
	}
	if mk == nil || len(gos) != 1 || len(recvs) != 1 {
		r.Bad(k, d, w.FnPos(fn), fmt.Sprintf("shape changed: makechan=%v go=%d recv=%d", mk != nil, len(gos), len(recvs)))
		return
	}
	if !Render(mk.Size).Has("^len", "param:reqs") {
		r.Bad(k, d, w.posOr(mk.Pos(), fn), "channel capacity is "+Render(mk.Size).String()+", not len(reqs): a worker could block forever or results be lost")
		return
	}
	passes := false
	for _, a := range gos[0].Call.Args {
		if seeThrough(a) == ssa.Value(mk) {
			passes = true
		}
	}
	if !passes || !nameMatch(CalleeName(&gos[0].Call), "yoda.handleRawRequest") {
		r.Bad(k, d, w.posOr(gos[0].Pos(), fn), "the goroutine is not handleRawRequest with the result channel")
		return
	}
	if seeThrough(recvs[0].X) != ssa.Value(mk) {
		r.Bad(k, d, w.posOr(recvs[0].Pos(), fn), "receive is not on the result channel")
		return
	}
	// both loops are bounded by len(reqs)
	loopBound := func(b *ssa.BasicBlock) bool {
		for d := b; d != nil; d = d.Idom() {
			if ifi := ifOf(d); ifi != nil {
				p := NormalizeCond(ifi.Cond)
				if p.Op == "LSS" && p.B != nil && p.B.Has("^len", "param:reqs") && d.Dominates(b) && reachFrom(b, nil)[d] {
					return true
				}
			}
		}
		return false
	}
	if !loopBound(gos[0].Block()) || !loopBound(recvs[0].Block()) {
		r.Bad(k, d, w.FnPos(fn), "spawn loop or receive loop is not `range reqs`")
		return
	}
	// appended
	app := false
	var appBlock *ssa.BasicBlock
	for _, c := range Calls(fn, "builtin.append") {
		if renderCall(c).Has("field:processingResult.rawReport", "recv") {
			app = true
			appBlock = c.Block()
		}
	}
	if !app {
		r.Bad(k, d, w.FnPos(fn), "received rawReport is not appended to the reports")
		return
	}
	// the append is unconditional within the receive loop: no way from the receive to the next iteration or to a return
	// that avoids the append (seed C19-9: `if result.err != nil { continue }` placed before the append)
	if rb := recvs[0].Block(); appBlock != rb {
		seen := map[*ssa.BasicBlock]bool{}
		skips := false
		var walk func(b *ssa.BasicBlock)
		walk = func(b *ssa.BasicBlock) {
			if seen[b] || b == appBlock || skips {
				return
			}
			seen[b] = true
			if b == rb || len(b.Succs) == 0 {
				skips = true
				return
			}
			for _, s := range b.Succs {
				walk(s)
			}
		}
		for _, s := range rb.Succs {
			walk(s)
		}
		if skips {
			r.Bad(k, d, w.posOr(recvs[0].Pos(), fn), "a received result can be dropped: some path from the receive to the next iteration (or to a return) does not append its rawReport")
			return
		}
	}
	r.OK(k, d, w.FnPos(fn), "shape matches")
}

// DeferredSend: fn defers (before any return) a closure or call that sends on the channel.
func (r *Report) DeferredSend(key, fnKey, ch string) {
	w := r.W
	fn := w.Fn(fnKey)
	d := fmt.Sprintf("%s installs, before its first return, a defer that sends on %s", fnKey, ch)
	k := key + "|" + fnKey
	if fn == nil {
		r.Unres(k, d, "function not found")
		return
	}
	for _, b := range fn.Blocks {
		for _, in := range b.Instrs {
			df, ok := in.(*ssa.Defer)
			if !ok {
				continue
			}
			mc, ok := df.Call.Value.(*ssa.MakeClosure)
			if !ok {
				continue
			}
			cf := mc.Fn.(*ssa.Function)
			if len(sendsOn(cf, ch)) == 0 {
				continue
			}
			// no return reachable before the defer: the defer's block dominates every return
			okAll := true
			for _, rb := range fn.Blocks {
				if rt := returnOf(rb); rt != nil && rb != fn.Recover && !b.Dominates(rb) {
					okAll = false
				}
			}
			if okAll {
				r.OK(k, d, w.Pos(df.Pos()), "deferred release dominates every return")
				return
			}
			r.Bad(k, d, w.posOr(df.Pos(), fn), "a return can happen before the defer is installed")
			return
		}
	}
	r.Bad(k, d, w.FnPos(fn), "no deferred send on the channel")
}

// DaemonPanics: explicit panics and Must* calls in the functions of a package prefix ⊆ accepted table.
func (r *Report) DaemonPanics(key, prefix string, table []panicAllow) {
	w := r.W
	var roots []*ssa.Function
	for k, fn := range w.Funcs {
		if strings.HasPrefix(k, prefix) && len(fn.Blocks) > 0 && fn.Parent() == nil {
			roots = append(roots, fn)
		}
	}
	sort.Slice(roots, func(i, j int) bool { return FuncKey(roots[i]) < FuncKey(roots[j]) })
	r.Census(key, roots, table, "the functions of package "+strings.TrimSuffix(prefix, "."))
}

// PositiveSlices: E11 fires on the shipped positive example and stays quiet on its guarded twin.
func (r *Report) PositiveSlices(key string) {
	d := "the E11 rule fires on the shipped positive example"
	w, err := loadPositive()
	if err != nil {
		r.Unres(key, d, err.Error())
		return
	}
	bad := w.UnguardedConstSlices(w.Funcs["bandcheck/testdata/lintpos.ShortSlice"])
	good := w.UnguardedConstSlices(w.Funcs["bandcheck/testdata/lintpos.GuardedSlice"])
	if len(bad) == 2 && len(good) == 0 {
		r.OK(key, d, "checker/testdata/lintpos/pos.go", "b[3] and s[:4] flagged; guarded b[:8] accepted")
	} else {
		r.Unres(key, d, fmt.Sprintf("positive example: flagged=%d (want 2), guarded flagged=%d (want 0)", len(bad), len(good)))
	}
}

func trimConst(a string) string { return strings.TrimPrefix(a, "const:") }

// DeferredRelease: fn installs a defer whose closure calls `release` and sends on `ch`, unconditionally, and the defer
// dominates every return of fn.
func (r *Report) DeferredRelease(key, fnKey, release, ch string) {
	w := r.W
	fn := w.Fn(fnKey)
	d := fmt.Sprintf("%s installs, before any return, a defer that unconditionally calls %s and sends on %s", fnKey, release, ch)
	k := key + "|" + fnKey
	if fn == nil {
		r.Unres(k, d, "function not found")
		return
	}
	for _, b := range fn.Blocks {
		for _, in := range b.Instrs {
			df, ok := in.(*ssa.Defer)
			if !ok {
				continue
			}
			mc, ok := df.Call.Value.(*ssa.MakeClosure)
			if !ok {
				continue
			}
			cf := mc.Fn.(*ssa.Function)
			rel := Calls(cf, release)
			snd := sendsOn(cf, ch)
			if len(rel) == 0 || len(snd) == 0 {
				continue
			}
			// unconditional inside the closure: in the entry block or dominating every return of the closure
			for _, c := range rel {
				for _, cb := range cf.Blocks {
					if rt := returnOf(cb); rt != nil && cb != cf.Recover && !c.Block().Dominates(cb) {
						r.Bad(k, d, w.posOr(c.Pos(), cf), "the release inside the deferred closure is conditional")
						return
					}
				}
			}
			for _, rb := range fn.Blocks {
				if rt := returnOf(rb); rt != nil && rb != fn.Recover && !b.Dominates(rb) {
					r.Bad(k, d, w.posOr(rt.Pos(), fn), "this return can happen before the defer is installed: the signals stay marked in flight for ever")
					return
				}
			}
			r.OK(k, d, w.Pos(df.Pos()), "defer dominates every return; release unconditional")
			return
		}
	}
	r.Bad(k, d, w.FnPos(fn), "no such defer")
}

// ConstNonNegative: named integer constant >= 0.
func (r *Report) ConstNonNegative(key, pkgRel, name string) {
	w := r.W
	d := pkgRel + "." + name + " is a non-negative constant"
	p := w.PkgBy[pkgRel]
	if p == nil {
		r.Unres(key, d, "package not found")
		return
	}
	v := constBig(pkgConst(p, name))
	if v == nil {
		r.Unres(key, d, "not an integer constant (a variable could be changed at run time)")
		return
	}
	if v.Sign() >= 0 {
		r.OK(key, d, "-", v.String())
	} else {
		r.Bad(key, d, "-", v.String())
	}
}

// VarintChain: in fn, successive binary.Varint reads of one buffer form a chain: the k-th read starts at the sum of
// the lengths of reads 0..k-1, each length exactly once (a repeated or skipped length mis-parses as soon as two fields
// have different widths).
func (r *Report) VarintChain(key, fnKey string, minReads int) {
	w := r.W
	fn := w.Fn(fnKey)
	d := fmt.Sprintf("in %s the k-th binary.Varint read starts at the sum of the lengths of all previous reads", fnKey)
	k := key + "|" + fnKey
	if fn == nil {
		r.Unres(k, d, "function not found")
		return
	}
	w.FuncsAnalysed[fn] = true
	var reads []*ssa.Call
	for _, b := range fn.Blocks {
		for _, in := range b.Instrs {
			if c, ok := in.(*ssa.Call); ok && CalleeName(&c.Call) == "encoding/binary.Varint" {
				reads = append(reads, c)
			}
		}
	}
	if len(reads) < minReads {
		r.Unres(k, d, fmt.Sprintf("%d varint reads, expected >= %d", len(reads), minReads))
		return
	}
	lenOf := func(c *ssa.Call) ssa.Value {
		if c.Referrers() == nil {
			return nil
		}
		for _, ref := range *c.Referrers() {
			if ex, ok := ref.(*ssa.Extract); ok && ex.Index == 1 {
				return ex
			}
		}
		return nil
	}
	// group by block (each loop iteration / function body is one chain)
	byBlock := map[*ssa.BasicBlock][]*ssa.Call{}
	for _, c := range reads {
		byBlock[c.Block()] = append(byBlock[c.Block()], c)
	}
	for _, chain := range byBlock {
		var lens []ssa.Value
		for i, c := range chain {
			arg := c.Call.Args[0]
			var low ssa.Value
			if sl, ok := arg.(*ssa.Slice); ok {
				low = sl.Low
			}
			// collect the multiset of length values summed in `low`
			got := map[ssa.Value]int{}
			okShape := true
			var walk func(v ssa.Value)
			walk = func(v ssa.Value) {
				if v == nil {
					return
				}
				switch x := v.(type) {
				case *ssa.BinOp:
					if x.Op != token.ADD {
						okShape = false
						return
					}
					walk(x.X)
					walk(x.Y)
				default:
					got[v]++
				}
			}
			walk(low)
			bad := !okShape || len(got) != len(lens)
			for _, l := range lens {
				if got[l] != 1 {
					bad = true
				}
			}
			if bad {
				r.Bad(k, d, w.posOr(c.Pos(), fn), fmt.Sprintf("read #%d starts at %s, not at the sum of the %d previous lengths", i, clip(Render(low).String(), 120), len(lens)))
				return
			}
			if l := lenOf(c); l != nil {
				lens = append(lens, l)
			} else if i != len(chain)-1 {
				r.Bad(k, d, w.posOr(c.Pos(), fn), fmt.Sprintf("length of read #%d is discarded but a later read depends on it", i))
				return
			}
		}
	}
	r.OK(k, d, w.FnPos(fn), fmt.Sprintf("%d reads in %d chain(s)", len(reads), len(byBlock)))
}

// VarintChainPkg: VarintChain over every function of a package that performs at least two varint reads.
func (r *Report) VarintChainPkg(key, pkgPrefix string, minTotalReads int) {
	w := r.W
	total := 0
	for _, k := range sortedKeys(w.Funcs) {
		fn := w.Funcs[k]
		if !strings.HasPrefix(k, pkgPrefix) || len(fn.Blocks) == 0 {
			continue
		}
		n := 0
		for _, b := range fn.Blocks {
			for _, in := range b.Instrs {
				if c, ok := in.(*ssa.Call); ok && CalleeName(&c.Call) == "encoding/binary.Varint" {
					n++
				}
			}
		}
		if n >= 2 {
			total += n
			r.VarintChain(key, k, 2)
		}
	}
	if total < minTotalReads {
		r.Unres(key+"|total", "the proof package parses IAVL node headers with chained varint reads", fmt.Sprintf("%d varint reads found in %s, expected >= %d", total, pkgPrefix, minTotalReads))
	}
}

// reject describes one allowed way of failing: the error value contains Atoms and (optionally) the return is
// controlled by at least one of the conditions in Under.
type reject struct {
	Atoms []string
	Under []Cond
}

// FailureCensus: the set of ways fn can reject (returns with a non-nil error) is exactly the frozen set: every failure
// return's error value must match one allowed entry and be controlled by one of that entry's conditions, and every
// entry must still occur. A NEW rejection, or an existing error returned under a NEW condition, is what "accepted
// exactly when ..." properties forbid (over-rejection), so it is reported.
func (r *Report) FailureCensus(key, fnKey string, allowed map[string]reject) {
	w := r.W
	fn := w.Fn(fnKey)
	d := fmt.Sprintf("%s rejects only for the frozen set of reasons %v, each under its own condition", fnKey, sortedKeys(allowed))
	k := key + "|" + fnKey
	if fn == nil {
		r.Unres(k, d, "function not found")
		return
	}
	w.FuncsAnalysed[fn] = true
	idx := errResultIndex(fn)
	if idx < 0 {
		r.Unres(k, d, "function has no error result")
		return
	}
	seen := map[string]bool{}
	for _, b := range fn.Blocks {
		rt := returnOf(b)
		if rt == nil || b == fn.Recover || idx >= len(rt.Results) {
			continue
		}
		ev := retValue(rt, idx)
		if isNilConst(ev) {
			continue
		}
		t := Render(ev)
		hit := ""
		condOK := false
		cs := w.controlConds(fn, b)
		for _, name := range sortedKeys(allowed) {
			a := allowed[name]
			if !t.Has(a.Atoms...) {
				continue
			}
			hit = name
			if len(a.Under) == 0 {
				condOK = true
			}
			for _, c := range a.Under {
				if ctlSatisfies(cs, c) {
					condOK = true
				}
			}
			if !condOK && len(a.Under) > 1 {
				// disjunction (`if a || b { return err }`): every path to the return takes the edge of one of them
				if cut, n := w.passEdges(fn, a.Under); n > 0 && !reachableCut(fn, cut)[b] {
					condOK = true
				}
			}
			if condOK {
				break
			}
		}
		switch {
		case hit == "":
			r.Bad(k+"|new", d, w.posOr(rt.Pos(), fn), "a rejection that is not in the frozen set: "+clip(t.String(), 200))
		case !condOK:
			r.Bad(k+"|"+hit+"|condition", d, w.posOr(rt.Pos(), fn), "the rejection `"+hit+"` is returned under a condition that is not one of the frozen ones")
		default:
			seen[hit] = true
		}
	}
	for _, name := range sortedKeys(allowed) {
		if seen[name] {
			r.OK(k+"|"+name, d, w.FnPos(fn), "present, under its condition")
		} else {
			r.Unres(k+"|"+name+"#stale", d, "the rejection reason "+name+" no longer exists under its frozen condition (table stale, or a check was changed)")
		}
	}
}

// RetPred: result #idx of fn (a bool) is, on at least `min` returns, a comparison that normalises to the predicate c
// (operand order and the choice between a < b and b > a do not matter): the function returns true exactly when c holds.
func (r *Report) RetPred(key, fnKey string, idx int, c Cond, min int) {
	w := r.W
	fn := w.Fn(fnKey)
	d := fmt.Sprintf("%s returns (result #%d) the truth of [%s]", fnKey, idx, c.String())
	k := fmt.Sprintf("%s|%s|retpred#%d", key, fnKey, idx)
	if fn == nil {
		r.Unres(k, d, "function not found")
		return
	}
	w.FuncsAnalysed[fn] = true
	n := 0
	for _, b := range fn.Blocks {
		if b == fn.Recover {
			continue
		}
		rt := returnOf(b)
		if rt == nil {
			continue
		}
		v := retValue(rt, idx)
		if v == nil {
			continue
		}
		w.SitesExamined++
		if m, passOnTrue := c.Match(NormalizeCond(v)); m && passOnTrue {
			n++
		}
	}
	// the same predicate written as a branch: if c { return true }; return false  (or its mirror image)
	constRet := func(b *ssa.BasicBlock) (bool, bool) {
		if len(b.Preds) != 1 || len(b.Instrs) != 1 {
			return false, false
		}
		rt, ok := b.Instrs[0].(*ssa.Return)
		if !ok {
			return false, false
		}
		cv, ok := retValue(rt, idx).(*ssa.Const)
		if !ok || cv.Value == nil || cv.Value.Kind() != constant.Bool {
			return false, false
		}
		return constant.BoolVal(cv.Value), true
	}
	for _, b := range fn.Blocks {
		ifi, ok := lastInstr(b).(*ssa.If)
		if !ok || len(b.Succs) != 2 {
			continue
		}
		tv, ok1 := constRet(b.Succs[0])
		fv, ok2 := constRet(b.Succs[1])
		if !ok1 || !ok2 || tv == fv {
			continue
		}
		w.SitesExamined++
		if m, passOnTrue := c.Match(NormalizeCond(ifi.Cond)); m && passOnTrue == tv {
			n++
		}
	}
	if n >= min {
		r.OK(k, d, w.FnPos(fn), fmt.Sprintf("%d return(s)", n))
	} else {
		r.Bad(k, d, w.FnPos(fn), fmt.Sprintf("%d returns have that form, expected >= %d", n, min))
	}
}

func lastInstr(b *ssa.BasicBlock) ssa.Instruction {
	if len(b.Instrs) == 0 {
		return nil
	}
	return b.Instrs[len(b.Instrs)-1]
}

// recoverAlwaysSetsErr: in the recover handler cf, every path from "recover() returned non-nil" to the end of the
// handler passes a store accepted by isErrStore (the non-nil error written to the caller's named result). A handler
// that sets the error only for some panic values (seed C08-14: only when the value implements error) turns the other
// panics into a nil return - the failed send is then committed as a success.
func recoverAlwaysSetsErr(cf *ssa.Function, isErrStore func(*ssa.Store) bool) bool {
	var rec ssa.Value
	for _, b := range cf.Blocks {
		for _, in := range b.Instrs {
			if c, ok := in.(*ssa.Call); ok && CalleeName(&c.Call) == "builtin.recover" {
				rec = c
			}
		}
	}
	if rec == nil {
		return false
	}
	sets := map[*ssa.BasicBlock]bool{}
	for _, b := range cf.Blocks {
		for _, in := range b.Instrs {
			if st, ok := in.(*ssa.Store); ok && isErrStore(st) {
				sets[b] = true
			}
		}
	}
	for _, b := range cf.Blocks {
		ifi := ifOf(b)
		if ifi == nil {
			continue
		}
		bo, ok := ifi.Cond.(*ssa.BinOp)
		if !ok || (bo.X != rec && bo.Y != rec) || (bo.Op != token.NEQ && bo.Op != token.EQL) {
			continue
		}
		start := b.Succs[0] // r != nil
		if bo.Op == token.EQL {
			start = b.Succs[1]
		}
		seen := map[*ssa.BasicBlock]bool{}
		ok2 := true
		var walk func(x *ssa.BasicBlock)
		walk = func(x *ssa.BasicBlock) {
			if seen[x] || sets[x] || !ok2 {
				return
			}
			seen[x] = true
			if len(x.Succs) == 0 {
				if !blockPanics(x) {
					ok2 = false
				}
				return
			}
			for _, s := range x.Succs {
				walk(s)
			}
		}
		walk(start)
		return ok2
	}
	return true // no test of the recovered value: the store is unconditional or the handler has another shape; keep the old verdict
}

// loopBoundMismatch: the innermost loop around a check matching c is bounded by `i < len(S)` with S carrying the atoms
// (root-anchored len: `len(S)-1` or `len(S)/2` do not qualify). "" if it is.
func (w *World) loopBoundMismatch(fn *ssa.Function, ifs []ifInfo, c Cond, atoms []string) string {
	for _, ii := range ifs {
		if m, _ := c.Match(ii.pred); !m {
			continue
		}
		h, _ := iterationAlwaysPasses(fn, ii.b)
		if h == nil {
			continue
		}
		hi := ifOf(h)
		if hi == nil {
			return w.Pos(ifOf(ii.b).Cond.Pos()) + ": the loop holding the per-element check has no bound test"
		}
		p := NormalizeCond(hi.Cond)
		pats := append([]string{"^len"}, atoms...)
		if p.Op == "LSS" && ((p.B != nil && p.B.Has(pats...)) || (p.A != nil && p.A.Has(pats...))) {
			return ""
		}
		return w.posOr(hi.Cond.Pos(), fn) + ": the loop holding the per-element check is bounded by " + clip(p.String(), 120) + ", not by the length of the whole collection"
	}
	return ""
}
