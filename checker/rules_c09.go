package main

import "golang.org/x/tools/go/ssa"

func init() { props["C09"] = c09 }

func c09(r *Report) propMeta {
	grv := oK + "GetRandomValidators"
	grm := tK + "GetRandomMembers"
	cl := grv + "$1"

	r.Rule("C09.R1", "E3 eligibility and size checks precede sampling")
	r.Gate("validators-bonded-and-active", cl, CallEff("builtin.append"), []Cond{{Op: "BOOL", A: []string{"field:ValidatorStatus.IsActive", "call:Keeper.GetValidatorStatus"}, Want: true, Desc: "oracle-active"}, nilErrOf("types.ValAddressFromBech32")}, GateOpts{MinSites: 2})
	r.ArgHas("validators-from-bonded-iterator", grv, "StakingKeeper.IterateBondedValidatorsByPower", 1, 1, "^closure:"+cl)
	r.FreeVarWriters("operators-filled-only-by-iterator", grv, "[]github.com/cosmos/cosmos-sdk/types.ValAddress", []string{cl})
	r.FreeVarWriters("powers-filled-only-by-iterator", grv, "[]uint64", []string{cl})
	r.Gate("enough-validators", grv, CallEff("bandrng.ChooseSomeMaxWeight"), []Cond{
		{Op: "LSS", A: []string{"len"}, B: []string{"^param:size"}, Want: false, Desc: "not (len(eligible) < size)"},
		nilErrOf("StakingKeeper.IterateBondedValidatorsByPower"), nilErrOf("bandrng.NewRng")}, GateOpts{FailIsError: true})
	r.ArgHas("sample-exactly-size", grv, "bandrng.ChooseSomeMaxWeight", 2, 1, "^param:size")
	r.ArgHas("sample-by-power", grv, "bandrng.ChooseSomeMaxWeight", 1, 1, "alloc:[]uint64")
	r.ArgHas("sample-tries", grv, "bandrng.ChooseSomeMaxWeight", 3, 1, "field:Params.SamplingTryCount")
	// ... and zero tries (which makes ChooseSomeMaxWeight return nil and the committee `size` empty addresses) is not an
	// accepted parameter value (seed C09-4)
	r.ParamsPositive("tries-positive", "x/oracle/types", map[string]string{"SamplingTryCount": "with zero tries ChooseSomeMaxWeight returns no indices and GetRandomValidators hands out `size` zero-value addresses"})
	r.ArgHas("power-is-tokens", cl, "Int.Uint64", -1, 1, "call:ValidatorI.GetTokens")
	r.Exists("result-maps-indexes-to-operators", grv, RetValEff(0, "make:slice", "param:size"), 1)
	r.Gate("enough-members", grm, CallEff("Rng.NextUint64"), []Cond{
		{Op: "LSS", A: []string{"len", "call:Keeper.GetAvailableMembers"}, B: []string{"field:Group.Threshold"}, Want: false, Desc: "not (threshold > len(available))"},
		nilErrOf("Keeper.GetGroup"), nilErrOf("bandrng.NewRng")}, GateOpts{FailIsError: true})
	r.ArgHas("members-available-of-group", grm, "Keeper.GetAvailableMembers", 1, 1, "^param:groupID")
	r.Gate("eligible-active", tK+"GetAvailableMembers", CallEff("builtin.append"), []Cond{
		{Op: "BOOL", A: []string{"field:Member.IsActive"}, Want: true, Desc: "member.IsActive"},
		{Op: "BOOL", A: []string{"call:Keeper.HasDE", "field:Member.Address"}, Want: true, Desc: "HasDE(member.Address)"}}, GateOpts{})

	r.Rule("C09.R2", "E12 ownership: the sampler never mutates its weights")
	r.NoWriteThrough("choose-some-copies-weights", "pkg/bandrng.ChooseSome", "param:weights")
	r.NoWriteThrough("choose-one-read-only", "pkg/bandrng.ChooseOne", "param:weights")
	r.NoWriteThrough("max-weight-read-only", "pkg/bandrng.ChooseSomeMaxWeight", "param:weights")
	r.NoSignChange("weights-stay-unsigned-64-bit", []string{"pkg/bandrng.ChooseSomeMaxWeight", "pkg/bandrng.ChooseOne", "pkg/bandrng.ChooseSome"}, map[string]string{})
	r.SameValue("every-try-sees-the-same-weights", "pkg/bandrng.ChooseSomeMaxWeight", ArgRef{"bandrng.ChooseSome", 1})
	r.ArgHas("every-try-sees-the-same-weights", "pkg/bandrng.ChooseSomeMaxWeight", "bandrng.ChooseSome", 1, 1, "^param:weights")
	r.ArgHas("every-try-same-count", "pkg/bandrng.ChooseSomeMaxWeight", "bandrng.ChooseSome", 2, 1, "^param:cnt")
	cs := "pkg/bandrng.ChooseSome"
	r.ArgHas("pick-from-remaining", cs, "bandrng.ChooseOne", 1, 1, "^phi", "make:slice")
	r.Exists("result-has-cnt-entries", cs, RetValEff(0, "^make:slice", "param:cnt"), 1)
	r.Exists("removal-without-replacement", cs, CallEff("builtin.append", "^call:builtin.append", "slice", "call:bandrng.ChooseOne", "binop:+", "const:1"), 2)
	r.Gate("strictly-better-wins", "pkg/bandrng.ChooseSomeMaxWeight", CallEff("bandrng.ChooseSome"), nil, GateOpts{})
	r.CondExists("strictly-better-wins", "pkg/bandrng.ChooseSomeMaxWeight", Cond{Op: "LSS", A: []string{"^phi"}, B: []string{"^phi"}, Want: true}, 1)
	co := "pkg/bandrng.ChooseOne"
	r.Exists("lucky-number-mod-sum", co, CallEff("Rng.NextUint64"), 1)
	r.Count("one-draw-per-pick", co, []Effect{CallEff("Rng.NextUint64")}, "all", 1, 1)
	r.Gate("cumulative-pick", co, RetValEff(0, "^binop:+", "phi"), []Cond{{Op: "LSS", A: []string{"^binop:%", "call:Rng.NextUint64", "call:bandrng.safeAdd"}, B: []string{"^binop:+", "phi", "param:weights"}, Want: true, Desc: "cumulative weight > lucky number"}}, GateOpts{})
	r.Exists("overflow-checked-sum", co, CallEff("bandrng.safeAdd"), 1)

	r.Rule("C09.R3", "E12 DRBG inputs and the signer shuffle")
	r.ArgHas("seed", grv, "bandrng.NewRng", 0, 1, "^call:RollingseedKeeper.GetRollingSeed")
	r.ArgHas("nonce", grv, "bandrng.NewRng", 1, 1, "^call:types.Uint64ToBigEndian", "param:id")
	r.ArgHas("pers", grv, "bandrng.NewRng", 2, 1, "call:Context.ChainID")
	r.ArgHas("seed", grm, "bandrng.NewRng", 0, 1, "^call:RollingseedKeeper.GetRollingSeed")
	r.ArgHas("nonce", grm, "bandrng.NewRng", 1, 1, "^param:nonce")
	r.ArgHas("pers", grm, "bandrng.NewRng", 2, 1, "call:Context.ChainID")
	r.ArgHas("request-id-is-next-id", oK+"PrepareRequest", "Keeper.GetRandomValidators", 2, 1, "call:Keeper.GetRequestCount", "binop:+", "const:1")
	r.Exists("partial-fisher-yates-draw", grm, CallEff("Rng.NextUint64"), 1)
	r.ShuffleShape("partial-fisher-yates", grm)
	r.Exists("sorted-by-id", grm, CallEff("sort.Slice", "call:builtin.append"), 1)
	r.RetPred("sorted-by-id-comparator", grm+"$1", 0, Cond{Op: "LSS", A: []string{"^field:Member.ID", "param:i"}, B: []string{"^field:Member.ID", "param:j"}, Want: true, Desc: "selected[i].ID < selected[j].ID"}, 1)
	nr := "pkg/bandrng.NewRng"
	r.ArgHas("drbg-sha256", nr, "drbg.New", 0, 1, "const:5")
	for i, p := range []string{"entropyInput", "nonce", "personalizationString"} {
		r.ArgHas("drbg-inputs", nr, "drbg.New", i+1, 1, "^param:"+p)
	}
	r.Exists("next-is-8-bytes-big-endian", "pkg/bandrng.Rng.NextUint64", RetValEff(0, "call:bigEndian.Uint64", "const:8"), 1)

	r.Rule("C09.R5", "E3 group creation admits only distinct participants")
	cg := tK + "CreateGroup"
	r.FailureCensus("create-group-rejections", cg, map[string]reject{
		"empty":     {[]string{"global:types.ErrGroupCreationFailed"}, []Cond{{Op: "EQL", A: []string{"^len", "param:members"}, B: []string{"const:0"}, Want: true}}},
		"too-large": {[]string{"global:types.ErrGroupCreationFailed"}, []Cond{{Op: "LSS", A: []string{"field:Params.MaxGroupSize"}, B: []string{"^len", "param:members"}, Want: true}}},
		"duplicate": {[]string{"global:types.ErrInvalidGroup"}, []Cond{{Op: "BOOL", A: []string{"^lookup", "call:AccAddress.String", "param:members"}, Want: true}}},
	})
	r.Gate("members-stored-only-if-distinct", cg, CallEff("Keeper.SetMember"), []Cond{{Op: "BOOL", A: []string{"^lookup", "call:AccAddress.String", "param:members"}, Want: false, Desc: "address not seen before"}}, GateOpts{LoopAll: true, AnySite: true})

	r.Rule("C09.R6", "E8 the selection paths keep no process-local state")
	r.Lint("selection-lint", []*ssa.Function{r.W.Fn("x/oracle/keeper.Keeper.PrepareRequest"), r.W.Fn(tK + "RequestSigning"), r.W.Fn(tK + "InitiateNewSigningRound")}, c02LintAllow, 40)

	// eligibility = active with a queued nonce: the DE queue arithmetic of C05 decides who is eligible
	r.Include("C05", "C05.R4")
	// the eligible set is collected by walking ALL bonded validators / stored members: store-iterator loops and
	// Iterate… callbacks of the two modules run to exhaustion (seed C09-9: the callback returned `true` for an inactive
	// validator, which stops the walk instead of skipping the validator)
	r.Include("C01", "C01.iter")
	r.Include("C10", "C10.iter")

	return propMeta{
		Decided: []string{
			"R1 validators enter the candidate set only inside the bonded-validator iterator and only if oracle-active; members only if IsActive and HasDE; `too few` is an error before any random number is drawn; exactly `size` / `threshold` picks are requested",
			"R2 ChooseSome/ChooseOne/ChooseSomeMaxWeight never store into, append onto a re-slice of, copy into or sort memory that may alias the `weights` parameter, and every try receives that same parameter; one DRBG draw per pick; picked index removed from the remaining copy",
			"R3 DRBG(seed = rolling seed, nonce = request id / signing nonce parameter, personalisation = chain id), SHA-256, 8-byte big-endian draws; signer selection is draw % (n-i), swap with position n-i-1, then sort by member id",
			"R5 tss CreateGroup rejects an empty, an over-large and a member list with a repeated ACCOUNT (compared after decoding, so two spellings of one bech32 address count as one) before any member is stored: one participant cannot hold two seats of a committee (seed C09-5)",
			"via C01.iter / C10.iter: every store-iterator loop of x/oracle, x/tss, x/bandtss runs until the iterator is exhausted and every callback handed to an Iterate… function always returns false (never stops): no eligible validator or member behind an ineligible one is dropped",
			"R6 the determinism lint (E8, including writes to process-local memory held by keepers) over everything reachable from PrepareRequest / RequestSigning / InitiateNewSigningRound: the committee is a function of committed state only (seed C09-7: a params cache that survives rolled-back updates)",
		},
		Undecided: []string{"bit-for-bit conformance of the sampler to its specification and distinctness as a consequence of the arithmetic (needs an independent implementation over many inputs: another technique family) — the larger half of C09"},
		Assume:    []string{"oasis drbg HMAC-DRBG implementation", "staking iterator yields bonded validators"},
	}
}
