package main

import (
	"fmt"
	"go/constant"
	"go/token"
	"go/types"
	"sort"
	"strings"

	"golang.org/x/tools/go/ssa"
)

// E16 guarded unsigned subtraction. An unsigned `x - y` (also as a shift count) wraps silently when y > x. The rule
// accepts a subtraction only if the conditions every path to it has taken imply x >= y, using the comparisons'
// constants (msb >= 32 implies msb - 31 is safe; NOT(msb >= 32) implies 31 - msb is safe). Seed C11-3 changed the
// comparison of tickmath.PriceToTick to msb > 32, making 31 - msb wrap for msb == 32.

type usubSite struct {
	Fn   *ssa.Function
	In   *ssa.BinOp
	Safe bool
	Why  string
}

func isUnsigned(t types.Type) bool {
	b, ok := t.Underlying().(*types.Basic)
	return ok && b.Info()&types.IsUnsigned != 0
}

func constU64(v ssa.Value) (uint64, bool) {
	c, ok := v.(*ssa.Const)
	if !ok || c.Value == nil || c.Value.Kind() != constant.Int {
		return 0, false
	}
	u, exact := constant.Uint64Val(c.Value)
	return u, exact
}

func termConstU64(t *Term) (uint64, bool) {
	if t == nil || t.Op != "const" {
		return 0, false
	}
	var u uint64
	if _, err := fmt.Sscanf(t.Name, "%d", &u); err != nil || fmt.Sprint(u) != t.Name {
		return 0, false
	}
	return u, true
}

func (w *World) usubSafe(fn *ssa.Function, x *ssa.BinOp) (bool, string) {
	cx, xConst := constU64(x.X)
	cy, yConst := constU64(x.Y)
	if xConst && yConst {
		return cx >= cy, "constants"
	}
	if yConst && cy == 0 {
		return true, "minus zero"
	}
	if xConst && cx == ^uint64(0) {
		return true, "MaxUint64 - y"
	}
	X, Y := Render(x.X).String(), Render(x.Y).String()
	if X == Y {
		return true, "x - x"
	}
	for _, c := range w.controlConds(fn, x.Block()) {
		p := c.pred
		if p.A == nil || p.B == nil {
			continue
		}
		holds := c.onTrue != p.Neg
		A, B := p.A.String(), p.B.String()
		ca, aConst := termConstU64(p.A)
		cb, bConst := termConstU64(p.B)
		switch p.Op {
		case "LSS":
			if holds { // A < B
				switch {
				case !xConst && !yConst && A == Y && B == X:
					return true, "y < x on every path"
				case yConst && B == X && aConst && ca+1 >= cy:
					return true, fmt.Sprintf("x > %d on every path", ca)
				case xConst && A == Y && bConst && cb >= 1 && cb-1 <= cx:
					return true, fmt.Sprintf("y < %d on every path", cb)
				}
			} else { // A >= B
				switch {
				case !xConst && !yConst && A == X && B == Y:
					return true, "x >= y on every path"
				case yConst && A == X && bConst && cb >= cy:
					return true, fmt.Sprintf("x >= %d on every path", cb)
				case xConst && B == Y && aConst && ca <= cx:
					return true, fmt.Sprintf("y <= %d on every path", ca)
				}
			}
		case "EQL":
			if holds {
				switch {
				case A == X && B == Y, A == Y && B == X:
					return true, "x == y on every path"
				case yConst && A == X && bConst && cb >= cy, yConst && B == X && aConst && ca >= cy:
					return true, "x equals a large enough constant"
				case xConst && A == Y && bConst && cb <= cx, xConst && B == Y && aConst && ca <= cx:
					return true, "y equals a small enough constant"
				}
			}
		}
	}
	return false, "no condition on the paths to it implies x >= y"
}

func (w *World) usubSites(fn *ssa.Function) []usubSite {
	var out []usubSite
	for _, b := range fn.Blocks {
		for _, in := range b.Instrs {
			x, ok := in.(*ssa.BinOp)
			if !ok || x.Op != token.SUB || !isUnsigned(x.Type()) {
				continue
			}
			safe, why := w.usubSafe(fn, x)
			out = append(out, usubSite{fn, x, safe, why})
		}
	}
	return out
}

// UnsignedSubGuarded: every unsigned subtraction of fn is implied safe by its path conditions.
func (r *Report) UnsignedSubGuarded(key, fnKey string, minSites int) {
	w := r.W
	fn := w.Fn(fnKey)
	d := "every unsigned subtraction of " + fnKey + " is implied non-wrapping by the conditions on all paths to it"
	k := key + "|" + fnKey
	if fn == nil {
		r.Unres(k, d, "function not found")
		return
	}
	w.FuncsAnalysed[fn] = true
	sites := w.usubSites(fn)
	if len(sites) < minSites {
		r.Unres(k, d, fmt.Sprintf("%d unsigned subtractions, expected >= %d", len(sites), minSites))
		return
	}
	for i, s := range sites {
		w.SitesExamined++
		kk := fmt.Sprintf("%s|sub#%d", k, i)
		what := clip(Render(s.In).String(), 120)
		if s.Safe {
			r.OK(kk, d, w.posOr(s.In.Pos(), fn), what+": "+s.Why)
		} else {
			r.Bad(kk, d, w.posOr(s.In.Pos(), fn), what+": "+s.Why+"; the subtraction wraps modulo 2^64 (as a shift count it zeroes the operand)")
		}
	}
}

// dumpUsub: census helper (maintenance).
func dumpUsub(w *World, roots []*ssa.Function) {
	reach := w.ReachableFrom(roots, nil)
	var lines []string
	for fn := range reach {
		if len(fn.Blocks) == 0 || !inRepoScope(fn) || strings.HasSuffix(w.Fset.Position(fn.Pos()).Filename, ".pb.go") {
			continue
		}
		for _, s := range w.usubSites(fn) {
			lines = append(lines, fmt.Sprintf("%v %-60s %s %s", s.Safe, FuncKey(fn), w.posOr(s.In.Pos(), fn), clip(Render(s.In).String(), 100)))
		}
	}
	sort.Strings(lines)
	for _, l := range lines {
		fmt.Println(l)
	}
}

type usubAllow struct {
	Fn    string
	Count int
	Why   string
}

// UnsignedSubCensus: every unsigned subtraction in repo code reachable from roots is either implied safe by its path
// conditions or is one of the reviewed instances of the table (function + count, one line of reason each).
func (r *Report) UnsignedSubCensus(key string, roots []*ssa.Function, table []usubAllow, minSites int) {
	w := r.W
	d := "every unsigned subtraction in consensus-reachable repo code is guarded by its path conditions or is a reviewed instance (data-structure invariant)"
	reach := w.ReachableFrom(roots, nil)
	unguarded := map[string][]usubSite{}
	total, guarded := 0, 0
	for fn := range reach {
		if len(fn.Blocks) == 0 || !inRepoScope(fn) || strings.HasSuffix(w.Fset.Position(fn.Pos()).Filename, ".pb.go") {
			continue
		}
		for _, s := range w.usubSites(fn) {
			total++
			w.SitesExamined++
			if s.Safe {
				guarded++
				continue
			}
			fk := FuncKey(fn)
			unguarded[fk] = append(unguarded[fk], s)
		}
	}
	if total < minSites {
		r.Unres(key+"|count", d, fmt.Sprintf("%d unsigned subtractions found, expected >= %d", total, minSites))
	}
	allowed := map[string]usubAllow{}
	for _, a := range table {
		allowed[a.Fn] = a
	}
	for _, fk := range sortedKeys(unguarded) {
		ss := unguarded[fk]
		k := fmt.Sprintf("%s|%s", key, fk)
		a, ok := allowed[fk]
		pos := w.posOr(ss[0].In.Pos(), ss[0].Fn)
		switch {
		case !ok:
			r.Bad(k, d, pos, fmt.Sprintf("%d unguarded unsigned subtraction(s), e.g. %s: wraps modulo 2^64 when the subtrahend is larger; not in the reviewed table", len(ss), clip(Render(ss[0].In).String(), 120)))
		case len(ss) > a.Count:
			r.Bad(k, d, pos, fmt.Sprintf("%d unguarded unsigned subtractions, the reviewed table accepts %d (%s)", len(ss), a.Count, a.Why))
		default:
			r.OK(k, d, pos, fmt.Sprintf("%d reviewed: %s", len(ss), a.Why))
		}
	}
	for _, a := range table {
		if _, ok := unguarded[a.Fn]; !ok {
			r.Unres(key+"|"+a.Fn+"#stale", d, "table entry matches no unguarded subtraction any more (stale table)")
		}
	}
	r.OK(key+"|summary", d, "-", fmt.Sprintf("%d unsigned subtractions: %d path-guarded, %d reviewed", total, guarded, total-guarded))
}

// NormalisedBeforeSquaring (C11.R7): in PriceToTick the value that enters the squaring loop (`r = r*r >> 31`) is, on
// EVERY incoming path, the price shifted by an msb-derived count. An edge that carries the price unshifted (an else-if
// ladder with a gap, seed C11-6: msb == 32 fell through) feeds an un-normalised mantissa into r*r, which overflows.
func (r *Report) NormalisedBeforeSquaring(key, fnKey string) {
	w := r.W
	fn := w.Fn(fnKey)
	d := "every path into the squaring loop of " + fnKey + " carries the price shifted by an msb-derived amount"
	k := key + "|" + fnKey
	if fn == nil {
		r.Unres(k, d, "function not found")
		return
	}
	w.FuncsAnalysed[fn] = true
	var sq *ssa.BinOp
	for _, b := range fn.Blocks {
		for _, in := range b.Instrs {
			if bo, ok := in.(*ssa.BinOp); ok && bo.Op == token.MUL && bo.X == bo.Y && isUnsigned(bo.Type()) {
				sq = bo
			}
		}
	}
	if sq == nil {
		r.Unres(k, d, "no r*r found")
		return
	}
	loopPhi, ok := sq.X.(*ssa.Phi)
	if !ok {
		r.Unres(k, d, "the squared value is not a loop-carried variable")
		return
	}
	// incoming values that do not depend on the square itself = the normalised mantissa
	var entries []ssa.Value
	var collect func(v ssa.Value, depth int)
	seen := map[ssa.Value]bool{}
	collect = func(v ssa.Value, depth int) {
		if seen[v] || depth > 6 {
			return
		}
		seen[v] = true
		if p, ok := v.(*ssa.Phi); ok {
			for _, e := range p.Edges {
				if p == loopPhi && dependsOn(e, sq, 0) {
					continue
				}
				collect(e, depth+1)
			}
			return
		}
		entries = append(entries, v)
	}
	collect(loopPhi, 0)
	if len(entries) == 0 {
		r.Unres(k, d, "no entry value of the loop variable found")
		return
	}
	for i, e := range entries {
		w.SitesExamined++
		kk := fmt.Sprintf("%s|entry#%d", k, i)
		bo, ok := e.(*ssa.BinOp)
		t := Render(e)
		if ok && (bo.Op == token.SHL || bo.Op == token.SHR) && Render(bo.X).Has("^param:price") && Render(bo.Y).Has("binop:-") {
			r.OK(kk, d, w.posOr(bo.Pos(), fn), clip(t.String(), 100))
		} else {
			r.Bad(kk, d, w.FnPos(fn), "a path into the squaring loop carries "+clip(t.String(), 120)+", which is not the price shifted by an msb-derived count: the mantissa is not normalised to 32 bits on that path and r*r overflows")
		}
	}
}

func dependsOn(v ssa.Value, target ssa.Value, d int) bool {
	if v == target {
		return true
	}
	if d > 12 {
		return false
	}
	if in, ok := v.(ssa.Instruction); ok {
		if _, isPhi := v.(*ssa.Phi); isPhi && d > 0 {
			return false
		}
		for _, op := range in.Operands(nil) {
			if *op != nil && dependsOn(*op, target, d+1) {
				return true
			}
		}
	}
	return false
}

// NoSignChange: in the given functions no non-constant integer is converted between a signed and an unsigned type, or
// to a narrower type: sums of weights / powers / counts keep the type they were declared with. Seed C09-13 accumulated
// the per-try weight sum of the oracle sampler in int64: a sum >= 2^63 turns negative and loses against every other try.
func (r *Report) NoSignChange(key string, fnKeys []string, allowed map[string]string) {
	w := r.W
	d := "no integer changes signedness or narrows in " + strings.Join(fnKeys, ", ")
	for _, fk := range fnKeys {
		fn := w.Fn(fk)
		k := key + "|" + fk
		if fn == nil {
			r.Unres(k, d, "function not found")
			continue
		}
		w.FuncsAnalysed[fn] = true
		fns := append([]*ssa.Function{fn}, fn.AnonFuncs...)
		n, bad := 0, ""
		for _, f := range fns {
			for _, b := range f.Blocks {
				for _, in := range b.Instrs {
					cv, ok := in.(*ssa.Convert)
					if !ok {
						continue
					}
					if _, isConst := cv.X.(*ssa.Const); isConst {
						continue
					}
					from, ok1 := cv.X.Type().Underlying().(*types.Basic)
					to, ok2 := cv.Type().Underlying().(*types.Basic)
					if !ok1 || !ok2 || from.Info()&types.IsInteger == 0 || to.Info()&types.IsInteger == 0 {
						continue
					}
					n++
					w.SitesExamined++
					size := func(b *types.Basic) int {
						switch b.Kind() {
						case types.Int8, types.Uint8:
							return 8
						case types.Int16, types.Uint16:
							return 16
						case types.Int32, types.Uint32:
							return 32
						}
						return 64
					}
					signChange := (from.Info()&types.IsUnsigned != 0) != (to.Info()&types.IsUnsigned != 0)
					narrow := size(to) < size(from)
					if !signChange && !narrow {
						continue
					}
					what := fmt.Sprintf("%s -> %s of %s", from.Name(), to.Name(), clip(Render(cv.X).String(), 80))
					if why, ok := allowed[fk+"|"+from.Name()+"->"+to.Name()]; ok {
						_ = why
						continue
					}
					if bad == "" {
						bad = what + " at " + w.posOr(cv.Pos(), f)
					}
				}
			}
		}
		if bad != "" {
			r.Bad(k, d, w.FnPos(fn), "conversion "+bad)
		} else {
			r.OK(k, d, w.FnPos(fn), fmt.Sprintf("%d integer conversions examined", n))
		}
	}
}
