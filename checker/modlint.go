package main

import (
	"fmt"
	"strings"

	"golang.org/x/tools/go/ssa"
)

// ModuleLint: the determinism lint (E8, including writes to process-local memory) over everything reachable from the
// message handlers and begin/end-blockers of one module. A cache hung off a keeper makes every property of that module
// depend on process history (seeds C02-4, C09-7, C17-7), so each property runs the lint for its own module.
func (r *Report) ModuleLint(key, module string, minFuncs int) {
	w := r.W
	roots := w.ComputeRoots()
	var rs []*ssa.Function
	pick := func(m map[*ssa.Function]string) {
		for f := range m {
			k := FuncKey(f)
			if strings.HasPrefix(k, "x/"+module+"/") || strings.HasPrefix(k, "x/"+module+".") {
				rs = append(rs, f)
			}
		}
	}
	pick(roots.Msg)
	pick(roots.ABCI)
	pick(roots.IBC)
	pick(roots.Hook)
	if len(rs) == 0 {
		r.Unres(key+"|roots", "the handlers of x/"+module+" are found", "no msg / abci root in x/"+module)
		return
	}
	r.Lint(key, rs, c02LintAllow, minFuncs)
}

// AbciPassThrough: the AppModule begin/end-block methods of a module hand the context they were given (unwrapped) to
// the module's blocker unchanged: no Context.With… rewriting of what the blocker will see (seed C14-7 filtered the vote
// infos before the reward allocation).
func (r *Report) AbciPassThrough(key, module string) {
	w := r.W
	roots := w.ComputeRoots()
	n := 0
	for f := range roots.ABCI {
		fk := FuncKey(f)
		if !strings.HasPrefix(fk, "x/"+module+".") && !strings.HasPrefix(fk, "x/"+module+"/") {
			continue
		}
		n++
		d := fk + " passes its (unwrapped) context to the blocker unchanged"
		k := key + "|" + fk
		bad := ""
		for _, b := range f.Blocks {
			for _, in := range b.Instrs {
				ci, ok := in.(ssa.CallInstruction)
				if !ok {
					continue
				}
				name := CalleeName(ci.Common())
				if strings.Contains(name, "cosmos-sdk/types.Context.With") {
					bad = fmt.Sprintf("calls %s at %s", lastName(name), w.Pos(in.Pos()))
				}
			}
		}
		w.FuncsAnalysed[f] = true
		w.SitesExamined++
		if bad != "" {
			r.Bad(k, d, w.FnPos(f), "the context is rewritten before the blocker runs: "+bad)
		} else {
			r.OK(k, d, w.FnPos(f), "no Context.With… call")
		}
	}
	if n == 0 {
		r.Unres(key+"|"+module, "x/"+module+" has begin/end-block methods", "none found")
	}
}
