package main

import "golang.org/x/tools/go/ssa"

func init() { props["C15"] = c15 }

func c15(r *Report) propMeta {
	w := r.W
	ft := "x/feeds/types"
	act := oK + "Activate"
	miss := oK + "MissReport"
	gvs := oK + "GetValidatorStatus"

	r.Rule("C15.R1", "E1 who may flip the activity flag")
	r.ConstArgCallers("activate-only-in-Activate", "x/oracle/types.NewValidatorStatus", 0, "true", []string{act})
	r.ConstArgCallers("deactivate-only-in-MissReport", "x/oracle/types.NewValidatorStatus", 0, "false", []string{miss, gvs})
	gen := []string{oK + "InitGenesis", "x/oracle.InitGenesis"}
	r.Callers("callers", oK+"SetValidatorStatus", append([]string{act, miss}, gen...), []string{act, miss})
	r.StoreWriters("status-store", []string{"call:types.ValidatorStatusStoreKey", "global:types.ValidatorStatusStoreKeyPrefix"}, []string{oK + "SetValidatorStatus"}, "x/oracle")
	r.Callers("callers", act, []string{oMS + "Activate"}, []string{oMS + "Activate"})
	r.FieldWriters("flag-writers", "ValidatorStatus.IsActive", nil, []string{"x/oracle/types.NewValidatorStatus"}, []string{"x/oracle"})

	r.Rule("C15.R2", "E4 activation and deactivation guards")
	r.Gate("activate-guards", act, CallEff("Keeper.SetValidatorStatus"), []Cond{
		{Op: "BOOL", A: []string{"field:ValidatorStatus.IsActive", "call:Keeper.GetValidatorStatus"}, Want: false, Desc: "not already active"}}, GateOpts{FailIsError: true})
	r.GateAny("activate-penalty", act, CallEff("Keeper.SetValidatorStatus"), []Cond{
		{Op: "BOOL", A: []string{"call:Time.IsZero", "field:ValidatorStatus.Since"}, Want: true, Desc: "never deactivated (Since is zero)"},
		{Op: "LSS", A: []string{"field:Header.Time", "call:Context.BlockHeader"}, B: []string{"^call:Time.Add", "binops=", "field:ValidatorStatus.Since", "field:Params.InactivePenaltyDuration"}, Want: false, Desc: "not (Since + penalty > now)"}}, 1)
	r.ArgHas("activated-since-now", act, "types.NewValidatorStatus", 1, 1, "field:Header.Time", "call:Context.BlockHeader", "!field:ValidatorStatus.Since")
	r.SameValue("activate-same-validator", act, ArgRef{"Keeper.GetValidatorStatus", 1}, ArgRef{"Keeper.SetValidatorStatus", 1})
	r.Gate("miss-guards", miss, CallEff("Keeper.SetValidatorStatus"), []Cond{
		{Op: "BOOL", A: []string{"field:ValidatorStatus.IsActive", "call:Keeper.GetValidatorStatus"}, Want: true, Desc: "status.IsActive"},
		{Op: "LSS", A: []string{"field:ValidatorStatus.Since"}, B: []string{"^param:requestTime"}, Want: true, Desc: "status.Since strictly before requestTime"}}, GateOpts{})
	r.ArgHas("deactivated-since-now", miss, "types.NewValidatorStatus", 1, 1, "field:Header.Time", "call:Context.BlockHeader", "!param:requestTime")
	r.SameValue("miss-same-validator", miss, ArgRef{"Keeper.GetValidatorStatus", 1}, ArgRef{"Keeper.SetValidatorStatus", 1})
	r.Gate("default-inactive", gvs, RetValEff(0, "call:types.NewValidatorStatus", "const:false"), []Cond{{Op: "EQL", A: []string{"call:Get"}, B: []string{"const:nil"}, Want: true, Desc: "no stored status"}}, GateOpts{})

	r.Rule("C15.R3", "E3+E12 request-expiry misses")
	pe := oK + "ProcessExpiredRequests"
	r.Gate("miss-only-if-expired-and-unreported", pe, CallEff("Keeper.MissReport"), []Cond{
		{Op: "BOOL", A: []string{"call:Keeper.HasReport"}, Want: false, Desc: "not HasReport(id, v)"},
		{Op: "LSS", A: []string{"call:Context.BlockHeight"}, B: []string{"^binop:+", "binops=+", "field:Request.RequestHeight", "field:Params.ExpirationBlockCount"}, Want: false, Desc: "request expired"}}, GateOpts{})
	r.ArgHas("miss-requested-validator", pe, "Keeper.MissReport", 1, 1, "field:Request.RequestedValidators", "call:Keeper.MustGetRequest")
	r.ArgHas("miss-at-request-time", pe, "Keeper.MissReport", 2, 1, "^call:time.Unix", "field:Request.RequestTime", "call:Keeper.MustGetRequest")
	r.SameValue("report-check-same-validator", pe, ArgRef{"Keeper.HasReport", 2}, ArgRef{"Keeper.MissReport", 1})
	r.SameValue("report-check-same-request", pe, ArgRef{"Keeper.HasReport", 1}, ArgRef{"Keeper.MustGetRequest", 1})

	r.Rule("C15.R4", "E3+E12 feed misses")
	cp := fK + "CalculatePrices"
	r.Gate("feed-miss-only-if-check-says-so", cp, CallEff("OracleKeeper.MissReport"), []Cond{{Op: "BOOL", A: []string{"^call:keeper.CheckMissReport"}, Want: true, Desc: "CheckMissReport(...)"}}, GateOpts{})
	for i, a := range [][]string{{"field:CurrentFeeds.Feeds"}, {"field:CurrentFeeds.LastUpdateTimestamp"}, {"field:CurrentFeeds.LastUpdateBlock"}, {"lookup", "field:Feed.SignalID"}, {"^index", "alloc:types.ValidatorInfo"}, {"^call:Context.BlockTime"}, {"^call:Context.BlockHeight"}, {"field:Params.GracePeriod"}} {
		r.ArgHas("check-operands", cp, "keeper.CheckMissReport", i, 1, a...)
	}
	r.SameValue("miss-the-checked-validator", cp, ArgRef{"keeper.CheckMissReport", 4})
	r.ArgHas("miss-validator", cp, "OracleKeeper.MissReport", 1, 1, "field:ValidatorInfo.Address")
	r.ArgHas("miss-at-block-time", cp, "OracleKeeper.MissReport", 2, 1, "^call:Context.BlockTime")

	r.Rule("C15.R5", "E4 CheckMissReport: both clocks, max-updates, independent")
	cm := "x/feeds/keeper.CheckMissReport"
	unspec := w.ConstAtom(ft, "SIGNAL_PRICE_STATUS_UNSPECIFIED")
	hasPrice := Cond{Op: "EQL", A: []string{"field:ValidatorPrice.SignalPriceStatus"}, B: []string{unspec}, Want: false, Desc: "price status != UNSPECIFIED"}
	now := []string{"call:Time.Unix", "param:blockTime"}
	hgt := []string{"^param:blockHeight"}
	r.PhiEdge("time-bound-from-activation", cm, now, []string{"field:ValidatorStatus.Since", "param:gracePeriod"}, []Cond{
		{Op: "LSS", A: []string{"param:lastUpdateTimestamp"}, B: []string{"field:ValidatorStatus.Since"}, Want: true, Desc: "activation deadline later than current"}}, [][]string{{"field:ValidatorPrice.Timestamp"}, {"field:ValidatorPrice.BlockHeight"}})
	r.PhiEdge("time-bound-from-price", cm, now, []string{"field:ValidatorPrice.Timestamp", "field:Feed.Interval"}, []Cond{hasPrice,
		{Op: "LSS", A: []string{"phi"}, B: []string{"field:ValidatorPrice.Timestamp", "field:Feed.Interval"}, Want: true, Desc: "price deadline later than current (max-update)"}}, [][]string{{"field:ValidatorPrice.BlockHeight"}})
	r.PhiEdge("block-bound-from-price", cm, hgt, []string{"field:ValidatorPrice.BlockHeight", "field:Feed.Interval"}, []Cond{hasPrice,
		{Op: "LSS", A: []string{"param:lastUpdateBlock"}, B: []string{"field:ValidatorPrice.BlockHeight", "field:Feed.Interval"}, Want: true, Desc: "price block deadline later than current (max-update)"}}, [][]string{{"field:ValidatorPrice.Timestamp"}})
	r.Exists("block-divisor-is-constant", cm, DecisionEff(0, "binop:/", w.ConstAtom(ft, "MaxGuaranteeBlockTime")), 1)
	r.Conjunction("miss-needs-both-bounds", cm, now, hgt)
	r.CondCount("no-other-branches", cm, 6) // 5 branches + the returned second comparison (decisionCount)

	// the clocks CheckMissReport reads are the CHAIN's: the stored price carries block time / height, never the
	// validator's own message timestamp (seed C15-4)
	ssp := "x/feeds/keeper.msgServer.SubmitSignalPrices"
	r.ArgHas("stored-price-at-block-time", ssp, "types.NewValidatorPrice", 1, 1, "call:Context.BlockTime", "!field:MsgSubmitSignalPrices.Timestamp")
	r.ArgHas("stored-price-at-block-height", ssp, "types.NewValidatorPrice", 2, 1, "^call:Context.BlockHeight")
	r.ctorField("price-ctor", ft+".NewValidatorPrice", "ValidatorPrice.Timestamp", 1)
	r.ctorField("price-ctor", ft+".NewValidatorPrice", "ValidatorPrice.BlockHeight", 2)
	r.FieldWriters("price-clock-writers", "ValidatorPrice.Timestamp", nil, []string{ft + ".NewValidatorPrice"}, []string{"x/feeds"})
	r.FieldWriters("price-clock-writers", "ValidatorPrice.BlockHeight", nil, []string{ft + ".NewValidatorPrice"}, []string{"x/feeds"})

	r.LoopVisitsAll("every-requested-validator-checked", "x/oracle/keeper.Keeper.ProcessExpiredRequests", "Keeper.MissReport", LoopOpts{})
	r.LoopVisitsAll("every-expired-request-processed", "x/oracle/keeper.Keeper.ProcessExpiredRequests", "Keeper.DeleteRequest", LoopOpts{MaxOtherExits: 1}) // the reviewed `break` at the first request that is not yet expired
	r.LoopVisitsAll("every-validator-checked-for-miss", "x/feeds/keeper.Keeper.CalculatePrices", "OracleKeeper.MissReport", LoopOpts{AllowErrReturn: true})

	// the grace-period marker CheckMissReport reads is the block time/height of EVERY current-feeds update (seed C15-5 kept
	// the old marker when only intervals changed)
	scf := "x/feeds/keeper.Keeper.SetCurrentFeeds"
	r.ArgHas("update-marker-is-block-time", scf, "types.NewCurrentFeeds", 1, 1, "^call:Time.Unix", "call:Context.BlockTime")
	r.ArgHas("update-marker-is-block-height", scf, "types.NewCurrentFeeds", 2, 1, "^call:Context.BlockHeight")
	r.ctorField("feeds-ctor", ft+".NewCurrentFeeds", "CurrentFeeds.LastUpdateTimestamp", 1)
	r.ctorField("feeds-ctor", ft+".NewCurrentFeeds", "CurrentFeeds.LastUpdateBlock", 2)
	r.FieldWriters("update-marker-writers", "CurrentFeeds.LastUpdateTimestamp", nil, []string{ft + ".NewCurrentFeeds"}, []string{"x/feeds"})
	r.FieldWriters("update-marker-writers", "CurrentFeeds.LastUpdateBlock", nil, []string{ft + ".NewCurrentFeeds"}, []string{"x/feeds"})

	r.Rule("C15.R6", "E1 MissReport callers")
	r.Callers("callers", miss, []string{pe, cp}, []string{pe, cp})
	// a validator that reported in time: the report is stored before expiry can look for it
	r.Gate("report-stored-before-deadline", oMS+"ReportData", CallEff("Keeper.AddReport"), []Cond{{Op: "LSS", A: []string{"call:Keeper.GetRequestLastExpired"}, B: []string{"field:MsgReportData.RequestID"}, Want: true, Desc: "request not yet expired"}}, GateOpts{})

	r.Rule("C15.R7", "store-key agreement: every point read/delete addresses a written key family")
	r.StoreKeyAgreement("store-keys", "oracle", 14, nil)

	r.Rule("C15.R8", "E19 constructors of x/oracle/types store their inputs unchanged")
	r.CtorFaithful("ctor", faithfulCtors["oracle"]...)

	r.Rule("C15.R9", "E17 the only reasons a report is refused")
	r.ErrorCensusOf("report-refusals", []*ssa.Function{r.W.Fn("x/oracle/keeper.Keeper.AddReport")}, c15ReportErrs, 4,
		"AddReport refuses a report only for the reasons of CheckValidReport (unknown request, validator not asked, already reported, wrong external ids): a report that arrives in time is stored",
		"makes AddReport refuse the report", "a validator that reported before the request expired is later deactivated for missing it")

	r.Rule("C15.lint", "E8 module lint: no nondeterminism / process-local state in x/oracle")
	r.ModuleLint("module-lint", "oracle", 20)

	return propMeta{
		Decided: []string{
			"R1 NewValidatorStatus(true,…) only in Activate; NewValidatorStatus(false,…) only in MissReport and the not-found default; the status store has one writer reached only from Activate/MissReport/genesis",
			"R2 Activate writes only if not active and (Since is zero or not Since+penalty > now), stamping now; MissReport writes only if active and Since strictly Before(requestTime), stamping now (never the request time)",
			"R3 expiry calls MissReport only for a requested validator of an expired request that has no report, with time.Unix(req.RequestTime)",
			"R4 feeds calls MissReport only when CheckMissReport returned true for that validator's own price, info, block time/height and the grace period",
			"R5 CheckMissReport returns the conjunction lastTime<now && lastBlock<height; each bound only moves forward (max-update), price-based candidates count only when a price exists, and the block bound does not depend on the time bound's branch (nor vice versa)",
			"R6 MissReport has exactly the two callers",
			"R7 every KV-store Get/Has/Delete of x/oracle uses a key builder of x/oracle/types that some Set of the module also uses (a probe of an iteration prefix or of a sibling family is always-empty state)",
			"R8 the literal constructors of x/oracle/types (frozen list) store each parameter or a constant unchanged in the record they build: what a handler validated is what is stored",
			"R9 error-origin census of AddReport: the frozen set of refusal reasons (those of CheckValidReport); an added refusal - e.g. `request height + expiration <= block height`, which also fires in the expiry block itself (seed C15-8) - is reported",
			"lint: the determinism lint (incl. writes to memory held by long-lived objects) over everything reachable from the handlers and blockers of x/oracle",
		},
		Undecided: []string{"fairness over the four-clock timing space (boundary equalities being the intended ones)", "block time monotonicity"},
		Assume:    []string{"msg handlers atomic"},
	}
}

var c15ReportErrs = []errAllow{
	{"x/oracle/keeper.Keeper.GetRequest", "fresh:x/oracle/types.ErrRequestNotFound", "the request does not exist (never created, or already expired and deleted)"},
	{"x/oracle/keeper.Keeper.CheckValidReport", "fresh:x/oracle/types.ErrValidatorNotRequested", "the validator is not one of the request's chosen validators"},
	{"x/oracle/keeper.Keeper.CheckValidReport", "fresh:x/oracle/types.ErrValidatorAlreadyReported", "a second report of the same validator"},
	{"x/oracle/keeper.Keeper.CheckValidReport", "fresh:x/oracle/types.ErrInvalidReportSize", "the number of raw reports differs from the number of raw requests"},
	{"x/oracle/keeper.Keeper.CheckValidReport", "fresh:x/oracle/types.ErrRawRequestNotFound", "an external id that the request did not ask"},
	{"x/oracle/keeper.Keeper.CheckValidReport", "external:github.com/cosmos/cosmos-sdk/types.ValAddressFromBech32", "a stored requested-validator address fails to decode (written from validated addresses)"},
}
