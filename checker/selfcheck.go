package main

import (
	"fmt"
	"os"
	"path/filepath"
	"strings"

	"golang.org/x/tools/go/packages"
	"golang.org/x/tools/go/ssa"
	"golang.org/x/tools/go/ssa/ssautil"
)

// loadPositive loads the tiny positive-example package that ships with the checker.
func loadPositive() (*World, error) {
	dir := filepath.Join(verifDir(), "checker")
	cfg := &packages.Config{Mode: packages.LoadSyntax, Dir: dir,
		Env: append(os.Environ(), "GOFLAGS=-mod=mod", "GOPROXY=off", "GOSUMDB=off", "GOTOOLCHAIN=local", "GOWORK=off")}
	pkgs, err := packages.Load(cfg, "./testdata/lintpos")
	if err != nil {
		return nil, err
	}
	if len(pkgs) != 1 || len(pkgs[0].Errors) > 0 {
		return nil, fmt.Errorf("positive example does not load: %v", pkgs[0].Errors)
	}
	w := &World{RepoDir: dir, Pkgs: pkgs, PkgBy: map[string]*packages.Package{}, Funcs: map[string]*ssa.Function{},
		AllFuncs: map[*ssa.Function]bool{}, FuncsAnalysed: map[*ssa.Function]bool{}, Fset: pkgs[0].Fset}
	prog, _ := ssautil.Packages(pkgs, ssa.InstantiateGenerics)
	prog.Build()
	w.Prog = prog
	w.AllFuncs = ssautil.AllFunctions(prog)
	for fn := range w.AllFuncs {
		if k := FuncKey(fn); k != "" && (fn.Synthetic == "" || fn.Parent() != nil) {
			w.Funcs[k] = fn
		}
	}
	return w, nil
}

// PositiveLint asserts that every E7/E8 sub-rule fires on the positive example.
func (r *Report) PositiveLint(key string) {
	d := "the expected-zero lint rules fire on the shipped positive example (guards against a vacuous pass)"
	w, err := loadPositive()
	if err != nil {
		r.Unres(key, d, err.Error())
		return
	}
	root := w.Funcs["bandcheck/testdata/lintpos.Root"]
	if root == nil {
		r.Unres(key, d, "Root not found in positive example")
		return
	}
	hits, ranges, _ := w.DeterminismLint([]*ssa.Function{root})
	want := []string{"call time.Now", "call math/rand.Intn", "call os.Getenv", "go statement", "select statement", "floating-point arithmetic", "conversion to floating point", "write to package variable", "write through a reference held in Keeper.c", "unstable sort sort.Slice", "comparison of a value with itself", "cache context shared by the iterations of a loop"}
	for _, wnt := range want {
		ok := false
		for _, h := range hits {
			if strings.HasPrefix(h.What, wnt) {
				ok = true
			}
		}
		if ok {
			r.OK(key+"|"+wnt, d, "checker/testdata/lintpos/pos.go", "fires")
		} else {
			r.Unres(key+"|"+wnt, d, "sub-rule did not fire on the positive example")
		}
	}
	nIdiom, nBad := 0, 0
	for _, h := range ranges {
		if strings.HasSuffix(h.What, "[collect-and-sort]") {
			nIdiom++
		} else {
			nBad++
		}
	}
	if nIdiom == 1 && nBad == 1 {
		r.OK(key+"|map-range", d, "checker/testdata/lintpos/pos.go", "unsorted range flagged, collect-and-sort recognised")
	} else {
		r.Unres(key+"|map-range", d, fmt.Sprintf("map-range classification wrong: idiom=%d flagged=%d", nIdiom, nBad))
	}
	cen := w.PanicCensus([]*ssa.Function{root})
	_, hasMust := cen["bandcheck/testdata/lintpos.MustThing|panic"]
	_, hasInner := cen["bandcheck/testdata/lintpos.inner|panic"]
	if hasMust && !hasInner {
		r.OK(key+"|census", d, "checker/testdata/lintpos/pos.go", "panic found; panic behind recover barrier not counted")
	} else {
		r.Unres(key+"|census", d, fmt.Sprintf("census wrong: must=%v inner=%v", hasMust, hasInner))
	}
	if nb := w.Funcs["bandcheck/testdata/lintpos.NotABarrier"]; nb != nil && !HasRecoverBarrier(nb) && HasRecoverBarrier(w.Funcs["bandcheck/testdata/lintpos.Guarded"]) {
		r.OK(key+"|barrier", d, "checker/testdata/lintpos/pos.go", "recover that assigns a local is not a barrier; one that assigns the named result is")
	} else {
		r.Unres(key+"|barrier", d, "recover-barrier recognition wrong")
	}
}
