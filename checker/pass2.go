package main

import (
	"fmt"
	"go/ast"
	"go/parser"
	"go/printer"
	"go/token"
	"os"
	"runtime"
	"runtime/debug"
	"strings"
)

// runProp evaluates one property's rules on a world, converting engine panics into an unresolved obligation.
func runProp(id string, w *World, tier string) (*Report, propMeta) {
	r := NewReport(id, tier, w)
	var meta propMeta
	func() {
		defer func() {
			if e := recover(); e != nil {
				r.Rule(id+".internal", "engine")
				r.Unres("panic", "the engines run to completion", fmt.Sprintf("engine panic: %v", e))
			}
		}()
		meta = props[id](r)
	}()
	return r, meta
}

func (r *Report) openRules(known []knownFinding) map[string]bool {
	open := map[string]bool{}
	for _, o := range r.Obls {
		if o.status == Discharged {
			continue
		}
		isKnown := false
		for _, kf := range known {
			if kf.Property == r.Property && kf.Key == o.Key && o.status == Violated {
				isKnown = true
			}
		}
		if !isKnown {
			open[o.Rule] = true
		}
	}
	return open
}

// secondWorld loads the normal form (helpers inlined, returns canonicalised) of the program of w, or nil.
func secondWorld(w *World, opts LoadOpts) *World {
	w2, _ := secondWorldOpts(w, opts)
	return w2
}

func secondWorldOpts(w *World, opts LoadOpts) (*World, LoadOpts) {
	if os.Getenv("BANDCHECK_NOPASS2") != "" { // debugging aid: first-pass verdicts only
		return nil, opts
	}
	ov := w.BuildNormalForm()
	if ov == nil {
		return nil, opts
	}
	o2 := opts
	o2.Overlay = map[string][]byte{}
	for k, v := range opts.Overlay {
		o2.Overlay[k] = v
	}
	for k, v := range ov {
		o2.Overlay[k] = v
	}
	if debugNormalForm {
		for k, v := range ov {
			os.WriteFile("/tmp/normalform_"+sanitize(k)+".go", v, 0o644)
		}
		fmt.Println("normal form: rewrote", len(ov), "files")
	}
	w2, err := Load(o2)
	if err != nil {
		if os.Getenv("BANDCHECK_DEBUG") != "" {
			fmt.Println("normal form unavailable:", err)
			for k, v := range ov {
				os.WriteFile("/tmp/normalform_"+sanitize(k)+".go", v, 0o644)
			}
		}
		return nil, opts
	}
	return w2, o2
}

// adoptFromNormalForm: rule groups that are open in r but fully discharged in r2 are replaced by r2's obligations.
func adoptFromNormalForm(r, r2 *Report, known []knownFinding) int {
	open := r.openRules(known)
	if len(open) == 0 {
		return 0
	}
	byRule := map[string][]*Obligation{}
	bad2 := map[string]bool{}
	for _, o := range r2.Obls {
		byRule[o.Rule] = append(byRule[o.Rule], o)
		if o.status != Discharged {
			isKnown := false
			for _, kf := range known {
				if kf.Property == r.Property && kf.Key == o.Key && o.status == Violated {
					isKnown = true
				}
			}
			if !isKnown {
				bad2[o.Rule] = true
			}
		}
	}
	if debugNormalForm {
		for _, o := range r2.Obls {
			if o.status != Discharged && open[o.Rule] {
				fmt.Printf("pass2 still open: %s %s :: %s\n", o.Status, o.Key, clip(o.Detail, 900))
			}
		}
	}
	n := 0
	var out []*Obligation
	done := map[string]bool{}
	for _, o := range r.Obls {
		if open[o.Rule] && !bad2[o.Rule] && len(byRule[o.Rule]) > 0 {
			if !done[o.Rule] {
				done[o.Rule] = true
				n++
				for _, o2 := range byRule[o.Rule] {
					c := *o2
					if c.status == Discharged {
						c.Detail = "[on the inlined normal form] " + c.Detail
					}
					out = append(out, &c)
				}
			}
			continue
		}
		out = append(out, o)
	}
	r.Obls = out
	if n > 0 {
		r.Notes = append(r.Notes, fmt.Sprintf("%d rule group(s) were decided on the behaviour-equivalent normal form of the sources (private helpers inlined, returns canonicalised)", n))
	}
	return n
}

func init() {
	debugNormalForm = os.Getenv("BANDCHECK_DEBUG") != ""
}

var debugNormalForm bool

// nfChain: the successive normal forms of a program (the normal form of the normal form inlines what the first round
// exposed: helper calls inside inlined bodies, conditions of rewritten switches, …), built on demand.
type nfChain struct {
	worlds  []*World // worlds[0] = the sources
	opts    []LoadOpts
	failed  bool
	keepAll bool // several properties are decided on the same chain (tooling): keep every round in memory
}

const maxNormalFormRounds = 4

func newChain(w *World, opts LoadOpts) *nfChain {
	return &nfChain{worlds: []*World{w}, opts: []LoadOpts{opts}}
}

// get returns the k-th normal form (k >= 1) or nil.
func (c *nfChain) get(k int) *World {
	for len(c.worlds) <= k && !c.failed {
		last := len(c.worlds) - 1
		w2, o2 := secondWorldOpts(c.worlds[last], c.opts[last])
		if w2 == nil {
			c.failed = true
			break
		}
		c.worlds = append(c.worlds, w2)
		c.opts = append(c.opts, o2)
		if !c.keepAll && last >= 1 {
			c.worlds[last] = nil // a round that has been superseded is not needed again (each world is ~3 GB)
			runtime.GC()
			debug.FreeOSMemory()
		}
	}
	if k < len(c.worlds) {
		return c.worlds[k]
	}
	return nil
}

// decide re-evaluates property id on successive normal forms while rule groups stay open, adopting what each round clears.
func (c *nfChain) decide(id, tier string, r *Report, known []knownFinding) {
	for k := 1; k <= maxNormalFormRounds; k++ {
		if len(r.openRules(known)) == 0 {
			return
		}
		if k >= 2 && !c.nextRoundRelevant(k-1, r, known) {
			return // the next normal form changes nothing in the files of the functions the open obligations are about
		}
		wk := c.get(k)
		if wk == nil {
			return
		}
		rk, _ := runProp(id, wk, tier)
		adoptFromNormalForm(r, rk, known)
	}
}

// nextRoundRelevant: would the normal form of world `from` rewrite a file that holds a function named in one of r's
// open obligations? (An obligation whose key names no function keeps the rounds going.) Building the overlay is cheap
// (syntax only); loading it is what costs.
func (c *nfChain) nextRoundRelevant(from int, r *Report, known []knownFinding) bool {
	if from >= len(c.worlds) || c.worlds[from] == nil {
		return true
	}
	w := c.worlds[from]
	open := r.openRules(known)
	files := map[string]bool{}
	for _, o := range r.Obls {
		if o.status == Discharged || !open[o.Rule] {
			continue
		}
		named := false
		for _, tok := range strings.FieldsFunc(o.Key, func(c rune) bool { return c == '|' || c == '<' || c == '#' || c == '=' }) {
			tok = strings.TrimPrefix(tok, "-")
			if fn := w.Funcs[tok]; fn != nil && fn.Pos().IsValid() {
				files[w.Fset.Position(fn.Pos()).Filename] = true
				named = true
			}
		}
		if !named {
			return true
		}
	}
	save := inlineSerialBase
	ov := w.BuildNormalForm()
	inlineSerialBase = save // (a dry run: the real build of this round reuses the same names)
	touched := false
	for f := range ov {
		if files[f] {
			touched = true
		}
	}
	if !touched {
		return false
	}
	// finer: does the text of one of those functions itself change? (other functions of the same file may)
	for _, o := range r.Obls {
		if o.status == Discharged || !open[o.Rule] {
			continue
		}
		for _, tok := range strings.FieldsFunc(o.Key, func(c rune) bool { return c == '|' || c == '<' || c == '#' || c == '=' }) {
			tok = strings.TrimPrefix(tok, "-")
			fn := w.Funcs[tok]
			if fn == nil || !fn.Pos().IsValid() {
				continue
			}
			root := fn
			for root.Parent() != nil {
				root = root.Parent()
			}
			fd, ok := root.Syntax().(*ast.FuncDecl)
			if !ok {
				return true
			}
			fname := w.Fset.Position(fd.Pos()).Filename
			nb, changed := ov[fname]
			if !changed {
				continue
			}
			var before strings.Builder
			printer.Fprint(&before, w.Fset, fd)
			fs := token.NewFileSet()
			pf, err := parser.ParseFile(fs, fname, nb, 0)
			if err != nil {
				return true
			}
			same := false
			for _, d := range pf.Decls {
				nd, ok := d.(*ast.FuncDecl)
				if !ok || nd.Name.Name != fd.Name.Name || (nd.Recv == nil) != (fd.Recv == nil) {
					continue
				}
				var after strings.Builder
				printer.Fprint(&after, fs, nd)
				if squeeze(after.String()) == squeeze(before.String()) {
					same = true
				}
			}
			if !same {
				return true
			}
		}
	}
	return false
}
