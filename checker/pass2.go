package main

import (
	"fmt"
	"os"
)

// runProp evaluates one property's rules on a world, converting engine panics into an unresolved obligation.
func runProp(id string, w *World, tier string) (*Report, propMeta) {
	r := NewReport(id, tier, w)
	var meta propMeta
	func() {
		defer func() {
			if e := recover(); e != nil {
				r.Rule(id+".internal", "engine")
				r.Unres("panic", "the engines run to completion", fmt.Sprintf("engine panic: %v", e))
			}
		}()
		meta = props[id](r)
	}()
	return r, meta
}

func (r *Report) openRules(known []knownFinding) map[string]bool {
	open := map[string]bool{}
	for _, o := range r.Obls {
		if o.status == Discharged {
			continue
		}
		isKnown := false
		for _, kf := range known {
			if kf.Property == r.Property && kf.Key == o.Key && o.status == Violated {
				isKnown = true
			}
		}
		if !isKnown {
			open[o.Rule] = true
		}
	}
	return open
}

// secondWorld loads the normal form (helpers inlined, returns canonicalised) of the program of w, or nil.
func secondWorld(w *World, opts LoadOpts) *World {
	if os.Getenv("BANDCHECK_NOPASS2") != "" { // debugging aid: first-pass verdicts only
		return nil
	}
	ov := w.BuildNormalForm()
	if ov == nil {
		return nil
	}
	o2 := opts
	o2.Overlay = map[string][]byte{}
	for k, v := range opts.Overlay {
		o2.Overlay[k] = v
	}
	for k, v := range ov {
		o2.Overlay[k] = v
	}
	if debugNormalForm {
		for k, v := range ov {
			os.WriteFile("/tmp/normalform_"+sanitize(k)+".go", v, 0o644)
		}
		fmt.Println("normal form: rewrote", len(ov), "files")
	}
	w2, err := Load(o2)
	if err != nil {
		if os.Getenv("BANDCHECK_DEBUG") != "" {
			fmt.Println("normal form unavailable:", err)
			for k, v := range ov {
				os.WriteFile("/tmp/normalform_"+sanitize(k)+".go", v, 0o644)
			}
		}
		return nil
	}
	return w2
}

// adoptFromNormalForm: rule groups that are open in r but fully discharged in r2 are replaced by r2's obligations.
func adoptFromNormalForm(r, r2 *Report, known []knownFinding) int {
	open := r.openRules(known)
	if len(open) == 0 {
		return 0
	}
	byRule := map[string][]*Obligation{}
	bad2 := map[string]bool{}
	for _, o := range r2.Obls {
		byRule[o.Rule] = append(byRule[o.Rule], o)
		if o.status != Discharged {
			isKnown := false
			for _, kf := range known {
				if kf.Property == r.Property && kf.Key == o.Key && o.status == Violated {
					isKnown = true
				}
			}
			if !isKnown {
				bad2[o.Rule] = true
			}
		}
	}
	if debugNormalForm {
		for _, o := range r2.Obls {
			if o.status != Discharged && open[o.Rule] {
				fmt.Printf("pass2 still open: %s %s :: %s\n", o.Status, o.Key, clip(o.Detail, 200))
			}
		}
	}
	n := 0
	var out []*Obligation
	done := map[string]bool{}
	for _, o := range r.Obls {
		if open[o.Rule] && !bad2[o.Rule] && len(byRule[o.Rule]) > 0 {
			if !done[o.Rule] {
				done[o.Rule] = true
				n++
				for _, o2 := range byRule[o.Rule] {
					c := *o2
					if c.status == Discharged {
						c.Detail = "[on the inlined normal form] " + c.Detail
					}
					out = append(out, &c)
				}
			}
			continue
		}
		out = append(out, o)
	}
	r.Obls = out
	if n > 0 {
		r.Notes = append(r.Notes, fmt.Sprintf("%d rule group(s) were decided on the behaviour-equivalent normal form of the sources (private helpers inlined, returns canonicalised)", n))
	}
	return n
}

func init() {
	debugNormalForm = os.Getenv("BANDCHECK_DEBUG") != ""
}

var debugNormalForm bool
