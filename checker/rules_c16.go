package main

const (
	rK  = "x/restake/keeper.Keeper."
	rMS = "x/restake/keeper.msgServer."
	rH  = "x/restake/keeper.Hooks."
)

func init() { props["C16"] = c16 }

func c16(r *Report) propMeta {
	w := r.W
	valid := Cond{Op: "BOOL", A: []string{"call:Keeper.isValidPower"}, Want: true, Desc: "isValidPower(addr, totalPower)"}

	r.Rule("C16.R1", "E3 + order: Unstake")
	us := rMS + "Unstake"
	pay := CallEff("BankKeeper.SendCoinsFromModuleToAccount")
	r.Gate("unstake-guards", us, pay, []Cond{
		{Op: "BOOL", A: []string{"^extract", "call:Coins.SafeSub"}, Want: false, Desc: "not isNeg (SafeSub)"},
		valid, nilErrOf("Keeper.GetTotalPower"),
	}, GateOpts{FailIsError: true})
	r.Dominated("stake-written-before-power-read", us, CallEff("Coins.SafeSub"), CallEff("Keeper.GetTotalPower"))
	r.GateAny("stake-record-updated-before-check", us, CallEff("Keeper.GetTotalPower"), []Cond{
		{Op: "BOOL", A: []string{"^extract", "call:Coins.SafeSub"}, Want: false, Desc: "not isNeg"}}, 1)
	r.Count("stake-record-written-once", us, []Effect{CallEff("Keeper.SetStake"), CallEff("Keeper.DeleteStake")}, "ok", 1, 1)
	r.NotAfter("stake-written-before-power-read", us, CallEff("Keeper.SetStake"), CallEff("Keeper.GetTotalPower"))
	r.NotAfter("stake-deleted-before-power-read", us, CallEff("Keeper.DeleteStake"), CallEff("Keeper.GetTotalPower"))
	r.ArgHas("valid-power-is-post-unstake-total", us, "Keeper.isValidPower", 2, 1, "call:Keeper.GetTotalPower")
	r.Dominated("check-before-payout", us, CallEff("Keeper.isValidPower"), pay)
	r.ArgHas("stake-decrement", us, "Coins.SafeSub", 0, 1, "field:MsgUnstake.Coins")
	r.ArgHas("stake-decrement-from-record", us, "Coins.SafeSub", -1, 1, "field:Stake.Coins", "call:Keeper.GetStake")

	r.Rule("C16.R2", "E3 staking hooks")
	for _, h := range []string{"BeforeDelegationRemoved", "AfterDelegationModified"} {
		r.Gate("hook-guard", rH+h, RetOK(), []Cond{
			{Op: "BOOL", A: []string{"call:Hooks.isAbleToUnbond"}, Want: true, Desc: "isAbleToUnbond(delAddr, remaining)"},
			nilErrOf("StakingKeeper.GetDelegatorBonded")}, GateOpts{FailIsError: true})
		r.ArgHas("hook-addr", rH+h, "Hooks.isAbleToUnbond", 1, 1, "^param:delAddr")
	}
	bdr := rH + "BeforeDelegationRemoved"
	r.ArgHas("remaining-power", bdr, "Hooks.isAbleToUnbond", 2, 1, "^call:Int.Sub", "call:StakingKeeper.GetDelegatorBonded", "call:Validator.TokensFromSharesTruncated", "field:Delegation.Shares", "call:StakingKeeper.GetDelegation", "call:LegacyDec.RoundInt", "!call:LegacyDec.TruncateInt") // rounded like GetDelegatorBonded rounds each delegation: subtracting a truncated value leaves the remainder one token too high (seed C07-13)
	r.ArgHas("removed-delegation", bdr, "StakingKeeper.GetDelegation", 1, 1, "^param:delAddr")
	r.ArgHas("removed-delegation-val", bdr, "StakingKeeper.GetDelegation", 2, 1, "^param:valAddr")
	r.ArgHas("removed-delegation-validator", bdr, "StakingKeeper.GetValidator", 1, 1, "^param:valAddr")
	r.ArgHas("bonded-of-delegator", bdr, "StakingKeeper.GetDelegatorBonded", 1, 1, "^param:delAddr")
	r.ArgHas("modified-power", rH+"AfterDelegationModified", "Hooks.isAbleToUnbond", 2, 1, "^extract", "call:StakingKeeper.GetDelegatorBonded")
	r.ArgHas("total-is-stake-plus-delegated", rH+"isAbleToUnbond", "Keeper.isValidPower", 2, 1, "^call:Int.Add", "call:Keeper.GetStakedPower", "param:delegated")
	r.ArgHas("valid-power-addr", rH+"isAbleToUnbond", "Keeper.isValidPower", 1, 1, "^param:addr")
	r.RetHas("hook-result-is-valid-power", rH+"isAbleToUnbond", 0, "^call:Keeper.isValidPower")
	r.Callers("isvalidpower-callers", rK+"isValidPower", []string{rH + "isAbleToUnbond", us}, []string{rH + "isAbleToUnbond", us})

	r.Rule("C16.R3", "E9 wiring of the staking hooks")
	c16Wiring(r)

	r.Rule("C16.R4", "E3 SetLockedPower")
	sl := rK + "SetLockedPower"
	r.Gate("lock-guards", sl, CallEff("Keeper.SetLock"), []Cond{
		{Op: "BOOL", A: []string{"call:Keeper.IsLiquidStaker"}, Want: false, Desc: "not IsLiquidStaker"},
		{Op: "BOOL", A: []string{"call:Int.IsUint64", "param:power"}, Want: true, Desc: "power.IsUint64()"},
		{Op: "LSS", A: []string{"call:Keeper.GetTotalPower"}, B: []string{"param:power"}, Want: false, Desc: "not (totalPower < power)"},
		{Op: "BOOL", A: []string{"field:Vault.IsActive", "call:Keeper.GetOrCreateVault"}, Want: true, Desc: "vault.IsActive"},
		nilErrOf("Keeper.GetTotalPower"), nilErrOf("Keeper.GetOrCreateVault"),
	}, GateOpts{FailIsError: true})
	r.ArgHas("total-power-of-staker", sl, "Keeper.GetTotalPower", 1, 1, "^param:stakerAddr")
	r.ArgHas("vault-of-key", sl, "Keeper.GetOrCreateVault", 1, 1, "^param:key")
	r.Exists("lock-power-is-requested", sl, StoreEff("Lock.Power", "^param:power"), 1)
	r.ArgHas("existing-lock-looked-up", sl, "Keeper.GetLock", 1, 1, "^param:stakerAddr")
	r.RetHas("delegation-power", rK+"GetDelegationPower", 0, "call:StakingKeeper.GetDelegatorBonded", "param:stakerAddr")
	r.Exists("total-power-sum", rK+"GetTotalPower", RetValEff(0, "^call:Int.Add", "call:Keeper.GetStakedPower", "call:Keeper.GetDelegationPower"), 1)
	// staked power counts only coins of the denoms governance currently allows (a delisted denom carries no power: seed C16-3)
	gsp := rK + "GetStakedPower"
	r.ArgHas("staked-power-per-allowed-denom", gsp, "Coins.AmountOf", 0, 1, "field:Params.AllowedDenoms", "call:Keeper.GetParams")
	r.ArgHas("staked-power-of-the-stakers-record", gsp, "Coins.AmountOf", -1, 1, "field:Stake.Coins", "call:Keeper.GetStake", "param:stakerAddr")
	r.RetHas("staked-power-is-that-sum", gsp, 0, "call:Int.Add", "call:Coins.AmountOf", "!field:Coin.Amount")
	r.LoopVisitsAll("staked-power-every-allowed-denom", gsp, "Coins.AmountOf", LoopOpts{})

	r.Rule("C16.R5", "pairing: lock record and by-power index")
	r.Dominated("delete-old-before-write", rK+"SetLock", CallEff("Keeper.DeleteLock"), CallEff("Keeper.setLockByPower"))
	r.Count("set-lock-once", rK+"SetLock", []Effect{CallEff("Keeper.setLockByPower")}, "all", 1, 1)
	r.Count("delete-lock-once", rK+"SetLock", []Effect{CallEff("Keeper.DeleteLock")}, "all", 1, 1)
	r.SameValue("index-and-record-same-lock", rK+"SetLock", ArgRef{"Keeper.setLockByPower", 1})
	r.ArgHas("index-from-param", rK+"SetLock", "Keeper.setLockByPower", 1, 1, "^param:lock")
	r.ArgHas("delete-same-key", rK+"SetLock", "Keeper.DeleteLock", 2, 1, "field:Lock.Key", "param:lock")
	r.ArgHas("delete-index-of-stored-lock", rK+"DeleteLock", "Keeper.deleteLockByPower", 1, 1, "call:Keeper.GetLock")
	r.ArgLacks("delete-index-not-from-args-only", rK+"DeleteLock", "Keeper.deleteLockByPower", 1, "call:types.NewLock")
	r.Gate("delete-only-if-found", rK+"DeleteLock", CallEff("Keeper.deleteLockByPower"), []Cond{{Op: "BOOL", A: []string{"call:Keeper.GetLock"}, Want: true, Desc: "found"}}, GateOpts{})
	r.StoreWriters("lock-index-store", []string{"call:types.LockByPowerIndexKey", "call:types.LocksByPowerIndexKey", "global:types.LocksByPowerIndexKeyPrefix"}, []string{rK + "setLockByPower", rK + "deleteLockByPower"}, "x/restake")
	r.StoreWriters("lock-store", []string{"call:types.LockStoreKey", "global:types.LockStoreKeyPrefix"}, []string{rK + "SetLock", rK + "DeleteLock"}, "x/restake")
	r.Callers("index-callers", rK+"setLockByPower", []string{rK + "SetLock"}, []string{rK + "SetLock"})
	r.Callers("index-callers", rK+"deleteLockByPower", []string{rK + "DeleteLock"}, []string{rK + "DeleteLock"})
	r.Callers("setlock-callers", rK+"SetLock", []string{sl, rK + "InitGenesis", "x/restake.InitGenesis"}, []string{sl})
	r.ArgHas("index-key-same-lock-set", rK+"setLockByPower", "types.LockByPowerIndexKey", 0, 1, "^param:lock")
	r.ArgHas("index-key-same-lock-del", rK+"deleteLockByPower", "types.LockByPowerIndexKey", 0, 1, "^param:lock")

	r.Rule("C16.R6", "census: Vault.IsActive")
	r.FieldWriters("vault-deactivated-only-in", "Vault.IsActive", []string{"const:false"}, []string{rK + "DeactivateVault"}, []string{"x/restake"})
	r.FieldWriters("vault-active-writers", "Vault.IsActive", nil, []string{rK + "DeactivateVault", "x/restake/types.NewVault"}, []string{"x/restake"})
	r.Gate("deactivate-guards", rK+"DeactivateVault", CallEff("Keeper.SetVault"), []Cond{
		{Op: "BOOL", A: []string{"call:Keeper.GetVault"}, Want: true, Desc: "found"},
		{Op: "BOOL", A: []string{"field:Vault.IsActive"}, Want: true, Desc: "vault.IsActive"}}, GateOpts{FailIsError: true})
	r.Gate("create-only-if-missing", rK+"GetOrCreateVault", CallEff("Keeper.SetVault"), []Cond{{Op: "BOOL", A: []string{"call:Keeper.GetVault"}, Want: false, Desc: "not found"}}, GateOpts{})
	r.ArgHas("new-vault-active", rK+"GetOrCreateVault", "types.NewVault", 1, 1, "const:true")
	r.Callers("setvault-callers", rK+"SetVault", []string{rK + "GetOrCreateVault", rK + "DeactivateVault", rK + "InitGenesis", "x/restake.InitGenesis"}, []string{rK + "GetOrCreateVault", rK + "DeactivateVault"})

	r.Rule("C16.R7", "E3 isValidPower")
	iv := rK + "isValidPower"
	r.Gate("first-active-vault-decides", iv, RetValEff(0, "call:Int.GTE"), []Cond{{Op: "BOOL", A: []string{"call:Keeper.IsActiveVault"}, Want: true, Desc: "IsActiveVault(key of the index entry)"}}, GateOpts{})
	r.Exists("compare-total-with-index-power", iv, RetValEff(0, "^call:Int.GTE", "param:totalPower", "call:types.SplitLockByPowerIndexKey"), 1)
	r.Gate("true-only-when-no-active-lock", iv, RetConst(0, "true"), []Cond{{Op: "BOOL", A: []string{"^call:Valid", "call:KVStoreReversePrefixIterator"}, Want: false, Desc: "iterator exhausted"}}, GateOpts{})
	r.Exists("reverse-iteration", iv, CallEff("KVStoreReversePrefixIterator", "call:types.LocksByPowerIndexKey", "param:addr"), 1)
	r.Gate("active-vault-false-if-missing", rK+"IsActiveVault", RetValEff(0, "field:Vault.IsActive"), []Cond{{Op: "BOOL", A: []string{"call:Keeper.GetVault"}, Want: true, Desc: "found"}}, GateOpts{})

	r.Rule("C16.R8", "pairing: coins moved == coins recorded")
	st := rMS + "Stake"
	r.SameValue("stake-same-coins", st, ArgRef{"BankKeeper.SendCoinsFromAccountToModule", 3}, ArgRef{"Coins.Add", 0})
	r.ArgHas("stake-coins", st, "BankKeeper.SendCoinsFromAccountToModule", 3, 1, "field:MsgStake.Coins")
	r.ArgHas("stake-to-module", st, "BankKeeper.SendCoinsFromAccountToModule", 2, 1, "const:restake")
	r.Gate("record-after-transfer", st, CallEff("Keeper.SetStake"), []Cond{nilErrOf("BankKeeper.SendCoinsFromAccountToModule")}, GateOpts{FailIsError: true})
	r.Gate("allowed-denoms", st, CallEff("BankKeeper.SendCoinsFromAccountToModule"), []Cond{{Op: "BOOL", A: []string{"lookup", "field:Coin.Denom", "field:MsgStake.Coins"}, Want: true, Desc: "every coin denom ∈ AllowedDenoms"}}, GateOpts{LoopAll: true, FailIsError: true})
	r.Exists("allowed-set-from-params", st, MapUpdEff("field:Params.AllowedDenoms"), 1)
	r.SameValue("unstake-same-coins", us, ArgRef{"BankKeeper.SendCoinsFromModuleToAccount", 3}, ArgRef{"Coins.SafeSub", 0})
	r.ArgHas("unstake-from-module", us, "BankKeeper.SendCoinsFromModuleToAccount", 1, 1, "const:restake")
	r.SameValue("unstake-to-staker", us, ArgRef{"BankKeeper.SendCoinsFromModuleToAccount", 2}, ArgRef{"Keeper.GetStake", 1}, ArgRef{"Keeper.GetTotalPower", 1}, ArgRef{"Keeper.isValidPower", 1})

	r.Rule("C16.R9", "E9 writer/reader agreement of the index key")
	c16KeyLayout(r)
	_ = w
	r.Rule("C16.R10", "store-key agreement: every point read/delete addresses a written key family")
	r.StoreKeyAgreement("store-keys", "restake", 6, nil)

	r.Rule("C16.R11", "E19 constructors of x/restake/types store their inputs unchanged")
	r.CtorFaithful("ctor", faithfulCtors["restake"]...)

	r.Rule("C16.lint", "E8 module lint: no nondeterminism / process-local state in x/restake")
	r.ModuleLint("module-lint", "restake", 20)

	r.Rule("C16.R12", "genesis export is complete")
	r.ArgHas("export-all-vaults", rK+"ExportGenesis", "types.NewGenesisState", 1, 1, "^call:Keeper.GetVaults")
	r.ArgHas("export-all-locks", rK+"ExportGenesis", "types.NewGenesisState", 2, 1, "^call:Keeper.GetLocks")
	r.ArgHas("export-all-stakes", rK+"ExportGenesis", "types.NewGenesisState", 3, 1, "^call:Keeper.GetStakes")
	r.LoopVisitsAll("all-vaults-listed", rK+"GetVaults", "builtin.append", LoopOpts{})
	r.LoopVisitsAll("all-locks-listed", rK+"GetLocks", "builtin.append", LoopOpts{})

	r.Rule("C16.iter", "E14 store-iterator loops run to exhaustion")
	r.IteratorLoopCensus("iter", []string{"x/restake/"}, map[string]string{"x/restake/keeper.Keeper.isValidPower": "stops at the first lock of an ACTIVE vault in the descending by-power index: the largest binding lock"}, 4)

	return propMeta{
		Decided: []string{
			"R1 Unstake pays out only past !isNeg(SafeSub) and isValidPower(total power read AFTER the stake record was rewritten); failing edges return errors",
			"R2 both delegation hooks return nil only when isAbleToUnbond holds; BeforeDelegationRemoved passes GetDelegatorBonded minus the tokens of the delegation being removed, unconditionally; isAbleToUnbond adds the restaked power and defers to isValidPower",
			"R3 RestakeKeeper.Hooks() is registered in the staking keeper's multi-hooks",
			"R4 SetLockedPower writes the lock only past !liquid staker, IsUint64, !(totalPower<power), vault active; the stored power is the requested one",
			"R5 SetLock deletes the old record+index (built from the STORED lock) before writing the new pair from one lock value; index and lock stores have single writers",
			"R6 Vault.IsActive=false only in DeactivateVault (guarded by found && active); true only via NewVault in the not-found branch",
			"R7 isValidPower iterates the by-power index in reverse and returns GTE(total, power) at the first entry whose vault is active, true only when exhausted",
			"R8 Stake/Unstake move exactly the coins they record; Stake gated by AllowedDenoms",
			"R9 index key writer and reader agree on the 8-byte big-endian power field at the same offset",
			"R10 every KV-store Get/Has/Delete of x/restake uses a key builder of x/restake/types that some Set of the module also uses (a probe of an iteration prefix or of a sibling family is always-empty state)",
			"R11 the literal constructors of x/restake/types (frozen list) store each parameter or a constant unchanged in the record they build: what a handler validated is what is stored",
			"lint: the determinism lint (incl. writes to memory held by long-lived objects) over everything reachable from the handlers and blockers of x/restake",
			"R12 ExportGenesis exports every vault (also deactivated ones: a vault missing after import would be re-created ACTIVE by GetOrCreateVault), every lock and every stake, each list built by a loop without early way out (seed C16-8)",
			"iter: every KV-store iterator loop of the module's keeper runs until the iterator is exhausted (header is the bare Valid() test, no other way out but panic / error return), except reviewed early stops",
		},
		Undecided: []string{"module balance == sum of stakes over histories", "rounding in TokensFromSharesTruncated", "slashing"},
		Assume:    []string{"staking module invokes the registered hooks and aborts on their error", "msg handlers atomic"},
	}
}
