package main

import (
	"bytes"
	"fmt"
	"go/ast"
	"go/parser"
	"go/printer"
	"go/token"
	"go/types"
	"regexp"
	"sort"
	"strings"

	"golang.org/x/tools/go/packages"
)

// Second-pass normalisation (source level). When some obligation of a property is not discharged on the program as
// written, the property is evaluated once more on a behaviour-equivalent NORMAL FORM of the same sources and a rule group
// that is fully discharged there is accepted. The normal form undoes the two most common clean-up refactors, which move
// code without changing it:
//
//   inline   every call of a private (unexported), non-anchored helper function or method of the repo - at a call site
//            that is a whole statement, the init of an if, a range operand, a bare if condition or a return - is replaced
//            by the helper's body: parameters become locals initialised from the arguments in order, every `return e…`
//            becomes an assignment to result locals followed by a labelled break out of a one-trip `for`;
//   returns  `return f(…)` in a function whose only result is an error becomes `if e := f(…); e != nil { return e };
//            return nil`, and `return <comparison>` in a function whose only result is a bool becomes
//            `if <comparison> { return true }; return false`.
//
// Both rewrites preserve behaviour exactly (evaluation order of arguments, short-circuit, copies of value receivers), so
// a structural fact established on the normal form is a fact about the program. If the rewritten sources do not
// type-check the second pass is simply unavailable and the first verdict stands.

type inliner struct {
	w       *World
	counter int
	// per file: textual replacements (byte offsets in the original file)
	edits         map[string][]textEdit
	imports       map[string]map[string]string // unused (helpers are inlined only where every package they need is already imported)
	missingImport bool
	inlined       map[*types.Func]int
	// errCont, when set, is the caller's `if err != nil {…}` continuation pushed into every return of the helper
	// whose error result is not the literal nil (the caller's own check is then dropped)
	errCont func(resNames []string) string
	// tailCall: the call is the operand of a `return` whose function has the helper's result types: the helper's
	// returns become returns of the caller (no result variables, no loop)
	tailCall bool
	// flagCont: like errCont for a boolean last result: the caller's `if flag {…}` (flagWant=true) or `if !flag {…}`
	// (flagWant=false) body is pushed into the helper's returns whose last result is that literal
	flagCont func(resNames []string) string
	flagWant bool
}

type textEdit struct {
	start, end int
	text       string
}

func (w *World) pkgOfFile(f *ast.File) *packages.Package {
	for _, p := range w.Pkgs {
		for _, x := range p.Syntax {
			if x == f {
				return p
			}
		}
	}
	return nil
}

// helperDecl: the declaration of the function object if it is an inlinable private helper.
func (il *inliner) helperDecl(obj *types.Func) (*ast.FuncDecl, *packages.Package, *ast.File) {
	if obj == nil || obj.Pkg() == nil {
		return nil, nil, nil
	}
	// exported helpers too (keepers export nearly everything), as long as no rule names them (frozenSigs below); they
	// are inlined only into callers of their own package (tryInline) and deleted only if no package mentions the name
	path := obj.Pkg().Path()
	if !strings.HasPrefix(path, modPrefix) || scopeExcluded(relPkg(path)) {
		return nil, nil, nil
	}
	if _, anchored := frozenSigs[ObjKey(obj)]; anchored {
		return nil, nil, nil
	}
	if obj.Exported() && frozenExported[ObjKey(obj)] {
		return nil, nil, nil // an exported function that already existed when the tables were frozen stays a call
	}
	p := il.w.PkgBy[relPkg(path)]
	if p == nil {
		return nil, nil, nil
	}
	for _, f := range p.Syntax {
		for _, d := range f.Decls {
			fd, ok := d.(*ast.FuncDecl)
			if !ok || fd.Body == nil || p.TypesInfo.Defs[fd.Name] != obj {
				continue
			}
			if fd.Type.TypeParams != nil || strings.HasSuffix(il.w.Fset.Position(fd.Pos()).Filename, ".pb.go") {
				return nil, nil, nil
			}
			sig := obj.Type().(*types.Signature)
			if sig.Variadic() {
				return nil, nil, nil
			}
			ok = true
			ast.Inspect(fd.Body, func(n ast.Node) bool {
				switch x := n.(type) {
				case *ast.DeferStmt, *ast.GoStmt, *ast.LabeledStmt, *ast.SelectStmt:
					ok = false
				case *ast.BranchStmt:
					if x.Tok == token.GOTO || x.Label != nil {
						ok = false
					}
				case *ast.ReturnStmt:
					// a helper that returns the address of a local it fills by calls is a conversion: as a call term it keeps
					// its argument visible to the rules, inlined it would hide it behind an allocation
					for _, e := range x.Results {
						if u, isU := ast.Unparen(e).(*ast.UnaryExpr); isU && u.Op == token.AND {
							if _, isID := ast.Unparen(u.X).(*ast.Ident); isID {
								ok = false
							}
						}
					}
				case *ast.CallExpr:
					// recover changes meaning when moved; a panic site is keyed by its function in the panic censuses
					if id, isID := x.Fun.(*ast.Ident); isID && (id.Name == "recover" || (id.Name == "panic" && frozenExported[ObjKey(obj)])) {
						ok = false // (a NEW helper - one that did not exist when the tables were frozen - may panic: its panic site was its caller's)
					}
					// direct recursion
					if callee := calleeObj(p, x); callee == obj {
						ok = false
					}
				}
				return ok
			})
			if !ok {
				return nil, nil, nil
			}
			return fd, p, f
		}
	}
	return nil, nil, nil
}

func calleeObj(p *packages.Package, ce *ast.CallExpr) *types.Func {
	var id *ast.Ident
	switch f := ce.Fun.(type) {
	case *ast.Ident:
		id = f
	case *ast.SelectorExpr:
		id = f.Sel
	default:
		return nil
	}
	fn, _ := p.TypesInfo.Uses[id].(*types.Func)
	return fn
}

func (il *inliner) src(n ast.Node) string {
	var buf bytes.Buffer
	printer.Fprint(&buf, il.w.Fset, n)
	return buf.String()
}

// typeText renders a type as source valid in file `in` of package p, recording imports that must be added.
func (il *inliner) typeText(t types.Type, p *packages.Package, file *ast.File) string {
	return types.TypeString(t, func(other *types.Package) string {
		if other == p.Types {
			return ""
		}
		return il.importName(other.Path(), other.Name(), file)
	})
}

// importName: the name under which file imports path; if it does not, schedule an import under a fresh alias.
func (il *inliner) importName(path, defName string, file *ast.File) string {
	for _, im := range file.Imports {
		if strings.Trim(im.Path.Value, `"`) == path {
			if im.Name != nil {
				if im.Name.Name == "_" || im.Name.Name == "." {
					break
				}
				return im.Name.Name
			}
			return defName
		}
	}
	// not imported by the caller's file: schedule an import under a fresh alias (blanked again if it ends up unused)
	fname := il.w.Fset.Position(file.Pos()).Filename
	if il.imports[fname] == nil {
		il.imports[fname] = map[string]string{}
	}
	if a, ok := il.imports[fname][path]; ok {
		return a
	}
	a := "inlimp_" + sanitize(defName)
	for _, used := range il.imports[fname] {
		if used == a {
			a += sanitize(strings.ReplaceAll(path, "/", "_"))
		}
	}
	il.imports[fname][path] = a
	return a
}

func sanitize(s string) string {
	var b strings.Builder
	for _, r := range s {
		if r == '_' || (r >= 'a' && r <= 'z') || (r >= 'A' && r <= 'Z') || (r >= '0' && r <= '9') {
			b.WriteRune(r)
		}
	}
	return b.String()
}

// inlineText builds the replacement for one call of helper fd: it returns the statements that compute the call and the
// names of the locals holding its results.
func (il *inliner) inlineText(call *ast.CallExpr, fd *ast.FuncDecl, hp *packages.Package, hfile *ast.File, cp *packages.Package, cfile *ast.File) (string, []string, bool) {
	il.counter++
	il.missingImport = false
	suf := fmt.Sprintf("_inl%d", il.counter)
	label := "inlL" + suf
	obj := hp.TypesInfo.Defs[fd.Name].(*types.Func)
	sig := obj.Type().(*types.Signature)

	// 1. rename every object local to the helper (receiver, params, results, locals) - mutate, print, restore
	type saved struct {
		id   *ast.Ident
		name string
	}
	var restore []saved
	local := func(o types.Object) bool {
		v, ok := o.(*types.Var)
		if !ok || v.IsField() {
			// local constants / types declared in the body
			if o != nil && o.Parent() != nil && o.Parent() != hp.Types.Scope() && o.Parent() != types.Universe && o.Pkg() == hp.Types {
				if _, isPkgName := o.(*types.PkgName); !isPkgName && fd.Body.Pos() <= o.Pos() && o.Pos() <= fd.Body.End() {
					return true
				}
			}
			return false
		}
		return fd.Pos() <= v.Pos() && v.Pos() <= fd.End()
	}
	typeSwitchNames := map[string]bool{}
	ast.Inspect(fd, func(n ast.Node) bool {
		if ts, ok := n.(*ast.TypeSwitchStmt); ok {
			if as, ok := ts.Assign.(*ast.AssignStmt); ok && len(as.Lhs) == 1 {
				if id, ok := as.Lhs[0].(*ast.Ident); ok {
					typeSwitchNames[id.Name] = true
				}
			}
		}
		return true
	})
	ast.Inspect(fd, func(n ast.Node) bool {
		id, ok := n.(*ast.Ident)
		if !ok || id.Name == "_" || typeSwitchNames[id.Name] {
			return true
		}
		var o types.Object
		if d := hp.TypesInfo.Defs[id]; d != nil {
			o = d
		} else if u := hp.TypesInfo.Uses[id]; u != nil {
			o = u
		}
		if o != nil && local(o) {
			restore = append(restore, saved{id, id.Name})
			id.Name += suf
		}
		return true
	})
	// package qualifiers used by the helper body must be importable from the caller's file under the same name
	pkgOK := true
	renamePkg := map[*ast.Ident]string{}
	ast.Inspect(fd.Body, func(n ast.Node) bool {
		se, ok := n.(*ast.SelectorExpr)
		if !ok {
			return true
		}
		if x, ok := se.X.(*ast.Ident); ok {
			if pn, ok := hp.TypesInfo.Uses[x].(*types.PkgName); ok {
				want := il.importName(pn.Imported().Path(), pn.Imported().Name(), cfile)
				if want != x.Name {
					renamePkg[x] = x.Name
					x.Name = want
				}
			}
		}
		return true
	})
	// a helper of ANOTHER package (code moved into a types-package function or method): its package-level names are
	// qualified with the caller's import of that package; a body that touches anything unexported there stays a call
	if hp != cp {
		imp := ""
		ast.Inspect(fd.Body, func(n ast.Node) bool {
			x, ok := n.(*ast.Ident)
			if !ok || !pkgOK {
				return pkgOK
			}
			o := hp.TypesInfo.Uses[x]
			if o == nil || o.Pkg() != hp.Types {
				return true
			}
			if _, isPkg := o.(*types.PkgName); isPkg {
				return true
			}
			switch {
			case o.Parent() == hp.Types.Scope():
				if !o.Exported() {
					pkgOK = false
					return false
				}
				if _, done := renamePkg[x]; done {
					return true
				}
				if imp == "" {
					imp = il.importName(hp.Types.Path(), hp.Types.Name(), cfile)
				}
				renamePkg[x] = x.Name
				x.Name = imp + "." + x.Name
			case o.Parent() == nil && !o.Exported(): // unexported field or method
				pkgOK = false
				return false
			}
			return true
		})
	}
	bodyText := il.src(fd.Body)
	// error results that are non-nil by construction (sentinels, Wrapf on a sentinel, errors.New, fmt.Errorf), keyed by
	// their printed form under the renaming: the pushed caller check is not repeated for them
	nonNilKeys := map[string]bool{}
	if il.errCont != nil {
		ast.Inspect(fd.Body, func(n ast.Node) bool {
			if _, ok := n.(*ast.FuncLit); ok {
				return false
			}
			if rs, ok := n.(*ast.ReturnStmt); ok && len(rs.Results) > 0 {
				if r := rs.Results[len(rs.Results)-1]; nonNilError(hp, r) {
					nonNilKeys[squeeze(il.src(r))] = true
				}
			}
			return true
		})
	}
	for x, old := range renamePkg {
		x.Name = old
	}
	var paramNames []string
	var paramTypes []string
	if fd.Recv != nil && len(fd.Recv.List) == 1 {
		nm := "recv" + suf
		if len(fd.Recv.List[0].Names) == 1 && fd.Recv.List[0].Names[0].Name != "_" {
			nm = fd.Recv.List[0].Names[0].Name
		}
		paramNames = append(paramNames, nm)
		paramTypes = append(paramTypes, il.typeText(sig.Recv().Type(), cp, cfile))
	}
	for _, fl := range fd.Type.Params.List {
		t := il.typeText(hp.TypesInfo.TypeOf(fl.Type), cp, cfile)
		if len(fl.Names) == 0 {
			paramNames = append(paramNames, "_")
			paramTypes = append(paramTypes, t)
		}
		for _, n := range fl.Names {
			paramNames = append(paramNames, n.Name)
			paramTypes = append(paramTypes, t)
		}
	}
	var resNames, resTypes []string
	named := false
	if fd.Type.Results != nil {
		for _, fl := range fd.Type.Results.List {
			t := il.typeText(hp.TypesInfo.TypeOf(fl.Type), cp, cfile)
			if len(fl.Names) == 0 {
				resNames = append(resNames, fmt.Sprintf("res%d%s", len(resNames), suf))
				resTypes = append(resTypes, t)
			}
			for _, n := range fl.Names {
				named = true
				nm := n.Name
				if nm == "_" {
					nm = fmt.Sprintf("res%d%s", len(resNames), suf)
				}
				resNames = append(resNames, nm)
				resTypes = append(resTypes, t)
			}
		}
	}
	for _, s := range restore {
		s.id.Name = s.name
	}
	if hp != cp {
		// unexported named types of the helper's package in its signature cannot be spelled in the caller
		unexp := regexp.MustCompile(`\b` + regexp.QuoteMeta(il.importName(hp.Types.Path(), hp.Types.Name(), cfile)) + `\.[a-z_]`)
		for _, t := range append(append([]string{}, paramTypes...), resTypes...) {
			if unexp.MatchString(t) {
				pkgOK = false
			}
		}
	}
	if !pkgOK || il.missingImport {
		return "", nil, false
	}

	// 2. re-parse the renamed body and turn returns into assignment + labelled break
	fset := token.NewFileSet()
	pf, err := parser.ParseFile(fset, "inl.go", "package p\nfunc _() "+bodyText, parser.ParseComments)
	if err != nil {
		return "", nil, false
	}
	body := pf.Decls[0].(*ast.FuncDecl).Body
	okRet := true
	// expression helper: the body is one `return e` whose type is exactly the declared result type. The call is replaced
	// by (e) over the bound parameters, so that a condition stays a condition (branch form) at the call site.
	exprResult := ""
	if il.errCont == nil && il.flagCont == nil && !il.tailCall && len(resNames) == 1 && !named && len(body.List) == 1 && len(fd.Body.List) == 1 {
		if rs, ok := body.List[0].(*ast.ReturnStmt); ok && len(rs.Results) == 1 {
			if ors, ok := fd.Body.List[0].(*ast.ReturnStmt); ok && len(ors.Results) == 1 {
				if t := hp.TypesInfo.TypeOf(ors.Results[0]); t != nil && types.Identical(t, sig.Results().At(0).Type()) {
					var buf bytes.Buffer
					printer.Fprint(&buf, fset, rs.Results[0])
					exprResult = "(" + buf.String() + ")"
				}
			}
		}
	}
	var rewrite func(list []ast.Stmt) []ast.Stmt
	var rewriteStmt func(s ast.Stmt) ast.Stmt
	mk := func(src string) ast.Stmt {
		e, err := parser.ParseFile(token.NewFileSet(), "s.go", "package p\nfunc _() {\n"+src+"\n}", 0)
		if err != nil {
			okRet = false
			return &ast.EmptyStmt{}
		}
		b := e.Decls[0].(*ast.FuncDecl).Body
		if len(b.List) == 1 {
			return b.List[0]
		}
		return b
	}
	exprSrc := func(e ast.Expr) string {
		var buf bytes.Buffer
		printer.Fprint(&buf, fset, e)
		return buf.String()
	}
	// identifiers known non-nil at the current point: inside the body of `if e != nil {…}` with no assignment to e there
	knownIdent := map[string]int{}
	needsCheck := func(e ast.Expr) bool {
		if id, ok := e.(*ast.Ident); ok && (id.Name == "nil" || knownIdent[id.Name] > 0) {
			return false
		}
		return !nonNilKeys[squeeze(exprSrc(e))]
	}
	rewriteStmt = func(s ast.Stmt) ast.Stmt {
		switch x := s.(type) {
		case *ast.ReturnStmt:
			if il.flagCont != nil {
				if len(x.Results) != len(resNames) || len(resNames) == 0 {
					okRet = false
					return s
				}
				id, isID := x.Results[len(x.Results)-1].(*ast.Ident)
				if !isID || (id.Name != "true" && id.Name != "false") {
					okRet = false
					return s
				}
				var rs []string
				for _, r := range x.Results {
					rs = append(rs, exprSrc(r))
				}
				if (id.Name == "true") == il.flagWant {
					return mk("{ " + strings.Join(resNames, ", ") + " = " + strings.Join(rs, ", ") + "\n{\n" + il.flagCont(resNames) + "\n}\nbreak " + label + " }")
				}
				return mk("{ " + strings.Join(resNames, ", ") + " = " + strings.Join(rs, ", ") + "\nbreak " + label + " }")
			}
			if il.tailCall {
				if len(x.Results) == 0 && len(resNames) > 0 {
					return mk("return " + strings.Join(resNames, ", "))
				}
				return s
			}
			switch {
			case len(x.Results) == 0:
				if il.errCont != nil && len(resNames) > 0 {
					return mk("{ if " + resNames[len(resNames)-1] + " != nil {\n" + il.errCont(resNames) + "\n}\nbreak " + label + " }")
				}
				return mk("break " + label)
			case len(x.Results) == len(resNames):
				var rs []string
				for _, r := range x.Results {
					rs = append(rs, exprSrc(r))
				}
				chk := ""
				if il.errCont != nil {
					last := x.Results[len(x.Results)-1]
					if id, ok := last.(*ast.Ident); ok && id.Name == "nil" {
						// nothing to check
					} else if needsCheck(last) {
						chk = "if " + resNames[len(resNames)-1] + " != nil {\n" + il.errCont(resNames) + "\n}\n"
					} else {
						chk = "{\n" + il.errCont(resNames) + "\n}\n"
					}
				}
				return mk("{ " + strings.Join(resNames, ", ") + " = " + strings.Join(rs, ", ") + "\n" + chk + "break " + label + " }")
			case len(x.Results) == 1 && len(resNames) > 1: // return f() forwarding a tuple
				chk := ""
				if il.errCont != nil {
					chk = "if " + resNames[len(resNames)-1] + " != nil {\n" + il.errCont(resNames) + "\n}\n"
				}
				return mk("{ " + strings.Join(resNames, ", ") + " = " + exprSrc(x.Results[0]) + "\n" + chk + "break " + label + " }")
			default:
				okRet = false
				return s
			}
		case *ast.BlockStmt:
			x.List = rewrite(x.List)
		case *ast.IfStmt:
			known := ""
			if be, ok := x.Cond.(*ast.BinaryExpr); ok && be.Op == token.NEQ {
				if id, ok := be.X.(*ast.Ident); ok {
					if y, ok := be.Y.(*ast.Ident); ok && y.Name == "nil" && !assignsTo(x.Body, id.Name) {
						known = id.Name
					}
				}
			}
			if known != "" {
				knownIdent[known]++
			}
			x.Body.List = rewrite(x.Body.List)
			if known != "" {
				knownIdent[known]--
			}
			if x.Else != nil {
				x.Else = rewriteStmt(x.Else)
			}
		case *ast.ForStmt:
			x.Body.List = rewrite(x.Body.List)
		case *ast.RangeStmt:
			x.Body.List = rewrite(x.Body.List)
		case *ast.SwitchStmt:
			for _, c := range x.Body.List {
				cc := c.(*ast.CaseClause)
				cc.Body = rewrite(cc.Body)
			}
		case *ast.TypeSwitchStmt:
			for _, c := range x.Body.List {
				cc := c.(*ast.CaseClause)
				cc.Body = rewrite(cc.Body)
			}
		}
		return s
	}
	rewrite = func(list []ast.Stmt) []ast.Stmt {
		for i, s := range list {
			list[i] = rewriteStmt(s)
		}
		return list
	}
	body.List = rewrite(body.List)
	if !okRet {
		return "", nil, false
	}
	var bb bytes.Buffer
	printer.Fprint(&bb, fset, body)
	inner := strings.TrimSpace(bb.String())
	inner = strings.TrimSuffix(strings.TrimPrefix(inner, "{"), "}")

	// 3. arguments (receiver first), evaluated left to right into the renamed parameters
	var args []string
	if fd.Recv != nil {
		se, ok := call.Fun.(*ast.SelectorExpr)
		if !ok {
			return "", nil, false
		}
		recvSrc := il.src(se.X)
		// automatic address-of / dereference of the receiver
		recvT := cp.TypesInfo.TypeOf(se.X)
		// a method promoted through embedded fields: spell the path out
		if sel := cp.TypesInfo.Selections[se]; sel != nil && len(sel.Index()) > 1 {
			t := recvT
			for _, idx := range sel.Index()[:len(sel.Index())-1] {
				if pt, ok := t.Underlying().(*types.Pointer); ok {
					t = pt.Elem()
				}
				st, ok := t.Underlying().(*types.Struct)
				if !ok || idx >= st.NumFields() {
					return "", nil, false
				}
				recvSrc += "." + st.Field(idx).Name()
				t = st.Field(idx).Type()
			}
			recvT = t
		}
		_, wantPtr := sig.Recv().Type().(*types.Pointer)
		_, havePtr := recvT.(*types.Pointer)
		switch {
		case wantPtr && !havePtr:
			recvSrc = "&" + recvSrc
		case !wantPtr && havePtr:
			recvSrc = "*" + recvSrc
		}
		args = append(args, recvSrc)
	}
	for _, a := range call.Args {
		args = append(args, il.src(a))
	}
	if len(args) != len(paramNames) {
		return "", nil, false
	}
	var sb strings.Builder
	for i, t := range resTypes {
		if (il.tailCall && !named) || exprResult != "" {
			break
		}
		fmt.Fprintf(&sb, "var %s %s\n", resNames[i], t)
	}
	// parameters: declare with their types so that untyped constants convert exactly as in a call
	for i, pn := range paramNames {
		name := pn
		if name == "_" {
			name = fmt.Sprintf("blank%d%s", i, suf)
		} else if !strings.HasSuffix(name, suf) {
			name += suf
		}
		fmt.Fprintf(&sb, "var %s %s = %s\n_ = %s\n", name, paramTypes[i], args[i], name)
	}
	if exprResult != "" {
		if il.missingImport {
			return "", nil, false
		}
		return sb.String(), []string{exprResult}, true
	}
	if il.tailCall {
		if named {
			for _, rn := range resNames {
				fmt.Fprintf(&sb, "_ = %s\n", rn)
			}
		}
		fmt.Fprintf(&sb, "%s\n", inner)
		if il.missingImport {
			return "", nil, false
		}
		return sb.String(), resNames, true
	}
	for _, rn := range resNames {
		fmt.Fprintf(&sb, "_ = %s\n", rn)
	}
	fmt.Fprintf(&sb, "%s:\nfor {\n%s\nbreak %s\n}\n", label, inner, label)
	if il.missingImport {
		return "", nil, false
	}
	return sb.String(), resNames, true
}

// BuildNormalForm returns an overlay (file -> new content) with helpers inlined and returns canonicalised, or nil.
func (w *World) BuildNormalForm() map[string][]byte {
	curWorldForInline = w
	defer func() { inlineSerialBase += 100000 }() // names generated by later rounds never collide with earlier ones
	il := &inliner{w: w, counter: inlineSerialBase, edits: map[string][]textEdit{}, imports: map[string]map[string]string{}, inlined: map[*types.Func]int{}}
	// files worth rewriting: those that hold anchored functions
	files := map[*ast.File]*packages.Package{}
	for k := range frozenSigs {
		fn := w.Funcs[k]
		if fn == nil || !fn.Pos().IsValid() {
			continue
		}
		name := w.Fset.Position(fn.Pos()).Filename
		for _, p := range w.Pkgs {
			for i, f := range p.CompiledGoFiles {
				if f == name && i < len(p.Syntax) && !strings.HasSuffix(name, ".pb.go") {
					files[p.Syntax[i]] = p
				}
			}
		}
	}
	off := func(p token.Pos) int { return w.Fset.Position(p).Offset }
	for file, p := range files {
		fname := w.Fset.Position(file.Pos()).Filename
		add := func(n ast.Node, text string) {
			il.edits[fname] = append(il.edits[fname], textEdit{off(n.Pos()), off(n.End()), text})
		}
		if sub := il.substExprHelpers(file, p); len(sub) > 0 {
			il.edits[fname] = sub // expression helpers first; the other rewrites of this file follow in the next round
			continue
		}
		for _, d := range file.Decls {
			fd, ok := d.(*ast.FuncDecl)
			if !ok || fd.Body == nil {
				continue
			}
			fobj, _ := p.TypesInfo.Defs[fd.Name].(*types.Func)
			var sig *types.Signature
			if fobj != nil {
				sig = fobj.Type().(*types.Signature)
			}
			isExprHelper := false
			if len(fd.Body.List) == 1 && fobj != nil {
				if _, isRet := fd.Body.List[0].(*ast.ReturnStmt); isRet {
					if hd, _, _ := il.helperDecl(fobj); hd != nil {
						isExprHelper = true
					}
				}
			}
			tryInline := func(ce *ast.CallExpr) (string, []string, bool) {
				callee := calleeObj(p, ce)
				hd, hp, hf := il.helperDecl(callee)
				if hd == nil || callee == fobj {
					return "", nil, false
				}
				txt, res, ok := il.inlineText(ce, hd, hp, hf, p, file)
				if ok {
					il.inlined[callee]++
				}
				return txt, res, ok
			}
			var visitBlock func(b *ast.BlockStmt)
			visitStmt := func(s ast.Stmt) {
				switch x := s.(type) {
				case *ast.ExprStmt:
					if ce, ok := x.X.(*ast.CallExpr); ok {
						if txt, _, ok := tryInline(ce); ok {
							add(x, "{\n"+txt+"}")
						}
					}
				case *ast.AssignStmt:
					if len(x.Rhs) == 1 {
						if ce, ok := x.Rhs[0].(*ast.CallExpr); ok {
							// x = max(x, e) on integers  ->  { t := e; if t > x { x = t } }   (min alike): the running-maximum
							// idiom in the branch form the rules read
							if txt, ok := il.maxUpdate(p, x, ce); ok {
								add(x, txt)
								return
							}
							if txt, res, ok := tryInline(ce); ok && len(res) == len(x.Lhs) {
								var lhs []string
								for _, l := range x.Lhs {
									lhs = append(lhs, il.src(l))
								}
								// results are computed in an enclosing scope-neutral prelude, then assigned
								add(x, txt+strings.Join(lhs, ", ")+" "+x.Tok.String()+" "+strings.Join(res, ", "))
							}
						}
					}
				case *ast.ReturnStmt:
					if isExprHelper {
						return // a new one-expression helper is substituted into its callers as it stands
					}
					if len(x.Results) == 1 {
						if ce, ok := x.Results[0].(*ast.CallExpr); ok {
							if sig != nil && sameResults(sig, calleeObj(p, ce)) {
								il.tailCall = true
								txt, _, ok := tryInline(ce)
								il.tailCall = false
								if ok {
									add(x, "{\n"+txt+"}")
									return
								}
							}
							if txt, res, ok := tryInline(ce); ok && len(res) > 0 {
								add(x, "{\n"+txt+"return "+strings.Join(res, ", ")+"\n}")
								return
							}
						}
						// return a && b  ->  if !(a) { return false }; return b      return a || b  ->  if a { return true }; return b
						if sig != nil && sig.Results().Len() == 1 {
							if be, ok := ast.Unparen(x.Results[0]).(*ast.BinaryExpr); ok && (be.Op == token.LAND || be.Op == token.LOR) {
								if b, ok := sig.Results().At(0).Type().Underlying().(*types.Basic); ok && b.Kind() == types.Bool {
									if be.Op == token.LAND {
										add(x, fmt.Sprintf("{\nif !(%s) {\nreturn false\n}\nreturn %s\n}", il.src(be.X), il.src(be.Y)))
									} else {
										add(x, fmt.Sprintf("{\nif %s {\nreturn true\n}\nreturn %s\n}", il.src(be.X), il.src(be.Y)))
									}
									return
								}
							}
						}
						// canonical returns
						if sig != nil && sig.Results().Len() == 1 {
							rt := sig.Results().At(0).Type()
							if ce, ok := x.Results[0].(*ast.CallExpr); ok && isErrorType(rt) {
								if t := p.TypesInfo.TypeOf(ce); t != nil && isErrorType(t) && il.mayReturnNilError(p, ce) {
									il.counter++
									e := fmt.Sprintf("errRet_inl%d", il.counter)
									add(x, fmt.Sprintf("{\nif %s := %s; %s != nil {\nreturn %s\n}\nreturn nil\n}", e, il.src(ce), e, e))
								}
							} else if b, ok := rt.Underlying().(*types.Basic); ok && b.Kind() == types.Bool {
								switch y := x.Results[0].(type) {
								case *ast.BinaryExpr:
									switch y.Op {
									case token.EQL, token.NEQ, token.LSS, token.GTR, token.LEQ, token.GEQ:
										add(x, fmt.Sprintf("{\nif %s {\nreturn true\n}\nreturn false\n}", il.src(y)))
									}
								}
							}
						}
					}
				case *ast.IfStmt:
					// if A || B { S }  with S ending in return/panic/continue/break and no else  ->  if A { S }; if B { S }
					if x.Init == nil && x.Else == nil && endsControl(x.Body) {
						if ops := lorOperands(x.Cond); len(ops) > 1 {
							body := il.src(x.Body)
							il.edits[fname] = append(il.edits[fname], textEdit{off(x.Cond.Pos()), off(x.Cond.End()), "(" + il.src(ops[0]) + ")"})
							var sb strings.Builder
							for _, o := range ops[1:] {
								fmt.Fprintf(&sb, "\nif (%s) %s", il.src(o), body)
							}
							il.edits[fname] = append(il.edits[fname], textEdit{off(x.End()), off(x.End()), sb.String()})
							return
						}
					}
					// if init; cond {…}  with init a helper call  ->  { init'; if cond {…} }
					if as, ok := x.Init.(*ast.AssignStmt); ok && len(as.Rhs) == 1 {
						if ce, ok := as.Rhs[0].(*ast.CallExpr); ok {
							if txt, res, ok := tryInline(ce); ok && len(res) == len(as.Lhs) {
								var lhs []string
								for _, l := range as.Lhs {
									lhs = append(lhs, il.src(l))
								}
								il.edits[fname] = append(il.edits[fname], textEdit{off(x.Pos()), off(x.Cond.Pos()), "{\n" + txt + strings.Join(lhs, ", ") + " " + as.Tok.String() + " " + strings.Join(res, ", ") + "\nif "})
								il.edits[fname] = append(il.edits[fname], textEdit{off(x.End()), off(x.End()), "\n}"})
							}
						}
					} else if x.Init == nil {
						cond := ast.Unparen(x.Cond)
						neg := ""
						if u, ok := cond.(*ast.UnaryExpr); ok && u.Op == token.NOT {
							cond, neg = ast.Unparen(u.X), "!"
						}
						if ce, ok := cond.(*ast.CallExpr); ok {
							if txt, res, ok := tryInline(ce); ok && len(res) == 1 {
								il.edits[fname] = append(il.edits[fname], textEdit{off(x.Pos()), off(x.Cond.End()), "{\n" + txt + "if " + neg + res[0]})
								il.edits[fname] = append(il.edits[fname], textEdit{off(x.End()), off(x.End()), "\n}"})
							}
						}
					}
				case *ast.SwitchStmt:
					// tagless switch without fallthrough/break -> if / else-if chain (the conditions then compile to branches,
					// as the rules expect, instead of to a boolean value)
					if x.Tag == nil && x.Init == nil && len(x.Body.List) > 0 && !hasBreakOrFallthrough(x) {
						okSw := true
						for ci, c := range x.Body.List {
							cc := c.(*ast.CaseClause)
							if cc.List == nil && (ci != len(x.Body.List)-1 || ci == 0) {
								okSw = false // default must come last and not alone
							}
						}
						if okSw {
							first := x.Body.List[0]
							il.edits[fname] = append(il.edits[fname], textEdit{off(x.Pos()), off(first.Pos()), ""})
							for ci, c := range x.Body.List {
								cc := c.(*ast.CaseClause)
								head := ""
								if cc.List == nil {
									head = "} else {"
								} else {
									var cs []string
									for _, e := range cc.List {
										cs = append(cs, "("+il.src(e)+")")
									}
									if ci == 0 {
										head = "if " + strings.Join(cs, " || ") + " {"
									} else {
										head = "} else if " + strings.Join(cs, " || ") + " {"
									}
								}
								il.edits[fname] = append(il.edits[fname], textEdit{off(cc.Pos()), off(cc.Colon) + 1, head})
							}
						}
					}
				case *ast.RangeStmt:
					if ce, ok := x.X.(*ast.CallExpr); ok {
						if txt, res, ok := tryInline(ce); ok && len(res) == 1 {
							il.edits[fname] = append(il.edits[fname], textEdit{off(x.Pos()), off(x.Pos()), "{\n" + txt})
							il.edits[fname] = append(il.edits[fname], textEdit{off(x.X.Pos()), off(x.X.End()), res[0]})
							il.edits[fname] = append(il.edits[fname], textEdit{off(x.End()), off(x.End()), "\n}"})
						}
					}
				}
			}
			// isErrCheckOf: `if e != nil { …; return/panic }` on the variable e, no init, no else
			isErrCheckOf := func(s ast.Stmt, e types.Object) (*ast.IfStmt, bool) {
				is, ok := s.(*ast.IfStmt)
				if !ok || is.Init != nil || is.Else != nil || e == nil {
					return nil, false
				}
				return is, errCheckCond(p, is.Cond, e) && terminates(is.Body)
			}
			// pushed inlining of `lhs…, e (:)= helper(…)` followed by the caller's error check
			pushFlag, pushFlagWant := false, false
			tryPushed := func(as *ast.AssignStmt, chk *ast.IfStmt, wrap bool, whole ast.Node) bool {
				if len(as.Rhs) != 1 || len(as.Lhs) == 0 {
					return false
				}
				ce, ok := as.Rhs[0].(*ast.CallExpr)
				if !ok {
					return false
				}
				var pre strings.Builder
				var lhs []string
				for _, l := range as.Lhs {
					id, ok := l.(*ast.Ident)
					if !ok {
						if as.Tok == token.DEFINE {
							return false
						}
						lhs = append(lhs, il.src(l))
						continue
					}
					lhs = append(lhs, id.Name)
					if as.Tok == token.DEFINE && id.Name != "_" {
						if d := p.TypesInfo.Defs[id]; d != nil {
							fmt.Fprintf(&pre, "var %s %s\n_ = %s\n", id.Name, il.typeText(d.Type(), p, file), id.Name)
						}
					}
				}
				body := il.src(chk.Body)
				body = strings.TrimSuffix(strings.TrimPrefix(strings.TrimSpace(body), "{"), "}")
				cont := func(res []string) string {
					return strings.Join(lhs, ", ") + " = " + strings.Join(res, ", ") + "\n" + body
				}
				if pushFlag {
					il.flagCont, il.flagWant = cont, pushFlagWant
				} else {
					il.errCont = cont
				}
				txt, res, ok := tryInline(ce)
				il.errCont, il.flagCont = nil, nil
				if !ok || len(res) != len(as.Lhs) || il.missingImport {
					return false
				}
				out := pre.String() + txt + strings.Join(lhs, ", ") + " = " + strings.Join(res, ", ")
				if wrap {
					add(whole, "{\n"+out+"\n}")
				} else {
					add(as, out)
					add(chk, "")
				}
				return true
			}
			lastIsErr := func(as *ast.AssignStmt) types.Object {
				if len(as.Lhs) == 0 {
					return nil
				}
				id, ok := as.Lhs[len(as.Lhs)-1].(*ast.Ident)
				if !ok || id.Name == "_" {
					return nil
				}
				o := p.TypesInfo.Defs[id]
				if o == nil {
					o = p.TypesInfo.Uses[id]
				}
				if o == nil || !isErrorType(o.Type()) {
					return nil
				}
				return o
			}
			visitList := func(list []ast.Stmt) {
				for i := 0; i < len(list); i++ {
					s := list[i]
					// tail duplication + else flattening:  if A {a} else if B {b} else {c}; return E   ->
					// if A {a; return E}; if B {b; return E}; {c; return E}   (single-exit / status-variable style into early returns)
					if is, ok := s.(*ast.IfStmt); ok && is.Else != nil {
						var ret *ast.ReturnStmt
						if i+2 == len(list) {
							ret, _ = list[i+1].(*ast.ReturnStmt)
						}
						// the branches of the chain
						var bodies []*ast.BlockStmt
						var ifs []*ast.IfStmt
						complete := false
						for cur := is; ; {
							ifs = append(ifs, cur)
							bodies = append(bodies, cur.Body)
							if cur.Else == nil {
								break
							}
							if nx, ok := cur.Else.(*ast.IfStmt); ok {
								cur = nx
								continue
							}
							if bl, ok := cur.Else.(*ast.BlockStmt); ok {
								bodies = append(bodies, bl)
								complete = true
							}
							break
						}
						dup := ret != nil && complete
						if dup {
							for _, e := range ret.Results { // the returned expressions are re-evaluated in every branch: keep it to calls-free-of-helpers text
								_ = e
							}
							rt := il.src(ret)
							for _, b := range bodies {
								if !endsControl(b) {
									il.edits[fname] = append(il.edits[fname], textEdit{off(b.Rbrace), off(b.Rbrace), "\n" + rt + "\n"})
								}
							}
							add(ret, "")
						}
						// flatten: every `else` that follows a branch which leaves (now) is dropped
						for k, cur := range ifs {
							if cur.Else == nil || cur.Init != nil || !(endsControl(bodies[k]) || dup) {
								break // (a variable declared in the if's init is in scope in its else branches)
							}
							il.edits[fname] = append(il.edits[fname], textEdit{off(cur.Body.Rbrace) + 1, off(cur.Else.Pos()), "\n"})
						}
						if dup {
							i++ // the return was consumed
						}
					}
					if as, ok := s.(*ast.AssignStmt); ok && i+1 < len(list) {
						if chk, ok := isErrCheckOf(list[i+1], lastIsErr(as)); ok && tryPushed(as, chk, false, nil) {
							i++
							continue
						}
						// found-flag form: x, ok := helper(…); if ok {…return} / if !ok {…return}
						if chk, want, ok := isFlagCheckOf(p, list[i+1], lastBoolVar(p, as)); ok {
							pushFlag, pushFlagWant = true, want
							done := tryPushed(as, chk, false, nil)
							pushFlag = false
							if done {
								i++
								continue
							}
						}
					}
					if is, ok := s.(*ast.IfStmt); ok && is.Else == nil {
						if as, ok := is.Init.(*ast.AssignStmt); ok && as.Tok == token.DEFINE {
							if _, want, ok := isFlagCheckOf(p, &ast.IfStmt{Cond: is.Cond, Body: is.Body}, lastBoolVar(p, as)); ok {
								pushFlag, pushFlagWant = true, want
								done := tryPushed(as, is, true, is)
								pushFlag = false
								if done {
									continue
								}
							}
						}
					}
					// v := a && b ; if v {…} / if !v {…}  with v used nowhere else  ->  if (a && b) {…}
					if as, ok := s.(*ast.AssignStmt); ok && as.Tok == token.DEFINE && len(as.Lhs) == 1 && len(as.Rhs) == 1 && i+1 < len(list) {
						if v, ok := as.Lhs[0].(*ast.Ident); ok && v.Name != "_" {
							if be, ok := ast.Unparen(as.Rhs[0]).(*ast.BinaryExpr); ok && (be.Op == token.LAND || be.Op == token.LOR) {
								if is, ok := list[i+1].(*ast.IfStmt); ok && is.Init == nil {
									vo := p.TypesInfo.Defs[v]
									cond := ast.Unparen(is.Cond)
									neg := ""
									if u, ok := cond.(*ast.UnaryExpr); ok && u.Op == token.NOT {
										cond, neg = ast.Unparen(u.X), "!"
									}
									if id, ok := cond.(*ast.Ident); ok && vo != nil && p.TypesInfo.Uses[id] == vo && usesOf(p, fd, vo) == 1 {
										add(as, "")
										add(is.Cond, neg+"("+il.src(be)+")")
										continue
									}
								}
							}
						}
					}
					if is, ok := s.(*ast.IfStmt); ok && is.Else == nil {
						if as, ok := is.Init.(*ast.AssignStmt); ok && as.Tok == token.DEFINE {
							if e := lastIsErr(as); e != nil && errCheckCond(p, is.Cond, e) && terminates(is.Body) && tryPushed(as, is, true, is) {
								continue
							}
						}
					}
					// a helper call nested in the statement's expression, with nothing impure evaluated before it: hoisted
					if roots, ok := stmtRoots(s); ok {
						isHelper := func(ce *ast.CallExpr) bool {
							hd, _, _ := il.helperDecl(calleeObj(p, ce))
							if hd == nil || calleeObj(p, ce) == fobj {
								return false
							}
							cs, _ := calleeObj(p, ce).Type().(*types.Signature)
							return cs != nil && cs.Results().Len() == 1
						}
						rootHelper := false
						for _, re := range roots {
							e := ast.Unparen(re)
							if u, ok := e.(*ast.UnaryExpr); ok && u.Op == token.NOT {
								if _, isRet := s.(*ast.ReturnStmt); !isRet { // `return !helper()` is hoisted: h := helper(); return !h
									e = ast.Unparen(u.X)
								}
							}
							if ce, ok := e.(*ast.CallExpr); ok {
								if hd, _, _ := il.helperDecl(calleeObj(p, ce)); hd != nil {
									rootHelper = true
								}
							}
						}
						if !rootHelper {
							if ce := findHoist(p, roots, isHelper); ce != nil {
								if txt, res, ok := tryInline(ce); ok && len(res) == 1 {
									il.edits[fname] = append(il.edits[fname], textEdit{off(s.Pos()), off(s.Pos()), txt})
									add(ce, res[0])
									continue
								}
							}
						}
					}
					// an else-if chain cannot be wrapped; only rewrite ifs that start a statement
					visitStmt(s)
				}
			}
			visitBlock = func(b *ast.BlockStmt) { visitList(b.List) }
			ast.Inspect(fd.Body, func(n ast.Node) bool {
				switch x := n.(type) {
				case *ast.FuncLit:
					return false // closures are left alone
				case *ast.BlockStmt:
					visitBlock(x)
				case *ast.CaseClause:
					visitList(x.Body)
				case *ast.CommClause:
					return false
				}
				return true
			})
		}
	}
	if len(il.edits) == 0 {
		return nil
	}
	out := map[string][]byte{}
	for fname, eds := range il.edits {
		var src []byte
		if b, ok := w.overlay[fname]; ok {
			src = b
		} else {
			b, err := readFile(fname)
			if err != nil {
				continue
			}
			src = b
		}
		// drop edits nested inside another edit (outermost wins), apply from the end
		sort.Slice(eds, func(i, j int) bool {
			if eds[i].start != eds[j].start {
				return eds[i].start < eds[j].start
			}
			return eds[i].end > eds[j].end
		})
		var kept []textEdit
		lastEnd := -1
		for _, e := range eds {
			if e.start < lastEnd && e.start != e.end {
				continue // nested in a previous replacement
			}
			if e.start == e.end && e.start < lastEnd {
				continue
			}
			kept = append(kept, e)
			if e.end > lastEnd {
				lastEnd = e.end
			}
		}
		res := string(src)
		for i := len(kept) - 1; i >= 0; i-- {
			e := kept[i]
			if e.start < 0 || e.end > len(res) || e.start > e.end {
				continue
			}
			res = res[:e.start] + e.text + res[e.end:]
		}
		if imps := il.imports[fname]; len(imps) > 0 {
			var lines []string
			for path, name := range imps {
				lines = append(lines, fmt.Sprintf("import %s %q", name, path))
			}
			sort.Strings(lines)
			// after the package clause
			if i := strings.Index(res, "\nimport "); i >= 0 {
				res = res[:i+1] + strings.Join(lines, "\n") + "\n" + res[i+1:]
			} else if i := strings.Index(res, "\n"); i >= 0 {
				res = res[:i+1] + strings.Join(lines, "\n") + "\n" + res[i+1:]
			}
		}
		out[fname] = []byte(res)
	}
	il.dropInlinedHelpers(out)
	for fname := range il.imports {
		if b, ok := out[fname]; ok {
			for _, p := range w.Pkgs {
				for _, f := range p.CompiledGoFiles {
					if f == fname {
						out[fname] = []byte(blankUnusedImports(fname, string(b), p))
					}
				}
			}
		}
	}
	return out
}

// dropInlinedHelpers removes, from the rewritten files, the declaration of every helper that was inlined and whose
// name no longer occurs anywhere else in its package (so that censuses do not see its body twice), and blanks the
// imports the removal leaves unused. Decided on the resulting text, hence conservative: any remaining mention of
// the name keeps the declaration.
func (il *inliner) dropInlinedHelpers(out map[string][]byte) {
	w := il.w
	text := func(fname string) string {
		if b, ok := out[fname]; ok {
			return string(b)
		}
		if b, ok := w.overlay[fname]; ok {
			return string(b)
		}
		b, _ := readFile(fname)
		return string(b)
	}
	var objs []*types.Func
	for obj := range il.inlined {
		objs = append(objs, obj)
	}
	sort.Slice(objs, func(i, j int) bool { return objs[i].FullName() < objs[j].FullName() })
	for _, obj := range objs {
		p := w.PkgBy[relPkg(obj.Pkg().Path())]
		if p == nil {
			continue
		}
		re := regexp.MustCompile(`\b` + regexp.QuoteMeta(obj.Name()) + `\b`)
		occ := 0
		declFile := ""
		for _, f := range p.Syntax {
			fname := w.Fset.Position(f.Pos()).Filename
			occ += identOccurrences(fname, text(fname), obj.Name(), re)
			for _, d := range f.Decls {
				if fd, ok := d.(*ast.FuncDecl); ok && p.TypesInfo.Defs[fd.Name] == obj {
					declFile = fname
				}
			}
		}
		if occ != 1 || declFile == "" {
			continue
		}
		if obj.Exported() {
			// an exported name may be used from other packages or named by an interface there
			other := false
			for _, q := range w.Pkgs {
				if q == p || !strings.HasPrefix(q.PkgPath+"/", modPrefix) {
					continue
				}
				for _, f := range q.Syntax {
					fname := w.Fset.Position(f.Pos()).Filename
					if identOccurrences(fname, text(fname), obj.Name(), re) > 0 {
						other = true
					}
				}
			}
			if other {
				continue
			}
		}
		src := text(declFile)
		fs := token.NewFileSet()
		pf, err := parser.ParseFile(fs, declFile, src, parser.ParseComments)
		if err != nil {
			continue
		}
		for _, d := range pf.Decls {
			fd, ok := d.(*ast.FuncDecl)
			if !ok || fd.Name.Name != obj.Name() {
				continue
			}
			start := fd.Pos()
			if fd.Doc != nil {
				start = fd.Doc.Pos()
			}
			so, eo := fs.Position(start).Offset, fs.Position(fd.End()).Offset
			src = src[:so] + src[eo:]
			break
		}
		out[declFile] = []byte(blankUnusedImports(declFile, src, p))
	}
}

// blankUnusedImports turns imports with no remaining selector use into blank imports.
func blankUnusedImports(fname, src string, p *packages.Package) string {
	fs := token.NewFileSet()
	pf, err := parser.ParseFile(fs, fname, src, parser.ParseComments)
	if err != nil {
		return src
	}
	used := map[string]bool{}
	ast.Inspect(pf, func(n ast.Node) bool {
		if se, ok := n.(*ast.SelectorExpr); ok {
			if id, ok := se.X.(*ast.Ident); ok {
				used[id.Name] = true
			}
		}
		return true
	})
	type ed struct {
		s, e int
		t    string
	}
	var eds []ed
	for _, is := range pf.Imports {
		path := strings.Trim(is.Path.Value, "\"`")
		name := ""
		if is.Name != nil {
			name = is.Name.Name
		} else if ip := p.Imports[path]; ip != nil {
			name = ip.Name
		}
		if name == "" || name == "_" || name == "." || used[name] {
			continue
		}
		eds = append(eds, ed{fs.Position(is.Pos()).Offset, fs.Position(is.End()).Offset, "_ " + is.Path.Value})
	}
	for i := len(eds) - 1; i >= 0; i-- {
		src = src[:eds[i].s] + eds[i].t + src[eds[i].e:]
	}
	return src
}

// mayReturnNilError: the callee is declared in the repository and is either an interface method or has a return whose
// last result is the literal nil; error constructors (Wrapf, NewError, …) never qualify, so `return ErrX.Wrapf(…)`
// keeps its form and no spurious `return nil` appears after it.
func (il *inliner) mayReturnNilError(p *packages.Package, ce *ast.CallExpr) bool {
	obj := calleeObj(p, ce)
	if obj == nil || obj.Pkg() == nil || !strings.HasPrefix(obj.Pkg().Path()+"/", modPrefix) {
		return false
	}
	if sig, ok := obj.Type().(*types.Signature); ok && sig.Recv() != nil {
		if _, ok := sig.Recv().Type().Underlying().(*types.Interface); ok {
			return true
		}
	}
	hp := il.w.PkgBy[relPkg(obj.Pkg().Path())]
	if hp == nil {
		return false
	}
	found := false
	for _, f := range hp.Syntax {
		for _, d := range f.Decls {
			fd, ok := d.(*ast.FuncDecl)
			if !ok || fd.Body == nil || hp.TypesInfo.Defs[fd.Name] != obj {
				continue
			}
			ast.Inspect(fd.Body, func(n ast.Node) bool {
				if _, ok := n.(*ast.FuncLit); ok {
					return false
				}
				if rs, ok := n.(*ast.ReturnStmt); ok && len(rs.Results) > 0 {
					if id, ok := rs.Results[len(rs.Results)-1].(*ast.Ident); ok && id.Name == "nil" {
						found = true
					}
				}
				return true
			})
		}
	}
	return found
}

// identOccurrences counts identifiers called name in the code of src (comments and strings do not count); when the
// text does not parse the textual count is used (conservative: more occurrences keep the declaration).
func identOccurrences(fname, src, name string, re *regexp.Regexp) int {
	if !strings.Contains(src, name) {
		return 0
	}
	pf, err := parser.ParseFile(token.NewFileSet(), fname, src, 0)
	if err != nil {
		return len(re.FindAllStringIndex(src, -1))
	}
	n := 0
	ast.Inspect(pf, func(m ast.Node) bool {
		if id, ok := m.(*ast.Ident); ok && id.Name == name {
			n++
		}
		return true
	})
	return n
}

// errCheckCond: cond is `e != nil` on exactly the variable e.
func errCheckCond(p *packages.Package, cond ast.Expr, e types.Object) bool {
	be, ok := cond.(*ast.BinaryExpr)
	if !ok || be.Op != token.NEQ {
		return false
	}
	x, ok1 := be.X.(*ast.Ident)
	y, ok2 := be.Y.(*ast.Ident)
	if !ok1 || !ok2 || y.Name != "nil" {
		return false
	}
	return p.TypesInfo.Uses[x] == e
}

// terminates: the block's last statement is a return or a call of panic.
func terminates(b *ast.BlockStmt) bool {
	if b == nil || len(b.List) == 0 {
		return false
	}
	switch x := b.List[len(b.List)-1].(type) {
	case *ast.ReturnStmt:
		return true
	case *ast.ExprStmt:
		if ce, ok := x.X.(*ast.CallExpr); ok {
			if id, ok := ce.Fun.(*ast.Ident); ok && id.Name == "panic" {
				return true
			}
		}
	}
	return false
}

func squeeze(s string) string {
	return strings.Join(strings.Fields(s), "")
}

// assignsTo: some statement under n assigns, declares or takes the address of the identifier name.
func assignsTo(n ast.Node, name string) bool {
	found := false
	ast.Inspect(n, func(m ast.Node) bool {
		switch x := m.(type) {
		case *ast.AssignStmt:
			for _, l := range x.Lhs {
				if id, ok := l.(*ast.Ident); ok && id.Name == name {
					found = true
				}
			}
		case *ast.UnaryExpr:
			if id, ok := x.X.(*ast.Ident); ok && x.Op == token.AND && id.Name == name {
				found = true
			}
		case *ast.ValueSpec:
			for _, id := range x.Names {
				if id.Name == name {
					found = true
				}
			}
		case *ast.RangeStmt:
			for _, e := range []ast.Expr{x.Key, x.Value} {
				if id, ok := e.(*ast.Ident); ok && id.Name == name {
					found = true
				}
			}
		}
		return true
	})
	return found
}

// nonNilError: the expression is an error that cannot be nil: a package-level Err… sentinel, Wrap/Wrapf on a value of
// cosmossdk.io/errors.Error, errors.New or fmt.Errorf.
func nonNilError(p *packages.Package, e ast.Expr) bool {
	switch x := ast.Unparen(e).(type) {
	case *ast.Ident, *ast.SelectorExpr:
		var id *ast.Ident
		if s, ok := x.(*ast.SelectorExpr); ok {
			id = s.Sel
		} else {
			id = x.(*ast.Ident)
		}
		v, ok := p.TypesInfo.Uses[id].(*types.Var)
		if !ok || v.IsField() || v.Pkg() == nil || v.Parent() != v.Pkg().Scope() || !strings.HasPrefix(v.Name(), "Err") {
			return false
		}
		return true
	case *ast.CallExpr:
		obj := calleeObj(p, x)
		if obj == nil || obj.Pkg() == nil {
			return false
		}
		switch obj.FullName() {
		case "errors.New", "fmt.Errorf":
			return true
		}
		if allocatingCtor(obj) {
			return true
		}
		if sig, ok := obj.Type().(*types.Signature); ok && sig.Recv() != nil && (obj.Name() == "Wrap" || obj.Name() == "Wrapf") {
			t := sig.Recv().Type()
			if pt, ok := t.(*types.Pointer); ok {
				t = pt.Elem()
			}
			if nt, ok := t.(*types.Named); ok && nt.Obj().Pkg() != nil && nt.Obj().Pkg().Path() == "cosmossdk.io/errors" && nt.Obj().Name() == "Error" {
				return true
			}
		}
	}
	return false
}

// allocatingCtor: a repository function with one result of a concrete (non-interface) type all of whose returns are
// `&T{…}` — an error constructor such as tss.NewError; its result is never nil.
func allocatingCtor(obj *types.Func) bool {
	if curWorldForInline == nil || obj.Pkg() == nil || !strings.HasPrefix(obj.Pkg().Path()+"/", modPrefix) {
		return false
	}
	sig, ok := obj.Type().(*types.Signature)
	if !ok || sig.Results().Len() != 1 {
		return false
	}
	if _, isIface := sig.Results().At(0).Type().Underlying().(*types.Interface); isIface {
		return false
	}
	hp := curWorldForInline.PkgBy[relPkg(obj.Pkg().Path())]
	if hp == nil {
		return false
	}
	for _, f := range hp.Syntax {
		for _, d := range f.Decls {
			fd, ok := d.(*ast.FuncDecl)
			if !ok || fd.Body == nil || hp.TypesInfo.Defs[fd.Name] != obj {
				continue
			}
			n, good := 0, true
			ast.Inspect(fd.Body, func(m ast.Node) bool {
				if _, ok := m.(*ast.FuncLit); ok {
					return false
				}
				if rs, ok := m.(*ast.ReturnStmt); ok {
					n++
					if len(rs.Results) != 1 {
						good = false
						return true
					}
					u, ok := ast.Unparen(rs.Results[0]).(*ast.UnaryExpr)
					if !ok || u.Op != token.AND {
						good = false
						return true
					}
					if _, ok := ast.Unparen(u.X).(*ast.CompositeLit); !ok {
						good = false
					}
				}
				return true
			})
			return n > 0 && good
		}
	}
	return false
}

var curWorldForInline *World

// hasBreakOrFallthrough: the switch contains a fallthrough, or an unlabelled break that refers to it.
func hasBreakOrFallthrough(sw *ast.SwitchStmt) bool {
	found := false
	var walk func(n ast.Node, inner bool)
	walk = func(n ast.Node, inner bool) {
		ast.Inspect(n, func(m ast.Node) bool {
			if found || m == nil {
				return false
			}
			switch x := m.(type) {
			case *ast.FuncLit:
				return false
			case *ast.BranchStmt:
				if x.Tok == token.FALLTHROUGH || (x.Tok == token.BREAK && x.Label == nil && !inner) {
					found = true
				}
			case *ast.ForStmt, *ast.RangeStmt, *ast.SwitchStmt, *ast.TypeSwitchStmt, *ast.SelectStmt:
				if m != n && !inner {
					walk(m, true) // breaks inside refer to the inner statement; fallthrough still counts
					return false
				}
			}
			return true
		})
	}
	walk(sw.Body, false)
	return found
}

// sameResults: the callee's result types are identical, one by one, to the results of sig.
func sameResults(sig *types.Signature, callee *types.Func) bool {
	if callee == nil {
		return false
	}
	cs, ok := callee.Type().(*types.Signature)
	if !ok || cs.Results().Len() == 0 || cs.Results().Len() != sig.Results().Len() {
		return false
	}
	for i := 0; i < cs.Results().Len(); i++ {
		if !types.Identical(cs.Results().At(i).Type(), sig.Results().At(i).Type()) {
			return false
		}
	}
	return true
}

// maxUpdate recognises `x = max(x, e)` / `x = max(e, x)` (and min) with the builtin on an integer variable.
func (il *inliner) maxUpdate(p *packages.Package, as *ast.AssignStmt, ce *ast.CallExpr) (string, bool) {
	if len(as.Lhs) != 1 || len(ce.Args) != 2 || ce.Ellipsis.IsValid() {
		return "", false
	}
	if as.Tok == token.DEFINE {
		// x := max(a, b) on integers  ->  x := a; { t := b; if t > x { x = t } }
		fid, ok := ce.Fun.(*ast.Ident)
		lhs, ok2 := as.Lhs[0].(*ast.Ident)
		if !ok || !ok2 || lhs.Name == "_" || (fid.Name != "max" && fid.Name != "min") {
			return "", false
		}
		if _, isBuiltin := p.TypesInfo.Uses[fid].(*types.Builtin); !isBuiltin {
			return "", false
		}
		lo := p.TypesInfo.Defs[lhs]
		if lo == nil {
			return "", false
		}
		if b, ok := lo.Type().Underlying().(*types.Basic); !ok || b.Info()&types.IsInteger == 0 {
			return "", false
		}
		il.counter++
		t := fmt.Sprintf("upd_inl%d", il.counter)
		op := ">"
		if fid.Name == "min" {
			op = "<"
		}
		tt := il.typeTextOf(lo.Type(), p, as)
		return fmt.Sprintf("var %s %s = %s\n{\nvar %s %s = %s\nif %s %s %s {\n%s = %s\n}\n}", lhs.Name, tt, il.src(ce.Args[0]), t, tt, il.src(ce.Args[1]), t, op, lhs.Name, lhs.Name, t), true
	}
	if as.Tok != token.ASSIGN {
		return "", false
	}
	fid, ok := ce.Fun.(*ast.Ident)
	if !ok || (fid.Name != "max" && fid.Name != "min") {
		return "", false
	}
	if _, isBuiltin := p.TypesInfo.Uses[fid].(*types.Builtin); !isBuiltin {
		return "", false
	}
	lhs, ok := as.Lhs[0].(*ast.Ident)
	if !ok {
		return "", false
	}
	lo := p.TypesInfo.Uses[lhs]
	if lo == nil {
		return "", false
	}
	if b, ok := lo.Type().Underlying().(*types.Basic); !ok || b.Info()&types.IsInteger == 0 {
		return "", false
	}
	var other ast.Expr
	for i, a := range ce.Args {
		if id, ok := ast.Unparen(a).(*ast.Ident); ok && p.TypesInfo.Uses[id] == lo {
			other = ce.Args[1-i]
			break
		}
	}
	if other == nil {
		return "", false
	}
	il.counter++
	t := fmt.Sprintf("upd_inl%d", il.counter)
	op := ">"
	if fid.Name == "min" {
		op = "<"
	}
	return fmt.Sprintf("{\nvar %s %s = %s\nif %s %s %s {\n%s = %s\n}\n}", t, il.typeTextOf(lo.Type(), p, as), il.src(other), t, op, lhs.Name, lhs.Name, t), true
}

func (il *inliner) typeTextOf(t types.Type, p *packages.Package, at ast.Node) string {
	for _, f := range p.Syntax {
		if f.Pos() <= at.Pos() && at.Pos() <= f.End() {
			return il.typeText(t, p, f)
		}
	}
	return types.TypeString(t, func(o *types.Package) string { return o.Name() })
}

// usesOf counts the uses of object o in the function declaration.
func usesOf(p *packages.Package, fd *ast.FuncDecl, o types.Object) int {
	n := 0
	ast.Inspect(fd, func(m ast.Node) bool {
		if id, ok := m.(*ast.Ident); ok && p.TypesInfo.Uses[id] == o {
			n++
		}
		return true
	})
	return n
}

// stmtRoots: the expressions a simple statement evaluates, in order (only for the statement kinds that can be
// preceded by hoisted code without changing scopes or evaluation order).
func stmtRoots(s ast.Stmt) ([]ast.Expr, bool) {
	switch x := s.(type) {
	case *ast.ExprStmt:
		return []ast.Expr{x.X}, true
	case *ast.AssignStmt:
		for _, l := range x.Lhs {
			if _, ok := l.(*ast.Ident); !ok {
				return nil, false
			}
		}
		return x.Rhs, true
	case *ast.ReturnStmt:
		return x.Results, len(x.Results) > 0
	case *ast.IfStmt:
		if x.Init == nil {
			return []ast.Expr{x.Cond}, true
		}
	}
	return nil, false
}

// findHoist returns the first call (in evaluation order) accepted by want such that everything evaluated before it in
// the statement is free of effects and cannot panic, and that is evaluated unconditionally (not under the right operand
// of && or ||, not in a function literal).
func findHoist(p *packages.Package, roots []ast.Expr, want func(*ast.CallExpr) bool) *ast.CallExpr {
	var found *ast.CallExpr
	impure := false
	var walk func(e ast.Expr)
	walk = func(e ast.Expr) {
		if found != nil || impure || e == nil {
			return
		}
		switch x := e.(type) {
		case *ast.Ident, *ast.BasicLit, *ast.FuncLit:
		case *ast.ParenExpr:
			walk(x.X)
		case *ast.SelectorExpr:
			walk(x.X)
		case *ast.UnaryExpr:
			walk(x.X)
			if x.Op == token.ARROW {
				impure = true
			}
		case *ast.BinaryExpr:
			walk(x.X)
			if x.Op == token.LAND || x.Op == token.LOR {
				impure = true // the right operand is evaluated conditionally
				return
			}
			walk(x.Y)
			if x.Op == token.QUO || x.Op == token.REM || x.Op == token.SHL || x.Op == token.SHR {
				impure = true
			}
		case *ast.KeyValueExpr:
			walk(x.Value)
		case *ast.CompositeLit:
			for _, el := range x.Elts {
				walk(el)
			}
		case *ast.CallExpr:
			if tv, ok := p.TypesInfo.Types[x.Fun]; ok && tv.IsType() {
				for _, a := range x.Args {
					walk(a)
				}
				return
			}
			wanted := want(x)
			switch f := x.Fun.(type) {
			case *ast.SelectorExpr:
				walk(f.X)
			case *ast.Ident:
			default:
				impure = true
				return
			}
			for _, a := range x.Args {
				walk(a)
			}
			if found != nil {
				return
			}
			if wanted {
				// the operands of the hoisted call move with it: effects among them do not matter (impure was false on entry)
				impure = false
				found = x
				return
			}
			if impure {
				return
			}
			if id, ok := x.Fun.(*ast.Ident); ok {
				if _, isB := p.TypesInfo.Uses[id].(*types.Builtin); isB && (id.Name == "len" || id.Name == "cap") {
					return
				}
			}
			impure = true
		default:
			impure = true
		}
	}
	for _, r := range roots {
		walk(r)
	}
	return found
}

// lorOperands flattens a || b || c into its operands (nil when the condition is not a disjunction).
func lorOperands(e ast.Expr) []ast.Expr {
	be, ok := ast.Unparen(e).(*ast.BinaryExpr)
	if !ok || be.Op != token.LOR {
		return nil
	}
	var out []ast.Expr
	var walk func(x ast.Expr)
	walk = func(x ast.Expr) {
		if b, ok := ast.Unparen(x).(*ast.BinaryExpr); ok && b.Op == token.LOR {
			walk(b.X)
			walk(b.Y)
			return
		}
		out = append(out, x)
	}
	walk(be)
	return out
}

// endsControl: the block's last statement leaves it (return, panic, continue, break, goto).
func endsControl(b *ast.BlockStmt) bool {
	if terminates(b) {
		return true
	}
	if b == nil || len(b.List) == 0 {
		return false
	}
	_, ok := b.List[len(b.List)-1].(*ast.BranchStmt)
	return ok
}

// lastBoolVar: the object of the last LHS identifier of the assignment if it is a bool variable.
func lastBoolVar(p *packages.Package, as *ast.AssignStmt) types.Object {
	if len(as.Lhs) == 0 {
		return nil
	}
	id, ok := as.Lhs[len(as.Lhs)-1].(*ast.Ident)
	if !ok || id.Name == "_" {
		return nil
	}
	o := p.TypesInfo.Defs[id]
	if o == nil {
		o = p.TypesInfo.Uses[id]
	}
	if o == nil {
		return nil
	}
	if b, ok := o.Type().Underlying().(*types.Basic); !ok || b.Kind() != types.Bool {
		return nil
	}
	return o
}

// isFlagCheckOf: `if flag {…; return/panic}` (want=true) or `if !flag {…}` (want=false), no init, no else.
func isFlagCheckOf(p *packages.Package, s ast.Stmt, flag types.Object) (*ast.IfStmt, bool, bool) {
	is, ok := s.(*ast.IfStmt)
	if !ok || is.Init != nil || is.Else != nil || flag == nil || !terminates(is.Body) {
		return nil, false, false
	}
	cond := ast.Unparen(is.Cond)
	want := true
	if u, ok := cond.(*ast.UnaryExpr); ok && u.Op == token.NOT {
		cond, want = ast.Unparen(u.X), false
	}
	id, ok := cond.(*ast.Ident)
	if !ok || p.TypesInfo.Uses[id] != flag {
		return nil, false, false
	}
	return is, want, true
}

var inlineSerialBase int

// substExprHelpers: in-place substitution of EXPRESSION helpers - new helpers whose body is one `return e` of exactly
// the declared result type - at call sites in ANY position (also under && / ||, where nothing can be hoisted): the call
// becomes (e) with every parameter replaced by its argument. Exact when the arguments are free of effects (identifiers,
// field selections) and of exactly the parameter types; one argument with effects is allowed when e uses it exactly once
// and unconditionally (no && / || in e), everything else being pure, so that it is still evaluated once, at the same
// point. A file that has such sites gets only these edits in this round; the other rewrites follow in the next one.
func (il *inliner) substExprHelpers(file *ast.File, p *packages.Package) []textEdit {
	w := il.w
	off := func(pos token.Pos) int { return w.Fset.Position(pos).Offset }
	var edits []textEdit
	var simple func(e ast.Expr) bool
	simple = func(e ast.Expr) bool {
		switch x := e.(type) {
		case *ast.Ident:
			if _, isVar := p.TypesInfo.Uses[x].(*types.Var); isVar {
				return true
			}
			return false
		case *ast.ParenExpr:
			return simple(x.X)
		case *ast.SelectorExpr:
			if sel := p.TypesInfo.Selections[x]; sel != nil && sel.Kind() == types.FieldVal && !sel.Indirect() {
				return simple(x.X)
			}
			return false
		}
		return false
	}
	var done []*ast.CallExpr
	inside := func(n ast.Node) bool {
		for _, d := range done {
			if d.Pos() <= n.Pos() && n.End() <= d.End() {
				return true
			}
		}
		return false
	}
	for _, d := range file.Decls {
		cfd, ok := d.(*ast.FuncDecl)
		if !ok || cfd.Body == nil {
			continue
		}
		cobj, _ := p.TypesInfo.Defs[cfd.Name].(*types.Func)
		ast.Inspect(cfd.Body, func(n ast.Node) bool {
			ce, ok := n.(*ast.CallExpr)
			if !ok || inside(ce) {
				return true
			}
			callee := calleeObj(p, ce)
			if callee == nil || callee == cobj {
				return true
			}
			fd, hp, hfile := il.helperDecl(callee)
			if fd == nil || len(fd.Body.List) != 1 || fd.Type.Results == nil || len(fd.Type.Results.List) != 1 || len(fd.Type.Results.List[0].Names) > 0 {
				return true
			}
			_ = hfile
			rs, ok := fd.Body.List[0].(*ast.ReturnStmt)
			if !ok || len(rs.Results) != 1 {
				return true
			}
			sig := callee.Type().(*types.Signature)
			if sig.Results().Len() != 1 {
				return true
			}
			if t := hp.TypesInfo.TypeOf(rs.Results[0]); t == nil || !types.Identical(t, sig.Results().At(0).Type()) {
				return true
			}
			// parameter objects -> argument text
			argOf := map[types.Object]string{}
			impureParam := types.Object(nil)
			bind := func(po types.Object, arg ast.Expr, pt types.Type, text string) bool {
				at := p.TypesInfo.TypeOf(arg)
				if at == nil || !types.Identical(at, pt) {
					return false
				}
				if !simple(arg) {
					if impureParam != nil {
						return false
					}
					if _, isCall := ast.Unparen(arg).(*ast.CallExpr); !isCall {
						return false
					}
					impureParam = po
				}
				argOf[po] = "(" + text + ")"
				return true
			}
			if fd.Recv != nil {
				se, ok := ce.Fun.(*ast.SelectorExpr)
				if !ok || len(fd.Recv.List) != 1 {
					return true
				}
				if sel := p.TypesInfo.Selections[se]; sel == nil || len(sel.Index()) != 1 {
					return true
				}
				if len(fd.Recv.List[0].Names) == 1 && fd.Recv.List[0].Names[0].Name != "_" {
					ro := hp.TypesInfo.Defs[fd.Recv.List[0].Names[0]]
					rt := p.TypesInfo.TypeOf(se.X)
					text := il.src(se.X)
					_, wantPtr := sig.Recv().Type().(*types.Pointer)
					_, havePtr := rt.(*types.Pointer)
					switch {
					case wantPtr && !havePtr:
						return true // &x on a copy-free path: leave to the statement-level inliner
					case !wantPtr && havePtr:
						return true
					}
					if !bind(ro, se.X, sig.Recv().Type(), text) {
						return true
					}
				} else if !simple(se.X) {
					return true
				}
			}
			i := 0
			for _, fl := range fd.Type.Params.List {
				if len(fl.Names) == 0 {
					return true
				}
				for _, nm := range fl.Names {
					if i >= len(ce.Args) || ce.Ellipsis.IsValid() {
						return true
					}
					if nm.Name == "_" {
						if !simple(ce.Args[i]) {
							return true
						}
					} else if !bind(hp.TypesInfo.Defs[nm], ce.Args[i], sig.Params().At(i).Type(), il.src(ce.Args[i])) {
						return true
					}
					i++
				}
			}
			if i != len(ce.Args) {
				return true
			}
			// the expression: no function literals, no locals; uses of the impure parameter: exactly one, unconditional
			okExpr := true
			uses := 0
			type saved struct {
				id   *ast.Ident
				name string
			}
			var restore []saved
			imp := ""
			ast.Inspect(rs.Results[0], func(m ast.Node) bool {
				switch x := m.(type) {
				case *ast.FuncLit:
					okExpr = false
				case *ast.BinaryExpr:
					if (x.Op == token.LAND || x.Op == token.LOR) && impureParam != nil {
						okExpr = false
					}
				case *ast.Ident:
					o := hp.TypesInfo.Uses[x]
					if o == nil {
						return true
					}
					if txt, isParam := argOf[o]; isParam {
						if o == impureParam {
							uses++
						}
						restore = append(restore, saved{x, x.Name})
						x.Name = txt
						return true
					}
					if pn, isPkg := o.(*types.PkgName); isPkg {
						want := il.importName(pn.Imported().Path(), pn.Imported().Name(), file)
						if want != x.Name {
							restore = append(restore, saved{x, x.Name})
							x.Name = want
						}
						return true
					}
					if v, isVar := o.(*types.Var); isVar && !v.IsField() && v.Parent() != nil && v.Parent() != hp.Types.Scope() && v.Parent() != types.Universe {
						okExpr = false // a parameter that could not be bound (blank receiver …) or a local
						return true
					}
					if hp != p && o.Pkg() == hp.Types {
						switch {
						case o.Parent() == hp.Types.Scope():
							if !o.Exported() {
								okExpr = false
								return true
							}
							if imp == "" {
								imp = il.importName(hp.Types.Path(), hp.Types.Name(), file)
							}
							restore = append(restore, saved{x, x.Name})
							x.Name = imp + "." + x.Name
						case o.Parent() == nil && !o.Exported():
							okExpr = false
						}
					}
				}
				return okExpr
			})
			text := ""
			if okExpr && (impureParam == nil || uses == 1) {
				text = "(" + il.src(rs.Results[0]) + ")"
			}
			for _, s := range restore {
				s.id.Name = s.name
			}
			if text == "" {
				return true
			}
			edits = append(edits, textEdit{off(ce.Pos()), off(ce.End()), text})
			done = append(done, ce)
			il.inlined[callee]++
			return false
		})
	}
	return edits
}
