package main

// Minimal Keccak-256 (original Keccak padding 0x01, as used by Ethereum), self-contained so the checker does not
// depend on golang.org/x/crypto being resolvable offline.

var keccakRC = [24]uint64{
	0x0000000000000001, 0x0000000000008082, 0x800000000000808A, 0x8000000080008000, 0x000000000000808B, 0x0000000080000001,
	0x8000000080008081, 0x8000000000008009, 0x000000000000008A, 0x0000000000000088, 0x0000000080008009, 0x000000008000000A,
	0x000000008000808B, 0x800000000000008B, 0x8000000000008089, 0x8000000000008003, 0x8000000000008002, 0x8000000000000080,
	0x000000000000800A, 0x800000008000000A, 0x8000000080008081, 0x8000000000008080, 0x0000000080000001, 0x8000000080008008,
}

var keccakRot = [25]uint{0, 1, 62, 28, 27, 36, 44, 6, 55, 20, 3, 10, 43, 25, 39, 41, 45, 15, 21, 8, 18, 2, 61, 56, 14}

func rotl64(x uint64, n uint) uint64 { return x<<n | x>>(64-n) }

func keccakF(a *[25]uint64) {
	for round := 0; round < 24; round++ {
		var c [5]uint64
		for x := 0; x < 5; x++ {
			c[x] = a[x] ^ a[x+5] ^ a[x+10] ^ a[x+15] ^ a[x+20]
		}
		for x := 0; x < 5; x++ {
			d := c[(x+4)%5] ^ rotl64(c[(x+1)%5], 1)
			for y := 0; y < 25; y += 5 {
				a[y+x] ^= d
			}
		}
		var b [25]uint64
		for x := 0; x < 5; x++ {
			for y := 0; y < 5; y++ {
				b[y+5*((2*x+3*y)%5)] = rotl64(a[x+5*y], keccakRot[x+5*y])
			}
		}
		for y := 0; y < 25; y += 5 {
			for x := 0; x < 5; x++ {
				a[y+x] = b[y+x] ^ (^b[y+(x+1)%5] & b[y+(x+2)%5])
			}
		}
		a[0] ^= keccakRC[round]
	}
}

func keccak256(data []byte) [32]byte {
	const rate = 136
	var st [25]uint64
	buf := append([]byte{}, data...)
	buf = append(buf, 0x01)
	for len(buf)%rate != 0 {
		buf = append(buf, 0)
	}
	buf[len(buf)-1] |= 0x80
	for off := 0; off < len(buf); off += rate {
		for i := 0; i < rate/8; i++ {
			var v uint64
			for j := 0; j < 8; j++ {
				v |= uint64(buf[off+i*8+j]) << (8 * uint(j))
			}
			st[i] ^= v
		}
		keccakF(&st)
	}
	var out [32]byte
	for i := 0; i < 4; i++ {
		for j := 0; j < 8; j++ {
			out[i*8+j] = byte(st[i] >> (8 * uint(j)))
		}
	}
	return out
}
