package main

import "fmt"

func init() { props["C14"] = c14 }

func c14(r *Report) propMeta {
	w := r.W
	oa := oK + "AllocateTokens"
	ba := bK + "AllocateTokens"

	r.Rule("C14.R1", "effect set: allocation only moves coins")
	allowedBank := []string{"BankKeeper.GetAllBalances", "BankKeeper.SendCoinsFromModuleToModule", "BankKeeper.SendCoinsFromModuleToAccount", "DistrKeeper.GetCommunityTax", "DistrKeeper.FundCommunityPool", "DistrKeeper.AllocateTokensToValidator"}
	r.EffectSet("oracle-allocation-effects", oa, []string{"BankKeeper.", "DistrKeeper."}, allowedBank)
	r.EffectSet("bandtss-allocation-effects", ba, []string{"BankKeeper.", "DistrKeeper."}, allowedBank)
	r.Callers("callers", oa, []string{"x/oracle.BeginBlocker"}, []string{"x/oracle.BeginBlocker"})
	r.Callers("callers", ba, []string{"x/bandtss.BeginBlocker"}, []string{"x/bandtss.BeginBlocker"})

	r.Rule("C14.R2", "E12 telescoping (oracle)")
	r.ArgHas("share-of-fee-pool", oa, "BankKeeper.SendCoinsFromModuleToModule", 3, 1, "call:DecCoins.TruncateDecimal", "call:DecCoins.MulDecTruncate", "call:BankKeeper.GetAllBalances", "field:Params.OracleRewardPercentage", "call:math.LegacyNewDecWithPrec", "const:2")
	r.ArgHas("from-fee-collector", oa, "BankKeeper.SendCoinsFromModuleToModule", 1, 1, "field:Keeper.feeCollectorName")
	r.ArgHas("to-distribution", oa, "BankKeeper.SendCoinsFromModuleToModule", 2, 1, "const:distribution")
	r.ArgHas("balance-of-fee-collector", oa, "BankKeeper.GetAllBalances", 1, 1, "call:AccountKeeper.GetModuleAccount", "field:Keeper.feeCollectorName")
	r.ArgHas("tax-off-the-transferred-amount", oa, "DistrKeeper.FundCommunityPool", 1, 1, "call:DecCoins.MulDecTruncate", "call:DistrKeeper.GetCommunityTax", "call:types.NewDecCoinsFromCoins")
	r.SameRoot("split-what-was-transferred", oa, ArgRef{"BankKeeper.SendCoinsFromModuleToModule", 3}, "types.NewDecCoinsFromCoins")
	r.Telescoping("remaining-telescopes", oa)
	r.Gate("validator-share", oa, CallEff("DistrKeeper.AllocateTokensToValidator", "call:LegacyDec.QuoTruncate"), nil, GateOpts{})
	r.ArgHas("share-by-power-fraction", oa, "LegacyDec.QuoTruncate", 0, 1, "call:math.LegacyNewDec", "phi")
	r.ArgHas("share-by-power", oa, "LegacyDec.QuoTruncate", -1, 1, "field:valWithPower.power")
	r.Gate("nothing-moves-if-error", oa, CallEff("DistrKeeper.FundCommunityPool"), []Cond{nilErrOf("BankKeeper.SendCoinsFromModuleToModule"), nilErrOf("DistrKeeper.GetCommunityTax")}, GateOpts{FailIsError: true})
	r.MustPass("remainder-always-allocated", oa, CallEff("BankKeeper.SendCoinsFromModuleToModule"), CallEff("DistrKeeper.AllocateTokensToValidator", "call:StakingKeeper.ValidatorByConsAddr", "field:Header.ProposerAddress"))

	r.Rule("C14.R3", "E12 telescoping (bandtss)")
	r.ArgHas("share-of-fee-pool", ba, "BankKeeper.SendCoinsFromModuleToModule", 3, 1, "call:DecCoins.TruncateDecimal", "call:DecCoins.MulDecTruncate", "call:BankKeeper.GetAllBalances", "field:Params.RewardPercentage", "call:math.LegacyNewDecWithPrec", "const:2")
	r.ArgHas("to-distribution", ba, "BankKeeper.SendCoinsFromModuleToModule", 2, 1, "const:distribution")
	r.ArgHas("community-fund-is-rest", ba, "DistrKeeper.FundCommunityPool", 1, 1, "^call:Coins.Sub", "call:Coins.MulInt", "len")
	r.BandtssRest("community-fund-is-transferred-minus-paid", ba)
	r.ArgHas("member-reward", ba, "BankKeeper.SendCoinsFromModuleToAccount", 3, 1, "call:DecCoins.TruncateDecimal", "call:LegacyDec.QuoTruncate", "call:DistrKeeper.GetCommunityTax", "len")
	r.ArgHas("member-paid-from-distribution", ba, "BankKeeper.SendCoinsFromModuleToAccount", 1, 1, "const:distribution")
	r.MustPass("rest-always-funded", ba, CallEff("BankKeeper.SendCoinsFromModuleToModule"), CallEff("DistrKeeper.FundCommunityPool"))
	r.Count("one-transfer", ba, []Effect{CallEff("BankKeeper.SendCoinsFromModuleToModule")}, "ok", 0, 1)
	r.Count("one-transfer", oa, []Effect{CallEff("BankKeeper.SendCoinsFromModuleToModule")}, "ok", 0, 1)

	r.Rule("C14.R4", "E3 recipients")
	r.Gate("oracle-active-only", oa, CallEff("builtin.append"), []Cond{{Op: "BOOL", A: []string{"field:ValidatorStatus.IsActive", "call:Keeper.GetValidatorStatus"}, Want: true, Desc: "GetValidatorStatus(operator).IsActive"}}, GateOpts{})
	r.Gate("oracle-nothing-if-no-recipient", oa, CallEff("BankKeeper.SendCoinsFromModuleToModule"), []Cond{{Op: "EQL", A: []string{"^phi", "field:Validator.Power"}, B: []string{"const:0"}, Want: false, Desc: "totalPower != 0"}}, GateOpts{})
	r.Gate("tss-active-with-nonce-only", ba, CallEff("builtin.append"), []Cond{
		{Op: "BOOL", A: []string{"field:Member.IsActive"}, Want: true, Desc: "member.IsActive"},
		{Op: "LSS", A: []string{"field:DEQueue.Head"}, B: []string{"field:DEQueue.Tail"}, Want: true, Desc: "Tail > Head (has a queued nonce)"}}, GateOpts{})
	r.Gate("tss-nothing-if-no-recipient", ba, CallEff("BankKeeper.SendCoinsFromModuleToModule"), []Cond{
		{Op: "EQL", A: []string{"len", "call:builtin.append"}, B: []string{"const:0"}, Want: false, Desc: "len(validMembers) != 0"},
		{Op: "EQL", A: []string{"field:CurrentGroup.GroupID"}, B: []string{"const:0"}, Want: false, Desc: "current group set"}}, GateOpts{})
	r.ArgHas("tss-members-of-current-group", ba, "TSSKeeper.MustGetMembers", 1, 1, "field:CurrentGroup.GroupID", "call:Keeper.GetCurrentGroup")
	r.ArgHas("tss-paid-member-is-valid-member", ba, "BankKeeper.SendCoinsFromModuleToAccount", 2, 1, "call:builtin.append", "call:types.MustAccAddressFromBech32", "field:Member.Address")

	r.Rule("C14.R5", "E9 begin-block order")
	c14Order(r)

	r.Rule("C14.R6", "E3 burns are redirected")
	bb := "x/bank/keeper.WrappedBankKeeper.BurnCoins"
	r.GateAny("real-burn-only-for-distribution", bb, CallEff("Keeper.BurnCoins"), []Cond{
		{Op: "EQL", A: []string{"field:WrappedBankKeeper.distrKeeper"}, B: []string{"const:nil"}, Want: true, Desc: "distrKeeper == nil"},
		{Op: "EQL", A: []string{"^param:moduleName"}, B: []string{"const:distribution"}, Want: true, Desc: "moduleName == distribution"}}, 1)
	r.ArgHas("redirect-same-amount", bb, "DistributionKeeper.FundCommunityPool", 1, 1, "^param:amt")
	r.ArgHas("redirect-from-burner", bb, "DistributionKeeper.FundCommunityPool", 2, 1, "call:AccountKeeper.GetModuleAccount", "param:moduleName")
	r.MustPass("redirect-or-burn", bb, CallEff("AccountKeeper.GetModuleAccount"), CallEff("DistributionKeeper.FundCommunityPool"))

	r.Rule("C14.R7", "only truncating decimal operations on the reward path")
	trunc := []string{"QuoTruncate", "TruncateDecimal", "MulDecTruncate", "Sub", "TruncateInt", "IsZero", "String"}
	for _, f := range []string{oa, ba} {
		r.OnlyCallsOf("dec-ops", f, "math.LegacyDec.", []string{"QuoTruncate", "Sub", "String"})
		r.OnlyCallsOf("deccoins-ops", f, "types.DecCoins.", trunc)
	}
	_ = w
	_ = fmt.Sprint
	r.LoopVisitsAll("every-rewarded-validator-paid", "x/oracle/keeper.Keeper.AllocateTokens", "DistrKeeper.AllocateTokensToValidator", LoopOpts{AllowErrReturn: true})
	r.LoopVisitsAll("every-valid-member-paid", "x/bandtss/keeper.Keeper.AllocateTokens", "BankKeeper.SendCoinsFromModuleToAccount", LoopOpts{AllowErrReturn: true})

	r.Rule("C14.R8", "store-key agreement: every point read/delete addresses a written key family")
	r.StoreKeyAgreement("store-keys", "bandtss", 8, nil)

	r.Rule("C14.lint", "E8 module lint: no nondeterminism / process-local state in x/bandtss")
	r.ModuleLint("module-lint", "bandtss", 20)

	r.Rule("C14.R9", "the reward allocation sees the block's real vote infos; the bandtss active flag has two writers")
	r.AbciPassThrough("abci-pass-through", "oracle")
	r.AbciPassThrough("abci-pass-through", "bandtss")
	r.ModuleLint("oracle-lint", "oracle", 20)
	r.ArgHas("new-member-active", bK+"AddMember", "types.NewMember", 2, 1, "^const:true")
	r.FieldWriters("member-active-writers", "Member.IsActive", nil, []string{bK + "ActivateMember", bK + "DeactivateMember", "x/bandtss/types.NewMember"}, []string{"x/bandtss"})

	// a transfer that fails must fail the allocation (all or nothing): no bank error is tested and then passed over in the
	// begin-block allocations (seed C14-14 logged a failed member payout and carried on; the unpaid share stayed in the
	// distribution account, booked nowhere). The swallowed-error census of begin/end-block code is C02.R7.
	r.Include("C02", "C02.R7")

	return propMeta{
		Decided: []string{
			"R1 the bank/distribution methods reachable from both AllocateTokens are only balance reads, module-to-module/account sends, GetCommunityTax, FundCommunityPool and AllocateTokensToValidator (no mint, burn or user-account debit)",
			"R2 oracle: the split works on the very Coins that were transferred; each validator's allocation is the same value that is subtracted from `remaining`; the loop-carried `remaining` goes to the proposer on every success path after the transfer",
			"R3 bandtss: community fund = transferred − rewardInt×len(validMembers) with the pay loop ranging over that same slice; FundCommunityPool reached on every success path after the transfer",
			"R4 recipients: oracle only past GetValidatorStatus.IsActive; bandtss only past Tail>Head && IsActive; no transfer when the recipient set is empty",
			"R5 orderBeginBlockers: mint < oracle < bandtss < distribution",
			"R6 WrappedBankKeeper.BurnCoins really burns only for the distribution module (or when no distr keeper is wired); otherwise funds the community pool with the same amount",
			"R7 every LegacyDec/DecCoins operation on the reward path is a truncating one (QuoTruncate/MulDecTruncate/TruncateDecimal) or a subtraction",
			"R8 every KV-store Get/Has/Delete of x/bandtss uses a key builder of x/bandtss/types that some Set of the module also uses (a probe of an iteration prefix or of a sibling family is always-empty state)",
			"lint: the determinism lint (incl. writes to memory held by long-lived objects) over everything reachable from the handlers and blockers of x/bandtss",
			"R9 the oracle and bandtss AppModule Begin/EndBlock methods hand the unwrapped context to the blocker without any Context.With… rewriting (the reward allocation weighs by the real last-commit vote infos); a bandtss member record is created active and its IsActive flag is written only by Activate/DeactivateMember, which also flip the tss flag the reward allocation reads (seeds C14-7, C14-8)",
		},
		Undecided: []string{"that no Sub goes negative under truncating decimals for all amounts (numerical; R7 is its structural half)", "percentages above 100 (see finding F3)", "sdk distribution internals"},
		Assume:    []string{"bank Send* conserve supply", "distribution AllocateTokensToValidator / FundCommunityPool only re-label coins already in the distribution account"},
	}
}

func c14Order(r *Report) {
	w := r.W
	p := w.PkgBy["app"]
	d := "orderBeginBlockers: mint < oracle < bandtss < distribution"
	if p == nil {
		r.Unres("begin-order", d, "package app not found")
		return
	}
	fd := funcDecl(p, "orderBeginBlockers")
	if fd == nil {
		r.Unres("begin-order", d, "orderBeginBlockers not found")
		return
	}
	var names []string
	lit := firstCompositeLit(fd)
	if lit == nil {
		r.Unres("begin-order", d, "no literal")
		return
	}
	for _, e := range lit.Elts {
		if tv, ok := p.TypesInfo.Types[e]; ok && tv.Value != nil {
			names = append(names, trimQ(tv.Value.ExactString()))
		}
	}
	idx := func(s string) int {
		for i, n := range names {
			if n == s {
				return i
			}
		}
		return -1
	}
	m, o, b, di := idx("mint"), idx("oracle"), idx("bandtss"), idx("distribution")
	if m >= 0 && m < o && o < b && b < di {
		r.OK("begin-order", d, w.Pos(fd.Pos()), fmt.Sprintf("positions mint=%d oracle=%d bandtss=%d distribution=%d", m, o, b, di))
	} else {
		r.Bad("begin-order", d, w.Pos(fd.Pos()), fmt.Sprintf("positions mint=%d oracle=%d bandtss=%d distribution=%d", m, o, b, di))
	}
}
