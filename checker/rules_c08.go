package main

const (
	uK  = "x/tunnel/keeper.Keeper."
	uMS = "x/tunnel/keeper.msgServer."
)

func init() { props["C08"] = c08 }

func nilErrOf(call string) Cond {
	return Cond{Op: "EQL", A: []string{"^~call:" + call}, B: []string{"const:nil"}, Want: true, Desc: call + " == nil"}
}

func c08(r *Report) propMeta {
	roots := r.W.ComputeRoots()

	r.Rule("C08.R1", "E6 conditional commit + recover barrier")
	r.Commit("create-packet", uK+"CreatePacket", "cache", roots, []string{uK + "ProduceActiveTunnelPacket"})
	r.Commit("set-latest-prices", uK+"SetLatestPrices", "cache", roots, []string{uK + "ProduceActiveTunnelPacket"})
	r.Commit("deduct-fee", uK+"DeductBasePacketFee", "cache", roots, []string{uK + "ProduceActiveTunnelPacket"})
	r.Commit("route-tss-recover", uK+"SendTSSPacket", "recover", roots, []string{uK + "SendPacket"})
	r.Commit("route-ibc-recover", uK+"SendIBCPacket", "recover", roots, []string{uK + "SendPacket"})
	r.Callers("callers", uK+"SendTSSPacket", []string{uK + "SendPacket"}, []string{uK + "SendPacket"})
	r.Callers("callers", uK+"SendIBCPacket", []string{uK + "SendPacket"}, []string{uK + "SendPacket"})
	r.Callers("callers", uK+"SendPacket", []string{uK + "ProducePacket", uMS + "TriggerTunnel"}, []string{uK + "ProducePacket", uMS + "TriggerTunnel"})
	r.Callers("callers", uK+"CreatePacket", []string{uK + "ProducePacket", uMS + "TriggerTunnel"}, []string{uK + "ProducePacket", uMS + "TriggerTunnel"})
	r.Callers("callers", uK+"ProducePacket", []string{uK + "ProduceActiveTunnelPacket"}, []string{uK + "ProduceActiveTunnelPacket"})
	pp := uK + "ProducePacket"
	r.Gate("update-after-send", pp, CallEff("Keeper.SetLatestPrices"), []Cond{nilErrOf("Keeper.SendPacket"), nilErrOf("Keeper.CreatePacket")}, GateOpts{FailIsError: true})
	r.Gate("send-after-create", pp, CallEff("Keeper.SendPacket"), []Cond{nilErrOf("Keeper.CreatePacket")}, GateOpts{FailIsError: true})
	r.ArgHas("send-created-packet", pp, "Keeper.SendPacket", 1, 1, "call:Keeper.CreatePacket")
	r.Gate("trigger-update-after-send", uMS+"TriggerTunnel", CallEff("Keeper.SetLatestPrices"), []Cond{nilErrOf("Keeper.SendPacket"), nilErrOf("Keeper.CreatePacket")}, GateOpts{FailIsError: true})
	// SendPacket: the success return is gated by the route's error
	r.Gate("send-ok-needs-route-ok", uK+"SendPacket", RetOK(), []Cond{nilErrOf("Keeper.GetTunnel"), nilErrOf("Tunnel.GetRouteValue"), nilErrOf("Packet.SetReceipt")}, GateOpts{FailIsError: true})

	r.Rule("C08.R2", "E5 exactly-once + field census")
	cp := uK + "CreatePacket"
	r.Count("one-fee", cp, []Effect{CallEff("Keeper.DeductBasePacketFee")}, "ok", 1, 1)
	r.Count("one-seq-increment", cp, []Effect{StoreEff("Tunnel.Sequence", "binop:+", "const:1", "field:Tunnel.Sequence")}, "ok", 1, 1)
	r.Count("one-set-tunnel", cp, []Effect{CallEff("Keeper.SetTunnel")}, "ok", 1, 1)
	r.Count("one-set-packet", cp, []Effect{CallEff("Keeper.SetPacket")}, "ok", 1, 1)
	r.Count("no-write-on-failure", cp, []Effect{CallEff("Keeper.SetTunnel"), CallEff("Keeper.SetPacket")}, "fail", 0, 0)
	r.Gate("seq-after-fee", cp, StoreEff("Tunnel.Sequence"), []Cond{nilErrOf("Keeper.DeductBasePacketFee"), nilErrOf("Keeper.GetTunnel"), nilErrOf("Keeper.GetRouteFee")}, GateOpts{FailIsError: true})
	r.FieldWriters("seq-writers", "Tunnel.Sequence", nil, []string{cp, "x/tunnel/types.NewTunnel"}, []string{"x/tunnel"})
	r.Dominated("increment-before-packet", cp, StoreEff("Tunnel.Sequence", "binop:+"), CallEff("types.NewPacket"))
	r.Dominated("increment-before-save", cp, StoreEff("Tunnel.Sequence", "binop:+"), CallEff("Keeper.SetTunnel"))
	r.ArgHas("packet-seq-is-incremented", cp, "types.NewPacket", 1, 1, "field:Tunnel.Sequence", "binop:+")
	r.ArgHas("packet-tunnel", cp, "types.NewPacket", 0, 1, "param:tunnelID")
	r.ArgHas("packet-prices", cp, "types.NewPacket", 2, 1, "param:prices")
	r.ArgHas("packet-base-fee", cp, "types.NewPacket", 3, 1, "field:Params.BasePacketFee")
	r.ArgHas("packet-route-fee", cp, "types.NewPacket", 4, 1, "call:Keeper.GetRouteFee")
	r.ArgHas("stored-packet", cp, "Keeper.SetPacket", 1, 1, "call:types.NewPacket")
	r.ArgHas("fee-payer", cp, "Keeper.DeductBasePacketFee", 1, 1, "field:Tunnel.FeePayer", "call:Keeper.GetTunnel")
	r.ArgHas("get-tunnel", cp, "Keeper.GetTunnel", 1, 1, "param:tunnelID")
	db := uK + "DeductBasePacketFee"
	r.Count("one-transfer", db, []Effect{CallEff("BankKeeper.SendCoinsFromAccountToModule")}, "ok", 1, 1)
	r.ArgHas("transfer-amount", db, "BankKeeper.SendCoinsFromAccountToModule", 3, 1, "field:Params.BasePacketFee")
	r.ArgHas("transfer-payer", db, "BankKeeper.SendCoinsFromAccountToModule", 1, 1, "param:feePayer")
	r.Gate("fees-total-after-transfer", db, CallEff("Keeper.SetTotalFees"), []Cond{nilErrOf("BankKeeper.SendCoinsFromAccountToModule")}, GateOpts{FailIsError: true})

	r.Rule("C08.R3", "E4 trigger rule")
	r.ArgHas("sendall-def", pp, "keeper.GenerateNewPrices", 4, 1, "^binop:>=", "binops=+", "call:Context.BlockTime", "call:Time.Unix", "field:Tunnel.Interval", "field:LatestPrices.LastInterval", "binop:+")
	due := Cond{Op: "LSS", A: []string{"call:Context.BlockTime"}, B: []string{"field:Tunnel.Interval", "field:LatestPrices.LastInterval", "binop:+", "binops=+"}, Want: false, Desc: "now >= interval + lastInterval (sendAll)"}
	r.Gate("last-interval-only-on-sendall", pp, StoreEff("LatestPrices.LastInterval"), []Cond{due}, GateOpts{})
	// whether a packet is due is decided by ProducePacket (sendAll / GenerateNewPrices) and by nothing in front of it:
	// the end-block producer has exactly its reviewed decisions (tunnel lookup, fee lookup, funds, producer error).
	// A pre-filter "is anything due?" is a second implementation of the trigger rule (seed C08-12 skipped delisted signals)
	r.CondCount("no-second-trigger-rule-in-front", uK+"ProduceActiveTunnelPacket", 4)
	r.FieldWriters("last-interval-writers", "LatestPrices.LastInterval", nil, []string{pp, uMS + "TriggerTunnel", "x/tunnel/types.NewLatestPrices"}, []string{"x/tunnel"})
	r.ArgHas("prices-from-tunnel", pp, "keeper.GenerateNewPrices", 0, 1, "field:Tunnel.SignalDeviations", "call:Keeper.GetTunnel")
	r.ArgHas("prices-vs-latest", pp, "keeper.GenerateNewPrices", 1, 1, "call:keeper.CreatePricesMap", "field:LatestPrices.Prices", "call:Keeper.GetLatestPrices")
	r.ArgHas("prices-vs-feeds", pp, "keeper.GenerateNewPrices", 2, 1, "param:feedsPricesMap")
	r.ArgHas("create-with-new-prices", pp, "Keeper.CreatePacket", 2, 1, "call:keeper.GenerateNewPrices")
	r.Gate("nothing-when-no-prices", pp, CallEff("Keeper.CreatePacket"), []Cond{{Op: "EQL", A: []string{"len", "call:keeper.GenerateNewPrices"}, B: []string{"const:0"}, Want: false, Desc: "len(newPrices) != 0"}}, GateOpts{})
	gn := "x/tunnel/keeper.GenerateNewPrices"
	hard := Cond{Op: "LSS", A: []string{"call:keeper.calculateDeviationBPS"}, B: []string{"field:SignalDeviation.HardDeviationBPS"}, Want: false, Desc: "deviation >= hard deviation"}
	soft := Cond{Op: "LSS", A: []string{"call:keeper.calculateDeviationBPS"}, B: []string{"field:SignalDeviation.SoftDeviationBPS"}, Want: false, Desc: "deviation >= soft deviation"}
	all := Cond{Op: "BOOL", A: []string{"^param:sendAll"}, Want: true, Desc: "sendAll"}
	r.FlagOnlyUnder("should-send", gn, []string{"^phi", "const:true", "const:false"}, "true", []Cond{all, hard})
	r.GateAny("append-only-if-triggered", gn, CallEff("builtin.append"), []Cond{all, hard, soft}, 2)
	r.Gate("nonempty-return-needs-flag", gn, RetValEff(0, "call:builtin.append"), []Cond{{Op: "BOOL", A: []string{"^phi", "const:true", "const:false"}, Want: true, Desc: "shouldSend"}}, GateOpts{})
	r.ArgHas("deviation-old", gn, "keeper.calculateDeviationBPS", 0, 1, "param:latestPricesMap", "field:Price.Price", "field:SignalDeviation.SignalID")
	r.ArgHas("deviation-new", gn, "keeper.calculateDeviationBPS", 1, 1, "param:feedsPricesMap", "field:Price.Price", "field:SignalDeviation.SignalID")
	cd := "x/tunnel/keeper.calculateDeviationBPS"
	r.Gate("equal-means-zero", cd, RetNotEff(0, "call:math.ZeroInt"), []Cond{{Op: "EQL", A: []string{"param:newPrice"}, B: []string{"param:oldPrice"}, Want: false, Desc: "newPrice != oldPrice"}}, GateOpts{MinSites: 2})
	r.Gate("division-guard", cd, RetValEff(0, "call:Int.Quo"), []Cond{{Op: "BOOL", A: []string{"call:Int.IsZero", "param:oldPrice"}, Want: false, Desc: "oldPrice != 0"}}, GateOpts{})
	r.Exists("formula", cd, RetValEff(0, "call:Int.Quo", "call:Int.MulRaw", "const:10000", "call:Int.Abs", "call:Int.Sub", "param:newPrice", "param:oldPrice"), 1)

	r.Rule("C08.R4", "E3 fund check, activity")
	pa := uK + "ProduceActiveTunnelPacket"
	enough := Cond{Op: "BOOL", A: []string{"call:Keeper.HasEnoughFundToCreatePacket"}, Want: true, Desc: "HasEnoughFundToCreatePacket"}
	r.Gate("produce-needs-fund", pa, CallEff("Keeper.ProducePacket"), []Cond{enough, nilErrOf("Keeper.HasEnoughFundToCreatePacket")}, GateOpts{})
	r.Gate("deactivate-when-short", pa, CallEff("Keeper.DeactivateTunnel"), []Cond{{Op: "BOOL", A: []string{"call:Keeper.HasEnoughFundToCreatePacket"}, Want: false, Desc: "not HasEnoughFund"}}, GateOpts{})
	r.SameValue("same-tunnel", pa, ArgRef{"Keeper.HasEnoughFundToCreatePacket", 1}, ArgRef{"Keeper.ProducePacket", 1}, ArgRef{"Keeper.DeactivateTunnel", 1})
	r.ArgHas("only-active-ids", uK+"ProduceActiveTunnelPackets", "Keeper.ProduceActiveTunnelPacket", 1, 1, "call:Keeper.GetActiveTunnelIDs")
	r.Callers("callers", uK+"ProduceActiveTunnelPacket", []string{uK + "ProduceActiveTunnelPackets"}, []string{uK + "ProduceActiveTunnelPackets"})
	tt := uMS + "TriggerTunnel"
	r.Gate("trigger-needs-active", tt, CallEff("Keeper.CreatePacket"), []Cond{
		{Op: "BOOL", A: []string{"field:Tunnel.IsActive"}, Want: true, Desc: "tunnel.IsActive"},
		{Op: "BOOL", A: []string{"call:Keeper.HasEnoughFundToCreatePacket"}, Want: true, Desc: "HasEnoughFundToCreatePacket"},
		{Op: "EQL", A: []string{"field:MsgTriggerTunnel.Creator"}, B: []string{"field:Tunnel.Creator"}, Want: true, Desc: "msg.Creator == tunnel.Creator"},
	}, GateOpts{FailIsError: true})
	he := uK + "HasEnoughFundToCreatePacket"
	r.Exists("fund-compare", he, RetValEff(0, "call:Coins.IsAllGTE", "call:BankKeeper.SpendableCoins", "field:Params.BasePacketFee", "call:Keeper.GetRouteFee", "field:Tunnel.FeePayer"), 1)

	r.Rule("C08.R5", "sibling agreement: signing fee")
	r.ArgHas("route-fee-tss", uK+"GetRouteFee", "BandtssKeeper.GetSigningFee", 0, 1, "param:ctx")
	// genesis import: an imported tunnel flagged active is put in the active-id set unconditionally (the flag and the index
	// the end-blocker iterates must agree; seed C08-6 re-validated the deposit and left flag and index apart)
	ig := "x/tunnel/keeper.InitGenesis"
	r.Gate("genesis-active-index-iff-flag", ig, CallEff("Keeper.SetActiveTunnelID"), []Cond{{Op: "BOOL", A: []string{"field:Tunnel.IsActive"}, Want: true, Desc: "t.IsActive"}}, GateOpts{})
	r.EffectSet("genesis-does-not-revalidate", ig, []string{"Keeper.ActivateTunnel", "Keeper.DeactivateTunnel"}, nil)
	r.ArgHas("genesis-index-of-the-imported-tunnel", ig, "Keeper.SetActiveTunnelID", 1, 1, "field:Tunnel.ID", "field:GenesisState.Tunnels")
	// the quoted route fee and the charged fee select the SAME group: the current one, nothing when there is none
	// (createSigningRequest charges only under currentGroupID != 0; seed C08-5 quoted the incoming group's fee)
	gsf := "x/bandtss/keeper.Keeper.GetSigningFee"
	r.ArgHas("quote-threshold-of-current-group", gsf, "TSSKeeper.GetGroup", 1, 1, "^field:CurrentGroup.GroupID", "call:Keeper.GetCurrentGroup")
	r.Gate("quote-nothing-without-current-group", gsf, CallEff("Coins.MulInt"), []Cond{{Op: "EQL", A: []string{"^field:CurrentGroup.GroupID", "call:Keeper.GetCurrentGroup"}, B: []string{"const:0"}, Want: false, Desc: "current group id != 0"}}, GateOpts{})
	r.EffectSet("quote-ignores-incoming-group", gsf, []string{"Keeper.GetIncomingGroupID", "Keeper.GetGroupTransition"}, nil)
	r.Gate("charge-only-with-current-group", "x/bandtss/keeper.Keeper.createSigningRequest", CallEff("BankKeeper.SendCoinsFromAccountToModule"), []Cond{{Op: "EQL", A: []string{"field:CurrentGroup.GroupID", "call:Keeper.GetCurrentGroup"}, B: []string{"const:0"}, Want: false, Desc: "current group id != 0"}}, GateOpts{})
	r.Exists("signing-fee", "x/bandtss/keeper.Keeper.GetSigningFee", RetValEff(0, "field:Params.FeePerSigner", "call:Coins.MulInt", "field:Group.Threshold", "call:Keeper.GetCurrentGroup"), 1)
	r.ArgHas("escrow-fee", "x/bandtss/keeper.Keeper.createSigningRequest", "BankKeeper.SendCoinsFromAccountToModule", 3, 1, "field:Params.FeePerSigner", "call:Coins.MulInt", "field:Group.Threshold")

	r.LoopVisitsAll("every-active-tunnel-visited", "x/tunnel/keeper.Keeper.ProduceActiveTunnelPackets", "Keeper.ProduceActiveTunnelPacket", LoopOpts{})

	r.Rule("C08.R6", "store-key agreement: every point read/delete addresses a written key family")
	r.StoreKeyAgreement("store-keys", "tunnel", 7, nil)

	r.Rule("C08.R7", "E19 constructors of x/tunnel/types store their inputs unchanged")
	r.CtorFaithful("ctor", faithfulCtors["tunnel"]...)

	r.Rule("C08.R9", "tracked prices: merged by signal id, or never partial")
	r.AnyOf("tracked-prices-consistent", "LatestPrices.UpdatePrices merges the sent prices into the tracked ones by signal id in every case, OR every reset of the tracked prices also resets LastInterval to 0 (which forces a full packet first, so a partial tracked list never exists)", map[string]func(*Report){
		"merge-by-id-always": func(s *Report) {
			s.Count("single-exit", "x/tunnel/types.LatestPrices.UpdatePrices", []Effect{MapUpdEff()}, "all", 0, -1)
			s.LoopVisitsAll("every-sent-price-merged", "x/tunnel/types.LatestPrices.UpdatePrices", "builtin.append", LoopOpts{})
			s.CondCount("branches", "x/tunnel/types.LatestPrices.UpdatePrices", 3)
		},
		"reset-means-interval-zero": func(s *Report) {
			for _, f := range []string{uK + "AddTunnel", uK + "UpdateSignalsAndInterval", "x/tunnel/keeper.InitGenesis"} {
				s.ArgHas("reset-interval-zero", f, "types.NewLatestPrices", 2, 1, "^const:0")
			}
			s.Callers("resetters", "x/tunnel/types.NewLatestPrices", []string{uK + "AddTunnel", uK + "UpdateSignalsAndInterval", "x/tunnel/keeper.InitGenesis", "x/tunnel.InitGenesis"}, nil)
		},
	})

	r.Rule("C08.R8", "app wiring: packets carry this block's prices")
	r.OrderBefore("order", "orderEndBlockers", "feeds", "tunnel", "the tunnel end-blocker compares and sends the prices feeds computed in the same block")
	r.OrderBefore("order", "orderEndBlockers", "bandtss", "tunnel", "a group transition executed in this block decides which group signs this block's packets")

	// the active flag / active-id index pair (activation, deactivation, withdraw-below-minimum) is decided by C17's rules
	r.Include("C17", "C17.R3", "C17.R4", "C17.R5")

	r.Rule("C08.lint", "E8 module lint: no nondeterminism / process-local state in x/tunnel")
	r.ModuleLint("module-lint", "tunnel", 20)

	r.Rule("C08.iter", "E14 store-iterator loops run to exhaustion")
	r.IteratorLoopCensus("iter", []string{"x/tunnel/"}, nil, 3)

	// a handler that swallows an error commits partial state (C13.R8)
	r.Include("C13", "C13.R8")

	return propMeta{
		Decided: []string{
			"R1 CreatePacket/DeductBasePacketFee/SetLatestPrices on the end-block path are under ProduceActiveTunnelPacket's CacheContext whose writeFn is gated by ProducePacket==nil; both routes sit under SendPacket's defer-recover that assigns the NAMED error result; latest prices are written only after CreatePacket and SendPacket succeeded",
			"R2 CreatePacket: exactly one DeductBasePacketFee, one Sequence+1, one SetTunnel and one SetPacket on every success path, none before the fee succeeded; Tunnel.Sequence written nowhere else; the packet carries the incremented sequence, the prices, the base fee and the route fee",
			"R3 sendAll is `now >= Interval + LastInterval`; LastInterval is stored only under sendAll (other writers: TriggerTunnel, constructor); shouldSend becomes true only under sendAll or deviation >= hard; every append is under sendAll/hard/soft; equal prices give deviation zero; division guarded",
			"R4 ProducePacket gated by HasEnoughFundToCreatePacket, DeactivateTunnel on the other edge, same tunnel id; end-block iterates only GetActiveTunnelIDs; TriggerTunnel gated by creator, IsActive and fund check",
			"R5 GetSigningFee and createSigningRequest compute FeePerSigner.MulInt(current group Threshold) from the same reads",
			"R6 every KV-store Get/Has/Delete of x/tunnel uses a key builder of x/tunnel/types that some Set of the module also uses (a probe of an iteration prefix or of a sibling family is always-empty state)",
			"R7 the literal constructors of x/tunnel/types (frozen list) store each parameter or a constant unchanged in the record they build: what a handler validated is what is stored",
			"R8 in app.orderEndBlockers feeds and bandtss come before tunnel",
			"R9 (disjunctive) either UpdatePrices merges by signal id on every path, or every place that empties the tracked prices also zeroes LastInterval; giving up one of the two alone keeps the property, giving up both does not (seed C08-7)",
			"lint: the determinism lint (incl. writes to memory held by long-lived objects) over everything reachable from the handlers and blockers of x/tunnel",
			"iter: every KV-store iterator loop of the module's keeper runs until the iterator is exhausted (header is the bare Valid() test, no other way out but panic / error return), except reviewed early stops",
		},
		Undecided: []string{"'exactly when due' over price trajectories", "deviation arithmetic values", "route-internal behaviour (bandtss/ibc) beyond the recover barrier"},
		Assume:    []string{"CacheContext isolates writes until writeFn", "bank SendCoins* either moves the full amount or errors", "msg handlers are atomic"},
	}
}
