package main

import (
	"fmt"
	"go/ast"
	"strings"
)

// paramPositivity reads Params.Validate of a types package at AST level and returns, per Params field, the
// positive-only flag the repo's validate helpers are called with. Three idioms of the repo are recognised:
//
//	A  validateXxx(name, <bool>)(p.F)            (oracle, tunnel, bandtss)
//	B  validateXxx(name, <bool>, p.F)            (feeds)
//	C  a table of {name, p.F, <bool>} rows ranged over and passed to idiom A/B    (tss)
//
// pos[field] is the source position of the row / call.
func (w *World) paramPositivity(pkgRel string) (flags map[string]bool, pos map[string]string, err error) {
	p := w.PkgBy[pkgRel]
	if p == nil {
		return nil, nil, fmt.Errorf("package %s not loaded", pkgRel)
	}
	fd := findMethod(p, "Params", "Validate")
	if fd == nil || fd.Recv == nil || len(fd.Recv.List[0].Names) == 0 {
		return nil, nil, fmt.Errorf("%s.Params.Validate not found", pkgRel)
	}
	recv := fd.Recv.List[0].Names[0].Name
	flags, pos = map[string]bool{}, map[string]string{}
	fieldOf := func(e ast.Expr) string {
		if se, ok := e.(*ast.SelectorExpr); ok {
			if id, ok := se.X.(*ast.Ident); ok && id.Name == recv {
				return se.Sel.Name
			}
		}
		return ""
	}
	boolOf := func(e ast.Expr) (bool, bool) {
		if id, ok := e.(*ast.Ident); ok && (id.Name == "true" || id.Name == "false") {
			return id.Name == "true", true
		}
		return false, false
	}
	isValidateCall := func(ce *ast.CallExpr) bool {
		id, ok := ce.Fun.(*ast.Ident)
		return ok && strings.HasPrefix(id.Name, "validate")
	}
	tableDriven := false
	ast.Inspect(fd.Body, func(n ast.Node) bool {
		switch x := n.(type) {
		case *ast.CallExpr:
			// idiom A: outer call whose Fun is a validate call
			if inner, ok := x.Fun.(*ast.CallExpr); ok && isValidateCall(inner) && len(x.Args) == 1 {
				if f := fieldOf(x.Args[0]); f != "" {
					for _, a := range inner.Args {
						if b, ok := boolOf(a); ok {
							flags[f], pos[f] = b, w.Pos(x.Pos())
						}
					}
					if _, seen := flags[f]; !seen {
						flags[f], pos[f] = false, w.Pos(x.Pos())
					}
				} else {
					tableDriven = true // validateX(each.name, each.flag)(each.val)
				}
				return true
			}
			if isValidateCall(x) {
				var f string
				var b, hasB bool
				for _, a := range x.Args {
					if ff := fieldOf(a); ff != "" {
						f = ff
					}
					if bb, ok := boolOf(a); ok {
						b, hasB = bb, true
					}
				}
				if f != "" {
					flags[f], pos[f] = b && hasB, w.Pos(x.Pos())
				} else if !hasB && len(x.Args) >= 3 {
					tableDriven = true
				}
			}
		}
		return true
	})
	if tableDriven {
		ast.Inspect(fd.Body, func(n ast.Node) bool {
			row, ok := n.(*ast.CompositeLit)
			if !ok || row.Type != nil { // rows of a slice literal have an elided type
				return true
			}
			var f string
			var b, hasB bool
			nb := 0
			for _, e := range row.Elts {
				if kv, ok := e.(*ast.KeyValueExpr); ok {
					e = kv.Value
				}
				if ff := fieldOf(e); ff != "" {
					f = ff
				}
				if bb, ok := boolOf(e); ok {
					b, hasB = bb, true
					nb++
				}
			}
			if f != "" && hasB && nb == 1 {
				flags[f], pos[f] = b, w.Pos(row.Pos())
			}
			return true
		})
	}
	return flags, pos, nil
}

// ParamsPositive: the listed Params fields of pkg are validated positive-only.
func (r *Report) ParamsPositive(key, pkgRel string, why map[string]string) {
	w := r.W
	flags, pos, err := w.paramPositivity(pkgRel)
	for _, f := range sortedKeys(why) {
		d := fmt.Sprintf("%s.Params.%s is validated positive: %s", pkgRel, f, why[f])
		k := fmt.Sprintf("%s|%s.Params.%s", key, pkgRel, f)
		if err != nil {
			r.Unres(k, d, err.Error())
			continue
		}
		w.SitesExamined++
		b, ok := flags[f]
		if !ok {
			// explicit comparison fallback
			if ok2, det := w.validatedPositive(pkgRel, f); ok2 {
				r.OK(k, d, det, "explicit comparison")
			} else {
				r.Bad(k, d, "-", "Params.Validate never checks "+f+" through a validate helper: zero is an accepted value")
			}
			continue
		}
		if b {
			r.OK(k, d, pos[f], "positive-only flag is true")
		} else {
			r.Bad(k, d, pos[f], f+" is validated without the positive-only flag: zero is an accepted value; "+why[f])
		}
	}
}
