// Package lintpos is the positive example for the expected-zero rules (E7/E8/E11): every construct below must be
// reported by the engines on every run, otherwise the check fails as vacuous.
package lintpos

import (
	"errors"
	"math/rand"
	"os"
	"sort"
	"time"
)

var sink int

func Root(m map[string]int, ch chan int) error {
	_ = time.Now()
	_ = rand.Intn(3)
	_ = os.Getenv("X")
	go func() { sink++ }()
	select {
	case <-ch:
	default:
	}
	f := 1.5
	f = f * float64(len(m))
	sink += int(f)
	for k, v := range m { // unsorted, state-changing: must be flagged
		sink += len(k) + v
	}
	var keys []string
	for k := range m { // collect-and-sort: must be recognised
		keys = append(keys, k)
	}
	sort.Strings(keys)
	sort.Slice(keys, func(i, j int) bool { return len(keys[i]) < len(keys[j]) }) // unstable sort: must be reported
	MustThing()
	Guarded()
	Keeper{&cache{}}.Touch()
	pt := &point{1, 2}
	if pt.x.Equals(&pt.x) { // a value compared with itself: must be flagged
		sink++
	}
	c, write := (fakeCtx{}).CacheContext() // created once, committed per iteration: must be flagged
	for i := 0; i < len(m); i++ {
		if c.n == i {
			continue
		}
		write()
	}
	return nil
}

type coord int

func (a *coord) Equals(b *coord) bool { return *a == *b }
func (a *coord) same(b *coord) bool   { return a.Equals(b) }

type point struct{ x, y coord }

type fakeCtx struct{ n int }

func (f fakeCtx) CacheContext() (fakeCtx, func()) { return f, func() {} }

type cache struct{ n int }

// Keeper stands for a long-lived object: a write through a reference it holds outlives the call.
type Keeper struct{ c *cache }

func (k Keeper) Touch() { k.c.n++ }

func MustThing() {
	if sink > 10 {
		panic("x")
	}
}

func inner() { panic("hidden behind a recover barrier") }

func Guarded() (err error) {
	defer func() {
		if r := recover(); r != nil {
			err = errors.New("recovered")
		}
	}()
	inner()
	return nil
}

// NotABarrier assigns to a local, not to the named result: must NOT count as a barrier.
func NotABarrier() error {
	var err error
	defer func() {
		if r := recover(); r != nil {
			err = errors.New("lost")
		}
	}()
	inner()
	return err
}

func ShortSlice(b []byte, s string) (byte, string) {
	return b[3], s[:4] // unguarded constant index/slice: must be flagged by E11
}

func GuardedSlice(b []byte) []byte {
	if len(b) < 8 {
		return nil
	}
	return b[:8]
}
