package main

import (
	"sort"
	"strings"

	"golang.org/x/tools/go/ssa"
)

func init() { props["C19"] = c19 }

func c19(r *Report) propMeta {
	hr := "yoda.handleRawRequest"
	hrs := "yoda.handleRawRequests"
	hq := "yoda.handleRequest"

	r.Rule("C19.R1", "E5+E12 one result per raw request, 255 on failure")
	r.Count("exactly-one-result", hr, []Effect{SendEff("param:processingResultCh")}, "all", 1, 1)
	r.SendValueHas("every-result-carries-the-external-id", hr, "param:processingResultCh", "call:types.NewRawReport", "field:rawRequest.externalID")
	r.GateSend("load-failure-is-255", hr, []string{"const:FAIL_TO_LOAD_DATA_SOURCE"}, []string{"const:255"}, []Cond{{Op: "EQL", A: []string{"^~call:yoda.GetExecutable"}, B: []string{"const:nil"}, Want: false, Desc: "GetExecutable failed"}})
	r.GateSend("success-carries-exit-code-and-output", hr, []string{"field:ExecResult.Code"}, []string{"field:ExecResult.Code", "field:ExecResult.Output", "call:Executor.Exec"}, []Cond{nilErrOf("Executor.Exec"), nilErrOf("yoda.GetExecutable"), nilErrOf("Signer.Sign")})
	r.SendsUnder("failures-are-255", hr, "param:processingResultCh", "field:ExecResult.Code", "const:255")
	r.ArgHas("executes-the-fetched-file", hr, "Executor.Exec", 0, 1, "^~call:yoda.GetExecutable")
	r.ArgHas("executes-with-request-calldata", hr, "Executor.Exec", 1, 1, "field:rawRequest.calldata")
	r.ArgHas("fetches-by-hash", hr, "yoda.GetExecutable", 2, 1, "field:rawRequest.dataSourceHash")

	r.Rule("C19.R2", "E12 fan-out / fan-in completeness")
	r.ChanShape("fan-out-fan-in", hrs)

	r.Rule("C19.R3", "E5 exactly one report message per selected request")
	r.Count("one-message", hq, []Effect{SendEff("field:Context.pendingMsgs")}, "all", 0, 1)
	r.SendValueHas("message-shape", hq, "field:Context.pendingMsgs", "call:types.NewMsgReportData", "param:id", "call:yoda.handleRawRequests", "field:Context.validator")
	r.Gate("only-if-selected", hq, SendEff("field:Context.pendingMsgs"), []Cond{
		{Op: "BOOL", A: []string{"^phi|^call:slices.Contains", "field:Request.RequestedValidators", "field:Context.validator"}, Want: true, Desc: "this validator is among RequestedValidators"}, // hand-written search loop or slices.Contains
		nilErrOf("yoda.GetRequest")}, GateOpts{})
	r.Gate("all-hashes-resolved", hq, SendEff("field:Context.pendingMsgs"), []Cond{nilErrOf("yoda.GetDataSourceHash")}, GateOpts{LoopAll: true})
	r.MustPass("selected-request-always-answered", hq, CallEff("yoda.handleRawRequests"), SendEff("field:Context.pendingMsgs"))
	r.ArgHas("one-raw-request-per-request-entry", hq, "yoda.handleRawRequests", 3, 1, "call:builtin.append", "field:RawRequest.ExternalID", "field:RawRequest.DataSourceID", "field:Request.RawRequests")
	r.ArgHas("report-for-this-request", hq, "types.NewMsgReportData", 0, 1, "^param:id")
	r.ArgHas("report-has-gathered-raw-reports", hq, "types.NewMsgReportData", 1, 1, "^~call:yoda.handleRawRequests")
	r.ArgHas("raw-requests-of-this-request", hq, "yoda.GetRequest", 2, 1, "^param:id")
	// chain side accepts exactly this shape
	r.Gate("chain-accepts-one-per-external-id", oK+"CheckValidReport", RetOK(), []Cond{
		{Op: "EQL", A: []string{"len", "param:rawReports"}, B: []string{"len", "field:Request.RawRequests"}, Want: true, Desc: "len(rawReports) == len(RawRequests)"}}, GateOpts{FailIsError: true})

	r.Rule("C19.R4", "E11 no unguarded constant slicing in the daemon")
	r.ConstSlicesReach("yoda", daemonRoots(r.W, "yoda."), "yoda.", c19SliceAllow, 15)
	r.PositiveSlices("positive")

	r.Rule("C19.R5", "E7 panics reachable in daemon goroutines")
	r.Census("yoda-panics", daemonRoots(r.W, "yoda."), c19PanicAllow, "the goroutines of the yoda daemon (go statements in package yoda)")

	r.Rule("C19.R6", "pairing: key released, subscription before snapshot")
	r.DeferredSend("key-released-on-every-path", "yoda.SubmitReport", "field:Context.freeKeys")
	r.Dominated("subscribe-before-pending-snapshot", "yoda.runImpl", CallEff("EventsClient.Subscribe"), CallEff("ABCIClient.ABCIQuery", "const:/band.oracle.v1.Query/PendingRequests"))

	r.Rule("C19.R8", "hand-off to the submitting goroutine; the start-up query lists every open request")
	r.GoArgNotReused("batch-not-rewritten", "yoda.runImpl", "yoda.SubmitReport", 2)
	pq := "x/oracle/keeper.Querier.PendingRequests"
	r.LoopAlwaysCalls("pending-query-looks-at-every-open-request", pq, "Keeper.MustGetRequest", Cond{})
	r.EffectSet("pending-query-ignores-results", pq, []string{"Keeper.HasResult", "Keeper.GetResult", "Keeper.MustGetResult"}, nil)

	r.Rule("C19.R7", "RPC helper: a result or an error, never neither")
	abci := "yoda.abciQuery"
	r.Gate("query-ok-only-if-rpc-ok", abci, RetOK(), []Cond{nilErrOf("ABCIClient.ABCIQuery")}, GateOpts{})
	r.RetOKHas("query-ok-returns-rpc-result", abci, 0, "^extract:0", "call:ABCIClient.ABCIQuery")
	r.RetErrDerives("query-failure-carries-rpc-error", abci, "ABCIClient.ABCIQuery")
	for f, use := range map[string]string{"yoda.GetRequest": "BinaryCodec.MustUnmarshal", "yoda.GetDataSourceHash": "BinaryCodec.MustUnmarshal", "yoda.GetExecutable": "BinaryCodec.Unmarshal"} {
		r.Gate("fetch-uses-result-only-if-query-ok", f, CallEff(use, "field:ResultABCIQuery.Response"), []Cond{nilErrOf("yoda.abciQuery")}, GateOpts{})
	}

	// the retry loop makes exactly max-try attempts (seed C19-13 turned it 1-based but kept `<`: one attempt fewer, and
	// with max-try 1 no attempt at all, so (nil, nil) comes back)
	r.LoopTrips("query-makes-max-try-attempts", abci, []string{"field:Context.maxTry"})
	// the REST executor reports success only for an OK response (seed C19-14 consulted resp.Ok only when the body failed
	// to decode: a gateway error document then counts as exit code 0 with empty output)
	r.Gate("rest-success-needs-ok-response", "yoda/executor.RestExec.Exec", RetValEff(0, "field:externalExecutionResponse.Version"), []Cond{{Op: "BOOL", A: []string{"field:Response.Ok"}, Want: true, Desc: "resp.Ok"}}, GateOpts{MinSites: 2})

	r.Rule("C19.R9", "E20 event agreement: what yoda reads from events is emitted")
	r.EventAgreement("events", 1, "yoda.")

	r.Rule("C19.R10", "every event of a transaction is scanned")
	r.LoopVisitsAll("all-events-scanned", "yoda.GetEventValues", "builtin.append", LoopOpts{Outermost: true, RangesOver: []string{"len", "param:events", "!field:Event.Attributes"}})
	r.LoopVisitsAll("all-attributes-scanned", "yoda.GetEventValues", "builtin.append", LoopOpts{})

	return propMeta{
		Decided: []string{
			"R8 a batch handed to `go SubmitReport` is replaced in the waiting list by a fresh slice or the disjoint tail, never by a re-slice that keeps its first element (the next queued report would overwrite a report in flight); the PendingRequests query, which seeds a restarted yoda, looks at every request between the expiry cursor and the request count and does not consult results (a resolved request still demands a report from every selected validator until it expires)", "R7 abciQuery returns nil error only together with the RPC result of a successful ABCIQuery, and every other return carries an error that derives from the failed ABCIQuery (never a nil result with a nil error after the retries); the three fetchers touch the result only under err == nil",
			"R1 handleRawRequest sends exactly one result on every path; every result is NewRawReport(req.externalID, …); the exit-code/output of the executor is used only when load, sign and Exec all succeeded, every other send carries 255",
			"R2 handleRawRequests: channel buffered to len(reqs), one goroutine per element and one receive per element of the same slice, every received report appended",
			"R3 handleRequest: at most one message, sent only if the validator is requested and every data-source hash resolved, always sent once handleRawRequests ran; message = NewMsgReportData(id, gathered reports, validator) with one raw request per req.RawRequests entry carrying its external id — the shape CheckValidReport demands",
			"R4 no constant-bound slice/index on a slice or string whose length is not established by a dominating check, anywhere in package yoda (finding F2, fixed)",
			"R5 explicit panics / Must* reachable in package yoda ⊆ accepted table",
			"R6 SubmitReport returns its key in a defer; runImpl subscribes to new transactions before it snapshots pending requests",
			"R9 every (event type, attribute key) pair yoda looks up in new-block / transaction events is emitted by a module with exactly those constants (request.id: without it a selected validator never hears of the request)",
			"R10 yoda.GetEventValues collects the attribute from EVERY event of the given type in the log (outer loop over all events, inner loop over all attributes, no early way out): a transaction that creates several requests yields all their ids (seed C19-8 stopped at the first event)",
		},
		Undecided: []string{"data races and goroutine interleavings", "behaviour under RPC failures (returns early by design)", "executor internals"},
		Assume:    []string{"Go channel semantics", "a panic in any goroutine terminates the process"},
	}
}

var c19SliceAllow = []sliceAllow{}
var c19PanicAllow = []panicAllow{
	{"x/oracle/types.RequestVerification.GetSignBytes", "call:github.com/cosmos/cosmos-sdk/types.MustSortJSON", 1, "re-sorting JSON just produced by the codec from a plain struct"},
	{"yoda.GetDataSourceHash", "call:github.com/cosmos/cosmos-sdk/codec.BinaryCodec.MustUnmarshal", 1, "bytes come from the validator's own node's store query for a key the chain wrote; an absent key yields empty bytes, which unmarshal to the zero value"},
	{"yoda.GetRequest", "call:github.com/cosmos/cosmos-sdk/codec.BinaryCodec.MustUnmarshal", 1, "same: store query answered by the validator's own node"},
	{"yoda.GetExecutable", "call:github.com/cosmos/cosmos-sdk/codec.BinaryCodec.MustMarshal", 1, "marshalling a locally built query message"},
	{"yoda.getReportByteLength", "call:github.com/cosmos/cosmos-sdk/codec.BinaryCodec.MustMarshal", 1, "marshalling a locally built MsgReportData"},
	{"yoda.getTxByteLength", "call:github.com/cosmos/cosmos-sdk/codec.BinaryCodec.MustMarshal", 1, "marshalling a locally built MsgReportData"},
	{"yoda.getTxByteLength", "panic", 1, "type switch on messages that SubmitReport builds itself, always *MsgReportData (handleRequest is the only producer of pendingMsgs, C19.R3)"},
	{"yoda.estimateGas", "panic", 1, "same: messages are always *MsgReportData"},
	{"yoda.metricsListen", "call:github.com/prometheus/client_golang/prometheus.MustRegister", 1, "one-time registration at start-up of the optional metrics goroutine"},
	{"yoda.metricsListen", "panic", 1, "metrics HTTP listener failing (port in use): operator configuration, start-up only"},
}

// daemonRoots: the callees of every `go` statement in the daemon package (the goroutines whose panic kills the
// process while requests are in flight). Start-up code (command construction, NewBandApp) is deliberately not a root.
func daemonRoots(w *World, prefix string) []*ssa.Function {
	seen := map[*ssa.Function]bool{}
	var out []*ssa.Function
	for k, fn := range w.Funcs {
		if !strings.HasPrefix(k, prefix) || len(fn.Blocks) == 0 {
			continue
		}
		for _, b := range fn.Blocks {
			for _, in := range b.Instrs {
				g, ok := in.(*ssa.Go)
				if !ok {
					continue
				}
				var callee *ssa.Function
				switch v := g.Call.Value.(type) {
				case *ssa.Function:
					callee = v
				case *ssa.MakeClosure:
					callee, _ = v.Fn.(*ssa.Function)
				}
				if callee != nil && !seen[callee] {
					seen[callee] = true
					out = append(out, callee)
				}
			}
		}
	}
	sort.Slice(out, func(i, j int) bool { return FuncKey(out[i]) < FuncKey(out[j]) })
	return out
}
