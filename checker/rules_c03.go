package main

import (
	"fmt"
	"go/ast"
	"math/big"
	"strings"
)

func init() { props["C03"] = c03 }

func isPrime(n int64) bool {
	if n < 2 {
		return false
	}
	for d := int64(2); d*d <= n; d++ {
		if n%d == 0 {
			return false
		}
	}
	return true
}

// vpFact: exponent of p in n!
func vpFact(n, p int64) int64 {
	var s int64
	for q := p; q <= n; q *= p {
		s += n / q
	}
	return s
}

func c03Lagrange(r *Report) {
	w := r.W
	p := w.PkgBy["pkg/tss/internal/lagrange"]
	d := "the precomputed Lagrange tables are arithmetically exact and large enough for every committee ⊂ {1..B}"
	if p == nil {
		r.Unres("lagrange|pkg", d, "package pkg/tss/internal/lagrange not found")
		return
	}
	pf := parseLit(p, pkgVarInit(p, "PRIME_FACTORS"))
	pw := parseLit(p, pkgVarInit(p, "PRECOMPUTED_POWERS"))
	if pf == nil || pw == nil || pf.Kids == nil || pw.Kids == nil {
		r.Unres("lagrange|tables", d, "PRIME_FACTORS / PRECOMPUTED_POWERS are not constant composite literals")
		return
	}
	// bound B = the literal in checkLagrangeInput (`id > B`)
	tp := w.PkgBy["pkg/tss"]
	var B int64 = -1
	boundOnElement := true
	if tp != nil {
		if fd := funcDecl(tp, "checkLagrangeInput"); fd != nil {
			ast.Inspect(fd, func(n ast.Node) bool {
				be, ok := n.(*ast.BinaryExpr)
				if !ok {
					return true
				}
				// `id > B` or, mirrored, `B < id`
				var lit ast.Expr
				switch be.Op.String() {
				case ">":
					lit = be.Y
				case "<":
					lit = be.X
				default:
					return true
				}
				if tv, ok := tp.TypesInfo.Types[lit]; ok && tv.Value != nil {
					if b := constBig(tv.Value); b != nil {
						B = b.Int64()
						// the compared value must be the ELEMENT of the member list being ranged over, not the requesting
						// member's own id (seed C10-7: `mid > 20` sends mixed committees into the table path)
						other := be.X
						if lit == be.X {
							other = be.Y
						}
						boundOnElement = false
						if id, ok := other.(*ast.Ident); ok {
							obj := tp.TypesInfo.Uses[id]
							ast.Inspect(fd, func(m ast.Node) bool {
								if rs, ok := m.(*ast.RangeStmt); ok {
									if v, ok := rs.Value.(*ast.Ident); ok && tp.TypesInfo.Defs[v] == obj && obj != nil {
										boundOnElement = true
									}
								}
								return true
							})
						}
					}
				}
				return true
			})
		}
	}
	if B < 2 {
		r.Unres("lagrange|bound", d, "cannot find the `id > B` literal in checkLagrangeInput")
		return
	}
	if !boundOnElement {
		r.Bad("lagrange|bound-on-every-id", "checkLagrangeInput compares EVERY committee id with the table bound", w.Pos(funcDecl(tp, "checkLagrangeInput").Pos()), "the bound is not compared with the element of the ranged member list: a committee mixing ids on both sides of the bound takes the table path and indexes out of range")
	} else {
		r.OK("lagrange|bound-on-every-id", "checkLagrangeInput compares EVERY committee id with the table bound", w.Pos(funcDecl(tp, "checkLagrangeInput").Pos()), "range element compared")
	}
	r.OK("lagrange|bound", "checkLagrangeInput routes ids <= B to the table path", w.Pos(funcDecl(tp, "checkLagrangeInput").Pos()), fmt.Sprintf("B = %d", B))
	var maxIdx int64
	for k := range pf.Kids {
		if k > maxIdx {
			maxIdx = k
		}
	}
	// every k in 2..B has an entry whose prime-power product is k, with prime bases, strictly increasing
	for k := int64(2); k <= B; k++ {
		key := fmt.Sprintf("lagrange|factor|%d", k)
		dd := fmt.Sprintf("PRIME_FACTORS[%d] is the prime factorisation of %d", k, k)
		e := pf.Kids[k]
		if e == nil || e.Kids == nil {
			r.Bad(key, dd, w.Pos(pf.Pos.Pos()), "entry missing: a committee containing this id (or a difference equal to it) would silently drop the factor")
			continue
		}
		prod := big.NewInt(1)
		ok := true
		prev := int64(0)
		for _, i := range e.Order {
			pr := e.Kids[i]
			if pr.Kids == nil || pr.Kids[0] == nil || pr.Kids[1] == nil || pr.Kids[0].Leaf == nil || pr.Kids[1].Leaf == nil {
				ok = false
				break
			}
			base, exp := pr.Kids[0].Leaf.Int64(), pr.Kids[1].Leaf.Int64()
			if !isPrime(base) || exp < 1 || base <= prev {
				ok = false
			}
			prev = base
			prod.Mul(prod, new(big.Int).Exp(big.NewInt(base), big.NewInt(exp), nil))
		}
		if ok && prod.Cmp(big.NewInt(k)) == 0 {
			r.OK(key, dd, w.Pos(e.Pos.Pos()), "exact")
		} else {
			r.Bad(key, dd, w.Pos(e.Pos.Pos()), fmt.Sprintf("entry multiplies out to %s (or has a non-prime / unordered base)", prod))
		}
	}
	if maxIdx > B {
		r.Note("PRIME_FACTORS has entries above the bound %d (unused)", B)
	}
	if maxIdx < B {
		r.Bad("lagrange|factor|len", "PRIME_FACTORS is indexable up to B", w.Pos(pf.Pos.Pos()), fmt.Sprintf("array length %d < B+1: PRIME_FACTORS[j] panics for j=%d", maxIdx+1, B))
	}
	// powers: for every prime p <= B: row exists, row[i] == p^i, and len(row) > v_p(B!) (largest exponent that a
	// numerator, a product of distinct j <= B, can reach; the denominator is bounded by v_p((B-1)!) or less)
	for pnum := int64(2); pnum <= B; pnum++ {
		if !isPrime(pnum) {
			continue
		}
		key := fmt.Sprintf("lagrange|powers|%d", pnum)
		dd := fmt.Sprintf("PRECOMPUTED_POWERS[%d][i] == %d^i for all i and the row covers exponents up to v_%d(%d!) = %d", pnum, pnum, pnum, B, vpFact(B, pnum))
		row := pw.Kids[pnum]
		if row == nil || row.Kids == nil {
			r.Bad(key, dd, w.Pos(pw.Pos.Pos()), "row missing")
			continue
		}
		bad := ""
		for i := int64(0); i < int64(len(row.Kids)); i++ {
			c := row.Kids[i]
			if c == nil || c.Leaf == nil || c.Leaf.Cmp(new(big.Int).Exp(big.NewInt(pnum), big.NewInt(i), nil)) != 0 {
				bad = fmt.Sprintf("entry %d is not %d^%d", i, pnum, i)
				break
			}
		}
		need := vpFact(B, pnum)
		if bad == "" && int64(len(row.Kids)) <= need {
			bad = fmt.Sprintf("row has %d entries but exponent %d is reachable: index out of range panic in consensus code", len(row.Kids), need)
		}
		if bad == "" {
			r.OK(key, dd, w.Pos(row.Pos.Pos()), fmt.Sprintf("%d entries, all exact", len(row.Kids)))
		} else {
			r.Bad(key, dd, w.Pos(row.Pos.Pos()), bad)
		}
	}
	// counts slice length covers the largest prime <= B, and B! fits int64
	fd := funcDecl(p, "ComputeCoefficientPreCompute")
	var countsLen int64 = -1
	if fd != nil {
		ast.Inspect(fd, func(n ast.Node) bool {
			ce, ok := n.(*ast.CallExpr)
			if !ok || len(ce.Args) != 2 {
				return true
			}
			if id, ok := ce.Fun.(*ast.Ident); ok && id.Name == "make" {
				if tv, ok := p.TypesInfo.Types[ce.Args[1]]; ok && tv.Value != nil {
					if b := constBig(tv.Value); b != nil && countsLen < 0 {
						countsLen = b.Int64()
					}
				}
			}
			return true
		})
	}
	var maxPrime int64
	for q := int64(2); q <= B; q++ {
		if isPrime(q) {
			maxPrime = q
		}
	}
	if countsLen > maxPrime {
		r.OK("lagrange|counts-len", "len(counts) exceeds the largest prime <= B", w.Pos(fd.Pos()), fmt.Sprintf("len %d > %d", countsLen, maxPrime))
	} else {
		r.Bad("lagrange|counts-len", "len(counts) exceeds the largest prime <= B", "pkg/tss/internal/lagrange/lagrange.go", fmt.Sprintf("len(counts) = %d but counts[%d] is written", countsLen, maxPrime))
	}
	fact := new(big.Int).MulRange(1, B)
	lim := new(big.Int).Lsh(big.NewInt(1), 63)
	if fact.Cmp(lim) < 0 {
		r.OK("lagrange|no-overflow", "B! < 2^63 so the int64 numerator/denominator cannot overflow", "-", fmt.Sprintf("%d! = %s", B, fact))
	} else {
		r.Bad("lagrange|no-overflow", "B! < 2^63", "-", fmt.Sprintf("%d! = %s does not fit int64", B, fact))
	}
	// group order constant
	want, _ := new(big.Int).SetString("FFFFFFFFFFFFFFFFFFFFFFFFFFFFFFFEBAAEDCE6AF48A03BBFD25E8CD0364141", 16)
	ok := false
	if init := pkgVarInit(p, "N"); init != nil {
		ast.Inspect(init, func(n ast.Node) bool {
			if bl, ok2 := n.(*ast.BasicLit); ok2 {
				s := strings.Trim(bl.Value, `"`)
				if v, good := new(big.Int).SetString(s, 10); good && v.Cmp(want) == 0 {
					ok = true
				}
			}
			return true
		})
	}
	if ok {
		r.OK("lagrange|group-order", "N equals the secp256k1 group order", "pkg/tss/internal/lagrange/lagrange.go", "exact")
	} else {
		r.Bad("lagrange|group-order", "N equals the secp256k1 group order", "pkg/tss/internal/lagrange/lagrange.go", "constant differs")
	}
}

func c03(r *Report) propMeta {
	w := r.W
	tt := "x/tss/types"

	r.Rule("C03.R1", "E9 exact table arithmetic (Lagrange)")
	c03Lagrange(r)
	lp := "pkg/tss/internal/lagrange.ComputeCoefficientPreCompute"
	r.Exists("sign-flip-on-negative-difference", lp, CallEff("big.NewInt", "binop:*", "phi"), 1)
	r.NoNativeArith("generic-path-in-bigint", "pkg/tss/internal/lagrange.ComputeCoefficient", []string{"*"}, "param:s")
	r.NoNativeArith("generic-path-in-bigint", "pkg/tss/internal/lagrange.ComputeCoefficient", []string{"*"}, "param:i")
	r.ArgHas("table-route", "pkg/tss.computeLagrangeCoefficientOp", "lagrange.ComputeCoefficientPreCompute", 0, 1, "param:mid")
	r.ArgHas("generic-route", "pkg/tss.ComputeLagrangeCoefficient", "lagrange.ComputeCoefficient", 0, 1, "param:mid")
	r.Gate("table-only-if-all-small", "pkg/tss.ComputeLagrangeCoefficient", CallEff("tss.computeLagrangeCoefficientOp"), []Cond{
		{Op: "BOOL", A: []string{"^extract", "call:tss.checkLagrangeInput"}, Want: true, Desc: "optimizedable"}, nilErrOf("tss.checkLagrangeInput")}, GateOpts{})
	r.Gate("input-checked", "pkg/tss.checkLagrangeInput", RetOK(), []Cond{
		{Op: "BOOL", A: []string{"lookup", "param:memberList"}, Want: false, Desc: "no duplicate id"},
	}, GateOpts{LoopAll: true, FailIsError: true})
	r.Gate("input-checked-member", "pkg/tss.checkLagrangeInput", RetOK(), []Cond{
		{Op: "BOOL", A: []string{"^phi", "param:mid"}, Want: true, Desc: "mid ∈ memberList"}}, GateOpts{FailIsError: true})

	r.Rule("C03.R2", "E4 challenge format and hash domain separation")
	c03Hashes(r)

	r.Rule("C03.R3", "E3+E12 partial-signature admission")
	ss := tMS + "SubmitSignature"
	add := CallEff("Keeper.AddPartialSignature")
	r.Gate("admission", ss, add, []Cond{
		nilErrOf("Keeper.GetSigning"),
		{Op: "EQL", A: []string{"field:Signing.Status"}, B: []string{w.ConstAtom(tt, "SIGNING_STATUS_WAITING")}, Want: true, Desc: "signing.Status == WAITING"},
		nilErrOf("Keeper.GetSigningAttempt"),
		{Op: "BOOL", A: []string{"^extract", "call:AssignedMembers.FindAssignedMember"}, Want: true, Desc: "member is assigned (found)"},
		{Op: "EQL", A: []string{"field:AssignedMember.Address"}, B: []string{"field:MsgSubmitSignature.Signer"}, Want: true, Desc: "assigned member's address == signer"},
		{Op: "BOOL", A: []string{"call:Keeper.HasPartialSignature"}, Want: false, Desc: "not already signed"},
		{Op: "BOOL", A: []string{"call:AssignedMembers.VerifySignatureR"}, Want: true, Desc: "R equals the assigned public nonce"},
		nilErrOf("tss.ComputeLagrangeCoefficient"),
		nilErrOf("tss.VerifySigningSignature"),
	}, GateOpts{FailIsError: true})
	r.ArgHas("attempt-is-current", ss, "Keeper.GetSigningAttempt", 2, 1, "field:Signing.CurrentAttempt", "call:Keeper.GetSigning")
	r.ArgHas("member-lookup", ss, "AssignedMembers.FindAssignedMember", 0, 1, "field:MsgSubmitSignature.MemberID")
	r.ArgHas("nonce-check-member", ss, "AssignedMembers.VerifySignatureR", 0, 1, "field:MsgSubmitSignature.MemberID")
	r.ArgHas("nonce-check-r", ss, "AssignedMembers.VerifySignatureR", 1, 1, "call:Signature.R", "field:MsgSubmitSignature.Signature")
	r.ArgHas("lagrange-member", ss, "tss.ComputeLagrangeCoefficient", 0, 1, "field:MsgSubmitSignature.MemberID")
	r.ArgHas("lagrange-committee", ss, "tss.ComputeLagrangeCoefficient", 1, 1, "call:AssignedMembers.MemberIDs", "field:SigningAttempt.AssignedMembers")
	r.ArgHas("verify-group-nonce", ss, "tss.VerifySigningSignature", 0, 1, "field:Signing.GroupPubNonce", "call:Keeper.GetSigning")
	r.ArgHas("verify-group-key", ss, "tss.VerifySigningSignature", 1, 1, "field:Signing.GroupPubKey", "call:Keeper.GetSigning")
	r.ArgHas("verify-message", ss, "tss.VerifySigningSignature", 2, 1, "field:Signing.Message", "call:Keeper.GetSigning")
	r.ArgHas("verify-lagrange", ss, "tss.VerifySigningSignature", 3, 1, "call:tss.ComputeLagrangeCoefficient")
	r.ArgHas("verify-signature", ss, "tss.VerifySigningSignature", 4, 1, "field:MsgSubmitSignature.Signature")
	r.ArgHas("verify-member-key", ss, "tss.VerifySigningSignature", 5, 1, "field:AssignedMember.PubKey", "call:AssignedMembers.FindAssignedMember")
	r.ArgHas("stored-signature", ss, "Keeper.AddPartialSignature", 4, 1, "field:MsgSubmitSignature.Signature")
	r.ArgHas("stored-member", ss, "Keeper.AddPartialSignature", 3, 1, "field:MsgSubmitSignature.MemberID")
	r.ArgHas("stored-attempt", ss, "Keeper.AddPartialSignature", 2, 1, "field:SigningAttempt.Attempt")
	r.Callers("callers", tK+"AddPartialSignature", []string{ss, tK + "InitGenesis", "x/tss.InitGenesis"}, []string{ss})
	vr := "x/tss/types.AssignedMembers.VerifySignatureR"
	r.Exists("r-compared-with-pub-nonce", vr, RetValEff(0, "field:AssignedMember.PubNonce", "param:r"), 1)
	r.Gate("r-of-that-member", vr, RetValEff(0, "field:AssignedMember.PubNonce"), []Cond{{Op: "EQL", A: []string{"field:AssignedMember.MemberID"}, B: []string{"param:mid"}, Want: true, Desc: "am.MemberID == mid"}}, GateOpts{})

	r.FailureCensus("share-rejections", ss, map[string]reject{
		"unknown-signing": {[]string{"^~call:Keeper.GetSigning"}, nil},
		"not-waiting":     {[]string{"global:types.ErrSigningAlreadySuccess"}, []Cond{{Op: "EQL", A: []string{"field:Signing.Status"}, B: []string{w.ConstAtom(tt, "SIGNING_STATUS_WAITING")}, Want: false}}},
		"unknown-attempt": {[]string{"^~call:Keeper.GetSigningAttempt"}, nil},
		"not-assigned": {[]string{"global:types.ErrMemberNotAssigned"}, []Cond{
			{Op: "BOOL", A: []string{"^extract", "call:AssignedMembers.FindAssignedMember"}, Want: false},
			{Op: "EQL", A: []string{"field:AssignedMember.Address"}, B: []string{"field:MsgSubmitSignature.Signer"}, Want: false}}},
		"already-signed": {[]string{"global:types.ErrAlreadySigned"}, []Cond{{Op: "BOOL", A: []string{"^call:Keeper.HasPartialSignature"}, Want: true}}},
		"verify-failed": {[]string{"global:types.ErrSubmitSigningSignatureFailed"}, []Cond{
			{Op: "BOOL", A: []string{"^call:AssignedMembers.VerifySignatureR"}, Want: false},
			{Op: "EQL", A: []string{"^~call:tss.ComputeLagrangeCoefficient"}, B: []string{"const:nil"}, Want: false},
			{Op: "EQL", A: []string{"^~call:tss.VerifySigningSignature"}, B: []string{"const:nil"}, Want: false}}},
	})

	r.Rule("C03.R4", "E3+E12 aggregate is stored only if it verifies")
	agg := tK + "AggregatePartialSignatures"
	for _, e := range []Effect{StoreEff("Signing.Signature"), StoreEff("Signing.Status"), CallEff("Keeper.SetSigning")} {
		r.Gate("publish-only-verified", agg, e, []Cond{nilErrOf("tss.CombineSignatures"), nilErrOf("tss.VerifyGroupSigningSignature")}, GateOpts{FailIsError: true})
	}
	r.SameValue("published-is-verified", agg, ArgRef{"tss.VerifyGroupSigningSignature", 2})
	r.Exists("published-is-combined", agg, StoreEff("Signing.Signature", "call:tss.CombineSignatures"), 1)
	r.ArgHas("verified-is-combined", agg, "tss.VerifyGroupSigningSignature", 2, 1, "^extract", "call:tss.CombineSignatures")
	r.ArgHas("verified-under-group-key", agg, "tss.VerifyGroupSigningSignature", 0, 1, "field:Signing.GroupPubKey", "call:Keeper.MustGetSigning")
	r.ArgHas("verified-for-message", agg, "tss.VerifyGroupSigningSignature", 1, 1, "field:Signing.Message", "call:Keeper.MustGetSigning")
	r.ArgHas("combine-current-attempt", agg, "Keeper.GetPartialSignatures", 2, 1, "field:Signing.CurrentAttempt")
	r.ArgHas("combine-partials", agg, "tss.CombineSignatures", 0, 1, "call:Keeper.GetPartialSignatures")
	cs := "pkg/tss.CombineSignatures"
	r.Exists("aggregate-is-sums", cs, RetValEff(0, "call:schnorr.NewSignature", "call:tss.sumPoints", "call:tss.sumScalars"), 1)
	r.Gate("aggregate-parses-all", cs, RetOK(), []Cond{{Op: "EQL", A: []string{"call:Signature.signature"}, B: []string{"const:nil"}, Want: true, Desc: "every partial signature parses"}}, GateOpts{LoopAll: true, FailIsError: true})

	r.Rule("C03.R5", "sibling agreement: signer and verifier")
	r.ArgHas("sign-challenge", "pkg/tss.SignSigning", "tss.Sign", 1, 1, "call:tss.HashChallenge")
	r.ArgHas("sign-lagrange", "pkg/tss.SignSigning", "tss.Sign", 3, 1, "^param:rawLagrange")
	r.ArgHas("verify-challenge", "pkg/tss.VerifySigningSignature", "tss.Verify", 2, 1, "call:tss.HashChallenge")
	r.ArgHas("verify-lagrange", "pkg/tss.VerifySigningSignature", "tss.Verify", 5, 1, "^param:rawLagrange")
	r.ArgHas("verify-own-key", "pkg/tss.VerifySigningSignature", "tss.Verify", 3, 1, "^param:ownPubKey")
	r.ArgHas("group-verify-challenge", "pkg/tss.VerifyGroupSigningSignature", "tss.Verify", 2, 1, "call:tss.HashChallenge")
	r.ArgHas("group-verify-key", "pkg/tss.VerifyGroupSigningSignature", "tss.Verify", 3, 1, "^param:groupPubKey")
	for _, f := range []string{"pkg/tss.SignSigning", "pkg/tss.VerifySigningSignature"} {
		r.ArgHas("challenge-nonce", f, "tss.HashChallenge", 0, 1, "^param:groupPubNonce")
		r.ArgHas("challenge-key", f, "tss.HashChallenge", 1, 1, "^param:groupPubKey")
		r.ArgHas("challenge-data", f, "tss.HashChallenge", 2, 1, "^param:data")
	}
	r.ArgHas("group-challenge-nonce-is-sig-r", "pkg/tss.VerifyGroupSigningSignature", "tss.HashChallenge", 0, 1, "call:Signature.R", "param:signature")
	r.Exists("sign-uses-lagrange", "pkg/tss.Sign", CallEff("ModNScalar.Mul", "param:rawLagrange"), 1)
	r.Exists("verify-uses-lagrange", "pkg/tss.Verify", CallEff("ModNScalar.Mul", "param:rawLagrange"), 1)
	r.ArgHas("daemon-signs-with-own-lagrange", "cylinder/workers/signing.Signing.handleSigning", "tss.SignSigning", 3, 1, "call:tss.ComputeLagrangeCoefficient")

	r.Rule("C03.R6", "E15 wire fields validated by their own type")
	r.WireFieldsValidated("wire", "x/tss/types", []string{"MsgSubmitSignature", "MsgSubmitDEs"}, 3)

	r.Rule("C03.R7", "E18 fixed-width wire encodings of pkg/tss values")
	r.FixedWidth("one-encoding", []fixedWidth{
		{"pkg/tss.Point.publicKey", "p", "const:33", "tss.Point (compressed secp256k1 point)"},
		{"pkg/tss.Scalar.Validate", "s", "const:32", "tss.Scalar"},
		{"pkg/tss.EncSecretShare.Validate", "e", "const:48", "tss.EncSecretShare"},
		{"pkg/tss/internal/schnorr.ParseSignature", "signature", w.ConstAtom("pkg/tss/internal/schnorr", "SignatureSize"), "tss.Signature"},
		{"pkg/tss/internal/schnorr.ParseComplaintSignature", "signature", w.ConstAtom("pkg/tss/internal/schnorr", "ComplaintSignatureSize"), "tss.ComplaintSignature"},
	})
	r.ExternalCallers("point-parsers", "pkg/tss", "secp256k1/v4.ParsePubKey", []string{"pkg/tss.Point.publicKey", "pkg/tss/internal/schnorr.ParseSignature", "pkg/tss/internal/schnorr.ParseComplaintSignature"})

	r.Rule("C03.R8", "publication order in the end-blocker")
	r.NotAfter("aggregate-before-expiry", tK+"HandleSigningEndBlock", CallEff("Keeper.AggregatePartialSignatures"), CallEff("Keeper.HandleExpiredSignings"))

	r.Rule("C03.lint", "E8 module lint: no nondeterminism / process-local state in x/tss")
	r.ModuleLint("module-lint", "tss", 20)

	return propMeta{
		Decided: []string{
			"R1 the generic (unbounded-id) Lagrange path multiplies only in big.Int; Lagrange tables: PRIME_FACTORS[k] multiplies out to k with increasing prime bases for k=2..B (B = the literal of checkLagrangeInput), PRECOMPUTED_POWERS[p][i]==p^i with rows longer than v_p(B!), len(counts) > largest prime, B! < 2^63, N = secp256k1 order; the table path is taken only when every id <= B; duplicate ids and absent mid rejected",
			"R2 HashChallenge hashes exactly [context,0,'challenge',0,address(R),parity+25,pad32(Px),keccak(msg)]; all hash functions use pairwise-distinct domain tags after the shared context string",
			"R3 SubmitSignature stores a partial signature only past: WAITING, assigned member found and address==signer, not yet signed, R == assigned nonce, Lagrange ok, VerifySigningSignature(stored group nonce/key/message, computed lagrange, request signature, assigned member's PubKey) == nil",
			"R4 AggregatePartialSignatures writes Signature/Status/SetSigning only after CombineSignatures and VerifyGroupSigningSignature(group key, message, that same signature) succeeded; the aggregate is (sum R_i, sum z_i)",
			"R5 signer and verifier take the challenge from the same HashChallenge over the same three operands and both multiply by the Lagrange scalar",
			"R6 every pkg/tss-typed field of MsgSubmitSignature / MsgSubmitDEs reaches its own type's Validate() from ValidateBasic (the strict 65-byte signature parse, not the prefix-reading R()/S() accessors): what the handler verifies is what the aggregator later parses",
			"R7 every pkg/tss byte type has exactly one accepted length (Point 33 - compressed only, finding F6 -, Scalar 32, EncSecretShare 48, Signature 65, ComplaintSignature 98): the raw bytes are hashed, a second encoding of the same value would change challenges and symmetric keys",
			"R8 HandleSigningEndBlock aggregates the fully submitted signings before it expires attempts (expiry deletes the partial signatures of every attempt at its expiry height, including complete ones): shares that all arrived in the expiry block are still published (seed C03-6)",
			"lint: the determinism lint (incl. writes to memory held by long-lived objects) over everything reachable from the handlers and blockers of x/tss",
		},
		Undecided: []string{"the algebra (z_i*G == R_i + c*lambda_i*Y_i for honest shares; any threshold subset reconstructs)", "behaviour of the generic path for ids > 20", "secp256k1/keccak implementations"},
		Assume:    []string{"go/constant evaluates the table literals exactly", "dcrd secp256k1 and go-ethereum keccak are correct"},
	}
}

// c03Hashes: the argument list of Hash(...) in every HashXxx function starts with the context string followed by a
// domain tag; tags are pairwise distinct; HashChallenge has the exact documented layout.
func c03Hashes(r *Report) {
	w := r.W
	p := w.PkgBy["pkg/tss"]
	d := "hash inputs are domain-separated and HashChallenge has the fixed BAND-TSS layout"
	if p == nil {
		r.Unres("hash|pkg", d, "package pkg/tss not found")
		return
	}
	ctxConst := pkgConst(p, "ContextString")
	if ctxConst == nil || strings.Trim(ctxConst.ExactString(), `"`) != "BAND-TSS-secp256k1-v0" {
		r.Bad("hash|context", "ContextString is the fixed protocol tag", "pkg/tss/hash.go", "ContextString changed: every signature deployed destination contracts verify would break")
	} else {
		r.OK("hash|context", "ContextString is the fixed protocol tag", "pkg/tss/hash.go", "BAND-TSS-secp256k1-v0")
	}
	tags := map[string]string{}
	nfun := 0
	for _, f := range p.Syntax {
		if !strings.HasSuffix(w.Fset.Position(f.Pos()).Filename, "pkg/tss/hash.go") {
			continue
		}
		for _, decl := range f.Decls {
			fd, ok := decl.(*ast.FuncDecl)
			if !ok || !strings.HasPrefix(fd.Name.Name, "Hash") || fd.Name.Name == "Hash" || fd.Body == nil {
				continue
			}
			// first call to Hash( with >= 2 args
			var call *ast.CallExpr
			ast.Inspect(fd.Body, func(n ast.Node) bool {
				ce, ok := n.(*ast.CallExpr)
				if ok && call == nil {
					if id, ok := ce.Fun.(*ast.Ident); ok && id.Name == "Hash" && len(ce.Args) >= 2 {
						call = ce
					}
				}
				return true
			})
			if call == nil {
				continue
			}
			nfun++
			argStr := func(e ast.Expr) (string, bool) {
				// []byte("const") or []byte(Const)
				ce, ok := e.(*ast.CallExpr)
				if !ok || len(ce.Args) != 1 {
					return "", false
				}
				if tv, ok := p.TypesInfo.Types[ce.Args[0]]; ok && tv.Value != nil {
					return strings.Trim(tv.Value.ExactString(), `"`), true
				}
				return "", false
			}
			first, ok1 := argStr(call.Args[0])
			key := "hash|" + fd.Name.Name
			if !ok1 || first != "BAND-TSS-secp256k1-v0" {
				r.Bad(key+"|context", d, w.Pos(call.Pos()), "first hashed element is not the context string")
				continue
			}
			// tag: first string-constant argument after the context
			tag := ""
			for _, a := range call.Args[1:] {
				if s, ok := argStr(a); ok {
					tag = s
					break
				}
			}
			if tag == "" {
				r.Bad(key+"|tag", d, w.Pos(call.Pos()), "no constant domain tag")
				continue
			}
			if other, dup := tags[tag]; dup {
				r.Bad(key+"|tag", d, w.Pos(call.Pos()), fmt.Sprintf("domain tag %q is shared with %s", tag, other))
			} else {
				tags[tag] = fd.Name.Name
				r.OK(key+"|tag", d, w.Pos(call.Pos()), fmt.Sprintf("tag %q", tag))
			}
			if fd.Name.Name == "HashChallenge" {
				c03ChallengeLayout(r, key)
			}
		}
	}
	if nfun < 9 {
		r.Unres("hash|count", d, fmt.Sprintf("only %d HashXxx functions analysed, expected >= 9", nfun))
	}
	// operands of the challenge elements
	hc := "pkg/tss.HashChallenge"
	r.ArgHas("challenge-address-of-nonce", hc, "Point.Address", -1, 1, "^param:rawGroupPubNonce")
	r.ArgHas("challenge-px", hc, "tss.PaddingBytes", 0, 1, "call:Int.Bytes", "call:PublicKey.X", "param:rawGroupPubKey")
	r.ArgHas("challenge-px-32", hc, "tss.PaddingBytes", 1, 1, "const:32")
	r.Gate("challenge-needs-valid-points", hc, RetOK(), []Cond{nilErrOf("Point.Address"), nilErrOf("Point.publicKey"), nilErrOf("tss.NewScalar")}, GateOpts{FailIsError: true})
}

// c03ChallengeLayout: the eight hashed elements of HashChallenge, as resolved values (not as source text): context
// string, 0, "challenge", 0, address(R), parity byte of the group key + 25, padded X of the group key, Hash(message).
func c03ChallengeLayout(r *Report, key string) {
	w := r.W
	desc := "HashChallenge layout [ctx,0,'challenge',0,address(R),parity+25,Px,keccak(msg)]"
	fn := w.Fn("pkg/tss.HashChallenge")
	if fn == nil {
		r.Unres(key+"|layout", desc, "function not found")
		return
	}
	var outer *Term
	for _, c := range Calls(fn, "pkg/tss.Hash") {
		t := renderCall(c)
		// the outer call is the one whose argument list holds 8 elements
		if len(t.Args) == 1 {
			a := t.Args[0]
			for (a.Op == "slice" || a.Op == "local") && len(a.Args) >= 1 {
				if a.Op == "local" && len(a.Args) == 8 {
					outer = a
					break
				}
				a = a.Args[0]
			}
		}
	}
	if outer == nil {
		r.Bad(key+"|layout", desc, w.FnPos(fn), "no Hash call over eight elements")
		return
	}
	want := [][]string{
		{"^const:BAND-TSS-secp256k1-v0"},
		{"const:0", "!param:data", "!binop:+"},
		{"^const:challenge"},
		{"const:0", "!param:data", "!binop:+"},
		{"call:Point.Address", "param:rawGroupPubNonce", "!param:rawGroupPubKey"},
		{"binop:+", "const:25", "index", "param:rawGroupPubKey", "const:0", "!param:rawGroupPubNonce"},
		{"call:tss.PaddingBytes", "call:PublicKey.X", "param:rawGroupPubKey", "const:32", "!param:rawGroupPubNonce"},
		{"^call:tss.Hash", "param:data"},
	}
	for i, pats := range want {
		if !outer.Args[i].Has(pats...) {
			r.Bad(key+"|layout", desc, w.FnPos(fn), fmt.Sprintf("element %d is %s, expected {%s}", i, clip(outer.Args[i].String(), 120), strings.Join(pats, ", ")))
			return
		}
	}
	r.OK(key+"|layout", desc, w.FnPos(fn), "eight elements in the documented order")
}
