package main

import (
	"fmt"
	"go/types"
	"sort"
	"strings"

	"golang.org/x/tools/go/ssa"
)

// E15 wire fields are validated by their own type. For a message type M of a module's types package: every field
// (recursively through structs of the same package and through slices) whose type T is declared in pkg/tss and has a
// method `Validate() error` must be the receiver of a call of T.Validate reachable from M.ValidateBasic inside the types
// package. Calling a COMPONENT's Validate (Point.Validate on Signature.R()) does not count: the components read a
// prefix and accept trailing bytes that the strict parser of the aggregator later rejects (seed C03-4).

type wireField struct{ Owner, Field, T, Elem string }

func hasValidate(t *types.Named) bool {
	for i := 0; i < t.NumMethods(); i++ {
		m := t.Method(i)
		if m.Name() != "Validate" {
			continue
		}
		sig := m.Type().(*types.Signature)
		if sig.Params().Len() == 0 && sig.Results().Len() == 1 && isErrorType(sig.Results().At(0).Type()) {
			return true
		}
	}
	return false
}

func wireFieldsOf(t types.Type, typesPkg *types.Package, leafPkgSuffix string, seen map[string]bool, out *[]wireField) {
	n := namedOf(t)
	if n == nil || n.Obj().Pkg() != typesPkg || seen[n.Obj().Name()] {
		return
	}
	st, ok := n.Underlying().(*types.Struct)
	if !ok {
		return
	}
	seen[n.Obj().Name()] = true
	for i := 0; i < st.NumFields(); i++ {
		f := st.Field(i)
		ft := f.Type()
		for {
			switch x := ft.(type) {
			case *types.Slice:
				ft = x.Elem()
				continue
			case *types.Pointer:
				ft = x.Elem()
				continue
			case *types.Alias:
				ft = types.Unalias(x)
				continue
			}
			break
		}
		fn := namedOf(ft)
		if fn == nil || fn.Obj().Pkg() == nil {
			continue
		}
		if strings.HasSuffix(fn.Obj().Pkg().Path(), leafPkgSuffix) && hasValidate(fn) {
			elem := ""
			if sl, ok := fn.Underlying().(*types.Slice); ok {
				if en := namedOf(sl.Elem()); en != nil && en.Obj().Pkg() == fn.Obj().Pkg() && hasValidate(en) {
					elem = en.Obj().Name()
				}
			}
			*out = append(*out, wireField{n.Obj().Name(), f.Name(), fn.Obj().Name(), elem})
		} else if fn.Obj().Pkg() == typesPkg {
			wireFieldsOf(fn, typesPkg, leafPkgSuffix, seen, out)
		}
	}
}

func (r *Report) WireFieldsValidated(key, typesPkgRel string, msgs []string, minFields int) {
	w := r.W
	p := w.PkgBy[typesPkgRel]
	d := "every pkg/tss-typed field of the message is checked by its own type's Validate() on the way from ValidateBasic"
	if p == nil {
		r.Unres(key+"|pkg", d, "package "+typesPkgRel+" not loaded")
		return
	}
	total := 0
	for _, m := range msgs {
		obj := p.Types.Scope().Lookup(m)
		if obj == nil {
			r.Unres(key+"|"+m, d, "message type not found")
			continue
		}
		var req []wireField
		wireFieldsOf(obj.Type(), p.Types, "pkg/tss", map[string]bool{}, &req)
		vb := w.Fn(typesPkgRel + "." + m + ".ValidateBasic")
		if vb == nil {
			r.Unres(key+"|"+m, d, "ValidateBasic not found")
			continue
		}
		// collect (field atom, T) of every T.Validate call reachable within the types package
		type vk struct{ field, t string }
		validated := map[vk]string{}
		seen := map[*ssa.Function]bool{}
		var visit func(fn *ssa.Function, depth int)
		visit = func(fn *ssa.Function, depth int) {
			if seen[fn] || depth > 4 || len(fn.Blocks) == 0 {
				return
			}
			seen[fn] = true
			w.FuncsAnalysed[fn] = true
			for _, b := range fn.Blocks {
				for _, in := range b.Instrs {
					ci, ok := in.(ssa.CallInstruction)
					if !ok {
						continue
					}
					c := ci.Common()
					callee := c.StaticCallee()
					if callee == nil {
						continue
					}
					if callee.Pkg != nil && callee.Pkg.Pkg == p.Types {
						visit(callee, depth+1)
						continue
					}
					if callee.Name() != "Validate" || callee.Signature.Recv() == nil {
						continue
					}
					rn := namedOf(callee.Signature.Recv().Type())
					if rn == nil || rn.Obj().Pkg() == nil || !strings.HasSuffix(rn.Obj().Pkg().Path(), "pkg/tss") {
						continue
					}
					rv := recvValue(c)
					if rv == nil {
						continue
					}
					w.SitesExamined++
					for a := range Render(rv).Atoms() {
						if strings.HasPrefix(a, "field:") {
							validated[vk{strings.TrimPrefix(a, "field:"), rn.Obj().Name()}] = w.Pos(in.Pos())
						}
					}
				}
			}
		}
		visit(vb, 0)
		sort.Slice(req, func(i, j int) bool { return req[i].Owner+req[i].Field < req[j].Owner+req[j].Field })
		for _, f := range req {
			total++
			k := fmt.Sprintf("%s|%s|%s.%s:%s", key, m, f.Owner, f.Field, f.T)
			pos, ok := validated[vk{f.Owner + "." + f.Field, f.T}]
			if !ok && f.Elem != "" { // a named slice type validated element by element is validated
				pos, ok = validated[vk{f.Owner + "." + f.Field, f.Elem}]
			}
			if ok {
				r.OK(k, d, pos, "tss."+f.T+".Validate on "+f.Owner+"."+f.Field)
				continue
			}
			var other []string
			for v := range validated {
				if v.field == f.Owner+"."+f.Field {
					other = append(other, "tss."+v.t+".Validate")
				}
			}
			sort.Strings(other)
			r.Bad(k, d, w.FnPos(vb), fmt.Sprintf("field %s.%s of type tss.%s is never passed to tss.%s.Validate on the way from %s.ValidateBasic (calls seen on it: %v): malformed or over-long encodings reach the handler", f.Owner, f.Field, f.T, f.T, m, other))
		}
	}
	if total < minFields {
		r.Unres(key+"|count", d, fmt.Sprintf("only %d wire fields found, expected >= %d", total, minFields))
	}
}
