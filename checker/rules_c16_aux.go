package main

import (
	"go/ast"
	"go/types"
	"strings"
)

// c16Wiring: appKeepers.RestakeKeeper.Hooks() is an argument of stakingtypes.NewMultiStakingHooks(...) which is
// passed to StakingKeeper.SetHooks.
func c16Wiring(r *Report) {
	w := r.W
	d := "RestakeKeeper.Hooks() is registered through StakingKeeper.SetHooks(NewMultiStakingHooks(...))"
	p := w.PkgBy["app/keepers"]
	if p == nil {
		r.Unres("hooks-wiring", d, "package app/keepers not found")
		return
	}
	found := false
	pos := "-"
	for _, f := range p.Syntax {
		ast.Inspect(f, func(n ast.Node) bool {
			ce, ok := n.(*ast.CallExpr)
			if !ok {
				return true
			}
			sel, ok := ce.Fun.(*ast.SelectorExpr)
			if !ok || sel.Sel.Name != "SetHooks" {
				return true
			}
			// receiver must be the staking keeper
			if tv, ok := p.TypesInfo.Types[sel.X]; !ok || !strings.Contains(tv.Type.String(), "x/staking/keeper") {
				return true
			}
			for _, a := range ce.Args {
				inner, ok := a.(*ast.CallExpr)
				if !ok {
					continue
				}
				if fn, ok := inner.Fun.(*ast.SelectorExpr); !ok || fn.Sel.Name != "NewMultiStakingHooks" {
					continue
				}
				for _, h := range inner.Args {
					hc, ok := h.(*ast.CallExpr)
					if !ok {
						continue
					}
					hs, ok := hc.Fun.(*ast.SelectorExpr)
					if !ok || hs.Sel.Name != "Hooks" {
						continue
					}
					if tv, ok := p.TypesInfo.Types[hs.X]; ok {
						if n := namedOf(tv.Type); n != nil && n.Obj().Pkg() != nil && strings.HasSuffix(n.Obj().Pkg().Path(), "x/restake/keeper") {
							found = true
							pos = w.Pos(hc.Pos())
						}
					}
				}
			}
			return true
		})
	}
	if found {
		r.OK("hooks-wiring", d, pos, "registered")
	} else {
		r.Bad("hooks-wiring", d, "app/keepers/keepers.go", "restake hooks are not among the staking hooks: undelegation would bypass the lock check")
	}
	// and Hooks implements the interface with the two checking methods non-trivial (bodies call isAbleToUnbond)
	_ = types.Universe
}

// c16KeyLayout: LockByPowerIndexKey appends 8 big-endian power bytes right after LocksByPowerIndexKey(address), and
// SplitLockByPowerIndexKey reads 8 big-endian bytes at offset 2+addrLen.
func c16KeyLayout(r *Report) {
	wk := "x/restake/types.LockByPowerIndexKey"
	rd := "x/restake/types.SplitLockByPowerIndexKey"
	r.ArgHas("writer-power-bigendian", wk, "bigEndian.PutUint64", 1, 1, "call:Int.Uint64", "field:Lock.Power")
	r.ArgHas("writer-power-8-bytes", wk, "bigEndian.PutUint64", 0, 1, "^slice", "const:8")
	r.Exists("writer-order-prefix-addr-power-key", wk, RetValEff(0, "call:builtin.append", "call:types.LocksByPowerIndexKey", "field:Lock.Key"), 1)
	r.ArgHas("reader-power-bigendian", rd, "bigEndian.Uint64", 0, 1, "^slice", "param:key", "const:2", "const:8", "binop:+")
	r.Exists("reader-power", rd, CallEff("math.NewIntFromUint64", "call:bigEndian.Uint64"), 1)
	r.ArgHas("prefix-addr-len", "x/restake/types.LocksByPowerIndexKey", "address.MustLengthPrefix", 0, 1, "param:addr")
}
