package main

import (
	"fmt"
	"go/ast"
	"go/token"
	"go/types"
	"strings"
)

// moduleOrder: the constant module names returned by app.<fnName>() (a single composite literal), in order.
func (w *World) moduleOrder(fnName string) ([]string, string) {
	p := w.PkgBy["app"]
	if p == nil {
		return nil, "-"
	}
	for _, f := range p.Syntax {
		for _, decl := range f.Decls {
			fd, ok := decl.(*ast.FuncDecl)
			if !ok || fd.Body == nil || fd.Name.Name != fnName {
				continue
			}
			cl, ok := singleReturnExpr(p.TypesInfo, fd).(*ast.CompositeLit)
			if !ok {
				continue
			}
			var names []string
			for _, e := range cl.Elts {
				if tv, ok := p.TypesInfo.Types[e]; ok && tv.Value != nil {
					names = append(names, strings.Trim(tv.Value.ExactString(), `"`))
				}
			}
			return names, w.Pos(fd.Pos())
		}
	}
	return nil, "-"
}

// OrderBefore: in app.<fnName>() module `first` is listed before module `then` (both by the value of their ModuleName
// constant). Used for orderings a property depends on: the feeds end-blocker iterates the bonded validator set and
// measures quorum against the bonded total, so it must see the validator-set update staking applies in ITS end-blocker
// (seed C06-7 moved staking behind tunnel).
func (r *Report) OrderBefore(key, fnName, first, then, why string) {
	names, pos := r.W.moduleOrder(fnName)
	d := fmt.Sprintf("app.%s lists %s before %s: %s", fnName, first, then, why)
	k := fmt.Sprintf("%s|%s|%s<%s", key, fnName, first, then)
	if names == nil {
		r.Unres(k, d, "order function not found or not a literal")
		return
	}
	i, j := -1, -1
	for n, m := range names {
		if m == first {
			i = n
		}
		if m == then {
			j = n
		}
	}
	r.W.SitesExamined++
	switch {
	case i < 0 || j < 0:
		r.Unres(k, d, fmt.Sprintf("module not listed (%s at %d, %s at %d)", first, i, then, j))
	case i < j:
		r.OK(k, d, pos, fmt.Sprintf("positions %d < %d", i, j))
	default:
		r.Bad(k, d, pos, fmt.Sprintf("%s is at position %d, after %s at %d", first, i, then, j))
	}
}

// singleReturnExpr: the expression e of a function whose whole body is `return e`, or `t := e; return t` /
// `var t = e; return t` with t a local defined by that statement (a temporary defined once and returned at once
// denotes the same value); nil for every other body.
func singleReturnExpr(info *types.Info, fd *ast.FuncDecl) ast.Expr {
	if fd == nil || fd.Body == nil || len(fd.Body.List) < 1 || len(fd.Body.List) > 2 {
		return nil
	}
	rs, ok := fd.Body.List[len(fd.Body.List)-1].(*ast.ReturnStmt)
	if !ok || len(rs.Results) != 1 {
		return nil
	}
	ret := ast.Unparen(rs.Results[0])
	if len(fd.Body.List) == 1 {
		return ret
	}
	id, ok := ret.(*ast.Ident)
	if !ok || info.Uses[id] == nil {
		return nil
	}
	switch st := fd.Body.List[0].(type) {
	case *ast.AssignStmt:
		if st.Tok == token.DEFINE && len(st.Lhs) == 1 && len(st.Rhs) == 1 {
			if l, ok := st.Lhs[0].(*ast.Ident); ok && info.Defs[l] == info.Uses[id] {
				return ast.Unparen(st.Rhs[0])
			}
		}
	case *ast.DeclStmt:
		if gd, ok := st.Decl.(*ast.GenDecl); ok && gd.Tok == token.VAR && len(gd.Specs) == 1 {
			if vs, ok := gd.Specs[0].(*ast.ValueSpec); ok && len(vs.Names) == 1 && len(vs.Values) == 1 && info.Defs[vs.Names[0]] == info.Uses[id] {
				return ast.Unparen(vs.Values[0])
			}
		}
	}
	return nil
}
