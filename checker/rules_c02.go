package main

import (
	"fmt"
	"go/ast"
	"go/types"
	"sort"
	"strings"

	"golang.org/x/tools/go/ssa"
)

func init() { props["C02"] = c02 }

func fnSet(ms ...map[*ssa.Function]string) []*ssa.Function {
	var out []*ssa.Function
	seen := map[*ssa.Function]bool{}
	for _, m := range ms {
		for f := range m {
			if !seen[f] {
				seen[f] = true
				out = append(out, f)
			}
		}
	}
	sort.Slice(out, func(i, j int) bool { return FuncKey(out[i]) < FuncKey(out[j]) })
	return out
}

const (
	whyCodecU = "codec.MustUnmarshal of bytes this module itself wrote with MustMarshal of the same type (store is only written through the typed setters; C01/C05/... R1 ownership rules)"
	whyCodecM = "codec.MustMarshal of a generated proto message: gogoproto Marshal of a plain struct cannot fail"
	whyAddr   = "MustAccAddressFromBech32 of an address string stored by this chain after it was validated at message entry (ValidateBasic / AccAddressFromBech32 in the handler)"
	whyLenPfx = "address.MustLengthPrefix panics only for addresses longer than 255 bytes; sdk addresses are 20 or 32 bytes"
)

// abciPanicTable: the frozen accepted set of (function, panic kind) pairs reachable unrecovered from a
// begin/end-block root. Each line carries the invariant that is claimed to make it unreachable. The tool does
// NOT prove these invariants; it proves that nothing outside this table exists.
var abciPanicTable = []panicAllow{
	{"*", "call:github.com/cosmos/cosmos-sdk/codec.BinaryCodec.MustUnmarshal", 0, whyCodecU},
	{"*", "call:github.com/cosmos/cosmos-sdk/codec.BinaryCodec.MustMarshal", 0, whyCodecM},
	{"*", "call:github.com/cosmos/cosmos-sdk/types.MustAccAddressFromBech32", 0, whyAddr},
	{"*", "call:github.com/cosmos/cosmos-sdk/types/address.MustLengthPrefix", 0, whyLenPfx},
	// dependency arithmetic that panics on a value-dependent condition (reviewed: the guard that excludes the condition)
	{"x/tunnel/keeper.calculateDeviationBPS", "may-panic:cosmossdk.io/math.Int.Quo (panics on division by zero)", 1, "divides by oldPrice only after the oldPrice.IsZero() early return (C08.R3 zero-old-price gate)"},
	{"x/feeds/keeper.Keeper.CalculatePrices$1", "may-panic:cosmossdk.io/math.Int.Uint64 (panics if the value does not fit uint64)", 1, "a validator's bonded tokens are bounded by the uband supply (about 1.4e14), five orders of magnitude below 2^64; ASSUMPTION about the supply, not proved"},
	{"x/bandtss/keeper.Keeper.AllocateTokens", "may-panic:cosmossdk.io/math.LegacyDec.QuoTruncate (panics on division by zero)", 1, "divides by len(validMembers) after the len(validMembers) == 0 early return (C14.R4 tss-nothing-if-no-recipient)"},
	{"x/oracle/keeper.Keeper.AllocateTokens", "may-panic:cosmossdk.io/math.LegacyDec.QuoTruncate (panics on division by zero)", 1, "divides by totalPower after the totalPower == 0 early return (C14.R2)"},
	{"x/bandtss/keeper.Keeper.AllocateTokens", "may-panic:cosmossdk.io/math.LegacyNewDecWithPrec (panics if prec > 18)", 1, "precision is the constant 2"},
	{"x/oracle/keeper.Keeper.AllocateTokens", "may-panic:cosmossdk.io/math.LegacyNewDecWithPrec (panics if prec > 18)", 1, "precision is the constant 2"},
	{"x/bandtss/keeper.Keeper.AllocateTokens", "may-panic:github.com/cosmos/cosmos-sdk/types.Coins.MulInt (panics if the multiplier is zero)", 1, "multiplier is len(validMembers), non-zero after the early return"},
	{"x/bandtss/keeper.Keeper.GetSigningFee", "may-panic:github.com/cosmos/cosmos-sdk/types.Coins.MulInt (panics if the multiplier is zero)", 1, "multiplier is the current group's threshold; groups are created with threshold >= 1 (MsgTransitionGroup.ValidateBasic; DKG needs threshold commits)"},
	{"x/bandtss/keeper.Keeper.AllocateTokens", "may-panic:github.com/cosmos/cosmos-sdk/types.Coins.Sub (panics if any amount would go negative)", 1, "subtracts n * trunc(share/n) from the transferred amount (C14.R3 community-fund-is-transferred-minus-paid)"},
	{"x/oracle/keeper.Keeper.AllocateTokens", "may-panic:github.com/cosmos/cosmos-sdk/types.DecCoins.Sub (panics if any amount would go negative)", 2, "subtracts the truncated community share and the truncated per-validator shares, whose fractions sum to <= 1 because every one is QuoTruncate(totalPower) of a summand of totalPower (C14.R2 share-by-power-fraction; seed C14-4 is the counter-example with Quo)"},
	{"pkg/bandrng.Rng.NextUint64", "panic", 1, "hmac-drbg Generate fails only when the reseed counter (2^48 requests) is exhausted; an Rng lives for one selection"},
	{"pkg/filecache.Cache.MustGetFile", "panic", 1, "oracle script files are written to the cache by AddOracleScriptFile before the script record is stored; node-local file loss is an operator fault, not a consensus input"},
	{"x/bandtss/keeper.Keeper.AddMembers", "call:x/bandtss/types.TSSKeeper.MustGetMembers", 1, "called with the incoming group id of a transition whose group tss created (members exist as long as the group does)"},
	{"x/bandtss/keeper.Keeper.AllocateTokens", "call:x/bandtss/types.TSSKeeper.MustGetMembers", 1, "guarded by currentGroupID != 0; the current group was installed by ExecuteGroupTransition from an existing tss group"},
	{"x/bandtss/keeper.Keeper.DeleteMembers", "call:x/bandtss/types.TSSKeeper.MustGetMembers", 1, "called with the current or incoming group id of a live transition"},
	{"x/bandtss/keeper.Keeper.MustGetSigning", "panic", 1, "called with an id taken from the signing-id mapping that AddSigning wrote together with the signing"},
	{"x/bandtss/keeper.TSSCallback.OnGroupCreationCompleted", "call:x/bandtss/types.TSSKeeper.MustGetGroup", 1, "the callback is invoked by tss for a group it just processed"},
	{"x/bandtss/keeper.TSSCallback.OnGroupCreationCompleted", "panic", 1, "AddMembers on a freshly created group whose members are not yet bandtss members"},
	{"x/bandtss/keeper.TSSCallback.OnSigningCompleted", "panic", 3, "SendCoinsFromModuleToAccount from escrow funded by createSigningRequest with FeePerSigner x threshold; AddMembers of a completed group (C13/C18 rules cover the structural half)"},
	{"x/bandtss/keeper.TSSCallback.OnSigningTimeout", "call:x/bandtss/types.TSSKeeper.MustGetSigning", 1, "the callback is invoked by tss with the id of a signing it holds"},
	{"x/bandtss/keeper.TSSCallback.OnSigningTimeout", "panic", 1, "DeactivateMember of a member just read as existing and active"},
	{"x/oracle/keeper.Keeper.AllocateTokens", "panic", 1, "FundCommunityPool from the oracle module account that just received the coins"},
	{"x/oracle/keeper.Keeper.MustGetOracleScript", "panic", 1, "script id validated at request time; oracle scripts are never deleted"},
	{"x/oracle/keeper.Keeper.MustGetRequest", "panic", 1, "ids come from the pending list / the (lastExpired, count] range; requests are deleted only by the expiry cursor after it passed them"},
	{"x/oracle/types.OracleResponsePacketData.GetBytes", "call:github.com/cosmos/cosmos-sdk/codec.ProtoCodec.MustMarshalJSON", 1, "JSON marshalling of a generated proto message"},
	{"x/oracle/types.OracleResponsePacketData.GetBytes", "call:github.com/cosmos/cosmos-sdk/types.MustSortJSON", 1, "re-sorting JSON that was just produced by the codec"},
	{"x/tss/keeper.Keeper.MustGetGroup", "panic", 1, "group ids come from stored signings / pending-process lists written with the group"},
	{"x/tss/keeper.Keeper.MustGetMembers", "panic", 1, "members are written with the group and never deleted"},
	{"x/tss/keeper.Keeper.MustGetSigningAttempt", "panic", 1, "attempt ids come from the expiration list written together with the attempt"},
	{"x/tss/keeper.Keeper.MustGetSigning", "panic", 1, "signing ids come from the pending/expiration lists written with the signing"},
	{"x/tss/types.ContentRouter.GetRoute", "panic", 1, "routes are registered at app construction for every Content type (C11.R4 checks the registration)"},
}

func c02(r *Report) propMeta {
	w := r.W
	roots := w.ComputeRoots()
	r.Rule("C02.R0", "root enumeration by type")
	d := "consensus entry points are enumerated by type"
	for name, m := range map[string]map[*ssa.Function]string{"abci": roots.ABCI, "msg": roots.Msg, "ibc": roots.IBC, "hook": roots.Hook, "ante": roots.Ante} {
		min := map[string]int{"abci": 8, "msg": 38, "ibc": 9, "hook": 5, "ante": 1}[name]
		if len(m) < min {
			r.Unres("roots|"+name, d, fmt.Sprintf("%d %s roots found, expected >= %d", len(m), name, min))
		} else {
			r.OK("roots|"+name, d, "-", fmt.Sprintf("%d roots", len(m)))
		}
	}

	// R1 determinism lint
	r.Rule("C02.R1", "E8 determinism lint")
	var genesis map[*ssa.Function]string = map[*ssa.Function]string{}
	for k, f := range w.Funcs {
		if strings.HasPrefix(k, "x/") && (strings.HasSuffix(k, ".InitGenesis") || strings.HasSuffix(k, "AppModule.InitGenesis")) && inRepoScope(f) {
			genesis[f] = "genesis"
		}
	}
	r.Lint("lint", fnSet(roots.Msg, roots.ABCI, roots.IBC, roots.Hook, roots.Ante, genesis), c02LintAllow, 600)

	r.PositiveLint("positive")

	// R2 panic census
	r.Rule("C02.R2", "E7 unrecovered-panic census")
	if dumpCensus {
		cen := w.PanicCensus(fnSet(roots.ABCI))
		for _, k := range sortedKeys(cen) {
			s := cen[k]
			fmt.Printf("CENSUS\t%s\t%s\t%d\t%s\t%v\n", s.Fn, s.Kind, s.N, s.Pos, s.Path)
		}
	}
	r.Census("abci-panics", fnSet(roots.ABCI), abciPanicTable, "a begin/end-block root")

	r.NotAfter("resolve-before-expiry (invariant behind the accepted MustGetRequest panic)", "x/oracle.EndBlocker", CallEff("Keeper.ResolveRequest"), CallEff("Keeper.ProcessExpiredRequests"))
	r.NotAfter("aggregate-before-expiry (invariant behind the accepted MustGetSigningAttempt panic)", "x/tss/keeper.Keeper.HandleSigningEndBlock", CallEff("Keeper.AggregatePartialSignatures"), CallEff("Keeper.HandleExpiredSignings"))

	r.Rule("C02.R10", "E17 error-return census of begin/end-block roots")
	r.ErrorCensus("abci-errors", fnSet(roots.ABCI), abciErrTable, 5)
	// the one repo-made error in the table is unreachable because of this gate (finding F4: price_quorum "0" reached the
	// median with an empty list and the feeds end-blocker returned its error)
	r.Gate("median-needs-available-power", "x/feeds/keeper.Keeper.CalculatePrice", CallEff("types.MedianValidatorPriceInfos"), []Cond{
		{Op: "BOOL", A: []string{"^call:Int.IsPositive", "extract:1", "call:types.CalculatePricesPowers"}, Want: true, Desc: "availablePower.IsPositive()"}}, GateOpts{})

	r.Rule("C02.R11", "E17 error-return census of the delegation hooks (run from begin-block slashing)")
	if r.HookChain("hook-chain") {
		r.ErrorCensus("hook-errors", w.delegationHookRoots(), hookErrTable, 3)
		r.Census("hook-panics", w.delegationHookRoots(), hookPanicTable, "a staking delegation hook (runs inside begin-block slashing)")
	}

	r.Rule("C02.R9", "E16 unsigned-subtraction census")
	r.UnsignedSubCensus("usub", fnSet(roots.Msg, roots.ABCI, roots.IBC, roots.Hook, roots.Ante), c02UsubAllow, 8)

	r.Rule("C02.R8", "trusted base cross-checked against the dependency source")
	r.TrustedBase("trusted-base")

	r.Rule("C02.R7", "swallowed-error census in begin/end-block code")
	r.Swallowed("swallowed", fnSet(roots.ABCI), c02SwallowAllow, 3)

	r.Rule("C02.R6", "parameter safety: divisors and percentages")
	r.ParamSafety("param-safety", fnSet(roots.Msg, roots.ABCI, roots.IBC, roots.Hook, roots.Ante), 3)

	r.Rule("C02.R3", "E6 conditional commit + recover barrier")
	// R3 cross-module calls from end-block: commit boundary and recover barrier
	r.Commit("bandtss-create-signing", "x/bandtss/keeper.Keeper.createSigningRequest", "cache", roots, []string{"x/oracle/keeper.Keeper.safeCreateSigning", "x/tunnel/keeper.Keeper.ProduceActiveTunnelPacket"})
	r.Commit("tss-initiate-round", "x/tss/keeper.Keeper.InitiateNewSigningRound", "cache", roots, []string{"x/tss/keeper.Keeper.HandleSigningEndBlock", "x/bandtss/keeper.TSSCallback.OnGroupCreationCompleted"})
	r.Commit("bandtss-create-signing-recover", "x/bandtss/keeper.Keeper.CreateDirectSigningRequest", "recover", roots, []string{"x/oracle/keeper.Keeper.safeCreateSigning"})
	r.Commit("tunnel-route-recover", "x/bandtss/keeper.Keeper.CreateTunnelSigningRequest", "recover", roots, []string{"x/tunnel/keeper.Keeper.SendPacket"})
	r.Commit("tunnel-ibc-recover", "x/tunnel/keeper.Keeper.SendIBCPacket", "recover", roots, []string{"x/tunnel/keeper.Keeper.SendPacket"})
	r.Commit("tunnel-create-packet", "x/tunnel/keeper.Keeper.CreatePacket", "cache", roots, []string{"x/tunnel/keeper.Keeper.ProduceActiveTunnelPacket"})

	// R4 module order: literal of constants, every begin/end-block module exactly once
	r.Rule("C02.R4", "E9 table agreement (module order)")
	c02Order(r, roots)

	// R5 entropy
	r.Rule("C02.R5", "E1 + E12 entropy sources")
	r.Callers("rng-callers", "pkg/bandrng.NewRng", []string{"x/oracle/keeper.Keeper.GetRandomValidators", "x/tss/keeper.Keeper.GetRandomMembers"}, []string{"x/oracle/keeper.Keeper.GetRandomValidators", "x/tss/keeper.Keeper.GetRandomMembers"})
	r.ArgHas("seed", "x/oracle/keeper.Keeper.GetRandomValidators", "bandrng.NewRng", 0, 1, "call:RollingseedKeeper.GetRollingSeed")
	r.ArgHas("nonce", "x/oracle/keeper.Keeper.GetRandomValidators", "bandrng.NewRng", 1, 1, "param:id")
	r.ArgHas("pers", "x/oracle/keeper.Keeper.GetRandomValidators", "bandrng.NewRng", 2, 1, "call:Context.ChainID")
	r.ArgHas("seed", "x/tss/keeper.Keeper.GetRandomMembers", "bandrng.NewRng", 0, 1, "call:RollingseedKeeper.GetRollingSeed")
	r.ArgHas("nonce", "x/tss/keeper.Keeper.GetRandomMembers", "bandrng.NewRng", 1, 1, "param:nonce")
	r.ArgHas("pers", "x/tss/keeper.Keeper.GetRandomMembers", "bandrng.NewRng", 2, 1, "call:Context.ChainID")
	for _, f := range []string{"x/oracle/keeper.Keeper.GetRandomValidators", "x/tss/keeper.Keeper.GetRandomMembers"} {
		for i := 0; i < 3; i++ {
			r.ArgLacks("no-other-entropy", f, "bandrng.NewRng", i, "call:Context.BlockTime", "call:Context.BlockHeight", "call:time.Now", "call:Context.TxBytes")
		}
	}
	r.ArgHas("rolling-seed-update", "x/rollingseed.BeginBlocker", "Keeper.SetRollingSeed", 1, 1, "call:Keeper.GetRollingSeed", "call:Context.HeaderInfo", "field:Info.Hash")

	return propMeta{
		Decided: []string{
			"R0 consensus roots enumerated by type (msg servers, AppModule Begin/EndBlock, IBC callbacks, staking hooks, ante)",
			"R1 no wall-clock/random/goroutine/select/env/float construct and no unsorted map iteration in any function reachable from those roots or InitGenesis (map ranges: collect-and-sort idiom or frozen order-insensitive exception)",
			"R2 every explicit panic / Must* call reachable without a recover barrier from a begin/end-block root is in the frozen accepted table (a new one fails with its call path)",
			"R3 signing creation / packet sending reached from end-block sits under a CacheContext whose writeFn is gated by err==nil, and cross-module routes sit under a defer-recover that assigns the named error result",
			"R4 orderBeginBlockers/orderEndBlockers are literals of constants containing every module that implements Begin/EndBlock exactly once",
			"R11 the staking delegation hooks are reached from begin-block slashing with their error returned to BeginBlocker (nine facts read off the SDK source); the origins of the errors the repo's hooks return are censused the same way: the lock veto ErrUnableToUndelegate is such an origin (known finding F5: slashing a redelegation of a delegator whose power is locked halts the chain)", "R2 (extended) the census also counts calls of dependency arithmetic that is documented to panic on a value-dependent condition (Int.Quo/Uint64/Int64, LegacyDec.Quo*, Coins.Sub/MulInt, DecCoins.Sub, NewCoin…): 10 sites in begin/end-block code, each with the guard that excludes the condition", "R10 every origin of an error that a begin/end-block root can return (a returned error fails FinalizeBlock on every node, like a panic) is followed interprocedurally to a fresh error or an SDK keeper call and must be in a reviewed table of 12; the only repo-made one (median of an empty list) is gated by availablePower > 0 (finding F4)", "R9 every unsigned subtraction in consensus-reachable repo code is implied non-wrapping by the comparisons on all paths to it (constants included) or is one of the reviewed data-structure invariants (a wrapped value ends as an out-of-range index, an endless loop or a silently bypassed bound)", "R8 the two atomicity axioms (baseapp.runTx branch-and-write-on-success under recover; ibc-go RecvPacket cache-and-write-on-successful-ack) are read off the dependency source at the go.mod versions", "R7 every error that begin/end-block code tests and then does not propagate is in a frozen, justified table (16 sites today); a new swallowed error fails with its call path", "R6 every governance parameter that consensus-reachable code divides by (integer / or %) is validated positive, and every one used as a percentage (NewDecWithPrec(x,2)) is validated <= 100 in its Params.Validate (finding F3, fixed)", "R5 bandrng.NewRng is called only by the two committee selectors and its inputs derive only from the rolling seed, the id/nonce parameter and the chain id",
		},
		Undecided: []string{"feasibility of the accepted panic sites (each rests on a store invariant recorded in the table, not proven)", "determinism of dependencies (SDK, go-owasm, IAVL)", "equality of gas across nodes beyond the absence of nondeterministic constructs"},
		Assume:    []string{"begin/end-block panics are not recovered by the SDK; message panics are (runTx)", "VTA call graph over-approximates dynamic dispatch in repo code", "KV iterators are ordered"},
	}
}

var dumpCensus = false

const (
	whyRO    = "the callee only reads state (and parses) before any failure point"
	whyCache = "the callee runs on a CacheContext whose writeFn is gated by err == nil (checked by the E6 rules)"
)

var c02SwallowAllow = []swallowAllow{
	{"pkg/tickmath.PriceToTick", "tickmath.tickToPriceX96", "pure function"},
	{"x/bandtss/keeper.Keeper.createSigningRequest", "TSSKeeper.RequestSigning", whyCache + " (incoming-group signing is best effort, C18.R6)"},
	{"x/bandtss/keeper.TSSCallback.OnGroupCreationCompleted", "Keeper.CreateTransitionSigning", whyCache + "; on failure the transition is ended"},
	{"x/bandtss/keeper.TSSCallback.OnSigningTimeout", "Keeper.GetMember", whyRO},
	{"x/feeds/keeper.Keeper.CalculatePrices$1", "types.ValAddressFromBech32", whyRO},
	{"x/feeds/keeper.Keeper.CalculatePrices", "Keeper.GetValidatorPriceList", whyRO + " (a validator without a price list simply has no prices)"},
	{"x/feeds/keeper.Keeper.GetSignalTotalPowersByPower", "Keeper.GetSignalTotalPower", whyRO},
	{"x/oracle/keeper.Keeper.AllocateTokens", "types.ValAddressFromBech32", whyRO},
	{"x/oracle/keeper.Keeper.AllocateTokens", "StakingKeeper.ValidatorByConsAddr", whyRO + " (a vote of an unknown validator earns nothing)"},
	{"x/oracle/keeper.Keeper.ResolveRequest", "Vm.Execute", "the owasm VM is deterministic and side-effect free; an execution error resolves the request as FAILURE"},
	{"x/oracle/keeper.Keeper.ResolveSuccess", "Keeper.safeCreateSigning", whyCache + " plus a recover barrier; the failure is recorded in the signing result"},
	{"x/oracle/keeper.Keeper.SaveResult", "ICS4Wrapper.SendPacket", "ibc-go channel SendPacket validates before it writes the sequence and the commitment; a failed send is reported by an event (the result is already stored)"},
	{"x/tss/keeper.Keeper.GetSigningResult", "Keeper.GetSigningAttempt", whyRO},
	{"x/tss/keeper.Keeper.HandleSigningEndBlock", "Keeper.AggregatePartialSignatures", "AggregatePartialSignatures writes nothing on its failure paths (C03.R4 / C10.R3 count rule); the signing is retried"},
	{"x/tss/keeper.Keeper.HandleSigningEndBlock", "Keeper.InitiateNewSigningRound", whyCache + "; on failure the signing is marked FALLEN"},
	{"x/tunnel/keeper.Keeper.ProduceActiveTunnelPackets", "Keeper.ProduceActiveTunnelPacket", "read-only until ProducePacket, which runs on a CacheContext (C08.R1); failures are reported by an event per tunnel"},
}

var c02LintAllow = []lintAllow{
	{"x/tss/keeper.Keeper.GetRandomMembers", "unstable sort sort.Slice", "sorts the selected members by member id; ids are unique within a group, so there are no equal elements to reorder"},
	{"pkg/tss.CommitmentIDEList.Sort", "unstable sort sort.Slice", "sorts by member id and then REJECTS repeated ids, so a list with equal elements never leaves the function"},
	{"x/bandtss/types.validateTimeDuration$1", "floating-point comparison", "sign test `Duration.Seconds() <= 0` in parameter validation: the outcome depends only on the sign of the int64 duration, not on rounding"},
}

// c02Order: order functions return a composite literal of constants and contain each module with a Begin/EndBlock
// method exactly once.
func c02Order(r *Report, roots *Roots) {
	w := r.W
	p := w.PkgBy["app"]
	d := "app/modules.go order functions are literals of constants listing every begin/end-block module exactly once"
	if p == nil {
		r.Unres("order", d, "package app not found")
		return
	}
	lists := map[string][]string{}
	for _, f := range p.Syntax {
		for _, decl := range f.Decls {
			fd, ok := decl.(*ast.FuncDecl)
			if !ok || fd.Body == nil {
				continue
			}
			name := fd.Name.Name
			if name != "orderBeginBlockers" && name != "orderEndBlockers" && name != "orderInitBlockers" {
				continue
			}
			re := singleReturnExpr(p.TypesInfo, fd)
			if re == nil {
				r.Bad("order|"+name+"|shape", d, w.Pos(fd.Pos()), "function body is not a single return of a literal (directly or through one temporary)")
				continue
			}
			cl, ok := re.(*ast.CompositeLit)
			if !ok {
				r.Bad("order|"+name+"|shape", d, w.Pos(fd.Pos()), "returned value is not a composite literal")
				continue
			}
			var names []string
			allConst := true
			for _, e := range cl.Elts {
				tv, ok := p.TypesInfo.Types[e]
				if !ok || tv.Value == nil {
					allConst = false
					continue
				}
				names = append(names, strings.Trim(tv.Value.ExactString(), `"`))
			}
			if !allConst {
				r.Bad("order|"+name+"|const", d, w.Pos(fd.Pos()), "an element is not a compile-time constant")
				continue
			}
			lists[name] = names
			dup := map[string]int{}
			for _, n := range names {
				dup[n]++
			}
			bad := ""
			for n, c := range dup {
				if c > 1 {
					bad = n
				}
			}
			if bad != "" {
				r.Bad("order|"+name+"|unique", d, w.Pos(fd.Pos()), "module "+bad+" listed twice")
			} else {
				r.OK("order|"+name+"|unique", d, w.Pos(fd.Pos()), fmt.Sprintf("%d distinct constant module names", len(names)))
			}
		}
	}
	for _, n := range []string{"orderBeginBlockers", "orderEndBlockers", "orderInitBlockers"} {
		if _, ok := lists[n]; !ok {
			r.Unres("order|"+n, d, "function not found or not analysable")
		}
	}
	// every repo module with Begin/EndBlock appears
	for f := range roots.ABCI {
		// module name constant: x/<m>/types.ModuleName
		pkgRel := relPkg(f.Pkg.Pkg.Path())
		tp := w.PkgBy[pkgRel+"/types"]
		if tp == nil {
			continue
		}
		c, ok := tp.Types.Scope().Lookup("ModuleName").(*types.Const)
		if !ok {
			continue
		}
		mn := strings.Trim(c.Val().ExactString(), `"`)
		list := "orderEndBlockers"
		if f.Name() == "BeginBlock" {
			list = "orderBeginBlockers"
		}
		found := false
		for _, x := range lists[list] {
			if x == mn {
				found = true
			}
		}
		k := "order|" + list + "|has|" + mn
		if found {
			r.OK(k, d, w.FnPos(f), mn+" listed")
		} else {
			r.Bad(k, d, w.FnPos(f), "module "+mn+" implements "+f.Name()+" but is not in "+list)
		}
	}
	r.Note("begin order: %v", lists["orderBeginBlockers"])
	r.Note("end order: %v", lists["orderEndBlockers"])
}

var c02UsubAllow = []usubAllow{
	{"x/tss/keeper.Keeper.EnqueueDEs", 1, "Tail - Head: the queue invariant Head <= Tail (Head only advances in DequeueDE under Head < Tail; C05.R4)"},
	{"x/tss/keeper.Keeper.GetRandomMembers", 3, "members_size - i (- 1): i < Threshold <= members_size is checked before the loop (C09.R3)"},
	{"x/tss/keeper.Keeper.HandleExpiredGroups", 1, "groupID - 1: groupID starts at lastExpired + 1 >= 1"},
	{"x/tss/keeper.msgServer.SubmitDKGRound2", 1, "group.Size_ - 1: groups are created with at least one member (CreateGroup rejects empty member lists)"},
	{"x/tss/types.FindMemberSlot", 2, "to - 1 (- 1): member ids start at 1 (ValidateBasic rejects id 0; ids are assigned from 1) and from != to"},
}

// abciErrTable: reviewed origins of errors that a begin/end-block root can return.
var abciErrTable = []errAllow{
	{"x/bandtss/keeper.Keeper.AllocateTokens", "external:x/bandtss/types.BankKeeper.SendCoinsFromModuleToAccount", "pays out of the distribution module what SendCoinsFromModuleToModule moved into it in the same call (C14.R3/R4: sum of payouts <= transferred); members are plain accounts"},
	{"x/bandtss/keeper.Keeper.AllocateTokens", "external:x/bandtss/types.BankKeeper.SendCoinsFromModuleToModule", "moves RewardPercentage% of the fee collector's own balance; <= balance because the percentage is validated <= 100 (finding F3, R6)"},
	{"x/bandtss/keeper.Keeper.AllocateTokens", "external:x/bandtss/types.DistrKeeper.FundCommunityPool", "funds the community pool from the distribution module with the remainder of what was just transferred in"},
	{"x/bandtss/keeper.Keeper.AllocateTokens", "external:x/bandtss/types.DistrKeeper.GetCommunityTax", "store read of the distribution params (collections.Item.Get fails only on a corrupt store)"},
	{"x/feeds/keeper.Keeper.CalculatePrices", "external:cosmossdk.io/math.LegacyNewDecFromStr", "parses Params.PriceQuorum, which Params.Validate parses with the same function before it is stored"},
	{"x/feeds/keeper.Keeper.CalculatePrices", "external:x/feeds/types.StakingKeeper.IterateBondedValidatorsByPower", "store iteration; the callback never returns an error"},
	{"x/feeds/keeper.Keeper.CalculatePrices", "external:x/feeds/types.StakingKeeper.TotalBondedTokens", "bank balance read of the bonded pool"},
	{"x/feeds/types.MedianWeightedPrice", "fresh:x/feeds/types.ErrInvalidWeightedPrices", "reached only with an empty / zero-weight list; CalculatePrice calls the median only when the available power is positive (gate `median-needs-available-power` below; finding F4)"},
	{"x/oracle/keeper.Keeper.AllocateTokens", "external:x/oracle/types.BankKeeper.SendCoinsFromModuleToModule", "moves OracleRewardPercentage% of the fee collector's balance; <= balance because the percentage is validated <= 100 (finding F3, R6)"},
	{"x/oracle/keeper.Keeper.AllocateTokens", "external:x/oracle/types.DistrKeeper.AllocateTokensToValidator", "bookkeeping in the distribution store for a bonded validator taken from the vote infos"},
	{"x/oracle/keeper.Keeper.AllocateTokens", "external:x/oracle/types.DistrKeeper.GetCommunityTax", "store read of the distribution params"},
	{"x/oracle/keeper.Keeper.AllocateTokens", "external:x/oracle/types.StakingKeeper.ValidatorByConsAddr", "looks up the block proposer, a bonded validator of this block"},
}

// hookErrTable: reviewed origins of errors the delegation hooks can return.
var hookErrTable = []errAllow{
	{"x/restake/keeper.Hooks.AfterDelegationModified", "external:x/restake/types.StakingKeeper.GetDelegatorBonded", "iterates the delegator's delegations in the staking store"},
	{"x/restake/keeper.Hooks.BeforeDelegationRemoved", "external:x/restake/types.StakingKeeper.GetDelegatorBonded", "iterates the delegator's delegations in the staking store"},
	{"x/restake/keeper.Hooks.BeforeDelegationRemoved", "external:x/restake/types.StakingKeeper.GetDelegation", "the delegation being removed exists (the hook runs before its deletion)"},
	{"x/restake/keeper.Hooks.BeforeDelegationRemoved", "external:x/restake/types.StakingKeeper.GetValidator", "the validator of an existing delegation exists"},
}

var hookPanicTable = []panicAllow{
	{"*", "call:github.com/cosmos/cosmos-sdk/codec.BinaryCodec.MustUnmarshal", 0, whyCodecU},
	{"*", "call:github.com/cosmos/cosmos-sdk/codec.BinaryCodec.MustMarshal", 0, whyCodecM},
	{"*", "call:github.com/cosmos/cosmos-sdk/types/address.MustLengthPrefix", 0, whyLenPfx},
	{"x/restake/keeper.Keeper.GetStake", "may-panic:github.com/cosmos/cosmos-sdk/types.NewCoins (panics on invalid, duplicate or negative coins)", 1, "NewCoins() without arguments: the empty stake of an address that never staked"},
}
