package main

import (
	"bytes"
	"fmt"
	"go/ast"
	"go/constant"
	"go/types"
	"math/big"
	"sort"
	"strings"

	"golang.org/x/tools/go/ssa"
)

func init() { props["C11"] = c11 }

// tagTable: 4-byte tag constants keyed by constant object; the preimage is frozen HERE (never read from comments).
var tagTable = []struct{ Pkg, Name, Preimage string }{
	{"x/tss/types", "DirectOriginatorPrefix", "DirectOriginator"},
	{"x/tss/types", "TunnelOriginatorPrefix", "TunnelOriginator"},
	{"x/tss", "TextMsgPrefix", "Text"},
	{"x/bandtss", "GroupTransitionMsgPrefix", "Transition"},
	{"x/oracle", "EncoderProtoPrefix", "Proto"},
	{"x/oracle", "EncoderFullABIPrefix", "FullABI"},
	{"x/oracle", "EncoderPartialABIPrefix", "PartialABI"},
	{"x/feeds/types", "EncoderFixedPointABIPrefix", "FixedPointABI"},
	{"x/feeds/types", "EncoderTickABIPrefix", "TickABI"},
}

func c11Tags(r *Report) {
	w := r.W
	seen := map[string]string{}
	for _, t := range tagTable {
		k := "tag|" + t.Pkg + "." + t.Name
		d := fmt.Sprintf("%s.%s == keccak256(%q)[:4]", t.Pkg, t.Name, t.Preimage)
		p := w.PkgBy[t.Pkg]
		if p == nil {
			r.Unres(k, d, "package not found")
			continue
		}
		c := lookupConst(p, t.Name)
		if c == nil || c.Val().Kind() != constant.String {
			r.Unres(k, d, "constant not found (renamed? the rule table is keyed by the constant object)")
			continue
		}
		val := []byte(constant.StringVal(c.Val()))
		h := keccak256([]byte(t.Preimage))
		pos := w.Pos(c.Pos())
		if !bytes.Equal(val, h[:4]) {
			r.Bad(k, d, pos, fmt.Sprintf("constant is %x but keccak256(%q)[:4] is %x", val, t.Preimage, h[:4]))
			continue
		}
		if other, dup := seen[string(val)]; dup {
			r.Bad(k, d, pos, "tag value shared with "+other)
			continue
		}
		seen[string(val)] = t.Name
		r.OK(k, d, pos, fmt.Sprintf("%x", val))
	}
	// the module route selectors (wrapHandler prepends keccak(route)[:4]) are pairwise distinct too
	routes := map[string]string{}
	for _, m := range []string{"x/tss/types", "x/oracle/types", "x/bandtss/types", "x/feeds/types", "x/tunnel/types"} {
		p := w.PkgBy[m]
		if p == nil {
			continue
		}
		if c, ok := p.Types.Scope().Lookup("RouterKey").(*types.Const); ok {
			v := constant.StringVal(c.Val())
			h := keccak256([]byte(v))
			k := "route-selector|" + m
			if o, dup := routes[string(h[:4])]; dup {
				r.Bad(k, "route selectors are pairwise distinct", w.Pos(c.Pos()), "selector collides with "+o)
			} else {
				routes[string(h[:4])] = m
				r.OK(k, "route selectors are pairwise distinct", w.Pos(c.Pos()), fmt.Sprintf("%q -> %x", v, h[:4]))
			}
		}
	}
	if len(routes) < 5 {
		r.Unres("route-selector|count", "five content routes", fmt.Sprintf("%d RouterKey constants found", len(routes)))
	}
}

// fixedWidthProducer: the element is produced by a fixed-width encoder.
func fixedWidthProducer(t *Term) (bool, string) {
	for (t.Op == "local" || t.Op == "phi") && len(t.Args) == 1 {
		t = t.Args[0]
	}
	switch {
	case t.Op == "call" && nameMatch(t.Name, "tss.Hash"):
		return true, "32-byte hash"
	case t.Op == "call" && nameMatch(t.Name, "types.Uint64ToBigEndian"):
		return true, "8-byte big-endian"
	case t.Op == "const":
		return true, "constant"
	}
	return false, clip(t.String(), 80)
}

// joinElements returns the element terms of `bytes.Join([][]byte{...}, sep)` in fn, and the separator term.
func joinElements(fn *ssa.Function) ([]*Term, *Term, ssa.CallInstruction) {
	for _, c := range Calls(fn, "bytes.Join") {
		args := c.Common().Args
		if len(args) != 2 {
			continue
		}
		sl, ok := args[0].(*ssa.Slice)
		if !ok {
			continue
		}
		arr, ok := sl.X.(*ssa.Alloc)
		if !ok || arr.Referrers() == nil {
			continue
		}
		type el struct {
			idx int64
			t   *Term
		}
		var els []el
		for _, ref := range *arr.Referrers() {
			ia, ok := ref.(*ssa.IndexAddr)
			if !ok || ia.Referrers() == nil {
				continue
			}
			ic, ok := ia.Index.(*ssa.Const)
			if !ok {
				continue
			}
			for _, rr := range *ia.Referrers() {
				if st, ok := rr.(*ssa.Store); ok && st.Addr == ssa.Value(ia) {
					els = append(els, el{ic.Int64(), Render(st.Val)})
				}
			}
		}
		sort.Slice(els, func(i, j int) bool { return els[i].idx < els[j].idx })
		var out []*Term
		for _, e := range els {
			out = append(out, e.t)
		}
		return out, Render(args[1]), c
	}
	return nil, nil, nil
}

func (r *Report) concatUnambiguous(key, fnKey string, maxVariable int, firstMust ...string) {
	w := r.W
	fn := w.Fn(fnKey)
	d := fmt.Sprintf("%s concatenates with an empty separator and at most %d variable-width element(s), which is last or the only one: the encoding is injective", fnKey, maxVariable)
	k := key + "|" + fnKey
	if fn == nil {
		r.Unres(k, d, "function not found")
		return
	}
	w.FuncsAnalysed[fn] = true
	els, sep, call := joinElements(fn)
	if els == nil {
		r.Unres(k, d, "no bytes.Join over a literal list")
		return
	}
	if !(sep.Has("const:") || sep.String() == "const:") {
		if c, ok := seeThrough(call.Common().Args[1]).(*ssa.Const); !ok || (c.Value != nil && constant.StringVal(c.Value) != "") {
			r.Bad(k, d, w.posOr(call.Pos(), fn), "separator is not the empty string: "+sep.String())
			return
		}
	}
	nvar := 0
	var desc []string
	for i, e := range els {
		ok, what := fixedWidthProducer(e)
		desc = append(desc, what)
		if !ok {
			nvar++
			if i != len(els)-1 && maxVariable <= 1 && len(els) > 1 && nvar > 0 && i != len(els)-2 {
				// a variable element in the middle is only unambiguous when everything after it is fixed-width,
				// which holds exactly when it is the only variable element
			}
		}
	}
	if nvar > maxVariable {
		r.Bad(k, d, w.posOr(call.Pos(), fn), fmt.Sprintf("%d variable-width elements: %v", nvar, desc))
		return
	}
	if len(firstMust) > 0 && !els[0].Has(firstMust...) {
		r.Bad(k, d, w.posOr(call.Pos(), fn), "first element is "+clip(els[0].String(), 80))
		return
	}
	r.OK(k, d, w.Pos(call.Pos()), fmt.Sprintf("%d elements: %v", len(els), desc))
}

// handlerReturnsTagged: every success return of the handler closure starts with one of the tag constants (directly
// via append([]byte(Tag), ...) / bytes.Join with the tag first) or is the result of an EncodeTSS function.
func (r *Report) handlerReturnsTagged(key, fnKey string, tags []string, delegates []string, minReturns int) {
	w := r.W
	fn := w.Fn(fnKey)
	d := fmt.Sprintf("every success return of %s starts with a 4-byte kind tag %v (or delegates to %v)", fnKey, tags, delegates)
	k := key + "|" + fnKey
	if fn == nil {
		r.Unres(k, d, "function not found")
		return
	}
	n := 0
	for _, b := range fn.Blocks {
		rt := returnOf(b)
		if rt == nil || b == fn.Recover || len(rt.Results) < 1 {
			continue
		}
		v := seeThrough(retValue(rt, 0))
		if isNilConst(v) {
			continue // error return
		}
		n++
		ok := false
		switch x := v.(type) {
		case *ssa.Call:
			name := CalleeName(&x.Call)
			switch {
			case name == "builtin.append":
				t := Render(x.Call.Args[0])
				for _, tg := range tags {
					if t.Has("^const:" + tg) {
						ok = true
					}
				}
			case name == "bytes.Join":
				els, _, _ := joinElements(fn)
				if len(els) > 0 {
					for _, tg := range tags {
						if els[0].Has("^const:" + tg) {
							ok = true
						}
					}
				}
			}
		case *ssa.Extract:
			if c, isCall := x.Tuple.(*ssa.Call); isCall {
				for _, dl := range delegates {
					if nameMatch(CalleeName(&c.Call), dl) {
						ok = true
					}
				}
			}
		}
		if !ok {
			r.Bad(k, d, w.posOr(rt.Pos(), fn), "returns "+clip(Render(v).String(), 160))
			return
		}
	}
	if n < minReturns {
		r.Unres(k, d, fmt.Sprintf("%d success returns with content, expected >= %d", n, minReturns))
		return
	}
	r.OK(k, d, w.FnPos(fn), fmt.Sprintf("%d tagged success return(s)", n))
}

func c11(r *Report) propMeta {
	w := r.W
	tagVal := func(pkg, name string) string { return strings.TrimPrefix(w.ConstAtom(pkg, name), "const:") }

	r.Rule("C11.R1", "E9 tag constants are keccak prefixes, pairwise distinct")
	c11Tags(r)

	r.Rule("C11.R2", "E4 fixed-width concatenation")
	r.concatUnambiguous("signing-message", "x/tss/types.EncodeSigning", 1, "^call:tss.Hash", "param:originator")
	r.concatUnambiguous("direct-originator", "x/tss/types.DirectOriginator.Encode", 0, "^const:"+tagVal("x/tss/types", "DirectOriginatorPrefix"))
	r.concatUnambiguous("tunnel-originator", "x/tss/types.TunnelOriginator.Encode", 0, "^const:"+tagVal("x/tss/types", "TunnelOriginatorPrefix"))
	r.concatUnambiguous("transition-content", "x/bandtss.NewSignatureOrderHandler$1", 1, "^const:"+tagVal("x/bandtss", "GroupTransitionMsgPrefix"))
	es := "x/tss/types.EncodeSigning"
	els, _, _ := joinElements(w.Fn(es))
	want := [][]string{{"^call:tss.Hash", "param:originator"}, {"^call:types.Uint64ToBigEndian", "call:Context.BlockTime", "call:Time.Unix"}, {"^call:types.Uint64ToBigEndian", "param:signingID"}, {"^param:contentMsg"}}
	if len(els) == 4 {
		for i, wn := range want {
			k := fmt.Sprintf("signing-layout|%d", i)
			if els[i].Has(wn...) {
				r.OK(k, "EncodeSigning element order hash(originator) | time | id | content", "x/tss/types/helpers.go", els[i].String())
			} else {
				r.Bad(k, "EncodeSigning element order hash(originator) | time | id | content", "x/tss/types/helpers.go", "element "+fmt.Sprint(i)+" is "+clip(els[i].String(), 100))
			}
		}
	} else {
		r.Unres("signing-layout", "EncodeSigning has four elements", fmt.Sprintf("%d elements", len(els)))
	}
	cs := tK + "CreateSigning"
	r.ArgHas("message-is-encoded-signing", cs, "types.NewSigning", 4, 1, "call:types.EncodeSigning")
	r.ArgHas("message-uses-next-id", cs, "types.EncodeSigning", 1, 1, "call:Keeper.GetSigningCount", "binop:+", "const:1")
	r.SameValue("message-id-is-signing-id", cs, ArgRef{"types.EncodeSigning", 1}, ArgRef{"Keeper.SetSigningCount", 1})
	r.ArgHas("message-originator", cs, "types.EncodeSigning", 2, 1, "^param:originator")
	r.ArgHas("message-content", cs, "types.EncodeSigning", 3, 1, "^param:contentMsg")
	rs := tK + "RequestSigning"
	r.ArgHas("originator-encoded", rs, "Keeper.CreateSigning", 2, 1, "call:Originator.Encode")
	r.ArgHas("content-from-route-handler", rs, "Keeper.CreateSigning", 3, 1, "call:<dynamic>", "call:ContentRouter.GetRoute", "call:Content.OrderRoute")
	r.Gate("signing-needs-valid-inputs", rs, CallEff("Keeper.CreateSigning"), []Cond{nilErrOf("Content.ValidateBasic"), nilErrOf("Originator.Validate"), nilErrOf("Originator.Encode"),
		{Op: "BOOL", A: []string{"call:ContentRouter.HasRoute"}, Want: true, Desc: "route registered"}}, GateOpts{FailIsError: true})

	r.Rule("C11.R3", "sibling rule: every content handler returns tagged bytes")
	r.handlerReturnsTagged("text", "x/tss.NewSignatureOrderHandler$1", []string{tagVal("x/tss", "TextMsgPrefix")}, nil, 1)
	r.handlerReturnsTagged("transition", "x/bandtss.NewSignatureOrderHandler$1", []string{tagVal("x/bandtss", "GroupTransitionMsgPrefix")}, nil, 1)
	r.handlerReturnsTagged("oracle", "x/oracle.NewSignatureOrderHandler$1", []string{tagVal("x/oracle", "EncoderProtoPrefix"), tagVal("x/oracle", "EncoderFullABIPrefix"), tagVal("x/oracle", "EncoderPartialABIPrefix")}, nil, 3)
	r.handlerReturnsTagged("feeds", "x/feeds.NewSignatureOrderHandler$1", nil, []string{"x/feeds/types.EncodeTSS"}, 1)
	r.handlerReturnsTagged("tunnel", "x/tunnel.NewSignatureOrderHandler$1", nil, []string{"x/tunnel/types.EncodeTSS"}, 1)
	ft := []string{tagVal("x/feeds/types", "EncoderFixedPointABIPrefix"), tagVal("x/feeds/types", "EncoderTickABIPrefix")}
	r.handlerReturnsTagged("feeds-encode", "x/feeds/types.EncodeTSS", ft, nil, 2)
	r.handlerReturnsTagged("tunnel-encode", "x/tunnel/types.EncodeTSS", ft, nil, 2)
	// each encoder constant selects its own tag
	oh := "x/oracle.NewSignatureOrderHandler$1"
	for _, e := range [][3]string{{"ENCODER_PROTO", "EncoderProtoPrefix", "Keeper.MarshalResult"}, {"ENCODER_FULL_ABI", "EncoderFullABIPrefix", "Result.PackFullABI"}, {"ENCODER_PARTIAL_ABI", "EncoderPartialABIPrefix", "Result.PackPartialABI"}} {
		r.Gate("oracle-encoder-selects-tag", oh, RetValEff(0, "call:builtin.append", "const:"+tagVal("x/oracle", e[1]), "call:"+e[2]), []Cond{
			{Op: "EQL", A: []string{"field:OracleResultSignatureOrder.Encoder"}, B: []string{w.ConstAtom("x/oracle/types", e[0])}, Want: true, Desc: "c.Encoder == " + e[0]}}, GateOpts{})
	}
	r.ArgHas("oracle-result-of-request", oh, "Keeper.GetResult", 1, 1, "field:OracleResultSignatureOrder.RequestID")
	for _, f := range []string{"x/feeds/types.EncodeTSS", "x/tunnel/types.EncodeTSS"} {
		r.Gate("fixed-point-tag", f, RetValEff(0, "call:builtin.append", "const:"+ft[0]), []Cond{{Op: "EQL", A: []string{"^param:encoder"}, B: []string{w.ConstAtom("x/feeds/types", "ENCODER_FIXED_POINT_ABI")}, Want: true, Desc: "encoder == FIXED_POINT_ABI"}}, GateOpts{})
		r.Gate("tick-tag", f, RetValEff(0, "call:builtin.append", "const:"+ft[1]), []Cond{{Op: "EQL", A: []string{"^param:encoder"}, B: []string{w.ConstAtom("x/feeds/types", "ENCODER_TICK_ABI")}, Want: true, Desc: "encoder == TICK_ABI"}}, GateOpts{})
		r.Exists("fixed-point-uses-raw-prices", f, RetValEff(0, "const:"+ft[0], "call:types.ToRelayPrices", "!call:types.ToRelayTickPrices"), 1)
		r.Exists("tick-uses-tick-prices", f, RetValEff(0, "const:"+ft[1], "call:types.ToRelayTickPrices", "!call:types.ToRelayPrices"), 1)
	}
	r.ArgHas("feeds-prices-are-on-chain-prices", "x/feeds.NewSignatureOrderHandler$1", "types.EncodeTSS", 0, 1, "call:Keeper.GetPrices", "field:FeedsSignatureOrder.SignalIDs")
	r.ArgHas("feeds-time-is-block-time", "x/feeds.NewSignatureOrderHandler$1", "types.EncodeTSS", 1, 1, "call:Context.BlockTime")
	r.ArgHas("tunnel-packet-fields", "x/tunnel.NewSignatureOrderHandler$1", "types.EncodeTSS", 0, 1, "^field:TunnelSignatureOrder.Sequence")
	r.ArgHas("tunnel-packet-fields", "x/tunnel.NewSignatureOrderHandler$1", "types.EncodeTSS", 1, 1, "^field:TunnelSignatureOrder.Prices")
	r.ArgHas("tunnel-packet-fields", "x/tunnel.NewSignatureOrderHandler$1", "types.EncodeTSS", 2, 1, "^field:TunnelSignatureOrder.CreatedAt")
	wh := "x/tss/types.wrapHandler$1"
	r.Exists("route-selector-prepended", wh, RetValEff(0, "^call:builtin.append", "slice", "call:tss.Hash", "freevar:path", "const:4"), 1)
	r.NoWriteThrough("selector-buffer-not-shared", wh, "freevar:*")
	r.Gate("wrapped-error-propagates", wh, RetOK(), []Cond{{Op: "EQL", A: []string{"call:<dynamic>", "freevar:handler"}, B: []string{"const:nil"}, Want: true, Desc: "handler error == nil"}}, GateOpts{FailIsError: true})
	r.Callers("route-registration-wraps", "x/tss/types.wrapHandler", []string{"x/tss/types.ContentRouter.AddRoute"}, []string{"x/tss/types.ContentRouter.AddRoute"})

	r.Rule("C11.R4", "E3 internal content kinds are not user-reachable")
	rq := bMS + "RequestSignature"
	r.Gate("internal-rejected", rq, CallEff("Keeper.CreateDirectSigningRequest"), []Cond{{Op: "BOOL", A: []string{"^call:Content.IsInternal", "call:MsgRequestSignature.GetContent"}, Want: false, Desc: "not content.IsInternal()"}}, GateOpts{FailIsError: true})
	r.ArgHas("signed-content-is-checked-content", rq, "Keeper.CreateDirectSigningRequest", 1, 1, "^call:MsgRequestSignature.GetContent")
	c11Internal(r)
	c11Routes(r)

	r.Rule("C11.R5", "E9 tick tables")
	c11Tick(r)

	r.Rule("C11.R7", "E16 tick conversion: shift counts cannot wrap")
	// the tick that is encoded is PriceToTick of that very price (or the 0 of a missing price), not a value from a second,
	// approximate conversion (seed C11-11: a "start from the neighbour's tick" fast path that compares against the rounded
	// TickToPrice and lands up to three ticks high)
	r.ArgEdgesAmong("encoded-tick-is-PriceToTick-of-the-price", "x/feeds/types.ToRelayTickPrices", "types.NewRelayPrice", 1,
		[][]string{{"^field:Price.Price"}, {"^~call:tickmath.PriceToTick", "field:Price.Price"}}, "the price itself (when it is 0) or the result of tickmath.PriceToTick(price.Price)")
	// the tunnel originator of a signed packet names the packet's TUNNEL (seed C11-13 passed packet.Sequence, the other
	// uint64 of the packet: packets of different tunnels with the same sequence then share one originator)
	r.ArgHas("originator-names-the-tunnel", "x/tunnel/keeper.Keeper.SendTSSPacket", "BandtssKeeper.CreateTunnelSigningRequest", 1, 1, "^field:Packet.TunnelID")
	r.UnsignedSubGuarded("shift-counts", "pkg/tickmath.PriceToTick", 2)
	r.NormalisedBeforeSquaring("mantissa-normalised", "pkg/tickmath.PriceToTick")

	r.Rule("C11.R8", "bytes32 signal ids: refused when longer than 32 BYTES")
	s32 := "x/feeds/types.StringToBytes32"
	r.Gate("signal-id-fits-32-bytes", s32, RetOK(), []Cond{{Op: "LSS", A: []string{"const:32"}, B: []string{"^len", "param:str"}, Want: false, Desc: "not (len(str) > 32)"}}, GateOpts{})
	r.EffectSet("no-cropping-conversion", s32, []string{"common.BytesToHash", "common.HexToHash", "common.BigToHash"}, nil)

	return propMeta{
		Decided: []string{
			"R1 all nine 4-byte kind tags equal keccak256(preimage)[:4] (preimages frozen in the rule table, keyed by constant object) and are pairwise distinct; the five route selectors are pairwise distinct",
			"R2 EncodeSigning = hash(originator) | 8-byte time | 8-byte id | content with empty separator (content, the only variable-width element, last); both originator encodings are tag + hashed/8-byte fields only; the signing stores EncodeSigning(next id, originator, content) and that id becomes the signing id",
			"R3 every success return of every content handler starts with its tag (or delegates to EncodeTSS whose returns do); each encoder constant selects its own tag and its own packing; feeds/tunnel/oracle contents are built from the on-chain prices/result/packet fields; wrapHandler prepends a per-call selector (no shared buffer)",
			"R4 RequestSignature creates a signing only for !content.IsInternal(); IsInternal()==false exactly for {Text, Feeds, OracleResult}; every RouterKey has an AddRoute registration",
			"R5 tickmath: x96 table entries == floor(2^96·(10000/10001)^(2^i)), q96 = 2^96, maxUint192 = 2^192-1, MaxTick/MinTick/Offset consistent",
			"R7 in PriceToTick every unsigned subtraction (the two shift counts msb-31 / 31-msb) is implied non-wrapping by the comparison that selects its branch, constants included (a wrapped shift count zeroes the mantissa and maps a whole price band to one tick); every path into the squaring loop carries the price shifted by an msb-derived count (no gap in the case split)",
			"R8 StringToBytes32 (signal ids in the feeds and tunnel payloads) succeeds only for strings of at most 32 bytes - byte length, not characters - and does not go through a cropping conversion: two ids never share an encoding (seed C11-8 counted runes and cropped from the left)",
		},
		Undecided: []string{"round-trip decoding of every payload (ABI/protobuf libraries)", "PriceToTick numerics: largest tick with price <= input for every price (bit-level arithmetic) — e.g. an off-by-one in the msb search is NOT detected"},
		Assume:    []string{"go-ethereum abi packing and gogoproto marshalling are injective for their schemas", "local Keccak-f implementation (unit-tested against known vectors)"},
	}
}

// c11Internal: the set of Content implementations whose IsInternal returns false is exactly the frozen set.
func c11Internal(r *Report) {
	w := r.W
	p := w.PkgBy["x/tss/types"]
	d := "IsInternal()==false exactly for {TextSignatureOrder, FeedsSignatureOrder, OracleResultSignatureOrder}"
	if p == nil {
		r.Unres("internal-set", d, "x/tss/types not found")
		return
	}
	iface, _ := p.Types.Scope().Lookup("Content").Type().Underlying().(*types.Interface)
	if iface == nil {
		r.Unres("internal-set", d, "Content interface not found")
		return
	}
	wantFalse := map[string]bool{"TextSignatureOrder": true, "FeedsSignatureOrder": true, "OracleResultSignatureOrder": true}
	n := 0
	for k, fn := range w.Funcs {
		if !strings.HasSuffix(k, ".IsInternal") || len(fn.Blocks) == 0 || !inRepoScope(fn) || fn.Signature.Recv() == nil {
			continue
		}
		if !types.Implements(fn.Signature.Recv().Type(), iface) && !types.Implements(types.NewPointer(fn.Signature.Recv().Type()), iface) {
			continue
		}
		n++
		tn := typeName(fn.Signature.Recv().Type())
		var val string
		for _, b := range fn.Blocks {
			if rt := returnOf(b); rt != nil && len(rt.Results) == 1 {
				if c, ok := rt.Results[0].(*ssa.Const); ok {
					val = constString(c)
				} else {
					val = "non-constant"
				}
			}
		}
		kk := "internal-set|" + tn
		switch {
		case val == "false" && wantFalse[tn], val == "true" && !wantFalse[tn]:
			r.OK(kk, d, w.FnPos(fn), tn+".IsInternal() == "+val)
		default:
			r.Bad(kk, d, w.FnPos(fn), tn+".IsInternal() returns "+val+": a module-internal content kind would become user-signable (or a user kind unusable)")
		}
	}
	if n < 5 {
		r.Unres("internal-set|count", d, fmt.Sprintf("%d Content implementations found, expected >= 5", n))
	}
}

// c11Routes: every x/*/types.RouterKey constant of a module with a signature-order handler is registered.
func c11Routes(r *Report) {
	w := r.W
	p := w.PkgBy["app/keepers"]
	d := "every content route constant has an AddRoute registration on the tss content router"
	if p == nil {
		r.Unres("routes", d, "app/keepers not found")
		return
	}
	reg := map[string]bool{}
	for _, f := range p.Syntax {
		ast.Inspect(f, func(n ast.Node) bool {
			ce, ok := n.(*ast.CallExpr)
			if !ok || len(ce.Args) != 2 {
				return true
			}
			sel, ok := ce.Fun.(*ast.SelectorExpr)
			if !ok || sel.Sel.Name != "AddRoute" {
				return true
			}
			if tv, ok := p.TypesInfo.Types[ce.Args[1]]; ok && strings.HasSuffix(tv.Type.String(), "x/tss/types.Handler") {
				if kv, ok := p.TypesInfo.Types[ce.Args[0]]; ok && kv.Value != nil {
					reg[constant.StringVal(kv.Value)] = true
				}
			}
			return true
		})
	}
	for _, m := range []string{"x/tss/types", "x/oracle/types", "x/bandtss/types", "x/feeds/types", "x/tunnel/types"} {
		mp := w.PkgBy[m]
		if mp == nil {
			continue
		}
		c, ok := mp.Types.Scope().Lookup("RouterKey").(*types.Const)
		if !ok {
			r.Unres("routes|"+m, d, "RouterKey not found")
			continue
		}
		v := constant.StringVal(c.Val())
		if reg[v] {
			r.OK("routes|"+m, d, "app/keepers/keepers.go", "route "+v+" registered")
		} else {
			r.Bad("routes|"+m, d, "app/keepers/keepers.go", "route "+v+" has no content handler: RequestSigning would fail / GetRoute would panic")
		}
	}
}

func c11Tick(r *Report) {
	w := r.W
	p := w.PkgBy["pkg/tickmath"]
	d := "tickmath constants are exact"
	if p == nil {
		r.Unres("tick", d, "pkg/tickmath not found")
		return
	}
	// x96 table
	fd := funcDecl(p, "getPricesX96AtBinaryTicks")
	var hexes []string
	if fd != nil {
		if cl := firstCompositeLit(fd); cl != nil {
			for _, e := range cl.Elts {
				if tv, ok := p.TypesInfo.Types[e]; ok && tv.Value != nil && tv.Value.Kind() == constant.String {
					hexes = append(hexes, constant.StringVal(tv.Value))
				}
			}
		}
	}
	if len(hexes) < 18 {
		r.Unres("tick|x96-table", d, fmt.Sprintf("%d table entries found, expected 18", len(hexes)))
	} else {
		// exact: floor(2^96 * (10000/10001)^(2^i)) computed with rational arithmetic
		ratio := new(big.Rat).SetFrac(big.NewInt(10000), big.NewInt(10001))
		cur := new(big.Rat).Set(ratio)
		two96 := new(big.Int).Lsh(big.NewInt(1), 96)
		for i, h := range hexes {
			got, ok := new(big.Int).SetString(h, 16)
			k := fmt.Sprintf("tick|x96-table|%d", i)
			dd := fmt.Sprintf("x96Hexes[%d] == floor(2^96 * (10000/10001)^(2^%d))", i, i)
			v := new(big.Rat).Mul(cur, new(big.Rat).SetInt(two96))
			want := new(big.Int).Quo(v.Num(), v.Denom())
			if ok && got.Cmp(want) == 0 {
				r.OK(k, dd, w.Pos(fd.Pos()), "exact")
			} else {
				r.Bad(k, dd, w.Pos(fd.Pos()), fmt.Sprintf("table has %s, exact value is %x", h, want))
			}
			if i < len(hexes)-1 {
				cur.Mul(cur, cur)
				// keep the rational small: precision of 400 bits is far beyond what floor() needs at 96 bits,
				// but exactness matters, so no truncation is applied.
			}
		}
	}
	chk := func(name string, want *big.Int) {
		k := "tick|" + name
		init := pkgVarInit(p, name)
		ok := false
		if init != nil {
			ast.Inspect(init, func(n ast.Node) bool {
				if bl, is := n.(*ast.BasicLit); is {
					if v, good := new(big.Int).SetString(strings.Trim(bl.Value, `"`), 16); good && v.Cmp(want) == 0 {
						ok = true
					}
				}
				return true
			})
		}
		if ok {
			r.OK(k, name+" exact", "pkg/tickmath/tickmath.go", want.Text(16))
		} else {
			r.Bad(k, name+" exact", "pkg/tickmath/tickmath.go", "value differs from "+want.Text(16))
		}
	}
	chk("q96", new(big.Int).Lsh(big.NewInt(1), 96))
	chk("maxUint192", new(big.Int).Sub(new(big.Int).Lsh(big.NewInt(1), 192), big.NewInt(1)))
	chk("maxUint64", new(big.Int).Sub(new(big.Int).Lsh(big.NewInt(1), 64), big.NewInt(1)))
	mt, mn, of := constBig(pkgConst(p, "MaxTick")), constBig(pkgConst(p, "MinTick")), constBig(pkgConst(p, "Offset"))
	if mt != nil && mn != nil && of != nil && mt.Int64() == 1<<18-1 && mn.Int64() == -mt.Int64() && of.Int64() == 1<<18 && int64(len(hexes)) == 18 {
		r.OK("tick|range", "MaxTick = 2^18-1 = -MinTick, Offset = 2^18, 18 binary-tick entries cover |tick| < 2^18", "pkg/tickmath/tickmath.go", "consistent")
	} else {
		r.Bad("tick|range", "MaxTick = 2^18-1 = -MinTick, Offset = 2^18, 18 binary-tick entries", "pkg/tickmath/tickmath.go", "inconsistent constants")
	}
	// PriceToTick returns t+Offset only for a tick whose price does not exceed the input
	pt := "pkg/tickmath.PriceToTick"
	r.Gate("tick-not-above-price", pt, RetOK(), []Cond{
		{Op: "LSS", A: []string{"const:0"}, B: []string{"call:Int.Cmp", "call:tickmath.tickToPriceX96", "call:Int.Mul", "param:price"}, Want: false, Desc: "priceX96(t).Cmp(price*2^96) <= 0"}}, GateOpts{AnySite: true})
	r.Gate("zero-price-rejected", pt, CallEff("tickmath.tickToPriceX96"), []Cond{{Op: "EQL", A: []string{"^param:price"}, B: []string{"const:0"}, Want: false, Desc: "price != 0"}}, GateOpts{FailIsError: true})
}
