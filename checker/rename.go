package main

import (
	"fmt"
	"go/ast"
	"go/types"
	"sort"
	"strings"

	"golang.org/x/tools/go/packages"
)

// Renamed struct types, struct fields and interface methods.
//
// The rule tables name fields ("field:feeCollector.collected"), receivers ("x/oracle/keeper.feeCollector.Collect") and
// interface methods ("call:FeeCollector.Collected"). A consistent rename of any of these is a behaviour-preserving edit.
// frozenStructs / frozenIfaces (params_frozen.go) record, for the hand-written struct types of the repository, the types
// named in a pattern and the repository's interfaces, the sequence of field (method) names with their types. When a
// frozen name is gone, it is matched to the declaration that has exactly the frozen shape:
//   - a missing field  -> the field at the same index of the same struct, if its type is the frozen one and its name is new;
//   - a missing struct -> the unique struct of the same package with the identical sequence of field types that is not
//     itself frozen under its own name;
//   - a missing interface method -> the unique method of the same interface with the identical signature and a new name.
// The matched objects answer to their frozen names everywhere names are produced (typeName, fieldName, ObjKey), so the
// tables keep reading the code. Anything ambiguous is left alone: the rules then report "unresolved", as before.

var typeAlias = map[*types.TypeName]string{}
var fieldAlias = map[*types.Var]string{}
var methodAlias = map[*types.Func]string{}

func typeObjName(o *types.TypeName) string {
	if a, ok := typeAlias[o]; ok {
		return a
	}
	return o.Name()
}

func fieldVarName(v *types.Var) string {
	if a, ok := fieldAlias[v]; ok {
		return a
	}
	return v.Name()
}

func qualFull(p *types.Package) string { return p.Path() }

// structShape: "name\ttype" per field.
func structShape(st *types.Struct) []string {
	var out []string
	for i := 0; i < st.NumFields(); i++ {
		f := st.Field(i)
		out = append(out, f.Name()+"\t"+types.TypeString(f.Type(), qualFull))
	}
	return out
}

func ifaceShape(it *types.Interface) []string {
	var out []string
	for i := 0; i < it.NumExplicitMethods(); i++ {
		m := it.ExplicitMethod(i)
		out = append(out, m.Name()+"\t"+types.TypeString(m.Type(), qualFull))
	}
	sort.Strings(out)
	return out
}

func splitShape(s string) (string, string) {
	i := strings.IndexByte(s, '\t')
	if i < 0 {
		return s, ""
	}
	return s[:i], s[i+1:]
}

func (w *World) recoverRenamedTypes() {
	keys := sortedKeys(frozenStructs)
	for _, k := range keys {
		i := strings.LastIndexByte(k, '.')
		if i < 0 {
			continue
		}
		p := w.PkgBy[k[:i]]
		if p == nil || p.Types == nil {
			continue
		}
		shape := frozenStructs[k]
		name := k[i+1:]
		var tn *types.TypeName
		if o, ok := p.Types.Scope().Lookup(name).(*types.TypeName); ok {
			if _, isStruct := o.Type().Underlying().(*types.Struct); isStruct {
				tn = o
			}
		}
		if tn == nil {
			// the type is gone: a struct of the same package with the frozen sequence of field types, not frozen itself
			var cands []*types.TypeName
			for _, n := range p.Types.Scope().Names() {
				o, ok := p.Types.Scope().Lookup(n).(*types.TypeName)
				if !ok || o.IsAlias() {
					continue
				}
				if _, frozen := frozenStructs[k[:i]+"."+n]; frozen {
					continue
				}
				st, ok := o.Type().Underlying().(*types.Struct)
				if !ok || st.NumFields() != len(shape) || st.NumFields() == 0 {
					continue
				}
				same := true
				for j := 0; j < st.NumFields(); j++ {
					_, ft := splitShape(shape[j])
					// a field whose type mentions the renamed type itself differs only in that name
					got := strings.ReplaceAll(types.TypeString(st.Field(j).Type(), qualFull), p.Types.Path()+"."+n, p.Types.Path()+"."+name)
					if got != ft {
						same = false
						break
					}
				}
				if same {
					cands = append(cands, o)
				}
			}
			if len(cands) != 1 {
				continue
			}
			tn = cands[0]
			typeAlias[tn] = name
			aliasNotes = append(aliasNotes, fmt.Sprintf("struct type %s not found; resolved to %s.%s (same package, identical field types): treated as a rename", k, k[:i], tn.Name()))
		}
		st := tn.Type().Underlying().(*types.Struct)
		have := map[string]bool{}
		for j := 0; j < st.NumFields(); j++ {
			have[st.Field(j).Name()] = true
		}
		frozenNames := map[string]bool{}
		for _, s := range shape {
			n, _ := splitShape(s)
			frozenNames[n] = true
		}
		for j, s := range shape {
			fn, ft := splitShape(s)
			if have[fn] || j >= st.NumFields() || st.NumFields() != len(shape) {
				continue
			}
			f := st.Field(j)
			got := types.TypeString(f.Type(), qualFull)
			if _, renamedT := typeAlias[tn]; renamedT {
				got = strings.ReplaceAll(got, p.Types.Path()+"."+tn.Name(), p.Types.Path()+"."+name)
			}
			if got != ft || frozenNames[f.Name()] || f.Embedded() {
				continue
			}
			fieldAlias[f] = fn
			aliasNotes = append(aliasNotes, fmt.Sprintf("field %s.%s not found; resolved to %s (same position, same type, new name): treated as a rename", k, fn, f.Name()))
		}
	}
	for _, k := range sortedKeys(frozenIfaces) {
		i := strings.LastIndexByte(k, '.')
		if i < 0 {
			continue
		}
		p := w.PkgBy[k[:i]]
		if p == nil || p.Types == nil {
			continue
		}
		o, ok := p.Types.Scope().Lookup(k[i+1:]).(*types.TypeName)
		if !ok {
			continue
		}
		it, ok := o.Type().Underlying().(*types.Interface)
		if !ok {
			continue
		}
		frozen := map[string]string{}
		for _, s := range frozenIfaces[k] {
			n, t := splitShape(s)
			frozen[n] = t
		}
		have := map[string]bool{}
		for j := 0; j < it.NumExplicitMethods(); j++ {
			have[it.ExplicitMethod(j).Name()] = true
		}
		if it.NumExplicitMethods() != len(frozen) {
			continue
		}
		for _, n := range sortedKeys(frozen) {
			if have[n] {
				continue
			}
			var cands []*types.Func
			for j := 0; j < it.NumExplicitMethods(); j++ {
				m := it.ExplicitMethod(j)
				if _, isFrozen := frozen[m.Name()]; isFrozen {
					continue
				}
				if types.TypeString(m.Type(), qualFull) == frozen[n] {
					cands = append(cands, m)
				}
			}
			if len(cands) == 1 {
				methodAlias[cands[0]] = n
				aliasNotes = append(aliasNotes, fmt.Sprintf("interface method %s.%s not found; resolved to %s (same interface, identical signature, new name): treated as a rename", k, n, cands[0].Name()))
			}
		}
	}
}

// freezeShapes renders frozenStructs / frozenIfaces for params_frozen.go: hand-written struct types and interfaces of
// the repository plus every (generated) struct named in a field pattern.
func freezeShapes(w *World, fieldPats map[string]bool) string {
	wantType := map[string]bool{}
	for pat := range fieldPats {
		for _, seg := range strings.FieldsFunc(pat, func(c rune) bool { return c == '.' || c == '/' }) {
			wantType[seg] = true
		}
	}
	structs := map[string][]string{}
	ifaces := map[string][]string{}
	for _, p := range w.Pkgs {
		rp := relPkg(p.PkgPath)
		if !strings.HasPrefix(p.PkgPath+"/", modPrefix) || scopeExcluded(rp) || p.Types == nil {
			continue
		}
		generated := generatedTypeNames(p)
		for _, n := range p.Types.Scope().Names() {
			o, ok := p.Types.Scope().Lookup(n).(*types.TypeName)
			if !ok || o.IsAlias() {
				continue
			}
			switch u := o.Type().Underlying().(type) {
			case *types.Struct:
				if u.NumFields() == 0 || (generated[n] && !wantType[n]) {
					continue
				}
				structs[rp+"."+n] = structShape(u)
			case *types.Interface:
				if u.NumExplicitMethods() == 0 || generated[n] {
					continue
				}
				ifaces[rp+"."+n] = ifaceShape(u)
			}
		}
	}
	var sb strings.Builder
	emit := func(name, doc string, m map[string][]string) {
		sb.WriteString("\n// " + doc + "\nvar " + name + " = map[string][]string{\n")
		for _, k := range sortedKeys(m) {
			var qs []string
			for _, s := range m[k] {
				qs = append(qs, fmt.Sprintf("%q", s))
			}
			sb.WriteString(fmt.Sprintf("\t%q: {%s},\n", k, strings.Join(qs, ", ")))
		}
		sb.WriteString("}\n")
	}
	emit("frozenStructs", "field names and types of the repository's struct types (rename.go)", structs)
	emit("frozenIfaces", "method names and signatures of the repository's interfaces (rename.go)", ifaces)
	return sb.String()
}

// generatedTypeNames: type names declared in generated files (*.pb.go, *.pb.gw.go, mocks).
func generatedTypeNames(p *packages.Package) map[string]bool {
	out := map[string]bool{}
	for i, f := range p.Syntax {
		if i >= len(p.CompiledGoFiles) {
			break
		}
		name := p.CompiledGoFiles[i]
		if !(strings.HasSuffix(name, ".pb.go") || strings.HasSuffix(name, ".pb.gw.go") || strings.Contains(name, "mock")) {
			continue
		}
		for _, d := range f.Decls {
			if gd, ok := d.(*ast.GenDecl); ok {
				for _, s := range gd.Specs {
					if ts, ok := s.(*ast.TypeSpec); ok {
						out[ts.Name.Name] = true
					}
				}
			}
		}
	}
	return out
}

// lookupConst resolves a package-level constant by the name the rule tables know. A constant that was renamed is
// recovered when exactly one constant of the package that is not frozen under its own name has the frozen type and value.
var recordConsts = map[string]bool{}

func lookupConst(p *packages.Package, name string) *types.Const {
	if p == nil || p.Types == nil {
		return nil
	}
	key := relPkg(p.PkgPath) + "." + name
	if recordPats != nil {
		recordConsts[key] = true
	}
	if c, ok := p.Types.Scope().Lookup(name).(*types.Const); ok {
		return c
	}
	want, ok := frozenConsts[key]
	if !ok {
		return nil
	}
	var cands []*types.Const
	for _, n := range p.Types.Scope().Names() {
		c, ok := p.Types.Scope().Lookup(n).(*types.Const)
		if !ok {
			continue
		}
		if _, frozen := frozenConsts[relPkg(p.PkgPath)+"."+n]; frozen {
			continue
		}
		if constShape(c) == want {
			cands = append(cands, c)
		}
	}
	if len(cands) != 1 {
		return nil
	}
	note := fmt.Sprintf("constant %s not found; resolved to %s (same package, same type and value, not a frozen name): treated as a rename", key, cands[0].Name())
	dup := false
	for _, n := range aliasNotes {
		if n == note {
			dup = true
		}
	}
	if !dup {
		aliasNotes = append(aliasNotes, note)
	}
	return cands[0]
}

func constShape(c *types.Const) string {
	return types.TypeString(c.Type(), qualFull) + "\t" + c.Val().ExactString()
}

func freezeConsts(w *World) string {
	var sb strings.Builder
	sb.WriteString("\n// type and value of the constants the rules look up by name (rename.go lookupConst)\nvar frozenConsts = map[string]string{\n")
	for _, k := range sortedKeys(recordConsts) {
		i := strings.LastIndexByte(k, '.')
		p := w.PkgBy[k[:i]]
		if p == nil {
			continue
		}
		if c, ok := p.Types.Scope().Lookup(k[i+1:]).(*types.Const); ok {
			sb.WriteString(fmt.Sprintf("\t%q: %q,\n", k, constShape(c)))
		}
	}
	sb.WriteString("}\n")
	return sb.String()
}
