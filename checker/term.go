package main

import (
	"fmt"
	"go/constant"
	"go/token"
	"go/types"
	"sort"
	"strings"

	"golang.org/x/tools/go/ssa"
)

// Term is a small rendering of an SSA value used for condition descriptors (E4) and provenance (E12).
type Term struct {
	Op   string // "call", "field", "param", "const", "binop:<tok>", "not", "phi", "extract", "len", "index", "alloc", "global", "freevar", "lookup", "slice", "make", "closure", "opaque"
	Name string // callee / field / param / const value / token
	Args []*Term
	Val  ssa.Value
}

func (t *Term) String() string {
	if t == nil {
		return "nil"
	}
	var sb strings.Builder
	t.write(&sb, 0)
	return sb.String()
}

func (t *Term) write(sb *strings.Builder, d int) {
	if d > 12 {
		sb.WriteString("…")
		return
	}
	switch t.Op {
	case "param", "const", "global", "freevar", "alloc", "opaque":
		sb.WriteString(t.Op + ":" + t.Name)
		return
	case "local":
		sb.WriteString("local:" + t.Name + "(")
		for i, a := range t.Args {
			if i > 0 {
				sb.WriteString(", ")
			}
			a.write(sb, d+1)
		}
		sb.WriteString(")")
		return
	}
	sb.WriteString(t.Op)
	if t.Name != "" {
		sb.WriteString(":" + t.Name)
	}
	sb.WriteString("(")
	for i, a := range t.Args {
		if i > 0 {
			sb.WriteString(", ")
		}
		a.write(sb, d+1)
	}
	sb.WriteString(")")
}

// Atoms collects the atom strings of a term subtree: "call:<name>", "field:<T.F>", "param:<n>", "const:<v>",
// "global:<n>", "len", "binop:<tok>".
func (t *Term) Atoms() map[string]bool {
	m := map[string]bool{}
	var rec func(*Term, int)
	rec = func(x *Term, d int) {
		if x == nil || d > 40 {
			return
		}
		switch x.Op {
		case "call", "field", "param", "const", "global", "freevar", "make":
			m[x.Op+":"+x.Name] = true
		case "extract":
			m[x.Op] = true
			m[x.Op+":"+x.Name] = true
		case "alloc", "local":
			n := x.Name
			if i := strings.IndexByte(n, '#'); i >= 0 {
				n = n[:i]
			}
			m["alloc:"+n] = true
		case "slice":
			m[x.Op] = true
			m["slice:"+x.Name] = true
		case "len", "not", "phi", "index", "lookup", "next", "range", "closure", "typeassert", "recv":
			m[x.Op] = true
		default:
			if strings.HasPrefix(x.Op, "binop") {
				m[x.Op] = true
			}
		}
		for _, a := range x.Args {
			rec(a, d+1)
		}
	}
	rec(t, 0)
	return m
}

// atomMatch: does the atom set contain something matching pattern pat ("call:Keeper.HasResult",
// "field:Request.MinCount", "const:nil", "param:ctx", "len", "binop:+")?
func atomsHave(atoms map[string]bool, pat string) bool {
	if atoms[pat] {
		return true
	}
	i := strings.IndexByte(pat, ':')
	if i < 0 {
		return false
	}
	kind, name := pat[:i], pat[i+1:]
	for a := range atoms {
		if strings.HasPrefix(a, kind+":") && nameMatch(a[len(kind)+1:], name) {
			return true
		}
	}
	return false
}

// Has reports whether every pattern in pats matches some atom of t.
func (t *Term) Has(pats ...string) bool {
	at := t.Atoms()
	for _, p := range pats {
		if strings.Contains(p, "|") && !strings.HasPrefix(p, "!") { // alternatives (each may carry its own ^ anchor)
			ok := false
			for _, alt := range strings.Split(p, "|") {
				if t.Has(alt) {
					ok = true
				}
			}
			if !ok {
				return false
			}
			continue
		}
		if strings.HasPrefix(p, "binops=") { // every arithmetic operator in the term is one of the listed ones
			allowed := map[string]bool{}
			for _, o := range strings.Split(p[7:], ",") {
				allowed[o] = true
			}
			for a := range at {
				if strings.HasPrefix(a, "binop:") && !allowed[a[6:]] {
					switch a[6:] {
					case "+", "-", "*", "/", "%", "<<", ">>", "neg":
						return false
					}
				}
			}
			continue
		}
		if strings.HasPrefix(p, "!") { // negative pattern: must not be present
			if t.Has(p[1:]) {
				return false
			}
			continue
		}
		if strings.HasPrefix(p, "^") { // root-operator pattern (seen through single-valued locals)
			for (t.Op == "local" || t.Op == "phi") && len(t.Args) == 1 {
				t = t.Args[0]
			}
			if strings.HasPrefix(p, "^~") { // ... and through tuple extraction: "the result of this call"
				p = "^" + p[2:]
				for (t.Op == "extract" || t.Op == "local" || t.Op == "phi") && len(t.Args) == 1 {
					t = t.Args[0]
				}
			}
			okRoot := false
			for _, rt := range rootCandidates(t, 0) {
				if rt.Op == p[1:] || nameMatch(rt.Op+":"+rt.Name, p[1:]) || (strings.Contains(p, ":") && rt.Op == p[1:strings.Index(p, ":")] && nameMatch(rt.Name, p[strings.Index(p, ":")+1:])) {
					okRoot = true
				}
			}
			if !okRoot {
				return false
			}
			continue
		}
		if !atomsHave(at, p) {
			return false
		}
	}
	return true
}

// rootCandidates: the term itself and, for a call of an inlined helper (possibly under an extract), the helper's
// result expression: "the value is a slice of X" holds whether the slicing is written inline or in a private helper.
func rootCandidates(t *Term, d int) []*Term {
	out := []*Term{t}
	if d > 3 {
		return out
	}
	u := t
	if u.Op == "extract" && len(u.Args) == 1 {
		u = u.Args[0]
	}
	if u.Op == "call" && len(u.Args) > 0 {
		if inl := u.Args[len(u.Args)-1]; inl.Op == "inlined" && len(inl.Args) == 1 {
			r := inl.Args[0]
			for (r.Op == "local" || r.Op == "phi") && len(r.Args) == 1 {
				r = r.Args[0]
			}
			out = append(out, rootCandidates(r, d+1)...)
		}
	}
	return out
}

type renderer struct {
	seen  map[ssa.Value]*Term
	depth int
	// helper inlining: parameters of an inlined helper render as the caller's argument terms
	env      map[*ssa.Parameter]*Term
	inlDepth int
}

// inlineHelpers: see through calls of small private helpers (single basic block, package-level, unexported, repo code):
// the call term keeps its name and arguments and gets one more child "inlined(result terms)" rendered with the
// caller's arguments substituted, so that moving an expression into such a helper does not hide it from the rules.
var inlineHelpers = true

func inlinableHelper(f *ssa.Function) *ssa.Return {
	if !inlineHelpers || f == nil || len(f.Blocks) != 1 || f.Parent() != nil || f.Signature.Recv() != nil || token.IsExported(f.Name()) || !inRepoScope(f) {
		return nil
	}
	b := f.Blocks[0]
	if len(b.Instrs) == 0 || len(b.Instrs) > 40 {
		return nil
	}
	rt, _ := b.Instrs[len(b.Instrs)-1].(*ssa.Return)
	return rt
}

// Render renders an SSA value to a Term, seeing through conversions, single-store locals and loads.
func Render(v ssa.Value) *Term {
	r := &renderer{seen: map[ssa.Value]*Term{}}
	return r.render(v, 0)
}

func constString(c *ssa.Const) string {
	if c.Value == nil {
		return "nil"
	}
	if c.Value.Kind() == constant.String {
		return printableConst(constant.StringVal(c.Value))
	}
	return c.Value.ExactString()
}

func fieldName(structT types.Type, idx int) string {
	t := structT
	if p, ok := t.Underlying().(*types.Pointer); ok {
		t = p.Elem()
	}
	tn := typeName(t)
	if st, ok := t.Underlying().(*types.Struct); ok && idx < st.NumFields() {
		return tn + "." + fieldVarName(st.Field(idx))
	}
	return tn + ".?"
}

// storesTo returns the values stored into address a (direct stores only) within the function, and whether the
// address escapes into calls or other uses that could write through it.
func storesTo(a ssa.Value) (vals []ssa.Value, escapes bool) {
	refs := a.Referrers()
	if refs == nil {
		return nil, true
	}
	for _, r := range *refs {
		switch x := r.(type) {
		case *ssa.Store:
			if x.Addr == a {
				vals = append(vals, x.Val)
			} else {
				escapes = true
			}
		case *ssa.UnOp: // load
		case *ssa.DebugRef:
		case *ssa.FieldAddr:
			if !readOnlyAddr(x, 0) {
				escapes = true
			}
		case *ssa.IndexAddr:
			if !readOnlyAddr(x, 0) {
				escapes = true
			}
		default:
			escapes = true
		}
	}
	return
}

// hasPartialStores: some field / element of the local is written through a derived address.
func hasPartialStores(a *ssa.Alloc) bool {
	if a.Referrers() == nil {
		return false
	}
	for _, ref := range *a.Referrers() {
		switch x := ref.(type) {
		case *ssa.FieldAddr:
			if !readOnlyAddr(x, 0) {
				return true
			}
		case *ssa.IndexAddr:
			if !readOnlyAddr(x, 0) {
				return true
			}
		}
	}
	return false
}

// readOnlyAddr: the derived address is only loaded from (possibly through further field/index addressing).
func readOnlyAddr(v ssa.Value, d int) bool {
	refs := v.Referrers()
	if refs == nil || d > 6 {
		return false
	}
	for _, r := range *refs {
		switch x := r.(type) {
		case *ssa.UnOp:
			if x.Op != token.MUL {
				return false
			}
		case *ssa.DebugRef:
		case *ssa.FieldAddr:
			if !readOnlyAddr(x, d+1) {
				return false
			}
		case *ssa.IndexAddr:
			if x.X != v || !readOnlyAddr(x, d+1) {
				return false
			}
		default:
			return false
		}
	}
	return true
}

func (r *renderer) render(v ssa.Value, d int) *Term {
	if v == nil {
		return &Term{Op: "opaque", Name: "nil"}
	}
	if t, ok := r.seen[v]; ok {
		if t == nil {
			return &Term{Op: "opaque", Name: "cycle"}
		}
		return t
	}
	if d > 30 {
		return &Term{Op: "opaque", Name: "deep"}
	}
	r.seen[v] = nil
	t := r.render1(v, d)
	t.Val = v
	r.seen[v] = t
	return t
}

func (r *renderer) args(d int, vs ...ssa.Value) []*Term {
	out := make([]*Term, len(vs))
	for i, v := range vs {
		out[i] = r.render(v, d+1)
	}
	return out
}

// loadAlloc renders the value held by a local: the single stored value when there is exactly one whole-value
// store and no escaping use; otherwise a named local with the values stored in this function hung below it.
func (r *renderer) loadAlloc(a *ssa.Alloc, d int) *Term { return r.loadAllocField(a, d, -1) }

// loadAllocField: as loadAlloc, but when onlyField >= 0 only stores to that field (and whole-value stores) count.
func (r *renderer) loadAllocField(a *ssa.Alloc, d int, onlyField int) *Term {
	vals, esc := storesTo(a)
	if !esc && len(vals) == 1 {
		return r.render(vals[0], d+1)
	}
	if len(vals) >= 1 && !esc {
		return &Term{Op: "phi", Args: r.args(d, vals...)}
	}
	t := &Term{Op: "alloc", Name: typeName(a.Type()) + "#" + a.Name()}
	// values stored through field / element addresses (composite literals, variadic packs, x.f = v)
	var parts []ssa.Value
	if refs := a.Referrers(); refs != nil {
		for _, ref := range *refs {
			var sub ssa.Value
			switch x := ref.(type) {
			case *ssa.FieldAddr:
				if onlyField >= 0 && x.Field != onlyField {
					continue
				}
				sub = x
			case *ssa.IndexAddr:
				sub = x
			}
			if sub == nil || sub.Referrers() == nil {
				continue
			}
			for _, rr := range *sub.Referrers() {
				if st, ok := rr.(*ssa.Store); ok && st.Addr == sub && len(parts) < 24 {
					parts = append(parts, st.Val)
				}
			}
		}
	}
	if len(vals)+len(parts) > 0 && len(vals) <= 6 {
		t.Op = "local"
		t.Args = r.args(d, append(append([]ssa.Value{}, vals...), parts...)...)
	}
	return t
}

func (r *renderer) render1(v ssa.Value, d int) *Term {
	switch x := v.(type) {
	case *ssa.Const:
		return &Term{Op: "const", Name: constString(x)}
	case *ssa.Parameter:
		if t, ok := r.env[x]; ok {
			return t
		}
		return &Term{Op: "param", Name: frozenParamName(x)}
	case *ssa.FreeVar:
		return &Term{Op: "freevar", Name: frozenFreeVarName(x)}
	case *ssa.Global:
		return &Term{Op: "global", Name: relPkg(x.Pkg.Pkg.Path()) + "." + x.Name()}
	case *ssa.Function:
		return &Term{Op: "global", Name: FuncKey(x)}
	case *ssa.Builtin:
		return &Term{Op: "global", Name: "builtin." + x.Name()}
	case *ssa.Call:
		name := CalleeName(&x.Call)
		if name == "builtin.len" {
			return &Term{Op: "len", Args: r.args(d, x.Call.Args[0])}
		}
		var as []ssa.Value
		if x.Call.IsInvoke() {
			as = append(as, x.Call.Value)
		} else if name == "" {
			// dynamic call of a function value: render the function value as first arg
			as = append(as, x.Call.Value)
			name = "<dynamic>"
		}
		as = append(as, x.Call.Args...)
		ct := &Term{Op: "call", Name: name, Args: r.args(d, as...)}
		if rt := inlinableHelper(x.Call.StaticCallee()); rt != nil && r.inlDepth < 2 && d < 20 {
			callee := x.Call.StaticCallee()
			sub := &renderer{seen: map[ssa.Value]*Term{}, env: map[*ssa.Parameter]*Term{}, inlDepth: r.inlDepth + 1}
			for i, p := range callee.Params {
				if i < len(ct.Args) {
					sub.env[p] = ct.Args[i]
				}
			}
			inl := &Term{Op: "inlined"}
			for _, res := range rt.Results {
				inl.Args = append(inl.Args, sub.render(res, d+1))
			}
			ct.Args = append(ct.Args, inl)
		}
		return ct
	case *ssa.Extract:
		tup := r.render(x.Tuple, d+1)
		if tup.Op == "call" && len(tup.Args) > 0 {
			if inl := tup.Args[len(tup.Args)-1]; inl.Op == "inlined" && x.Index < len(inl.Args) {
				// keep only the extracted result of the inlined helper
				cp := *tup
				cp.Args = append(append([]*Term{}, tup.Args[:len(tup.Args)-1]...), &Term{Op: "inlined", Args: []*Term{inl.Args[x.Index]}})
				tup = &cp
			}
		}
		return &Term{Op: "extract", Name: fmt.Sprint(x.Index), Args: []*Term{tup}}
	case *ssa.FieldAddr:
		if a, ok := x.X.(*ssa.Alloc); ok {
			return &Term{Op: "field", Name: fieldName(x.X.Type(), x.Field), Args: []*Term{r.loadAllocField(a, d+1, x.Field)}}
		}
		return &Term{Op: "field", Name: fieldName(x.X.Type(), x.Field), Args: r.args(d, x.X)}
	case *ssa.Field:
		return &Term{Op: "field", Name: fieldName(x.X.Type(), x.Field), Args: r.args(d, x.X)}
	case *ssa.IndexAddr:
		if a, ok := x.X.(*ssa.Alloc); ok {
			return &Term{Op: "index", Args: []*Term{r.loadAlloc(a, d+1), r.render(x.Index, d+1)}}
		}
		return &Term{Op: "index", Args: r.args(d, x.X, x.Index)}
	case *ssa.Index:
		return &Term{Op: "index", Args: r.args(d, x.X, x.Index)}
	case *ssa.Lookup:
		return &Term{Op: "lookup", Args: r.args(d, x.X, x.Index)}
	case *ssa.Slice:
		as := []ssa.Value{x.X}
		if x.Low != nil {
			as = append(as, x.Low)
		}
		if x.High != nil {
			as = append(as, x.High)
		}
		shape := "full"
		switch {
		case x.Low != nil && x.High != nil:
			shape = "lohi"
		case x.Low != nil:
			shape = "lo"
		case x.High != nil:
			shape = "hi"
		}
		return &Term{Op: "slice", Name: shape, Args: r.args(d, as...)}
	case *ssa.UnOp:
		switch x.Op {
		case token.MUL: // load
			if a, ok := x.X.(*ssa.Alloc); ok {
				// flow-sensitive shortcut: the value stored last in the load's own block before the load
				if b := x.Block(); b != nil && !hasPartialStores(a) {
					var last ssa.Value
					for _, in := range b.Instrs {
						if in == ssa.Instruction(x) {
							break
						}
						if st, ok := in.(*ssa.Store); ok && st.Addr == ssa.Value(a) {
							last = st.Val
						}
					}
					if last != nil {
						return r.render(last, d+1)
					}
				}
				return r.loadAlloc(a, d)
			}
			return r.render(x.X, d+1)
		case token.NOT:
			return &Term{Op: "not", Args: r.args(d, x.X)}
		case token.SUB:
			return &Term{Op: "binop:neg", Args: r.args(d, x.X)}
		case token.ARROW:
			return &Term{Op: "recv", Args: r.args(d, x.X)}
		}
		return &Term{Op: "unop:" + x.Op.String(), Args: r.args(d, x.X)}
	case *ssa.BinOp:
		return &Term{Op: "binop:" + x.Op.String(), Args: r.args(d, x.X, x.Y)}
	case *ssa.Phi:
		t := &Term{Op: "phi", Args: r.args(d, x.Edges...)}
		if b, ok := x.Type().Underlying().(*types.Basic); ok && b.Kind() == types.Bool {
			// boolean flag merged from constants: attach the controlling condition of each constant edge
			for i, e := range x.Edges {
				if _, isC := e.(*ssa.Const); !isC || i >= len(x.Block().Preds) {
					continue
				}
				p := x.Block().Preds[i]
				for k := 0; p != nil && k < 50; k++ {
					if ifi := ifOf(p); ifi != nil && ifi.Cond != ssa.Value(x) {
						t.Args = append(t.Args, &Term{Op: "when", Name: constString(e.(*ssa.Const)), Args: []*Term{r.render(ifi.Cond, d+1)}})
						break
					}
					p = p.Idom()
				}
			}
		}
		return t
	case *ssa.Convert:
		return r.render(x.X, d+1)
	case *ssa.ChangeType:
		return r.render(x.X, d+1)
	case *ssa.ChangeInterface:
		return r.render(x.X, d+1)
	case *ssa.MakeInterface:
		return r.render(x.X, d+1)
	case *ssa.SliceToArrayPointer:
		return r.render(x.X, d+1)
	case *ssa.TypeAssert:
		return &Term{Op: "typeassert", Name: typeName(x.AssertedType), Args: r.args(d, x.X)}
	case *ssa.Alloc:
		return r.loadAlloc(x, d)
	case *ssa.MakeSlice:
		return &Term{Op: "make", Name: "slice", Args: r.args(d, x.Len)}
	case *ssa.MakeMap:
		return &Term{Op: "make", Name: "map"}
	case *ssa.MakeChan:
		return &Term{Op: "make", Name: "chan", Args: r.args(d, x.Size)}
	case *ssa.MakeClosure:
		f, _ := x.Fn.(*ssa.Function)
		return &Term{Op: "closure", Name: FuncKey(f), Args: r.args(d, x.Bindings...)}
	case *ssa.Next:
		return &Term{Op: "next", Args: r.args(d, x.Iter)}
	case *ssa.Range:
		return &Term{Op: "range", Args: r.args(d, x.X)}
	}
	return &Term{Op: "opaque", Name: fmt.Sprintf("%T", v)}
}

// ---------------------------------------------------------------------------------------------
// Condition normal form.
//
// Pred is a normalised atomic predicate: Op in {"EQL","LSS","BOOL"}; Neg says the SSA condition is the negation
// of Op(A,B). Relations are normalised: a!=b = !EQL, a>b = LSS(b,a), a>=b = !LSS(a,b), a<=b = !LSS(b,a);
// method comparators of sdkmath.Int / LegacyDec / time.Time likewise.
type Pred struct {
	Op   string
	A, B *Term
	Neg  bool
}

func (p Pred) String() string {
	s := ""
	switch p.Op {
	case "BOOL":
		s = p.A.String()
	default:
		s = fmt.Sprintf("%s(%s, %s)", p.Op, p.A, p.B)
	}
	if p.Neg {
		return "not " + s
	}
	return s
}

var relMethods = map[string]struct {
	op   string
	swap bool
	neg  bool
}{
	"GT": {"LSS", true, false}, "GTE": {"LSS", false, true}, "LT": {"LSS", false, false}, "LTE": {"LSS", true, true},
	"Equal": {"EQL", false, false}, "Before": {"LSS", false, false}, "After": {"LSS", true, false},
	"IsEqual": {"EQL", false, false},
}

func isRelRecv(name string) bool {
	// canonical names look like "cosmossdk.io/math.Int.GT", "time.Time.Before", "cosmossdk.io/math.LegacyDec.LT"
	for _, p := range []string{"cosmossdk.io/math.Int.", "cosmossdk.io/math.LegacyDec.", "cosmossdk.io/math.Uint.", "time.Time.", "math/big.Int."} {
		if strings.HasPrefix(name, p) {
			return true
		}
	}
	return false
}

// NormalizeCond turns the SSA condition value into a Pred.
func NormalizeCond(v ssa.Value) Pred {
	neg := false
	for {
		if u, ok := v.(*ssa.UnOp); ok && u.Op == token.NOT {
			neg = !neg
			v = u.X
			continue
		}
		break
	}
	switch x := v.(type) {
	case *ssa.BinOp:
		a, b := Render(x.X), Render(x.Y)
		switch x.Op {
		case token.EQL:
			return Pred{"EQL", a, b, neg}
		case token.NEQ:
			return Pred{"EQL", a, b, !neg}
		case token.LSS:
			return Pred{"LSS", a, b, neg}
		case token.GTR:
			return Pred{"LSS", b, a, neg}
		case token.GEQ:
			return Pred{"LSS", a, b, !neg}
		case token.LEQ:
			return Pred{"LSS", b, a, !neg}
		}
	case *ssa.Call:
		name := CalleeName(&x.Call)
		if isRelRecv(name) && !x.Call.IsInvoke() && len(x.Call.Args) == 2 {
			m := name[strings.LastIndexByte(name, '.')+1:]
			if rm, ok := relMethods[m]; ok {
				a, b := Render(x.Call.Args[0]), Render(x.Call.Args[1])
				if rm.swap {
					a, b = b, a
				}
				return Pred{rm.op, a, b, neg != rm.neg}
			}
		}
		// bytes.Equal(a,b) / bytes.Compare
		if name == "bytes.Equal" && len(x.Call.Args) == 2 {
			return Pred{"EQL", Render(x.Call.Args[0]), Render(x.Call.Args[1]), neg}
		}
	}
	return Pred{"BOOL", Render(v), nil, neg}
}

// Cond is a rule-table descriptor of a check: the normalised predicate Op over operands containing the atoms
// A and B (for EQL in either order) must have truth value Want for the gated effect to run.
type Cond struct {
	Op   string   // "EQL","LSS","BOOL"
	A, B []string // atom patterns contained in the operands
	Want bool
	Desc string
}

func (c Cond) String() string {
	if c.Desc != "" {
		return c.Desc
	}
	s := ""
	if c.Op == "BOOL" {
		s = "[" + strings.Join(c.A, " ") + "]"
	} else {
		s = fmt.Sprintf("%s([%s], [%s])", c.Op, strings.Join(c.A, " "), strings.Join(c.B, " "))
	}
	if !c.Want {
		return "not " + s
	}
	return s
}

// Match reports whether predicate p is an instance of descriptor c, and if so whether the SSA condition being
// TRUE corresponds to the descriptor's wanted truth value (passOnTrue).
func (c Cond) Match(p Pred) (matched bool, passOnTrue bool) {
	if c.Op != p.Op {
		return false, false
	}
	ok := false
	switch c.Op {
	case "BOOL":
		ok = p.A.Has(c.A...)
	case "EQL":
		ok = (p.A.Has(c.A...) && p.B.Has(c.B...)) || (p.A.Has(c.B...) && p.B.Has(c.A...))
	case "LSS":
		ok = p.A.Has(c.A...) && p.B.Has(c.B...)
	}
	if !ok {
		return false, false
	}
	// SSA cond true  <=> Op(A,B) == !p.Neg ; we want Op(A,B) == c.Want
	return true, (!p.Neg) == c.Want
}

// sortedAtoms for printing.
func sortedAtoms(t *Term) []string {
	var s []string
	for a := range t.Atoms() {
		s = append(s, a)
	}
	sort.Strings(s)
	return s
}

// printableConst renders string constants with non-printable bytes as 0x<hex> so keys and reports stay readable.
func printableConst(s string) string {
	for i := 0; i < len(s); i++ {
		if s[i] < 0x20 || s[i] > 0x7e {
			return "0x" + hexOf(s)
		}
	}
	return s
}

func hexOf(s string) string {
	const d = "0123456789abcdef"
	b := make([]byte, 0, 2*len(s))
	for i := 0; i < len(s); i++ {
		b = append(b, d[s[i]>>4], d[s[i]&15])
	}
	return string(b)
}

// frozenParamName: rule tables name parameters by the names they had when the table was frozen (params_frozen.go,
// keyed by function and position), so renaming a parameter in /repo does not change what a rule matches.
func frozenParamName(p *ssa.Parameter) string {
	fn := p.Parent()
	if fn == nil {
		return p.Name()
	}
	names, ok := frozenParams[FuncKey(fn)]
	if !ok {
		return p.Name()
	}
	if o := paramOrder(fn); o != nil && len(o) == len(names) {
		// a reordered signature: the frozen name follows the parameter
		for j, q := range fn.Params {
			if q == p {
				for i := range o {
					if o[i] == j {
						return names[i]
					}
				}
			}
		}
	}
	for i, q := range fn.Params {
		if q == p {
			if i < len(names) && len(names) == len(fn.Params) {
				return names[i]
			}
		}
	}
	return p.Name()
}

func frozenFreeVarName(v *ssa.FreeVar) string {
	fn := v.Parent()
	if fn == nil {
		return v.Name()
	}
	names, ok := frozenFreeVars[FuncKey(fn)]
	if !ok || len(names) != len(fn.FreeVars) {
		return v.Name()
	}
	for i, q := range fn.FreeVars {
		if q == v {
			return names[i]
		}
	}
	return v.Name()
}

// paramOrder: order[i] is today's position (index into fn.Params, receiver included) of the parameter that had position
// i when the tables were frozen. Identity unless the signature was REORDERED: either the parameters carry exactly the
// frozen names in another order, or (names changed too) their types are pairwise distinct and the same set as the
// frozen types. Rules follow the parameter, not the position: frozenParamName and argValue translate through this.
var paramOrderCache = map[*ssa.Function][]int{}

func paramOrder(fn *ssa.Function) []int {
	if o, ok := paramOrderCache[fn]; ok {
		return o
	}
	var order []int
	defer func() { paramOrderCache[fn] = order }()
	names, ok := frozenParams[FuncKey(fn)]
	if !ok || len(names) != len(fn.Params) || len(names) < 2 {
		return nil
	}
	same := true
	cur := map[string]int{}
	for i, q := range fn.Params {
		if q.Name() != names[i] {
			same = false
		}
		if _, dup := cur[q.Name()]; dup || q.Name() == "_" || q.Name() == "" {
			cur = nil
			break
		}
		cur[q.Name()] = i
	}
	if same {
		return nil
	}
	if cur != nil {
		byName := make([]int, len(names))
		okAll := true
		for i, n := range names {
			j, has := cur[n]
			if !has {
				okAll = false
				break
			}
			byName[i] = j
		}
		if okAll {
			order = byName
			return order
		}
	}
	// by type
	fp, ok := frozenSigs[FuncKey(fn)]
	if !ok {
		return nil
	}
	off := 0
	if k := strings.Index(fp, "|("); k >= 0 {
		fp = fp[k+1:]
		off = 1
	}
	if !strings.HasPrefix(fp, "(") {
		return nil
	}
	depth, start := 0, 1
	var ftypes []string
	end := -1
	for k := 0; k < len(fp) && end < 0; k++ {
		switch fp[k] {
		case '(', '[', '{':
			depth++
		case ')', ']', '}':
			depth--
			if depth == 0 {
				if k > start {
					ftypes = append(ftypes, fp[start:k])
				}
				end = k
			}
		case ',':
			if depth == 1 {
				ftypes = append(ftypes, fp[start:k])
				start = k + 1
			}
		}
	}
	if len(ftypes)+off != len(fn.Params) {
		return nil
	}
	q := func(p *types.Package) string { return p.Path() }
	curT := map[string]int{}
	for i := off; i < len(fn.Params); i++ {
		t := types.TypeString(fn.Params[i].Type(), q)
		if _, dup := curT[t]; dup {
			return nil
		}
		curT[t] = i
	}
	byType := make([]int, len(fn.Params))
	seen := map[string]bool{}
	moved := false
	for i, t := range ftypes {
		j, has := curT[t]
		if !has || seen[t] {
			return nil
		}
		seen[t] = true
		byType[i+off] = j
		if j != i+off {
			moved = true
		}
	}
	if !moved {
		return nil
	}
	order = byType
	return order
}

// permutedIndex translates a frozen parameter position (index into fn.Params, receiver included) into today's.
func permutedIndex(fn *ssa.Function, i int) int {
	if o := paramOrder(fn); o != nil && i >= 0 && i < len(o) {
		return o[i]
	}
	return i
}
