package main

import (
	"strings"

	"golang.org/x/tools/go/ssa"
)

func init() { props["C04"] = c04 }

func c04(r *Report) propMeta {
	w := r.W
	tt := "x/tss/types"
	gs := func(n string) string { return w.ConstAtom(tt, "GROUP_STATUS_"+n) }
	statusIs := func(c, name string) Cond {
		return Cond{Op: "EQL", A: []string{"field:Group.Status"}, B: []string{c}, Want: true, Desc: "group.Status == " + name}
	}
	memberOK := nilErrOf("Keeper.ValidateMemberID")
	sizeReached := func(cnt string) Cond {
		return Cond{Op: "EQL", A: []string{"call:" + cnt}, B: []string{"field:Group.Size_"}, Want: true, Desc: cnt + " == group.Size"}
	}

	r.Rule("C04.R1", "E3 DKG round handlers")
	h1 := tMS + "SubmitDKGRound1"
	g1 := []Cond{nilErrOf("Keeper.GetGroup"), statusIs(gs("ROUND_1"), "ROUND_1"), memberOK,
		{Op: "BOOL", A: []string{"call:Keeper.HasRound1Info"}, Want: false, Desc: "not HasRound1Info"},
		nilErrOf("Keeper.ValidateRound1Info")}
	r.Gate("round1", h1, CallEff("Keeper.AddCoefficientCommits"), g1, GateOpts{FailIsError: true})
	r.Gate("round1", h1, CallEff("Keeper.AddRound1Info"), append(append([]Cond{}, g1...), nilErrOf("Keeper.AddCoefficientCommits")), GateOpts{})
	r.Gate("round1-advance", h1, CallEff("Keeper.AddPendingProcessGroup"), []Cond{sizeReached("Keeper.GetRound1InfoCount")}, GateOpts{})
	r.Dominated("round1-count-after-add", h1, CallEff("Keeper.AddRound1Info"), CallEff("Keeper.GetRound1InfoCount"))
	r.ArgHas("round1-member-is-senders", h1, "Keeper.ValidateMemberID", 2, 1, "field:Round1Info.MemberID", "field:MsgSubmitDKGRound1.Round1Info")
	r.ArgHas("round1-sender", h1, "Keeper.ValidateMemberID", 3, 1, "field:MsgSubmitDKGRound1.Sender")
	r.ArgHas("round1-dup-check-same-member", h1, "Keeper.HasRound1Info", 2, 1, "field:Round1Info.MemberID")
	r.ArgHas("round1-validated-info", h1, "Keeper.ValidateRound1Info", 2, 1, "field:MsgSubmitDKGRound1.Round1Info")
	r.ArgHas("round1-validated-group", h1, "Keeper.ValidateRound1Info", 1, 1, "call:Keeper.GetGroup")
	r.ArgHas("round1-commits-accumulated", h1, "Keeper.AddCoefficientCommits", 2, 1, "field:Round1Info.CoefficientCommits")
	r.ArgHas("round1-stored-info", h1, "Keeper.AddRound1Info", 2, 1, "field:MsgSubmitDKGRound1.Round1Info")

	h2 := tMS + "SubmitDKGRound2"
	g2 := []Cond{nilErrOf("Keeper.GetGroup"), statusIs(gs("ROUND_2"), "ROUND_2"), memberOK,
		{Op: "BOOL", A: []string{"call:Keeper.HasRound2Info"}, Want: false, Desc: "not HasRound2Info"},
		{Op: "EQL", A: []string{"len", "field:Round2Info.EncryptedSecretShares"}, B: []string{"field:Group.Size_", "binop:-", "const:1"}, Want: true, Desc: "len(EncryptedSecretShares) == Size-1"}}
	r.Gate("round2", h2, CallEff("Keeper.UpdateMemberPubKey"), g2, GateOpts{FailIsError: true})
	r.Gate("round2", h2, CallEff("Keeper.AddRound2Info"), append(append([]Cond{}, g2...), nilErrOf("Keeper.UpdateMemberPubKey")), GateOpts{})
	r.Gate("round2-advance", h2, CallEff("Keeper.AddPendingProcessGroup"), []Cond{sizeReached("Keeper.GetRound2InfoCount")}, GateOpts{})
	r.Dominated("round2-count-after-add", h2, CallEff("Keeper.AddRound2Info"), CallEff("Keeper.GetRound2InfoCount"))
	r.ArgHas("round2-member", h2, "Keeper.ValidateMemberID", 2, 1, "field:Round2Info.MemberID")
	r.SameValue("round2-same-member", h2, ArgRef{"Keeper.ValidateMemberID", 2}, ArgRef{"Keeper.HasRound2Info", 2}, ArgRef{"Keeper.UpdateMemberPubKey", 2})

	for _, h := range []string{"Complain", "Confirm"} {
		hk := tMS + h
		verify := nilErrOf("Keeper.VerifyOwnPubKeySignature")
		eff := CallEff("Keeper.AddConfirm")
		if h == "Complain" {
			verify = nilErrOf("Keeper.ProcessComplaint")
			eff = CallEff("Keeper.AddComplaintsWithStatus")
		}
		r.Gate("round3-"+h, hk, eff, []Cond{nilErrOf("Keeper.GetGroup"), statusIs(gs("ROUND_3"), "ROUND_3"), memberOK,
			{Op: "BOOL", A: []string{"call:Keeper.HasConfirm"}, Want: false, Desc: "not HasConfirm"},
			{Op: "BOOL", A: []string{"call:Keeper.HasComplaintsWithStatus"}, Want: false, Desc: "not HasComplaintsWithStatus"},
			verify}, GateOpts{FailIsError: true})
		r.Gate("round3-advance-"+h, hk, CallEff("Keeper.AddPendingProcessGroup"), []Cond{sizeReached("Keeper.GetConfirmComplainCount")}, GateOpts{})
	}
	r.Gate("complaint-processing-guards", tMS+"Complain", CallEff("Keeper.ProcessComplaint"), []Cond{statusIs(gs("ROUND_3"), "ROUND_3"), memberOK,
		{Op: "BOOL", A: []string{"call:Keeper.HasConfirm"}, Want: false, Desc: "not HasConfirm"},
		{Op: "BOOL", A: []string{"call:Keeper.HasComplaintsWithStatus"}, Want: false, Desc: "not HasComplaintsWithStatus"}}, GateOpts{})
	r.ArgHas("complainant-is-sender-member", tMS+"Complain", "Keeper.ValidateMemberID", 2, 1, "field:Complaint.Complainant", "field:MsgComplain.Complaints")
	r.ArgHas("confirm-signature-verified", tMS+"Confirm", "Keeper.VerifyOwnPubKeySignature", 3, 1, "field:MsgConfirm.OwnPubKeySig")
	r.SameValue("confirm-same-member", tMS+"Confirm", ArgRef{"Keeper.ValidateMemberID", 2}, ArgRef{"Keeper.VerifyOwnPubKeySignature", 2}, ArgRef{"Keeper.HasConfirm", 2})
	// every complaint of a message comes from the same complainant (ValidateBasic) – otherwise a member could blame in another's name
	r.Gate("complaints-share-complainant", "x/tss/types.MsgComplain.ValidateBasic", RetOK(), []Cond{
		{Op: "EQL", A: []string{"field:Complaint.Complainant"}, B: []string{"field:Complaint.Complainant"}, Want: true, Desc: "all complaints have the same complainant"}}, GateOpts{LoopAll: true, LoopMaySkip: true, FailIsError: true, LoopOver: []string{"field:MsgComplain.Complaints"}}) // the first element is not compared with itself (`i > 0 &&`); the loop covers the whole list (seed C04-14 stopped one short)
	vm := tK + "ValidateMemberID"
	r.Gate("member-address-check", vm, RetOK(), []Cond{nilErrOf("Keeper.GetMember"), {Op: "EQL", A: []string{"field:Member.Address"}, B: []string{"param:address"}, Want: true, Desc: "member.Address == address"}}, GateOpts{FailIsError: true})

	r.Rule("C04.R2", "E3+E12 round-1 proofs bound to member and context")
	v1 := tK + "ValidateRound1Info"
	r.Gate("round1-info-valid", v1, RetOK(), []Cond{
		{Op: "EQL", A: []string{"len", "field:Round1Info.CoefficientCommits"}, B: []string{"field:Group.Threshold"}, Want: true, Desc: "len(CoefficientCommits) == Threshold (equality)"},
		nilErrOf("Keeper.GetDKGContext"), nilErrOf("tss.VerifyOneTimeSignature"), nilErrOf("tss.VerifyA0Signature")}, GateOpts{FailIsError: true})
	for _, f := range []string{"tss.VerifyOneTimeSignature", "tss.VerifyA0Signature"} {
		r.ArgHas("proof-member", v1, f, 0, 1, "field:Round1Info.MemberID", "param:round1Info")
		r.ArgHas("proof-context", v1, f, 1, 1, "call:Keeper.GetDKGContext")
	}
	r.ArgHas("one-time-sig", v1, "tss.VerifyOneTimeSignature", 2, 1, "field:Round1Info.OneTimeSignature")
	r.ArgHas("one-time-key", v1, "tss.VerifyOneTimeSignature", 3, 1, "field:Round1Info.OneTimePubKey")
	r.ArgHas("a0-sig", v1, "tss.VerifyA0Signature", 2, 1, "field:Round1Info.A0Signature")
	r.ArgHas("a0-commit-is-index-0", v1, "tss.VerifyA0Signature", 3, 1, "^index", "field:Round1Info.CoefficientCommits", "const:0")
	r.ArgHas("context-of-group", v1, "Keeper.GetDKGContext", 1, 1, "field:Group.ID", "param:group")

	r.Rule("C04.R3", "E3 complaint polarity")
	vc := "pkg/tss.VerifyComplaint"
	r.Gate("complaint-succeeds-iff-share-bad", vc, RetOK(), []Cond{nilErrOf("tss.VerifyComplaintSignature"), nilErrOf("tss.DecryptSecretShare"),
		{Op: "EQL", A: []string{"call:tss.VerifySecretShare"}, B: []string{"const:nil"}, Want: false, Desc: "VerifySecretShare != nil (share is inconsistent)"}}, GateOpts{FailIsError: true})
	r.ArgHas("share-verified-for-complainant", vc, "tss.VerifySecretShare", 0, 1, "^param:midI")
	r.ArgHas("share-is-decrypted-one", vc, "tss.VerifySecretShare", 1, 1, "call:tss.DecryptSecretShare")
	r.ArgHas("share-against-dealer-commits", vc, "tss.VerifySecretShare", 2, 1, "^param:commits")
	r.ArgHas("decrypt-with-proven-key", vc, "tss.DecryptSecretShare", 1, 1, "^param:keySym")
	r.SameValue("proven-key-is-decrypt-key", vc, ArgRef{"tss.VerifyComplaintSignature", 2}, ArgRef{"tss.DecryptSecretShare", 1})
	kvc := tK + "VerifyComplaint"
	r.ArgHas("slot-from-respondent", kvc, "types.FindMemberSlot", 0, 1, "^field:Complaint.Respondent")
	r.ArgHas("slot-to-complainant", kvc, "types.FindMemberSlot", 1, 1, "^field:Complaint.Complainant")
	r.ArgHas("complainant-key", kvc, "tss.VerifyComplaint", 0, 1, "field:Round1Info.OneTimePubKey", "field:Complaint.Complainant")
	r.ArgHas("respondent-key", kvc, "tss.VerifyComplaint", 1, 1, "field:Round1Info.OneTimePubKey", "field:Complaint.Respondent")
	r.ArgLacks("complainant-key-not-respondents", kvc, "tss.VerifyComplaint", 0, "field:Complaint.Respondent")
	r.ArgLacks("respondent-key-not-complainants", kvc, "tss.VerifyComplaint", 1, "field:Complaint.Complainant")
	r.ArgHas("share-of-respondent-at-slot", kvc, "tss.VerifyComplaint", 4, 1, "^index", "field:Round2Info.EncryptedSecretShares", "call:types.FindMemberSlot", "field:Complaint.Respondent")
	r.ArgHas("share-owner-is-complainant", kvc, "tss.VerifyComplaint", 5, 1, "^field:Complaint.Complainant")
	r.ArgHas("commits-of-respondent", kvc, "tss.VerifyComplaint", 6, 1, "field:Round1Info.CoefficientCommits", "field:Complaint.Respondent")
	r.ArgLacks("commits-not-complainants", kvc, "tss.VerifyComplaint", 6, "field:Complaint.Complainant")
	r.Gate("slot-bounds", kvc, CallEff("tss.VerifyComplaint"), []Cond{{Op: "LSS", A: []string{"call:types.FindMemberSlot"}, B: []string{"len", "field:Round2Info.EncryptedSecretShares"}, Want: true, Desc: "slot < len(EncryptedSecretShares)"}}, GateOpts{FailIsError: true})
	pc := tK + "ProcessComplaint"
	r.BlamePolarity("blame-polarity", pc)
	r.Count("one-blame-per-complaint", pc, []Effect{CallEff("Keeper.MarkMemberMalicious")}, "all", 0, -1)
	fs := "x/tss/types.FindMemberSlot"
	r.Exists("slot-formula", fs, RetValEff(0, "^phi", "param:to", "binop:-", "const:1"), 1)
	r.CondExists("slot-formula", fs, Cond{Op: "LSS", A: []string{"^param:from"}, B: []string{"^param:to"}, Want: true}, 1)

	r.Rule("C04.R4", "census: IsMalicious and Group.Status")
	r.FieldWriters("malicious-writers", "Member.IsMalicious", nil, []string{tK + "MarkMemberMalicious", "x/tss/types.NewMember"}, []string{"x/tss"})
	r.Callers("callers", tK+"MarkMemberMalicious", []string{pc}, []string{pc})
	r.Callers("callers", pc, []string{tMS + "Complain"}, []string{tMS + "Complain"})
	hp := tK + "HandleProcessGroup"
	he := tK + "HandleExpiredGroups"
	r.FieldWriters("status-writers", "Group.Status", nil, []string{hp, he, "x/tss/types.NewGroup"}, []string{"x/tss"})
	r.FieldWriters("status-active", "Group.Status", []string{gs("ACTIVE")}, []string{hp}, []string{"x/tss"})
	r.FieldWriters("status-fallen", "Group.Status", []string{gs("FALLEN")}, []string{hp}, []string{"x/tss"})
	r.FieldWriters("status-expired", "Group.Status", []string{gs("EXPIRED")}, []string{he}, []string{"x/tss"})
	r.ArgHas("created-in-round1", tK+"AddGroup", "types.NewGroup", 4, 1, gs("ROUND_1"))
	r.Callers("callers", hp, []string{"x/tss/keeper.Keeper.HandleProcessGroups", "x/tss.EndBlocker", "x/tss/keeper.Keeper.HandleGroupEndBlock", "x/tss/keeper.Keeper.HandleEndBlock"}, nil)

	r.Rule("C04.R5", "E3 activation")
	r.Gate("active-only-if-no-malicious", hp, StoreEff("Group.Status", gs("ACTIVE")), []Cond{
		statusIs(gs("ROUND_3"), "ROUND_3"), {Op: "BOOL", A: []string{"call:Members.HaveMalicious", "call:Keeper.MustGetMembers"}, Want: false, Desc: "no member is malicious"}}, GateOpts{})
	r.Gate("fallen-if-malicious", hp, StoreEff("Group.Status", gs("FALLEN")), []Cond{{Op: "BOOL", A: []string{"call:Members.HaveMalicious"}, Want: true, Desc: "some member is malicious"}}, GateOpts{})
	r.Gate("round2-after-round1", hp, StoreEff("Group.Status", gs("ROUND_2")), []Cond{statusIs(gs("ROUND_1"), "ROUND_1")}, GateOpts{})
	r.Gate("round3-after-round2", hp, StoreEff("Group.Status", gs("ROUND_3")), []Cond{statusIs(gs("ROUND_2"), "ROUND_2")}, GateOpts{})
	r.Exists("group-key-is-accumulated-a0", hp, StoreEff("Group.PubKey", "^call:Keeper.GetAccumulatedCommit", "const:0", "param:groupID"), 1)
	r.FieldWriters("group-key-writers", "Group.PubKey", nil, []string{hp, "x/tss/types.NewGroup"}, []string{"x/tss"})
	r.ArgHas("members-of-this-group", hp, "Keeper.MustGetMembers", 1, 1, "field:Group.ID", "call:Keeper.MustGetGroup")
	up := tK + "UpdateMemberPubKey"
	r.ArgHas("member-key-from-all-commits", up, "tss.ComputeOwnPublicKey", 0, 1, "^call:Keeper.GetAllAccumulatedCommits", "param:groupID")
	r.ArgHas("member-key-at-member-id", up, "tss.ComputeOwnPublicKey", 1, 1, "^param:memberID")
	r.Exists("member-key-stored", up, StoreEff("Member.PubKey", "call:tss.ComputeOwnPublicKey"), 1)
	r.ArgHas("member-key-of-that-member", up, "Keeper.GetMember", 2, 1, "^param:memberID")
	r.FieldWriters("member-key-writers", "Member.PubKey", nil, []string{up, "x/tss/types.NewMember"}, []string{"x/tss"})
	ac := tK + "AddCoefficientCommits"
	r.ArgHas("accumulate-at-same-index", ac, "Keeper.SetAccumulatedCommit", 2, 1, "phi")
	r.SameValue("accumulate-at-same-index", ac, ArgRef{"Keeper.GetAccumulatedCommit", 2}, ArgRef{"Keeper.SetAccumulatedCommit", 2})
	r.ArgHas("accumulate-sum", ac, "Keeper.SetAccumulatedCommit", 3, 1, "call:tss.SumPoints")
	r.ArgHas("sum-includes-new-and-old", ac, "tss.SumPoints", 0, 1, "param:coefficientCommits", "call:Keeper.GetAccumulatedCommit")
	r.Callers("callers", tK+"SetAccumulatedCommit", []string{ac, tK + "InitGenesis", "x/tss.InitGenesis"}, []string{ac})
	ve := tK + "VerifyOwnPubKeySignature"
	r.ArgHas("confirm-against-registered-key", ve, "tss.VerifyOwnPubKeySignature", 3, 1, "field:Member.PubKey", "call:Keeper.GetMember")
	r.ArgHas("confirm-member", ve, "tss.VerifyOwnPubKeySignature", 0, 1, "^param:memberID")
	r.ArgHas("confirm-context", ve, "tss.VerifyOwnPubKeySignature", 1, 1, "call:Keeper.GetDKGContext")
	r.Gate("expire-only-unfinished", he, StoreEff("Group.Status", gs("EXPIRED")), []Cond{
		{Op: "EQL", A: []string{"field:Group.Status"}, B: []string{gs("ACTIVE")}, Want: false, Desc: "status != ACTIVE"},
		{Op: "EQL", A: []string{"field:Group.Status"}, B: []string{gs("FALLEN")}, Want: false, Desc: "status != FALLEN"},
		{Op: "LSS", A: []string{"call:Context.BlockHeight"}, B: []string{"field:Group.CreatedHeight", "field:Params.CreationPeriod"}, Want: false, Desc: "creation period elapsed"}}, GateOpts{})

	r.Rule("C04.R6", "sibling agreement: chain and daemon share slot and complaint rule")
	r.Callers("slot-users", fs, []string{kvc, "cylinder/client.GroupResult.GetEncryptedSecretShare"}, []string{kvc, "cylinder/client.GroupResult.GetEncryptedSecretShare"})
	r.ArgHas("daemon-slot-from-sender", "cylinder/client.GroupResult.GetEncryptedSecretShare", "types.FindMemberSlot", 0, 1, "^param:senderID")
	r.ArgHas("daemon-slot-to-receiver", "cylinder/client.GroupResult.GetEncryptedSecretShare", "types.FindMemberSlot", 1, 1, "^param:receiverID")
	gsf := "cylinder/workers/group.getSecretShare"
	r.Gate("daemon-complains-iff-share-bad", gsf, CallEff("tss.SignComplaint"), []Cond{{Op: "EQL", A: []string{"call:tss.VerifySecretShare"}, B: []string{"const:nil"}, Want: false, Desc: "VerifySecretShare != nil"}}, GateOpts{})
	r.ArgHas("daemon-verifies-own-share", gsf, "tss.VerifySecretShare", 0, 1, "^param:receiverID")
	r.ArgHas("daemon-verifies-against-sender-commits", gsf, "tss.VerifySecretShare", 2, 1, "field:Round1Info.CoefficientCommits")

	r.Rule("C04.R7", "store-key agreement: every point read/delete addresses a written key family")
	r.StoreKeyAgreement("store-keys", "tss", 35, nil)

	r.Rule("C04.R8", "E15 wire fields validated by their own type")
	r.WireFieldsValidated("wire", "x/tss/types", []string{"MsgSubmitDKGRound1", "MsgSubmitDKGRound2", "MsgComplain", "MsgConfirm"}, 7)

	r.Rule("C04.R10", "E17 the only reasons share decryption can fail")
	r.ErrorCensusOf("decrypt-failures", []*ssa.Function{w.Fn("pkg/tss.DecryptSecretShare")}, c04DecryptErrs, 3,
		"share decryption in a complaint fails only for a malformed ciphertext or a failing AES primitive - never because of the decrypted VALUE",
		"makes DecryptSecretShare fail", "VerifyComplaint reports a failed complaint, so the complainant of a genuinely bad share is blamed instead of the dealer")

	r.Rule("C04.R9", "E18 fixed-width wire encodings of pkg/tss values")
	r.FixedWidth("one-encoding", []fixedWidth{
		{"pkg/tss.Point.publicKey", "p", "const:33", "tss.Point (compressed secp256k1 point)"},
		{"pkg/tss.Scalar.Validate", "s", "const:32", "tss.Scalar"},
		{"pkg/tss.EncSecretShare.Validate", "e", "const:48", "tss.EncSecretShare"},
		{"pkg/tss/internal/schnorr.ParseSignature", "signature", w.ConstAtom("pkg/tss/internal/schnorr", "SignatureSize"), "tss.Signature"},
		{"pkg/tss/internal/schnorr.ParseComplaintSignature", "signature", w.ConstAtom("pkg/tss/internal/schnorr", "ComplaintSignatureSize"), "tss.ComplaintSignature"},
	})
	r.ExternalCallers("point-parsers", "pkg/tss", "secp256k1/v4.ParsePubKey", []string{"pkg/tss.Point.publicKey", "pkg/tss/internal/schnorr.ParseSignature", "pkg/tss/internal/schnorr.ParseComplaintSignature"})

	r.Rule("C04.R12", "the daemon-facing query asks, per round, for that round's own submission")
	pg := "x/tss/keeper.queryServer.PendingGroups"
	for _, rd := range []struct {
		status string
		reads  []string
	}{
		{"ROUND_1", []string{"Keeper.GetRound1Info", "Keeper.HasRound1Info"}},
		{"ROUND_2", []string{"Keeper.GetRound2Info", "Keeper.HasRound2Info"}},
		{"ROUND_3", []string{"Keeper.GetConfirm", "Keeper.HasConfirm"}},
		{"ROUND_3", []string{"Keeper.GetComplaintsWithStatus", "Keeper.HasComplaintsWithStatus", "Keeper.HasComplain"}},
	} {
		found := false
		for _, callee := range rd.reads {
			if fn := w.Fn(pg); fn != nil && len(Calls(fn, callee)) > 0 {
				found = true
				r.Gate("pending-"+rd.status+"-checks-own-record", pg, CallEff(callee), []Cond{{Op: "EQL", A: []string{"field:Group.Status"}, B: []string{gs(rd.status)}, Want: true, Desc: "group.Status == " + rd.status}}, GateOpts{})
			}
		}
		if !found {
			r.Unres("pending-"+rd.status+"|"+rd.reads[0], "PendingGroups looks up the member's "+rd.status+" record", "no call of any of "+strings.Join(rd.reads, ", "))
		}
	}

	r.Rule("C04.R11", "E20 event agreement: what the cylinder group workers read is emitted")
	r.EventAgreement("events", 1, "cylinder/workers/group")

	r.Rule("C04.lint", "E8 module lint: no nondeterminism / process-local state in x/tss")
	r.ModuleLint("module-lint", "tss", 20)

	return propMeta{
		Decided: []string{
			"R1 each DKG handler writes only when group.Status is its round, the member id belongs to the sender, nothing was submitted before, and the round's verification passed; the next round is queued exactly at count == group.Size (counted after the write); all complaints of one message name one complainant",
			"R2 ValidateRound1Info: len(commits) == Threshold (equality) and both proofs of possession verified for round1Info.MemberID under the group's DKG context, A0 proof against commit #0",
			"R3 complaint polarity: tss.VerifyComplaint returns nil only if the DLEQ proof verifies AND the decrypted share FAILS the commitment check; chain picks the respondent's share at FindMemberSlot(respondent, complainant), the respondent's commits, both one-time keys in the right roles; ProcessComplaint blames the complainant on error and the respondent on success",
			"R4 IsMalicious is set only by MarkMemberMalicious <- ProcessComplaint <- Complain; Group.Status constants are written only by HandleProcessGroup / HandleExpiredGroups / constructor",
			"R5 ACTIVE only from ROUND_3 with no malicious member, FALLEN otherwise; group key = accumulated commit #0; member key = ComputeOwnPublicKey(all accumulated commits, member id); accumulation adds the new commit to the old one at the same index; EXPIRED only for unfinished groups after the creation period",
			"R6 chain and daemon use the same FindMemberSlot(sender, receiver) and the daemon complains exactly when VerifySecretShare fails",
			"R7 every KV-store Get/Has/Delete of x/tss uses a key builder of x/tss/types that some Set of the module also uses (a probe of an iteration prefix or of a sibling family is always-empty state)",
			"R8 every pkg/tss-typed field of the four DKG messages (commits, one-time key, both proofs, encrypted shares, key-sym, complaint signature, own-key signature) reaches its own type's Validate() from ValidateBasic",
			"R9 every pkg/tss byte type has exactly one accepted length (Point 33 - compressed only, finding F6 -, Scalar 32, EncSecretShare 48, Signature 65, ComplaintSignature 98): the raw bytes are hashed, a second encoding of the same value would change challenges and symmetric keys",
			"R10 the errors DecryptSecretShare can return originate only from the ciphertext length check and the AES/HKDF primitives (error-origin census): a value-dependent rejection of the plaintext would turn a complaint about a deliberately out-of-range share into a FAILED complaint (seed C04-5)",
			"R11 every (event type, attribute key) pair the cylinder group workers read (create_group / round1_success / round2_success . group_id) is emitted by x/tss",
			"R12 the PendingGroups query, which a restarted cylinder uses to decide what to (re)submit, looks up the round-1 record only while the group is in ROUND_1, the round-2 record only in ROUND_2 and confirm/complaint only in ROUND_3 (seed C04-7: a restarted daemon regenerated its secrets after its commitments were on chain and was blamed)",
			"lint: the determinism lint (incl. writes to memory held by long-lived objects) over everything reachable from the handlers and blockers of x/tss",
		},
		Undecided: []string{"that consistent commitments imply a shared key any threshold subset can use (algebra)", "'an honest member is never marked malicious' (needs the algebra behind R3)", "expiry interleavings"},
		Assume:    []string{"secp256k1 / elgamal / schnorr primitives of pkg/tss", "msg handlers atomic"},
	}
}

var c04DecryptErrs = []errAllow{
	{"pkg/tss.EncSecretShare.Validate", "fresh:Errorf", "ciphertext is not 48 bytes (already refused by ValidateBasic of MsgSubmitDKGRound2)"},
	{"pkg/tss.DecryptHKDF", "fresh:Errorf", "AES key is not 32 bytes: it is tss.Hash(keySym), always 32"},
	{"pkg/tss.DecryptHKDF", "external:io.ReadFull", "HKDF-SHA512 yields 32 bytes for any input"},
	{"pkg/tss.DecryptHKDF", "external:crypto/aes.NewCipher", "key length is the constant 32"},
}
